//! Canonical text form of token trees shared by the harness, the Lean driver and replay files.
//!
//! One item per token, separated by single spaces:
//!   `i:name`  identifier            `p:c` / `p:cj`  punctuation (j = Joint spacing)
//!   `l:text`  literal (percent-escaped)   `(` `)` `{` `}` `[` `]` `N(` `)N`  groups
use proc_macro2::{Delimiter, Spacing, TokenStream, TokenTree};

pub fn esc(s: &str) -> String {
    let mut o = String::new();
    for c in s.chars() {
        match c {
            ' ' => o.push_str("%20"),
            '\t' => o.push_str("%09"),
            '\n' => o.push_str("%0A"),
            '\r' => o.push_str("%0D"),
            '%' => o.push_str("%25"),
            c => o.push(c),
        }
    }
    o
}

pub fn canon_into(ts: TokenStream, out: &mut Vec<String>) {
    for tt in ts {
        match tt {
            TokenTree::Ident(i) => out.push(format!("i:{}", i)),
            TokenTree::Punct(p) => out.push(format!(
                "p:{}{}",
                p.as_char(),
                if p.spacing() == Spacing::Joint { "j" } else { "" }
            )),
            TokenTree::Literal(l) => out.push(format!("l:{}", esc(&l.to_string()))),
            TokenTree::Group(g) => {
                let (o, c) = match g.delimiter() {
                    Delimiter::Parenthesis => ("(", ")"),
                    Delimiter::Brace => ("{", "}"),
                    Delimiter::Bracket => ("[", "]"),
                    Delimiter::None => ("N(", ")N"),
                };
                out.push(o.to_string());
                canon_into(g.stream(), out);
                out.push(c.to_string());
            }
        }
    }
}

pub fn canon(ts: TokenStream) -> String {
    let mut v = Vec::new();
    canon_into(ts, &mut v);
    v.join(" ")
}

/// Number of top-level token trees.
pub fn top_len(ts: &TokenStream) -> usize {
    ts.clone().into_iter().count()
}
