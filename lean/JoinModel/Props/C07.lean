/-
  C07 — spawn variants and alias macros agree with their plain counterparts.
  Table part: every proc-macro entry point is `generate_join(parsed, Config{..})` with three booleans
  (the extractor checks that the twelve bodies are textually identical apart from them); the extracted
  table equals the documented one, aliases have the configuration of the macro they alias, and a spawn
  variant differs from its plain counterpart in the `is_spawn` flag only.
-/
import JoinModel.Gen
import JoinModel.SpecTables
namespace JoinModel.Props.C07
open JoinModel

/-- Configuration of the macro called `name`, from the table extracted from join/src/lib.rs. -/
def kindOf (name : String) : Option Kind :=
  (Tables.macroKinds.find? (·.name == name)).map fun r => ⟨r.isAsync, r.isTry, r.isSpawn⟩

/-- Expansion of the macro called `name` on the parsed input `p`. -/
def expand (name : String) (p : Input) : Option (Except GenErr Code) := (kindOf name).map (gen p)

theorem macro_kinds_documented : Tables.macroKinds = SpecTables.macroKinds := by decide

theorem alias_kinds : ∀ a ∈ SpecTables.aliases, kindOf a.1 = kindOf a.2 ∧ (kindOf a.1).isSome := by decide

/-- An alias expands every input to exactly the code of the macro it aliases. -/
theorem alias_same_expansion (p : Input) :
    ∀ a ∈ SpecTables.aliases, expand a.1 p = expand a.2 p ∧ (expand a.1 p).isSome := by
  intro a ha
  have h := alias_kinds a ha
  unfold expand
  rw [h.1]
  refine ⟨rfl, ?_⟩
  rw [← h.1]
  cases hk : kindOf a.1 with
  | none => rw [hk] at h; exact absurd h.2 (by simp)
  | some k => simp

/-- A spawn variant has the configuration of its plain counterpart with `is_spawn` switched on. -/
def spawnPairOk (a : String × String) : Bool :=
  match kindOf a.1, kindOf a.2 with
  | some s, some p => s.isAsync == p.isAsync && s.isTry == p.isTry && s.isSpawn && !p.isSpawn
  | _, _ => false

theorem spawn_pairs_differ_only_in_spawn : ∀ a ∈ SpecTables.spawnPairs, spawnPairOk a = true := by
  decide

/-- All twelve documented names are defined, with pairwise distinct names. -/
theorem twelve_macros : Tables.macroKinds.length = 12 ∧ (Tables.macroKinds.map (·.name)).Nodup := by decide

end JoinModel.Props.C07
