"""K2: semantic correspondence — real macros compiled by rustc and executed vs. the Lean reference semantics."""


def setup():
    return 0


def check_aliases(ctx):
    ctx.out.notes.append("K2 alias programs: not built yet")


def replay(obj):
    return 0
