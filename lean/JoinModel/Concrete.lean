/-
  Concrete user worlds for the semantic correspondence K2.  The harness's instrumented operands have a
  fixed, tiny behaviour that the Rust prelude (tools/k2.py) and this file both implement; a K2 program
  ships its behaviour table as a `WORLD` description, from which `mkWorld` builds the `World` that the
  reference semantics (and the semantics of the generated code) is run in.
-/
import JoinModel.Spec
namespace JoinModel

inductive OpMode | init | map | andThen | then_ | inspect | orElse | mapErr | or_ | filter
  deriving DecidableEq, Repr, Inhabited

/-- what the instrumented function does when it is called -/
inductive Outcome
  | ok (c : Int)       -- success, new payload `mix old c`
  | fail (c : Int)     -- failure with payload `c`
  | panic (n : Nat)
  deriving DecidableEq, Repr, Inhabited

structure COp where
  mode : OpMode
  cb : Nat
  out : Outcome
  /-- async programs: the callback sits behind a pending point that is ready once this gate is open (0: none) -/
  gate : Nat := 0
  deriving Repr, Inhabited

def mix (v c : Int) : Int := (v * 7 + c) % 1000003

def atomOf : Value → Int
  | .atom n => n
  | _ => 0

/-- one instrumented operator applied to the current value: callbacks that ran, new value -/
def applyOp (op : COp) (cur : Value) : List Nat × UR Value :=
  let run (old : Int) (failKeeps : Bool) : UR Value :=
    match op.out with
    | .ok c => .ok (.succ (.atom (mix old c)))
    | .fail c => .ok (.fail (.atom (if failKeeps then mix old c else c)))
    | .panic n => .panic n
  match op.mode with
  | .init =>
    ([op.cb], match op.out with
      | .ok c => .ok (.succ (.atom c))
      | .fail c => .ok (.fail (.atom c))
      | .panic n => .panic n)
  | .map =>
    match cur with
    | .succ v => ([op.cb], match op.out with
        | .ok c => .ok (.succ (.atom (mix (atomOf v) c)))
        | .fail c => .ok (.succ (.atom (mix (atomOf v) c)))
        | .panic n => .panic n)
    | v => ([], .ok v)
  | .andThen =>
    match cur with
    | .succ v => ([op.cb], run (atomOf v) false)
    | v => ([], .ok v)
  | .then_ =>
    ([op.cb], match cur, op.out with
      | _, .panic n => .panic n
      | _, .fail c => .ok (.fail (.atom c))
      | .succ v, .ok c => .ok (.succ (.atom (mix (atomOf v) c)))
      | .fail e, .ok c => .ok (.fail (.atom (mix (atomOf e) c)))
      | v, .ok _ => .ok v)
  | .inspect =>
    ([op.cb], match op.out with
      | .panic n => .panic n
      | _ => .ok cur)
  | .orElse =>
    match cur with
    | .fail e => ([op.cb], run (atomOf e) true)
    | v => ([], .ok v)
  | .or_ =>
    -- `.or(value)`: the operand is a value, evaluated whenever the operator is reached
    ([op.cb], match op.out with
      | .panic n => .panic n
      | .ok c => .ok (match cur with | .succ v => .succ v | _ => .succ (.atom c))
      | .fail c => .ok (match cur with | .succ v => .succ v | _ => .fail (.atom c)))
  | .filter =>
    -- `.filter(pred)`: the predicate runs on a success; true keeps the value as it is, false turns it into a failure
    match cur with
    | .succ v => ([op.cb], match op.out with
        | .panic n => .panic n
        | .ok _ => .ok (.succ v)
        | .fail c => .ok (.fail (.atom c)))
    | v => ([], .ok v)
  | .mapErr =>
    match cur with
    | .fail e => ([op.cb], match op.out with
        | .panic n => .panic n
        | .ok c => .ok (.fail (.atom (mix (atomOf e) c)))
        | .fail c => .ok (.fail (.atom (mix (atomOf e) c))))
    | v => ([], .ok v)

def runOps : List COp → Value → List Nat → ChainOut
  | [], cur, acc => ⟨acc, .ok cur⟩
  | op :: ops, cur, acc =>
    match applyOp op cur with
    | (cbs, .ok v) => runOps ops v (acc ++ cbs)
    | (cbs, .panic n) => ⟨acc ++ cbs, .panic n⟩

structure WorldDesc where
  chains : List ((Nat × Nat) × List COp) := []
  capPanics : List ((Nat × Nat × Nat × Nat) × Nat) := []
  handlerDefPanic : Option Nat := none
  handlerOut : Outcome := .ok 0
  handlerWraps : Bool := false      -- and_then handler: returns Ok(..)/Err(..)
  handlerGate : Nat := 0            -- async `then`/`and_then` handler: the future it returns awaits this gate (0: none)
  deriving Repr, Inhabited

def mkWorld (d : WorldDesc) : World where
  capture b k e i _ :=
    match d.capPanics.lookup (b, k, e, i) with
    | some n => .panic n
    | none => .ok (.atom 0)
  chain b k prev _ _ :=
    match d.chains.lookup (b, k) with
    | some ops => runOps ops (prev.getD (.atom 0)) []
    | none => ⟨[], .ok (.atom (-1))⟩
  handlerDef := match d.handlerDefPanic with | some n => .panic n | none => .ok ()
  handlerCall _ :=
    match d.handlerOut with
    | .ok c => .ok (if d.handlerWraps then .succ (.atom c) else .atom c)
    | .fail c => .ok (if d.handlerWraps then .fail (.atom c) else .atom c)
    | .panic n => .panic n
  joiner _ vs := .ok (mkTuple vs)

/-! ### Text forms -/

partial def showValue : Value → String
  | .atom n => toString n
  | .tnil => "<nil>"
  | .tcons _ _ => "<cons>"
  | .tup sp => "T(" ++ ",".intercalate (((unspine sp).getD []).map showValue) ++ ")"
  | .succ v => "S(" ++ showValue v ++ ")"
  | .fail v => "F(" ++ showValue v ++ ")"
  | .builder i => "<builder " ++ toString i ++ ">"
  | .handleOk v => "<handle " ++ showValue v ++ ">"
  | .handlePanic => "<handle panicked>"

def showSite : Site → String
  | .user n => "user" ++ toString n
  | .unreachableArm => "unreachableArm"
  | .unreachableDefault => "unreachableDefault"
  | .joinUnwrap b k => "joinUnwrap:" ++ toString b ++ ":" ++ toString k

def showRes : Res Value → String
  | .ok v => "ok " ++ showValue v
  | .panic s => "panic " ++ showSite s
  | .stuck => "stuck"

def showVis (vis : List (String × Value)) : String :=
  "[" ++ ",".intercalate (vis.map fun (s, v) => s ++ "=" ++ showValue v) ++ "]"

def showEv : Ev → String
  | .cap b k e i vis => s!"cap:{b}:{k}:{e}:{i}:{showVis vis}"
  | .chainStart b k => s!"cs:{b}:{k}"
  | .cb b k id => s!"cb:{b}:{k}:{id}"
  | .chainEnd b k v => s!"ce:{b}:{k}:{showValue v}"
  | .handlerDef => "hd"
  | .handlerCall args => "hc:" ++ "(" ++ ",".intercalate (args.map showValue) ++ ")"
  | .joiner k args => s!"jn:{k}:" ++ "(" ++ ",".intercalate (args.map showValue) ++ ")"

def showMEv : MEv → String
  | .ev e => showEv e
  | .fork b k name body => s!"fork:{b}:{k}:{name}:<" ++ " ".intercalate (body.map showEv) ++ ">"
  | .join b k => s!"join:{b}:{k}"

def showM (m : M Value) : String := showRes m.res ++ "\t" ++ " ".intercalate (m.trace.map showMEv)

def parseOutcome (s : String) : Option Outcome :=
  match s.splitOn "=" with
  | ["ok", c] => c.toInt?.map .ok
  | ["fail", c] => c.toInt?.map .fail
  | ["panic", n] => n.toNat?.map .panic
  | _ => none

def parseMode : String → Option OpMode
  | "init" => some .init | "map" => some .map | "andThen" => some .andThen | "then" => some .then_
  | "inspect" => some .inspect | "orElse" => some .orElse | "mapErr" => some .mapErr | "or" => some .or_ | "filter" => some .filter | _ => none

/-- `mode:cb:outcome[:gate]` -/
def parseCOp (s : String) : Option COp :=
  match s.splitOn ":" with
  | [m, cb, o] => do
    let m ← parseMode m
    let cb ← cb.toNat?
    let o ← parseOutcome o
    pure ⟨m, cb, o, 0⟩
  | [m, cb, o, g] => do
    let m ← parseMode m
    let cb ← cb.toNat?
    let o ← parseOutcome o
    let g ← g.toNat?
    pure ⟨m, cb, o, g⟩
  | _ => none

/-- WORLD := item (";" item)*   with
    item := "ch" b k op ("," op)* | "cp" b k e i n | "hdp" n | "ho" outcome | "hw"  (fields separated by spaces) -/
def parseWorldItems : List String → WorldDesc → Option WorldDesc
  | [], d => some d
  | it :: rest, d =>
    match (trimS it).splitOn " " with
    | [""] => parseWorldItems rest d
    | ["ch", b, k, ops] => do
      let b ← b.toNat?
      let k ← k.toNat?
      let ops ← (ops.splitOn ",").mapM parseCOp
      parseWorldItems rest { d with chains := d.chains ++ [((b, k), ops)] }
    | ["cp", b, k, e, i, n] => do
      let b ← b.toNat?; let k ← k.toNat?; let e ← e.toNat?; let i ← i.toNat?; let n ← n.toNat?
      parseWorldItems rest { d with capPanics := d.capPanics ++ [((b, k, e, i), n)] }
    | ["hdp", n] => do
      let n ← n.toNat?
      parseWorldItems rest { d with handlerDefPanic := some n }
    | ["ho", o] => do
      let o ← parseOutcome o
      parseWorldItems rest { d with handlerOut := o }
    | ["hw"] => parseWorldItems rest { d with handlerWraps := true }
    | ["hg", g] => do
      let g ← g.toNat?
      parseWorldItems rest { d with handlerGate := g }
    | _ => none

def parseWorld (s : String) : Option WorldDesc := parseWorldItems (s.splitOn ";") {}

end JoinModel
