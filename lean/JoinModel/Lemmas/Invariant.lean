/-
  The invariant between the environment of the generated code and the state of the reference loop,
  and its preservation by one step.
-/
import JoinModel.Lemmas.CtxFacts
namespace JoinModel

/-- scratch names of the expansion: never the name of a branch result -/
def Var.isScratch : Var → Bool
  | .sr _ | .j _ | .ew _ _ _ => true
  | _ => false

theorem Var.internal_of_scratch {x : Var} (h : x.isScratch = true) : x.isInternal = true := by
  cases x <;> simp_all [Var.isScratch, Var.isInternal]

/-! ### updVals -/

theorem updVals_length (vals : List (Option Value)) (bs : List Nat) (news : List Value) :
    (updVals vals bs news).length = vals.length := by
  induction bs generalizing vals news with
  | nil => simp [updVals]
  | cons b bs ih =>
    cases news with
    | nil => simp [updVals]
    | cons v vs => simp [updVals, ih]

theorem updVals_not_mem (vals : List (Option Value)) (bs : List Nat) (news : List Value) (i : Nat) (hi : i ∉ bs) :
    (updVals vals bs news)[i]? = vals[i]? := by
  induction bs generalizing vals news with
  | nil => simp [updVals]
  | cons b bs ih =>
    cases news with
    | nil => simp [updVals]
    | cons v vs =>
      simp only [List.mem_cons, not_or] at hi
      simp only [updVals]
      rw [ih _ _ hi.2, List.getElem?_set_ne (Ne.symm hi.1)]

theorem updVals_mem (vals : List (Option Value)) (bs : List Nat) (news : List Value) (hl : bs.length = news.length)
    (hnd : bs.Nodup) (pos : Nat) (hpos : pos < bs.length) (hb : bs[pos] < vals.length) :
    (updVals vals bs news)[bs[pos]]? = some (some (news[pos]'(hl ▸ hpos))) := by
  induction bs generalizing vals news pos with
  | nil => simp at hpos
  | cons b bs ih =>
    cases news with
    | nil => simp at hl
    | cons v vs =>
      have hnd' := List.nodup_cons.mp hnd
      simp only [updVals]
      cases pos with
      | zero =>
        simp only [List.getElem_cons_zero]
        rw [updVals_not_mem _ _ _ _ hnd'.1]
        simp only [List.getElem_cons_zero] at hb
        simp [List.getElem?_set_self hb]
      | succ pos =>
        simp only [List.getElem_cons_succ]
        exact ih _ vs (by simpa using hl) hnd'.2 pos (by simpa using hpos) (by simpa using hb)

/-! ### active patterns -/

section
variable {c : Ctx} {names : List (Option String)}

theorem varOf_eq (ok : CtxOK c names) (i : Nat) (hi : i < c.n) :
    c.varOf i = (c.pats[i]'(ok.patsLen ▸ hi)).var := by
  simp [Ctx.varOf, List.getElem?_eq_getElem (ok.patsLen ▸ hi)]

theorem vars_eq (ok : CtxOK c names) : c.vars = (List.range c.n).map c.varOf := by
  apply List.ext_getElem
  · simp [Ctx.vars, ok.patsLen]
  · intro i h1 h2
    simp only [Ctx.vars, List.getElem_map, List.getElem_range]
    have hi : i < c.n := by simpa [Ctx.vars, ok.patsLen] using h1
    rw [varOf_eq ok i hi]

theorem activePats_vars (ok : CtxOK c names) (k : Nat) : c.activeVars k = (c.activeIdx k).map c.varOf := by
  simp only [Ctx.activeVars, Ctx.activePats, Ctx.activeIdx, List.map_map]
  have hA : ∀ pi ∈ c.pats.zipIdx 0, pi.1.var = c.varOf pi.2 := by
    intro pi hpi
    have := (List.mem_zipIdx_iff_getElem?).mp hpi
    have h2 : c.pats[pi.2]? = some pi.1 := by simpa using this
    simp only [Ctx.varOf, h2]
    rfl
  have hsnd : (c.pats.zipIdx 0).map Prod.snd = List.range c.n := by
    rw [List.zipIdx_map_snd, ok.patsLen, List.range_eq_range']
  rw [← hsnd, List.filter_map, List.map_map]
  apply List.map_congr_left
  intro pi hpi
  exact hA pi (List.mem_filter.mp hpi).1

theorem activePats_length (ok : CtxOK c names) (k : Nat) : (c.activePats k).length = (c.activeIdx k).length := by
  have := congrArg List.length (activePats_vars ok k)
  simpa [Ctx.activeVars] using this

theorem activeIdx_nodup (k : Nat) : (c.activeIdx k).Nodup :=
  List.Nodup.sublist List.filter_sublist List.nodup_range

theorem activeIdx_lt (k : Nat) : ∀ b ∈ c.activeIdx k, b < c.n := by
  intro b hb
  exact List.mem_range.mp (List.mem_filter.mp hb).1

theorem varOf_inj (ok : CtxOK c names) (i j : Nat) (hi : i < c.n) (hj : j < c.n) (h : c.varOf i = c.varOf j) : i = j := by
  have hnd := ok.varsNodup
  rw [vars_eq ok] at hnd
  have hi' : i < ((List.range c.n).map c.varOf).length := by simpa using hi
  have hj' : j < ((List.range c.n).map c.varOf).length := by simpa using hj
  exact (List.getElem_inj (h₀ := hi') (h₁ := hj') hnd).mp (by simpa using h)

theorem varOf_not_scratch (ok : CtxOK c names) (i : Nat) (hi : i < c.n) : (c.varOf i).isScratch = false := by
  rw [ok.varForm i hi]
  split <;> rfl

theorem activeVars_nodup (ok : CtxOK c names) (k : Nat) : (c.activeVars k).Nodup := by
  rw [activePats_vars ok k]
  have hnd := activeIdx_nodup (c := c) k
  have hlt := activeIdx_lt (c := c) k
  generalize c.activeIdx k = l at hnd hlt
  induction l with
  | nil => simp
  | cons b l ih =>
    have hnd' := List.nodup_cons.mp hnd
    simp only [List.map_cons, List.nodup_cons]
    refine ⟨?_, ih hnd'.2 (fun x hx => hlt x (by simp [hx]))⟩
    intro hmem
    obtain ⟨b', hb', heq⟩ := List.mem_map.mp hmem
    have := varOf_inj ok b' b (hlt b' (by simp [hb'])) (hlt b (by simp)) heq
    exact hnd'.1 (this ▸ hb')

end

/-! ### the invariant -/

structure Inv (c : Ctx) (names : List (Option String)) (k : Nat) (env : Env) (vals : List (Option Value)) : Prop where
  len : vals.length = c.n
  agree : ∀ i, i < c.n → env.lookup (c.varOf i) = (vals[i]?).join
  bound : 0 < k → ∀ i, i < c.n → ((vals[i]?).join).isSome = true

theorem filterMap_zip_eq {α β γ} (l : List α) (m : List β) (hl : l.length = m.length) (f : α → Option γ)
    (g : α × β → Option γ) (h : ∀ i (h1 : i < l.length), f l[i] = g (l[i], m[i]'(hl ▸ h1))) :
    l.filterMap f = (l.zip m).filterMap g := by
  induction l generalizing m with
  | nil => simp
  | cons a l ih =>
    cases m with
    | nil => simp at hl
    | cons b m =>
      have h0 := h 0 (by simp)
      simp only [List.getElem_cons_zero] at h0
      simp only [List.filterMap_cons, List.zip_cons_cons, h0]
      rw [ih m (by simpa using hl) (fun i h1 => h (i + 1) (by simp; omega))]

/-- what user code sees is the same on both sides -/
theorem visible_eq {c : Ctx} {names : List (Option String)} (ok : CtxOK c names) {k : Nat} {env : Env}
    {vals : List (Option Value)} (hinv : Inv c names k env vals) : visible names env = visibleSpec names vals := by
  unfold visible visibleSpec
  apply filterMap_zip_eq names vals (by rw [ok.namesLen, hinv.len])
  intro i h1
  have hi : i < c.n := ok.namesLen ▸ h1
  cases hn : names[i] with
  | none => rfl
  | some s =>
    have hv := ok.varForm i hi
    rw [List.getElem?_eq_getElem h1, hn] at hv
    simp only at hv
    have := hinv.agree i hi
    rw [hv] at this
    simp only [Option.bind_some, this]
    have hlen : i < vals.length := by rw [hinv.len]; exact hi
    rw [List.getElem?_eq_getElem hlen]
    rfl

/-- one step preserves the invariant -/
theorem inv_step {c : Ctx} {names : List (Option String)} (ok : CtxOK c names) {k : Nat} {env : Env}
    {vals : List (Option Value)} (hinv : Inv c names k env vals) (news : List Value)
    (hn : news.length = (c.activeIdx k).length) (junk : Env) (hjunk : ∀ xv ∈ junk, xv.1.isScratch = true)
    (hall : k = 0 → c.activeIdx k = List.range c.n) :
    Inv c names (k + 1) (bindPats (c.activePats k) news (junk ++ env)) (updVals vals (c.activeIdx k) news) := by
  have hlookup : ∀ i, i < c.n →
      (bindPats (c.activePats k) news (junk ++ env)).lookup (c.varOf i)
        = ((updVals vals (c.activeIdx k) news)[i]?).join := by
    intro i hi
    unfold bindPats
    have hav : (c.activePats k).map (·.var) = c.activeVars k := rfl
    rw [hav, lookup_append]
    by_cases hmem : i ∈ c.activeIdx k
    · obtain ⟨pos, hpos, hp⟩ := List.getElem_of_mem hmem
      have hl : (c.activeVars k).length = news.length := by rw [activePats_vars ok k]; simp [hn]
      have hpos' : pos < (c.activeVars k).length := by rw [activePats_vars ok k]; simpa using hpos
      have hkey : (c.activeVars k)[pos] = c.varOf i := by
        simp only [activePats_vars ok k, List.getElem_map, hp]
      rw [← hkey, lookup_zip_of_nodup _ _ hl (activeVars_nodup ok k) pos hpos']
      have := updVals_mem vals (c.activeIdx k) news hn.symm (activeIdx_nodup k) pos hpos
        (by rw [hp, hinv.len]; exact hi)
      rw [hp] at this
      rw [this]
      rfl
    · have hnone : ((c.activeVars k).zip news).lookup (c.varOf i) = none := by
        apply lookup_eq_none_of_not_mem
        intro hm
        obtain ⟨xv, hxv, hx⟩ := List.mem_map.mp hm
        have h1 := (List.of_mem_zip hxv).1
        rw [activePats_vars ok k] at h1
        obtain ⟨b, hb, hbv⟩ := List.mem_map.mp h1
        have := varOf_inj ok b i (activeIdx_lt k b hb) hi (by rw [hbv, hx])
        exact hmem (this ▸ hb)
      have hjn : junk.lookup (c.varOf i) = none := by
        apply lookup_eq_none_of_not_mem
        intro hm
        obtain ⟨xv, hxv, hx⟩ := List.mem_map.mp hm
        have := hjunk xv hxv
        rw [hx, varOf_not_scratch ok i hi] at this
        cases this
      rw [hnone, Option.none_or, lookup_append, hjn, Option.none_or, updVals_not_mem _ _ _ _ hmem]
      exact hinv.agree i hi
  refine ⟨by rw [updVals_length, hinv.len], hlookup, ?_⟩
  intro _ i hi
  by_cases hk : k = 0
  · have hmem : i ∈ c.activeIdx k := by rw [hall hk]; exact List.mem_range.mpr hi
    obtain ⟨pos, hpos, hp⟩ := List.getElem_of_mem hmem
    have := updVals_mem vals (c.activeIdx k) news hn.symm (activeIdx_nodup k) pos hpos
      (by rw [hp, hinv.len]; exact hi)
    rw [hp] at this
    rw [this]; rfl
  · by_cases hmem : i ∈ c.activeIdx k
    · obtain ⟨pos, hpos, hp⟩ := List.getElem_of_mem hmem
      have := updVals_mem vals (c.activeIdx k) news hn.symm (activeIdx_nodup k) pos hpos
        (by rw [hp, hinv.len]; exact hi)
      rw [hp] at this
      rw [this]; rfl
    · rw [updVals_not_mem _ _ _ _ hmem]
      exact hinv.bound (Nat.pos_of_ne_zero hk) i hi

end JoinModel
