#!/usr/bin/env python3
"""Confirms a seeded change in a scratch worktree of /repo (outside /repo and /verif, removed afterwards):
  1. with the change, the pinned test suite (lib + integration tests, 80 tests) still passes;
  2. with the change, the demonstration fails;
  3. without the change, the demonstration passes.
Writes the outcome into seeded/<id>/meta.json under "confirmed".
usage: confirm_seeded.py <id> [<id> ...]"""
import json
import os
import re
import shutil
import subprocess
import sys

ROOT = os.path.dirname(os.path.dirname(os.path.abspath(__file__)))
TARGET = "/tmp/cs-target"


def sh(cmd, cwd):
    env = dict(os.environ, CARGO_TARGET_DIR=TARGET, CARGO_NET_OFFLINE="true")
    p = subprocess.run(cmd, shell=True, cwd=cwd, env=env, capture_output=True, text=True)
    return p.returncode, p.stdout + p.stderr


def counts(log):
    passed = sum(int(m) for m in re.findall(r"test result: \w+\. (\d+) passed", log))
    failed = sum(int(m) for m in re.findall(r"test result: \w+\. \d+ passed; (\d+) failed", log))
    return passed, failed


def confirm(sid):
    d = os.path.join(ROOT, "seeded", sid)
    wt = "/tmp/cs-" + sid
    subprocess.run(["git", "-C", "/repo", "worktree", "remove", "--force", wt], capture_output=True)
    shutil.rmtree(wt, ignore_errors=True)
    subprocess.run(["git", "-C", "/repo", "worktree", "add", "--detach", wt, "HEAD"], check=True, capture_output=True)
    res = {"base_commit": subprocess.run(["git", "-C", "/repo", "rev-parse", "--short", "HEAD"], capture_output=True, text=True).stdout.strip()}
    try:
        rc, log = sh("git apply %s" % os.path.join(d, "patch.diff"), wt)
        res["patch_applies"] = rc == 0
        rc, log = sh("cargo test --workspace --no-fail-fast --offline --lib --tests", wt)
        p, f = counts(log)
        res["suite_with_change"] = {"rc": rc, "passed": p, "failed": f}
        demo = os.path.join(d, "seeded_demo.rs")
        # a demo that drives the internal API (`extern crate join_impl` without the `join` macros) is a join_impl test
        text = open(demo).read()
        # (join_impl's tests may also use the macros: `join` is a dev-dependency of join_impl; join's tests cannot use join_impl)
        crate = "join_impl" if ("extern crate join_impl" in text or "use join_impl::" in text) else "join"
        os.makedirs(os.path.join(wt, crate, "tests"), exist_ok=True)
        shutil.copy(demo, os.path.join(wt, crate, "tests", "seeded_demo.rs"))
        rc, log = sh("cargo test -p %s --offline --test seeded_demo" % crate, wt)
        p, f = counts(log)
        fails = re.findall(r"^test (\S+) \.\.\. FAILED", log, re.M)
        res["demo_with_change"] = {"rc": rc, "passed": p, "failed": f, "failing_tests": fails[:8],
                                   "compile_error": bool(re.search(r"^error(\[E\d+\])?:", log, re.M)) and not fails}
        sh("git apply -R %s" % os.path.join(d, "patch.diff"), wt)
        rc, log = sh("cargo test -p %s --offline --test seeded_demo" % crate, wt)
        p, f = counts(log)
        res["demo_without_change"] = {"rc": rc, "passed": p, "failed": f}
        res["ok"] = bool(res["patch_applies"] and res["suite_with_change"]["rc"] == 0 and res["suite_with_change"]["failed"] == 0
                         and res["suite_with_change"]["passed"] >= 80 and res["demo_with_change"]["rc"] != 0
                         and res["demo_without_change"]["rc"] == 0 and res["demo_without_change"]["failed"] == 0)
    finally:
        subprocess.run(["git", "-C", "/repo", "worktree", "remove", "--force", wt], capture_output=True)
        shutil.rmtree(wt, ignore_errors=True)
    mp = os.path.join(d, "meta.json")
    meta = json.load(open(mp))
    meta["confirmed"] = res
    json.dump(meta, open(mp, "w"), indent=2)
    print(sid, json.dumps(res))
    return res["ok"]


if __name__ == "__main__":
    ok = True
    for sid in sys.argv[1:]:
        ok = confirm(sid) and ok
    shutil.rmtree(TARGET, ignore_errors=True)
    sys.exit(0 if ok else 1)
