/-
  The async try macros (`try_join_async!`, `try_join_async_spawn!`, aliases): reference semantics under the canonical
  schedule and the refinement theorem.  They differ from the other try macros in the step that fails: `try_join!`
  returns as soon as an operand has failed, so the chains behind the first failing branch of that step do not run.
-/
import JoinModel.Lemmas.TryFacts
import JoinModel.Refinement
namespace JoinModel

/-- chains of a step in operand order up to the first one that fails: the payloads of all of them, or the failure -/
def specChainsTry (c : SpecCfg) (k : Nat) (vals : List (Option Value)) (vis : List (String × Value)) :
    List (Nat × List Value) → M (Except Value (List Value))
  | [] => M.ret (.ok [])
  | (b, caps) :: rest =>
    let o := c.σ.chain b k (specPrev c vals b k) caps vis
    (⟨(chainEvents b k o).map .ev, o.res.toRes⟩ : M Value).andThen fun v =>
    match v with
    | .succ p => (specChainsTry c k vals vis rest).andThen fun r => M.ret (r.map (p :: ·))
    | f => M.ret (.error f)

def tryOut : Except Value (List Value) → Value
  | .ok ps => .succ (mkTuple ps)
  | .error f => f

/-- reference loop of an async try macro -/
def specLoopAT (c : SpecCfg) : (rem : Nat) → (k : Nat) → List (Option Value) → M Fin
  | rem, k, vals =>
    let act := c.active k
    let vis := visibleSpec c.names vals
    (specCapsAll c k vis act).andThen fun caps =>
    (specChainsTry c k vals vis (act.zip caps)).andThen fun r =>
    match r with
    | .error v => M.ret (.failed v)
    | .ok ps =>
      let vals' := updVals vals act (ps.map .succ)
      match rem with
      | 0 =>
        match allSome vals' with
        | none => M.stuck
        | some finals => M.ret (.vals (finals.filterMap payload?))
      | rem' + 1 => specLoopAT c rem' (k + 1) vals'

/-- Reference meaning of an async try macro invocation under the canonical schedule. -/
def specRunAT (σ : World) (parent : Option String) (p : Input) (kind : Kind) : M Value :=
  let c : SpecCfg := ⟨σ, kind, p.branches.map (fun b => b.pat.map (·.ident)), parent,
                      p.branches.map fun b => splitSteps b.members⟩
  (match p.handler with
    | some _ => (M.tell [.ev .handlerDef]).andThen fun _ => M.lift σ.handlerDef.toRes
    | none => M.ret ()).andThen fun _ =>
  (specLoopAT c (c.maxDepth - 1) 0 (List.replicate c.n none)).andThen fun f =>
  specHandle c (p.handler.map Prod.fst) f

/-! ### operands -/

theorem evalElemsTry_seq (cfg : EvalCfg) (sc : SpecCfg) (hσ : sc.σ = cfg.σ) (k : Nat) (vals : List (Option Value))
    (env : Env) (varOf : Nat → Var) (bs : List Nat) (capss : List (List Value)) (elems : List Elem)
    (w : ElemWrap) (hw : w = .plain ∨ w = .tokio)
    (hel : elems.map Elem.sem = bs.map (fun b => (b, false, w, varOf b, sc.acts b k)))
    (hprev : ∀ b ∈ bs, usesPrev (sc.acts b k) = true →
      ∃ v, env.lookup (varOf b) = some v ∧ (vals[b]?).join = some v)
    (hl : bs.length = capss.length)
    (hcaps : ∀ pos (h : pos < bs.length),
      lookupAll env (capVars bs[pos] (sc.acts bs[pos] k)) = some (capss[pos]'(hl ▸ h))) :
    evalElemsTry cfg k env elems = specChainsTry sc k vals (visible cfg.names env) (bs.zip capss) := by
  induction bs generalizing capss elems with
  | nil =>
    cases elems with
    | nil => simp [evalElemsTry, specChainsTry]
    | cons e es => simp at hel
  | cons b bs ih =>
    cases capss with
    | nil => simp at hl
    | cons caps capss =>
      cases elems with
      | nil => simp at hel
      | cons e es =>
        simp only [List.map_cons, List.cons.injEq] at hel
        obtain ⟨he, hes⟩ := hel
        have hc0 := hcaps 0 (by simp)
        simp only [List.getElem_cons_zero] at hc0
        have hp : (if usesPrev (sc.acts b k) then (env.lookup (varOf b)).map some else some none)
            = some (specPrev sc vals b k) := by
          unfold specPrev
          by_cases hu : usesPrev (sc.acts b k) = true
          · obtain ⟨v, hv1, hv2⟩ := hprev b (by simp) hu
            simp [hu, hv1, hv2]
          · simp [hu]
        simp only [evalElemsTry, List.zip_cons_cons, specChainsTry]
        rw [evalElem_plain cfg k env e b (varOf b) (sc.acts b k) _ caps w hw he hp hc0, hσ]
        congr 1
        funext v
        have hrec := ih capss es hes (fun b' hb' => hprev b' (by simp [hb'])) (by simpa using hl)
          (fun pos h => hcaps (pos + 1) (by simp; omega))
        cases v <;> simp [hrec]

/-- a single awaited operand is `try_join!` of one operand -/
theorem evalElems_single_try (cfg : EvalCfg) (k : Nat) (env : Env) (e : Elem) :
    ((evalElems cfg k env [e]).andThen fun vs => M.ret (mkTuple vs)) =
      (evalElemsTry cfg k env [e]).andThen fun r => M.ret (tryOut r) := by
  simp only [evalElems, evalElemsTry, M.andThen_assoc, M.ret_andThen]
  congr 1
  funext v
  cases v <;> simp [M.ret, M.andThen, mkTuple, tryOut, Except.map]

theorem evalJoinForm_try (cfg : EvalCfg) (k : Nat) (env : Env) (j : Toks) (elems : List Elem) :
    evalJoinForm cfg k env (.futJoin j true) elems = (evalElemsTry cfg k env elems).andThen fun r => M.ret (tryOut r) := by
  simp only [evalJoinForm]
  congr 1

/-! ### one step -/

theorem evalStep_eq_AT {c : Ctx} {names : List (Option String)} (ok : CtxOK c names) (σ : World)
    (parent : Option String) (k : Nat) (env : Env) (vals : List (Option Value)) (hinv : Inv c names k env vals)
    (s : StepCode) (hs : genStep c k = .ok s)
    (hfirst : k = 0 → ∀ b ∈ c.activeIdx k, usesPrev ((specCfgOf σ parent names c).acts b k) = false)
    (ha : c.kind.isAsync = true) (ht : c.kind.isTry = true) (hact : 1 ≤ (c.activeIdx k).length) :
    evalStep (cfgOf σ parent names) env s =
      (specCapsAll (specCfgOf σ parent names c) k (visibleSpec names vals) (c.activeIdx k)).andThen fun capss =>
      (specChainsTry (specCfgOf σ parent names c) k vals (visibleSpec names vals) ((c.activeIdx k).zip capss)).andThen fun r =>
      M.ret (capEnv (fun b => (specCfgOf σ parent names c).acts b k) (c.activeIdx k) capss ++ (tbsEnv c k ++ env),
             tryOut r) := by
  obtain ⟨hk, hdefs, helems, hform, htbs, hsj⟩ := genStep_shape ok σ parent k s hs
  have hvis := visible_eq ok hinv
  have hvisb : visible names (tbsEnv c k ++ env) = visibleSpec names vals := by
    rw [visible_append_internal _ _ _ (fun xv h => Var.internal_of_scratch (tbsEnv_scratch c k xv h)), hvis]
  unfold evalStep
  have henvb : (s.tbs.map fun (ba : Nat × Nat) => (Var.j ba.1, Value.builder ba.2)).reverse = tbsEnv c k := by
    rw [htbs]; rfl
  simp only [henvb, hk, hdefs]
  rw [evalDefs_all (cfgOf σ parent names) (specCfgOf σ parent names c) rfl k
    (fun b => (specCfgOf σ parent names c).acts b k) (fun _ => rfl)]
  simp only [cfgOf, hvisb, M.andThen_assoc, M.ret_andThen]
  apply M.andThen_congr
  intro capss hcapss
  obtain ⟨hl, hlens⟩ := specCapsAll_length _ _ _ _ _ hcapss
  -- environment in which the operands of the join expression are evaluated
  generalize henv' : capEnv (fun b => (specCfgOf σ parent names c).acts b k) (c.activeIdx k) capss
      ++ (tbsEnv c k ++ env) = env'
  have hjunk : ∀ xv ∈ capEnv (fun b => (specCfgOf σ parent names c).acts b k) (c.activeIdx k) capss ++ tbsEnv c k,
      xv.1.isScratch = true := by
    intro xv hxv
    rcases List.mem_append.mp hxv with h | h
    · exact capEnv_scratch _ _ _ xv h
    · exact tbsEnv_scratch c k xv h
  have hvis' : visible names env' = visibleSpec names vals := by
    rw [← henv', ← List.append_assoc,
      visible_append_internal _ _ _ (fun xv h => Var.internal_of_scratch (hjunk xv h)), hvis]
  have hlook : ∀ i, i < c.n → env'.lookup (c.varOf i) = (vals[i]?).join := by
    intro i hi
    rw [← henv', ← List.append_assoc, lookup_scratch_append _ _ _ hjunk (varOf_not_scratch ok i hi)]
    exact hinv.agree i hi
  have hprev : ∀ b ∈ c.activeIdx k, usesPrev ((specCfgOf σ parent names c).acts b k) = true →
      ∃ v, env'.lookup (c.varOf b) = some v ∧ (vals[b]?).join = some v := by
    intro b hb hu
    have hbn := activeIdx_lt k b hb
    have hk0 : 0 < k := by
      rcases Nat.eq_zero_or_pos k with h0 | h0
      · have := hfirst h0 b hb
        rw [this] at hu
        cases hu
      · exact h0
    have hsome := hinv.bound hk0 b hbn
    obtain ⟨v, hv⟩ := Option.isSome_iff_exists.mp hsome
    exact ⟨v, by rw [hlook b hbn, hv], hv⟩
  have hcaps : ∀ pos (h : pos < (c.activeIdx k).length),
      lookupAll env' (capVars (c.activeIdx k)[pos] ((specCfgOf σ parent names c).acts (c.activeIdx k)[pos] k))
        = some (capss[pos]'(hl ▸ h)) := by
    intro pos h
    rw [← henv']
    apply lookupAll_capEnv (fun b => (specCfgOf σ parent names c).acts b k) _ _ _ (activeIdx_nodup k) hl
    intro p hp
    rw [hlens p hp]
    have := congrArg List.length
      (capDefsOf_keys (c.activeIdx k)[p] 0 ((specCfgOf σ parent names c).acts (c.activeIdx k)[p] k) 0)
    simpa [capVars, capKeys] using this
  have hcount := activeCount_eq ok k
  have hnthr : (c.kind.threads && decide (c.activeCount k ≥ 2)) = false := by simp [Kind.threads, ha]
  have hw0 : ∃ w0 : ElemWrap, (w0 = .plain ∨ w0 = .tokio) ∧ ∀ b, c.wrapOf k b = w0 := by
    by_cases hm : (c.multi k && c.kind.isSpawn) = true
    · exact ⟨.tokio, Or.inr rfl, fun b => by simp [Ctx.wrapOf, hm, ha]⟩
    · exact ⟨.plain, Or.inl rfl, fun b => by simp [Ctx.wrapOf, hm]⟩
  obtain ⟨w0, hw0, hwall⟩ := hw0
  have hel : s.elems.map Elem.sem = (c.activeIdx k).map (fun b =>
      (b, false, w0, c.varOf b, (specCfgOf σ parent names c).acts b k)) := by
    rw [helems]
    apply List.map_congr_left
    intro b _
    have hml : (c.multi k && c.lazy) = false := by
      rw [ok.lazyDefault]; simp [Kind.threads, ha]
    simp [hml, hwall b]
  have hseq := evalElemsTry_seq ⟨σ, names, parent⟩ (specCfgOf σ parent names c) rfl k vals env' c.varOf
    (c.activeIdx k) capss s.elems w0 hw0 hel hprev hl hcaps
  rw [ht] at hform
  rcases hform.2 ha with hf | ⟨j, hf⟩
  · -- one active branch, awaited in place
    have hone : (c.activeIdx k).length = 1 := by
      -- `awaitCat` is only generated when at most one branch is active
      have hnm : ¬ c.activeCount k > 1 := by
        intro hm
        unfold genStep at hs
        split at hs
        · cases hs
        · cases hs
          simp [hm, ok.noJoiner, ha] at hf
      rw [hcount] at hnm
      omega
    obtain ⟨e, he⟩ : ∃ e, s.elems = [e] := by
      have hlen : s.elems.length = 1 := by
        have := congrArg List.length hel
        simpa [hone] using this
      match s.elems, hlen with
      | [e], _ => exact ⟨e, rfl⟩
    simp only [hf, hsj, hnthr, Bool.false_eq_true, if_false]
    rw [evalJoinForm_simple _ _ _ _ _ (Or.inr (Or.inl rfl)), he, evalElems_single_try, ← he, hseq]
    simp only [hvis', M.andThen_assoc, M.ret_andThen]
  · simp only [hf, hsj, hnthr, Bool.false_eq_true, if_false]
    rw [evalJoinForm_try, hseq]
    simp only [hvis', M.andThen_assoc, M.ret_andThen]

/-! ### facts about the reference chains -/

theorem specChainsTry_ok (c : SpecCfg) (k : Nat) (vals : List (Option Value)) (vis : List (String × Value))
    (bcs : List (Nat × List Value)) (ps : List Value) (h : (specChainsTry c k vals vis bcs).res = .ok (.ok ps)) :
    ps.length = bcs.length := by
  induction bcs generalizing ps with
  | nil => simp [specChainsTry, M.ret] at h; subst h; rfl
  | cons bc bcs ih =>
    obtain ⟨b, caps⟩ := bc
    simp only [specChainsTry] at h
    obtain ⟨v, _, h⟩ := M.andThen_res_ok h
    cases v with
    | succ p =>
      simp only at h
      obtain ⟨r, hr, h⟩ := M.andThen_res_ok h
      cases r with
      | error f => simp [M.ret, Except.map] at h
      | ok ps' =>
        simp [M.ret, Except.map] at h
        subst h
        simp [ih ps' hr]
    | _ => simp [M.ret] at h

theorem specChainsTry_error (c : SpecCfg) (k : Nat) (vals : List (Option Value)) (vis : List (String × Value))
    (bcs : List (Nat × List Value)) (f : Value) (h : (specChainsTry c k vals vis bcs).res = .ok (.error f)) :
    f.isSucc = false := by
  induction bcs with
  | nil => simp [specChainsTry, M.ret] at h
  | cons bc bcs ih =>
    obtain ⟨b, caps⟩ := bc
    simp only [specChainsTry] at h
    obtain ⟨v, _, h⟩ := M.andThen_res_ok h
    cases v with
    | succ p =>
      simp only at h
      obtain ⟨r, hr, h⟩ := M.andThen_res_ok h
      cases r with
      | error f' =>
        simp [M.ret, Except.map] at h
        subst h
        exact ih hr
      | ok ps' => simp [M.ret, Except.map] at h
    | _ => simp [M.ret] at h; subst h; rfl

/-! ### projections of the step result -/

theorem mapM_getElem (pre l : List Value) :
    (List.range' pre.length l.length).mapM (fun i => (pre ++ l)[i]?) = some l := by
  induction l generalizing pre with
  | nil => rfl
  | cons a l ih =>
    simp only [List.length_cons, List.range'_succ, List.mapM_cons]
    have h1 : (pre ++ a :: l)[pre.length]? = some a := by simp
    have h2 := ih (pre ++ [a])
    simp only [List.length_append, List.length_singleton, List.append_assoc, List.singleton_append] at h2
    rw [h1, h2]
    rfl

theorem projs_mkTuple {c : Ctx} (k : Nat) (ps : List Value) (hn : ps.length = (c.activeIdx k).length)
    (hcount : c.activeCount k = (c.activeIdx k).length) (hact : 1 ≤ (c.activeIdx k).length) :
    (idxProjs c k).mapM (fun pr => projVal pr (mkTuple ps)) = some ps := by
  unfold idxProjs
  simp only
  by_cases hm : c.activeCount k > 1
  · -- several operands: `__sr.i`
    have h2 : 2 ≤ ps.length := by omega
    have hmk : mkTuple ps = .tup (spine ps) := by
      match ps, h2 with
      | a :: b :: rest, _ => rfl
    have : ((List.range (c.activeIdx k).length).map fun i => if c.activeCount k > 1 then Proj.idx i else Proj.whole)
        = (List.range ps.length).map Proj.idx := by
      rw [hn]; apply List.map_congr_left; intro i _; simp [hm]
    rw [this, List.mapM_map, hmk]
    have := mapM_getElem [] ps
    simp only [List.length_nil, List.nil_append, ← List.range_eq_range'] at this
    simpa [projVal, Function.comp_def] using this
  · have h1 : ps.length = 1 := by omega
    obtain ⟨p0, rfl⟩ : ∃ p0, ps = [p0] := by
      match ps, h1 with
      | [p0], _ => exact ⟨p0, rfl⟩
    have hl : (c.activeIdx k).length = 1 := by simpa using hn.symm
    simp [hl, hm, projVal, mkTuple]

/-! ### the final transposition -/

/-- `r₀.and_then(|r₀| … rₙ.map(|rₙ| (all results)))` over the finished branches: they hold `Ok(payload)`, the branches
    of the last step are bound to their payloads already -/
theorem evalTransposer_pay {c : Ctx} {names : List (Option String)} (ok : CtxOK c names) (pay : Nat → Value)
    (xs : List Var) (hne : xs ≠ []) (hnd : xs.Nodup) (env : Env)
    (hinv : ∀ i, i < c.n → env.lookup (c.varOf i) = some (if c.varOf i ∈ xs then .succ (pay i) else pay i))
    (hsub : ∀ x ∈ xs, ∃ i, i < c.n ∧ x = c.varOf i) :
    evalTransposer env xs c.vars = M.ret (.succ (mkTuple ((List.range c.n).map pay))) := by
  induction xs generalizing env with
  | nil => exact absurd rfl hne
  | cons x xs ih =>
    obtain ⟨i, hi, hx⟩ := hsub x (by simp)
    have hnd' := List.nodup_cons.mp hnd
    have hlx : env.lookup x = some (.succ (pay i)) := by
      have := hinv i hi
      rw [← hx] at this
      simpa using this
    have hinv' : ∀ j, j < c.n →
        ((x, pay i) :: env).lookup (c.varOf j) = some (if c.varOf j ∈ xs then .succ (pay j) else pay j) := by
      intro j hj
      by_cases hji : j = i
      · subst hji
        rw [← hx]
        simp [List.lookup, hnd'.1]
      · have hne' : c.varOf j ≠ x := by
          intro h
          exact hji (varOf_inj ok j i hj hi (h.trans hx))
        have hb : (c.varOf j == x) = false := by simpa using hne'
        simp only [List.lookup, hb]
        rw [hinv j hj]
        simp [hne']
    cases xs with
    | nil =>
      simp only [evalTransposer, hlx]
      have hall : lookupAll ((x, pay i) :: env) c.vars = some ((List.range c.n).map pay) := by
        rw [vars_eq ok]
        apply lookupAll_of_forall _ _ _ (by simp)
        intro j hj
        have hj' : j < c.n := by simpa using hj
        simp only [List.getElem_map, List.getElem_range]
        have := hinv' j hj'
        simpa using this
      simp [hall, M.ofOption, M.ret_andThen]
    | cons y ys =>
      simp only [evalTransposer, hlx]
      exact ih (by simp) hnd'.2 _ hinv' (fun x' hx' => hsub x' (by simp [hx']))

/-! ### small list facts -/

theorem lt_foldl_max (l : List Nat) (a k : Nat) (h : k < l.foldl max a) : k < a ∨ ∃ d ∈ l, k < d := by
  induction l generalizing a with
  | nil => exact Or.inl h
  | cons x l ih =>
    rcases ih (max a x) h with h1 | ⟨d, hd, hk⟩
    · rcases Nat.lt_or_ge k a with h2 | h2
      · exact Or.inl h2
      · right; exact ⟨x, by simp, by omega⟩
    · right; exact ⟨d, by simp [hd], hk⟩

theorem active_nonempty {c : Ctx} {names : List (Option String)} (ok : CtxOK c names)
    (hmax : c.maxSteps = (c.chains.map (·.length)).foldl max 0) (k : Nat) (hk : k < c.maxSteps) :
    1 ≤ (c.activeIdx k).length := by
  rw [← activeCount_eq ok k]
  unfold Ctx.activeCount
  rw [ok.depthsEq]
  rw [hmax] at hk
  rcases lt_foldl_max _ 0 k hk with h | ⟨d, hd, hkd⟩
  · omega
  · exact List.length_pos_iff.mpr (List.ne_nil_of_mem (List.mem_filter.mpr ⟨hd, by simpa using hkd⟩))

theorem inactiveVars_eq {c : Ctx} {names : List (Option String)} (ok : CtxOK c names) (k : Nat) :
    c.inactiveVars k = ((List.range c.n).filter (fun i => !c.isActive k i)).map c.varOf := by
  simp only [Ctx.inactiveVars, List.map_map]
  have hA : ∀ pi ∈ c.pats.zipIdx 0, pi.1.var = c.varOf pi.2 := by
    intro pi hpi
    have := (List.mem_zipIdx_iff_getElem?).mp hpi
    have h2 : c.pats[pi.2]? = some pi.1 := by simpa using this
    simp only [Ctx.varOf, h2]
    rfl
  have hsnd : (c.pats.zipIdx 0).map Prod.snd = List.range c.n := by
    rw [List.zipIdx_map_snd, ok.patsLen, List.range_eq_range']
  rw [← hsnd, List.filter_map, List.map_map]
  apply List.map_congr_left
  intro pi hpi
  exact hA pi (List.mem_filter.mp hpi).1

theorem mem_activeIdx_iff {c : Ctx} (k i : Nat) (hi : i < c.n) : i ∈ c.activeIdx k ↔ c.isActive k i = true := by
  simp [Ctx.activeIdx, hi]

theorem lookup_zip_map {α} [BEq α] (ks : List α) (vs : List Value) (f : Value → Value) (x : α) :
    (ks.zip (vs.map f)).lookup x = ((ks.zip vs).lookup x).map f := by
  induction ks generalizing vs with
  | nil => simp
  | cons k ks ih =>
    cases vs with
    | nil => simp
    | cons v vs =>
      simp only [List.map_cons, List.zip_cons_cons, List.lookup]
      cases x == k <;> simp [ih]

theorem lookup_zip_isSome {α} [BEq α] [LawfulBEq α] (ks : List α) (vs : List Value) (hl : ks.length = vs.length) (x : α) :
    ((ks.zip vs).lookup x).isSome = true ↔ x ∈ ks := by
  induction ks generalizing vs with
  | nil => simp
  | cons k ks ih =>
    cases vs with
    | nil => simp at hl
    | cons v vs =>
      simp only [List.zip_cons_cons, List.lookup, List.mem_cons]
      by_cases hxk : x = k
      · subst hxk; simp
      · have : (x == k) = false := by simpa using hxk
        simp [this, hxk, ih vs (by simpa using hl)]

theorem allSome_of_forall (vals : List (Option Value)) (f : Nat → Value) (h : ∀ i, i < vals.length → vals[i]? = some (some (f i))) :
    allSome vals = some ((List.range vals.length).map f) := by
  induction vals generalizing f with
  | nil => rfl
  | cons a vals ih =>
    have h0 := h 0 (by simp)
    simp only [List.getElem?_cons_zero, Option.some.injEq] at h0
    subst h0
    have := ih (fun i => f (i + 1)) (fun i hi => by
      have := h (i + 1) (by simp; omega)
      simpa using this)
    simp only [allSome, this, Option.map_some, List.length_cons]
    rw [List.range_succ_eq_map]
    simp [List.map_map, Function.comp_def]

/-! ### after the last step -/

/-- payload of the value branch `i` holds -/
def payOf (vals : List (Option Value)) (i : Nat) : Value :=
  match (vals[i]?).join with
  | some (.succ q) => q
  | _ => .atom 0

theorem final_AT {c : Ctx} {names : List (Option String)} (ok : CtxOK c names) (hn : 0 < c.n)
    (ht : c.kind.isTry = true) (htr : c.transpose = false) (k : Nat) (rest : Env) (vals' : List (Option Value))
    (ps : List Value) (hps : ps.length = (c.activeIdx k).length) (hact : 1 ≤ (c.activeIdx k).length)
    (hinv' : Inv c names (k + 1) (bindPats (c.activePats k) (ps.map .succ) rest) vals') (hsucc' : AllSucc vals') :
    ∃ finals, allSome vals' = some finals ∧
      (match genFinal c k with
        | .matchOkTuple pats vars =>
          (extract pats (mkTuple ps) rest).andThen fun env3 =>
          (M.ofOption (lookupAll env3 vars)).andThen fun vs => M.ret (.succ (mkTuple vs))
        | .matchOkTranspose pats results ret =>
          (extract pats (mkTuple ps) rest).andThen fun env3 => evalTransposer env3 results ret
        | .matchOkSingle => M.ret (.succ (mkTuple ps))
        | _ => M.stuck) = M.ret (.succ (mkTuple (finals.filterMap payload?))) := by
  have hval : ∀ i, i < c.n → vals'[i]? = some (some (.succ (payOf vals' i))) := by
    intro i hi
    have hb := hinv'.bound (Nat.succ_pos k) i hi
    obtain ⟨v, hv⟩ := Option.isSome_iff_exists.mp hb
    have hi' : i < vals'.length := by rw [hinv'.len]; exact hi
    have hget : vals'[i]? = some (some v) := by
      rw [List.getElem?_eq_getElem hi'] at hv ⊢
      simp only [Option.join_some] at hv
      rw [hv]
    have hs := hsucc' i v hget
    cases v with
    | succ q => simp [hget, payOf]
    | _ => simp [Value.isSucc] at hs
  have hfin : allSome vals' = some ((List.range c.n).map fun i => Value.succ (payOf vals' i)) := by
    have := allSome_of_forall vals' (fun i => Value.succ (payOf vals' i)) (fun i hi => hval i (hinv'.len ▸ hi))
    rw [hinv'.len] at this
    exact this
  refine ⟨_, hfin, ?_⟩
  have hpay : ((List.range c.n).map fun i => Value.succ (payOf vals' i)).filterMap payload? = (List.range c.n).map (payOf vals') := by
    rw [List.filterMap_map]
    induction List.range c.n with
    | nil => rfl
    | cons a l ih => simp [payload?, ih]
  rw [hpay]
  have hpl : (c.activePats k).length = ps.length := by rw [activePats_length ok k, hps]
  have hkeys : ((c.activePats k).map (·.var)) = c.activeVars k := rfl
  have hkl : (c.activeVars k).length = ps.length := by rw [← hkeys]; simpa using hpl
  -- what the environment after `let (pats) = __sr;` binds
  have henv3 : ∀ i, i < c.n →
      (bindPats (c.activePats k) ps rest).lookup (c.varOf i) =
        some (if c.varOf i ∈ c.activeVars k then payOf vals' i else .succ (payOf vals' i)) := by
    intro i hi
    have h' := hinv'.agree i hi
    rw [hval i hi] at h'
    simp only [Option.join_some] at h'
    unfold bindPats at h' ⊢
    rw [hkeys, lookup_append] at h' ⊢
    rw [lookup_zip_map] at h'
    by_cases hm : c.varOf i ∈ c.activeVars k
    · obtain ⟨p, hp⟩ := Option.isSome_iff_exists.mp ((lookup_zip_isSome _ ps hkl _).mpr hm)
      rw [hp] at h' ⊢
      simp only [Option.map_some, Option.some_or, Option.some.injEq, Value.succ.injEq] at h'
      simp [hm, h']
    · have hnone : ((c.activeVars k).zip ps).lookup (c.varOf i) = none := by
        cases hlk : ((c.activeVars k).zip ps).lookup (c.varOf i) with
        | none => rfl
        | some p => exact absurd ((lookup_zip_isSome _ ps hkl _).mp (by simp [hlk])) hm
      rw [hnone] at h' ⊢
      simp only [Option.map_none, Option.none_or] at h' ⊢
      simp [hm, h']
  have hmemA : ∀ i, i < c.n → (c.varOf i ∈ c.activeVars k ↔ c.isActive k i = true) := by
    intro i hi
    rw [activePats_vars ok k, ← mem_activeIdx_iff k i hi]
    constructor
    · intro h
      obtain ⟨j, hj, hji⟩ := List.mem_map.mp h
      have := varOf_inj ok j i (activeIdx_lt k j hj) hi hji
      exact this ▸ hj
    · intro h; exact List.mem_map.mpr ⟨i, h, rfl⟩
  have hmemI : ∀ i, i < c.n → (c.varOf i ∈ c.inactiveVars k ↔ c.isActive k i = false) := by
    intro i hi
    rw [inactiveVars_eq ok k]
    constructor
    · intro h
      obtain ⟨j, hj, hji⟩ := List.mem_map.mp h
      have hjn : j < c.n := List.mem_range.mp (List.mem_filter.mp hj).1
      have := varOf_inj ok j i hjn hi hji
      subst this
      simpa using (List.mem_filter.mp hj).2
    · intro h
      exact List.mem_map.mpr ⟨i, List.mem_filter.mpr ⟨List.mem_range.mpr hi, by simp [h]⟩, rfl⟩
  unfold genFinal
  simp only [htr, ht, Bool.false_and, Bool.false_eq_true, if_false, if_true]
  by_cases hn1 : c.n > 1
  · simp only [hn1, if_true]
    by_cases hemp : (c.inactiveVars k).isEmpty = true
    · -- every branch is active in the last step
      simp only [hemp, if_true]
      rw [extract_mkTuple _ _ _ hpl, M.ret_andThen]
      have hall : lookupAll (bindPats (c.activePats k) ps rest) c.vars = some ((List.range c.n).map (payOf vals')) := by
        rw [vars_eq ok]
        apply lookupAll_of_forall _ _ _ (by simp)
        intro i hi
        have hi' : i < c.n := by simpa using hi
        simp only [List.getElem_map, List.getElem_range]
        rw [henv3 i hi']
        have : c.varOf i ∈ c.activeVars k := by
          rw [hmemA i hi']
          cases hact' : c.isActive k i with
          | true => rfl
          | false =>
            have := (hmemI i hi').mpr hact'
            rw [List.isEmpty_iff.mp hemp] at this
            cases this
        simp [this]
      simp [hall, M.ofOption, M.ret_andThen]
    · simp only [hemp, Bool.false_eq_true, if_false]
      rw [extract_mkTuple _ _ _ hpl, M.ret_andThen]
      have hne : c.inactiveVars k ≠ [] := by
        intro h; rw [h] at hemp; simp at hemp
      have hndI : (c.inactiveVars k).Nodup := by
        rw [inactiveVars_eq ok k]
        have hnd := ok.varsNodup
        rw [vars_eq ok] at hnd
        exact (List.Nodup.sublist (List.Sublist.map _ List.filter_sublist) hnd)
      apply evalTransposer_pay ok (payOf vals') _ hne hndI
      · intro i hi
        rw [henv3 i hi]
        by_cases hA : c.isActive k i = true
        · have h1 := (hmemA i hi).mpr hA
          have h2 : c.varOf i ∉ c.inactiveVars k := by
            intro h; have := (hmemI i hi).mp h; rw [hA] at this; cases this
          simp [h1, h2]
        · have hA' : c.isActive k i = false := by simpa using hA
          have h1 : c.varOf i ∉ c.activeVars k := by
            intro h; have := (hmemA i hi).mp h; rw [hA'] at this; cases this
          have h2 := (hmemI i hi).mpr hA'
          simp [h1, h2]
      · intro x hx
        rw [inactiveVars_eq ok k] at hx
        obtain ⟨i, hi, rfl⟩ := List.mem_map.mp hx
        exact ⟨i, List.mem_range.mp (List.mem_filter.mp hi).1, rfl⟩
  · -- a single branch
    have hn1' : c.n = 1 := by omega
    simp only [hn1, if_false]
    have hone : (c.activeIdx k).length = 1 := by
      have hle : (c.activeIdx k).length ≤ c.n := by
        unfold Ctx.activeIdx
        have := List.length_filter_le (c.isActive k) (List.range c.n)
        simpa using this
      omega
    obtain ⟨p0, rfl⟩ : ∃ p0, ps = [p0] := by
      have h1 : ps.length = 1 := by omega
      match ps, h1 with
      | [p0], _ => exact ⟨p0, rfl⟩
    have h0act : c.varOf 0 ∈ c.activeVars k := by
      rw [activePats_vars ok k]
      have : c.activeIdx k = [0] := by
        unfold Ctx.activeIdx at hone ⊢
        rw [hn1'] at hone ⊢
        simp only [List.range_one] at hone ⊢
        by_cases h : c.isActive k 0 = true
        · simp [List.filter, h]
        · simp [List.filter, h] at hone
      simp [this]
    have h0 := henv3 0 (by omega)
    simp only [h0act, if_true] at h0
    have hk1 : c.activeVars k = [c.varOf 0] := by
      rw [activePats_vars ok k]
      have : c.activeIdx k = [0] := by
        unfold Ctx.activeIdx at hone ⊢
        rw [hn1'] at hone ⊢
        simp only [List.range_one] at hone ⊢
        by_cases h : c.isActive k 0 = true
        · simp [List.filter, h]
        · simp [List.filter, h] at hone
      simp [this]
    unfold bindPats at h0
    rw [hkeys, hk1] at h0
    simp [List.lookup] at h0
    simp [hn1', mkTuple, h0]

theorem genFinal_AT_forms {c : Ctx} (ht : c.kind.isTry = true) (htr : c.transpose = false) (k : Nat) :
    (∃ pats vars, genFinal c k = .matchOkTuple pats vars) ∨
    (∃ pats rs ret, genFinal c k = .matchOkTranspose pats rs ret) ∨ genFinal c k = .matchOkSingle := by
  unfold genFinal
  simp only [htr, ht, Bool.false_and, Bool.false_eq_true, if_false, if_true]
  split
  · split
    · exact Or.inl ⟨_, _, rfl⟩
    · exact Or.inr (Or.inl ⟨_, _, _, rfl⟩)
  · exact Or.inr (Or.inr rfl)

theorem allSucc_init' (n : Nat) : AllSucc (List.replicate n none) := by
  intro i v h
  rw [List.getElem?_replicate] at h
  split at h <;> simp at h

/-! ### the induction over the steps -/

theorem evalSteps_eq_AT {c : Ctx} {names : List (Option String)} (ok : CtxOK c names) (σ : World)
    (parent : Option String) (hall0 : c.activeIdx 0 = List.range c.n)
    (hfirst0 : ∀ b ∈ c.activeIdx 0, usesPrev ((specCfgOf σ parent names c).acts b 0) = false)
    (hn : 0 < c.n) (ha : c.kind.isAsync = true) (ht : c.kind.isTry = true) (htr : c.transpose = false)
    (hmax : c.maxSteps = (c.chains.map (·.length)).foldl max 0) :
    ∀ (rem k : Nat) (env : Env) (vals : List (Option Value)) (steps : Steps),
      Inv c names k env vals → AllSucc vals → k + rem + 1 = c.maxSteps → genSteps c rem k = .ok steps →
      evalSteps (cfgOf σ parent names) env steps =
        (specLoopAT (specCfgOf σ parent names c) rem k vals).andThen fun f => M.ret (encode true f) := by
  intro rem
  induction rem with
  | zero =>
    intro k env vals steps hinv hsucc hkm hgen
    simp only [genSteps] at hgen
    split at hgen
    · cases hgen
    · rename_i s hs
      cases hgen
      have hact := active_nonempty ok hmax k (by omega)
      have hstep := evalStep_eq_AT ok σ parent k env vals hinv s hs (fun h0 => by subst h0; exact hfirst0) ha ht hact
      obtain ⟨hk, -, -, -, -, -⟩ := genStep_shape ok σ parent k s hs
      simp only [evalSteps, hstep, M.andThen_assoc, M.ret_andThen]
      rw [specLoopAT]
      simp only [active_eq ok σ parent k, M.andThen_assoc]
      apply M.andThen_congr
      intro capss hcapss
      obtain ⟨hl, -⟩ := specCapsAll_length _ _ _ _ _ hcapss
      apply M.andThen_congr
      intro r hr
      cases r with
      | error f =>
        have hf := specChainsTry_error _ _ _ _ _ f hr
        simp only [tryOut, M.ret_andThen, encode]
        rcases genFinal_AT_forms (c := c) ht htr k with ⟨pats, vars, hfin⟩ | ⟨pats, rs, ret, hfin⟩ | hfin <;>
          rw [hfin] <;> cases f <;> simp_all [Value.isSucc]
      | ok ps =>
        have hpl : ps.length = (c.activeIdx k).length := by
          have := specChainsTry_ok _ _ _ _ _ ps hr
          simpa [List.length_zip, hl] using this
        generalize hrest : (Var.sr k, mkTuple ps) :: (Var.sr k, Value.succ (mkTuple ps)) ::
          (capEnv (fun b => (specCfgOf σ parent names c).acts b k) (c.activeIdx k) capss ++ (tbsEnv c k ++ env)) = rest
        have hjunk' : ∃ junk, rest = junk ++ env ∧ ∀ xv ∈ junk, xv.1.isScratch = true := by
          refine ⟨(Var.sr k, mkTuple ps) :: (Var.sr k, Value.succ (mkTuple ps)) ::
            (capEnv (fun b => (specCfgOf σ parent names c).acts b k) (c.activeIdx k) capss ++ tbsEnv c k),
            by rw [← hrest]; simp, ?_⟩
          intro xv hxv
          rcases List.mem_cons.mp hxv with rfl | h
          · rfl
          · rcases List.mem_cons.mp h with rfl | h
            · rfl
            · rcases List.mem_append.mp h with h | h
              · exact capEnv_scratch _ _ _ xv h
              · exact tbsEnv_scratch c k xv h
        obtain ⟨junk, hje, hjs⟩ := hjunk'
        have hnl : (ps.map Value.succ).length = (c.activeIdx k).length := by simpa using hpl
        have hinv' := inv_step ok hinv (ps.map .succ) hnl junk hjs (fun h0 => by subst h0; exact hall0)
        rw [← hje] at hinv'
        have hsucc' : AllSucc (updVals vals (c.activeIdx k) (ps.map .succ)) :=
          allSucc_updVals _ _ _ (by simpa using hpl.symm) (activeIdx_nodup k)
            (fun b hb => by rw [hinv.len]; exact activeIdx_lt k b hb) hsucc (by simp [Value.isSucc])
        obtain ⟨finals, hf1, hf2⟩ := final_AT ok hn ht htr k rest _ ps hpl hact hinv' hsucc'
        simp only [tryOut, M.ret_andThen, hk, hrest, hf1, encode, if_true]
        rw [← hf2]
        rcases genFinal_AT_forms (c := c) ht htr k with ⟨pats, vars, hfin⟩ | ⟨pats, rs, ret, hfin⟩ | hfin <;>
          rw [hfin]
  | succ rem ih =>
    intro k env vals steps hinv hsucc hkm hgen
    simp only [genSteps] at hgen
    split at hgen
    · cases hgen
    · rename_i s hs
      split at hgen
      · cases hgen
      · rename_i rest' hrest'
        cases hgen
        have hact := active_nonempty ok hmax k (by omega)
        have hstep := evalStep_eq_AT ok σ parent k env vals hinv s hs (fun h0 => by subst h0; exact hfirst0) ha ht hact
        obtain ⟨hk, -, -, -, -, -⟩ := genStep_shape ok σ parent k s hs
        simp only [evalSteps, hstep, M.andThen_assoc, M.ret_andThen]
        rw [specLoopAT]
        simp only [active_eq ok σ parent k, M.andThen_assoc]
        apply M.andThen_congr
        intro capss hcapss
        obtain ⟨hl, -⟩ := specCapsAll_length _ _ _ _ _ hcapss
        apply M.andThen_congr
        intro r hr
        have hlink : genLink c k = .matchOk (some (idxProjs c k)) (c.activePats k) := by
          simp [genLink, ht, htr, ha]
        cases r with
        | error f =>
          have hf := specChainsTry_error _ _ _ _ _ f hr
          simp only [tryOut, M.ret_andThen, encode, hlink]
          cases f <;> simp_all [Value.isSucc]
        | ok ps =>
          have hpl : ps.length = (c.activeIdx k).length := by
            have := specChainsTry_ok _ _ _ _ _ ps hr
            simpa [List.length_zip, hl] using this
          have hproj := projs_mkTuple (c := c) k ps hpl (activeCount_eq ok k) hact
          generalize hrest : (Var.sr k, mkTuple (ps.map Value.succ)) :: (Var.sr k, mkTuple ps) ::
            (Var.sr k, Value.succ (mkTuple ps)) ::
            (capEnv (fun b => (specCfgOf σ parent names c).acts b k) (c.activeIdx k) capss ++ (tbsEnv c k ++ env)) = rest
          have hjunk' : ∃ junk, rest = junk ++ env ∧ ∀ xv ∈ junk, xv.1.isScratch = true := by
            refine ⟨(Var.sr k, mkTuple (ps.map Value.succ)) :: (Var.sr k, mkTuple ps) ::
              (Var.sr k, Value.succ (mkTuple ps)) ::
              (capEnv (fun b => (specCfgOf σ parent names c).acts b k) (c.activeIdx k) capss ++ tbsEnv c k),
              by rw [← hrest]; simp, ?_⟩
            intro xv hxv
            rcases List.mem_cons.mp hxv with rfl | h
            · rfl
            · rcases List.mem_cons.mp h with rfl | h
              · rfl
              · rcases List.mem_cons.mp h with rfl | h
                · rfl
                · rcases List.mem_append.mp h with h | h
                  · exact capEnv_scratch _ _ _ xv h
                  · exact tbsEnv_scratch c k xv h
          obtain ⟨junk, hje, hjs⟩ := hjunk'
          have hnl : (ps.map Value.succ).length = (c.activeIdx k).length := by simpa using hpl
          have hinv' := inv_step ok hinv (ps.map .succ) hnl junk hjs (fun h0 => by subst h0; exact hall0)
          rw [← hje] at hinv'
          have hsucc' : AllSucc (updVals vals (c.activeIdx k) (ps.map .succ)) :=
            allSucc_updVals _ _ _ (by simpa using hpl.symm) (activeIdx_nodup k)
              (fun b hb => by rw [hinv.len]; exact activeIdx_lt k b hb) hsucc (by simp [Value.isSucc])
          have hrec := ih (k + 1) _ _ rest' hinv' hsucc' (by omega) hrest'
          have hplen : (c.activePats k).length = (ps.map Value.succ).length := by
            rw [activePats_length ok k, hnl]
          simp only [tryOut, M.ret_andThen, hk, hlink, hproj, hrest]
          rw [extract_mkTuple _ _ _ hplen, M.ret_andThen]
          exact hrec

/-- what the async try loop guarantees about its outcome -/
theorem allSome_mem (vals : List (Option Value)) (finals : List Value) (h : allSome vals = some finals) :
    ∀ v ∈ finals, ∃ i : Nat, vals[i]? = some (some v) := by
  induction vals generalizing finals with
  | nil => simp [allSome] at h; subst h; simp
  | cons a vals ih =>
    cases a with
    | none => simp [allSome] at h
    | some x =>
      simp only [allSome] at h
      cases hr : allSome vals with
      | none => simp [hr] at h
      | some fs =>
        simp [hr] at h
        subst h
        intro v hv
        rcases List.mem_cons.mp hv with rfl | hv
        · exact ⟨0, rfl⟩
        · obtain ⟨i, hi⟩ := ih fs hr v hv
          exact ⟨i + 1, by simpa using hi⟩

theorem specLoopAT_post (sc : SpecCfg) (htry : sc.kind.isTry = true) (rem k : Nat) (vals : List (Option Value)) (f : Fin)
    (hsucc : AllSucc vals) (hact : ∀ k, (sc.active k).Nodup ∧ ∀ b ∈ sc.active k, b < sc.n) (hlen : vals.length = sc.n)
    (h : (specLoopAT sc rem k vals).res = .ok f) :
    match f with
    | .vals vs => vs.length = vals.length
    | .failed v => v.isSucc = false ∧ sc.kind.isTry = true := by
  induction rem generalizing k vals with
  | zero =>
    rw [specLoopAT] at h
    obtain ⟨caps, _, h⟩ := M.andThen_res_ok h
    obtain ⟨r, hr, h⟩ := M.andThen_res_ok h
    cases r with
    | error v =>
      simp [M.ret] at h; subst h
      exact ⟨specChainsTry_error _ _ _ _ _ v hr, htry⟩
    | ok ps =>
      simp only at h
      cases hall : allSome (updVals vals (sc.active k) (ps.map Value.succ)) with
      | none => simp [hall, M.stuck] at h
      | some finals =>
        simp [hall, M.ret] at h
        subst h
        simp only
        have hpl := specChainsTry_ok _ _ _ _ _ ps hr
        have hcl : (sc.active k).length = caps.length := (specCapsAll_length _ _ _ _ _ ‹_›).1
        have hsucc' : AllSucc (updVals vals (sc.active k) (ps.map Value.succ)) :=
          allSucc_updVals _ _ _ (by simp [hpl, List.length_zip, hcl]) (hact k).1
            (fun b hb => by rw [hlen]; exact (hact k).2 b hb) hsucc (by simp [Value.isSucc])
        have hff : firstFail finals = none := by
          rw [firstFail_none_iff]
          intro v hv
          obtain ⟨i, hi⟩ := allSome_mem _ _ hall v hv
          exact hsucc' i v hi
        rw [firstFail_none_payloads _ hff, allSome_length _ _ hall, updVals_length]
  | succ rem ih =>
    rw [specLoopAT] at h
    obtain ⟨caps, _, h⟩ := M.andThen_res_ok h
    obtain ⟨r, hr, h⟩ := M.andThen_res_ok h
    cases r with
    | error v =>
      simp [M.ret] at h; subst h
      exact ⟨specChainsTry_error _ _ _ _ _ v hr, htry⟩
    | ok ps =>
      simp only at h
      have hpl := specChainsTry_ok _ _ _ _ _ ps hr
      have hcl : (sc.active k).length = caps.length := (specCapsAll_length _ _ _ _ _ ‹_›).1
      have hsucc' : AllSucc (updVals vals (sc.active k) (ps.map Value.succ)) :=
        allSucc_updVals _ _ _ (by simp [hpl, List.length_zip, hcl]) (hact k).1
          (fun b hb => by rw [hlen]; exact (hact k).2 b hb) hsucc (by simp [Value.isSucc])
      have := ih _ _ hsucc' (by rw [updVals_length]; exact hlen) h
      cases f with
      | vals vs => simpa [updVals_length] using this
      | failed v => exact this

/-! ### what a failing run looks like -/

/-- the chains up to the first failure end with the failing chain's end: nothing runs behind it -/
theorem specChainsTry_error_last (c : SpecCfg) (k : Nat) (vals : List (Option Value)) (vis : List (String × Value))
    (bcs : List (Nat × List Value)) (f : Value) (h : (specChainsTry c k vals vis bcs).res = .ok (.error f)) :
    ∃ pre b, (specChainsTry c k vals vis bcs).trace = pre ++ [.ev (.chainEnd b k f)] ∧ b ∈ bcs.map Prod.fst := by
  induction bcs with
  | nil => simp [specChainsTry, M.ret] at h
  | cons bc bcs ih =>
    obtain ⟨b, caps⟩ := bc
    simp only [specChainsTry] at h ⊢
    obtain ⟨v, hv, h⟩ := M.andThen_res_ok h
    have htr := M.andThen_trace_ok (f := fun v : Value =>
      match v with
      | .succ p => (specChainsTry c k vals vis bcs).andThen fun r => M.ret (r.map (p :: ·))
      | f => M.ret (.error f)) hv
    rw [htr.1]
    -- the chain of `b` returned `v`: its events end with `chainEnd b k v`
    have hev : ∃ pre, (chainEvents b k (c.σ.chain b k (specPrev c vals b k) caps vis)).map MEv.ev
        = pre ++ [.ev (.chainEnd b k v)] := by
      simp only at hv
      cases hres : (c.σ.chain b k (specPrev c vals b k) caps vis).res with
      | panic n => simp [hres, UR.toRes] at hv
      | ok w =>
        simp only [hres, UR.toRes, Res.ok.injEq] at hv
        subst hv
        exact ⟨(([Ev.chainStart b k] ++ (c.σ.chain b k (specPrev c vals b k) caps vis).cbs.map (Ev.cb b k))).map MEv.ev,
          by simp [chainEvents, hres]⟩
    cases v with
    | succ p =>
      simp only at h ⊢
      obtain ⟨r, hr, h⟩ := M.andThen_res_ok h
      cases r with
      | ok ps => simp [M.ret, Except.map] at h
      | error f' =>
        simp [M.ret, Except.map] at h
        subst h
        obtain ⟨pre, b', hp, hb'⟩ := ih hr
        have h2 := M.andThen_trace_ok (f := fun r : Except Value (List Value) => M.ret (r.map (p :: ·))) hr
        refine ⟨(chainEvents b k (c.σ.chain b k (specPrev c vals b k) caps vis)).map MEv.ev ++ pre, b', ?_, by simp [hb']⟩
        rw [h2.1, hp]
        simp [M.ret, List.append_assoc]
    | atom _ | tnil | tcons _ _ | tup _ | fail _ | builder _ | handleOk _ | handlePanic =>
      simp [M.ret] at h
      subst h
      obtain ⟨pre, hp⟩ := hev
      exact ⟨pre, b, by simp [M.ret, hp], by simp⟩

/-- **A failing async try run stops at the failing chain** (canonical schedule): the trace of the loop ends with the
    end of the chain that returned the failure `v`, and `v` — returned unchanged — is not a success.  Nothing of a later
    step, no other chain behind it in its own step, no handler call. -/
theorem specLoopAT_failed (c : SpecCfg) (rem k : Nat) (vals : List (Option Value)) (v : Value)
    (h : (specLoopAT c rem k vals).res = .ok (.failed v)) :
    v.isSucc = false ∧ ∃ pre b j, (specLoopAT c rem k vals).trace = pre ++ [.ev (.chainEnd b j v)] ∧ k ≤ j := by
  induction rem generalizing k vals with
  | zero =>
    rw [specLoopAT] at h ⊢
    obtain ⟨caps, hcaps, h⟩ := M.andThen_res_ok h
    rw [(M.andThen_trace_ok hcaps).1]
    obtain ⟨r, hr, h⟩ := M.andThen_res_ok h
    rw [(M.andThen_trace_ok hr).1]
    cases r with
    | error f =>
      simp [M.ret] at h; subst h
      obtain ⟨pre, b, hp, _⟩ := specChainsTry_error_last _ _ _ _ _ _ hr
      exact ⟨specChainsTry_error _ _ _ _ _ _ hr,
        (specCapsAll c k (visibleSpec c.names vals) (c.active k)).trace ++ pre, b, k,
        by rw [hp]; simp [M.ret, List.append_assoc], Nat.le_refl _⟩
    | ok ps =>
      simp only at h
      cases hall : allSome (updVals vals (c.active k) (ps.map Value.succ)) <;> simp [hall, M.stuck, M.ret] at h
  | succ rem ih =>
    rw [specLoopAT] at h ⊢
    obtain ⟨caps, hcaps, h⟩ := M.andThen_res_ok h
    rw [(M.andThen_trace_ok hcaps).1]
    obtain ⟨r, hr, h⟩ := M.andThen_res_ok h
    rw [(M.andThen_trace_ok hr).1]
    cases r with
    | error f =>
      simp [M.ret] at h; subst h
      obtain ⟨pre, b, hp, _⟩ := specChainsTry_error_last _ _ _ _ _ _ hr
      exact ⟨specChainsTry_error _ _ _ _ _ _ hr,
        (specCapsAll c k (visibleSpec c.names vals) (c.active k)).trace ++ pre, b, k,
        by rw [hp]; simp [M.ret, List.append_assoc], Nat.le_refl _⟩
    | ok ps =>
      simp only at h ⊢
      obtain ⟨hv, pre, b, j, hp, hj⟩ := ih _ _ h
      exact ⟨hv, (specCapsAll c k (visibleSpec c.names vals) (c.active k)).trace ++
        ((specChainsTry c k vals (visibleSpec c.names vals) ((c.active k).zip caps)).trace ++ pre), b, j,
        by rw [hp]; simp [List.append_assoc], by omega⟩

/-! ### the theorem -/

/-- The inputs `async_try_refines` speaks about: the async try macros with default options. -/
structure SupportedAT (p : Input) (kind : Kind) : Prop extends SupportedBase p where
  isAsync : kind.isAsync = true
  isTry : kind.isTry = true
  transposeDefault : p.transpose ≠ some true

/-- **Refinement for the async try macros** (`try_join_async!`, `try_join_async_spawn!`, aliases): under the canonical
    schedule the generated code is the async-try reference loop — events and result, every program, world and size. -/
theorem async_try_refines (σ : World) (parent : Option String) (p : Input) (kind : Kind) (code : Code)
    (hs : SupportedAT p kind) (hgen : gen p kind = .ok code) :
    evalCode σ parent code = specRunAT σ parent p kind := by
  refine refines_gen σ parent p kind code hs.toSupportedBase hgen specLoopAT ?_ ?_
  · intro c steps ok hkind htrans hall0 hfirst0 hpos hmaxeq hmax hsteps hinv0
    have ha : c.kind.isAsync = true := by rw [hkind]; exact hs.isAsync
    have ht : c.kind.isTry = true := by rw [hkind]; exact hs.isTry
    have htr : c.transpose = false := by
      rw [htrans, hs.isAsync, hs.isTry]
      cases hp : p.transpose with
      | none => rfl
      | some b =>
        cases b with
        | false => rfl
        | true => exact absurd hp hs.transposeDefault
    have := evalSteps_eq_AT ok σ parent hall0 hfirst0 hpos ha ht htr hmaxeq (c.maxSteps - 1) 0 [] _ steps hinv0
      (allSucc_init' c.n) (by omega) hsteps
    rw [ht]
    exact this
  · intro c f ok hkind h
    have htry : (specCfgOf σ parent (namesOf p) c).kind.isTry = true := by
      show c.kind.isTry = true
      rw [hkind]; exact hs.isTry
    have hact : ∀ k, ((specCfgOf σ parent (namesOf p) c).active k).Nodup ∧
        ∀ b ∈ (specCfgOf σ parent (namesOf p) c).active k, b < (specCfgOf σ parent (namesOf p) c).n := by
      intro k
      rw [active_eq ok σ parent k]
      refine ⟨activeIdx_nodup k, fun b hb => ?_⟩
      have := activeIdx_lt k b hb
      simpa [SpecCfg.n, specCfgOf, ok.nEq] using this
    have := specLoopAT_post _ htry _ _ _ f (allSucc_init' c.n) hact (by simp [SpecCfg.n, specCfgOf, ok.nEq]) h
    cases f with
    | vals vs => simpa using this
    | failed v => exact ⟨this.1, hs.isTry⟩

end JoinModel
