/-
  C15 — expansion is total: valid code or a diagnostic, never an internal panic.

  The model pipeline is a total Lean function in which every `expect()` / `unwrap()` / `panic!` site of the generator
  is an explicit outcome (`GenErr.internal`).  `no_internal_bug`: for every program whose steps are balanced
  (no `<<<` without an open `>>>` *in the same step* — what the chain builder enforces since /repo 225b285) and whose
  members have the operand counts the parser produces, the generator returns code or one of the four whitelisted
  configuration rejections — never an internal error.  The parser half (every structurally invalid input is rejected
  with a message) is decided by K1 with the implementation-side oracle (tools/props.py `judge_total`).
-/
import JoinModel.Lemmas.Nest
import JoinModel.Lemmas.GenFacts
import JoinModel.Lemmas.ParseWF
import JoinModel.Lemmas.ParseFuel
import JoinModel.SpecTables
namespace JoinModel.Props.C15
open JoinModel

/-- running `>>>`/`<<<` balance of a step's actions never drops below zero -/
def balanced : List Member → Nat → Bool
  | [], _ => true
  | m :: ms, d =>
    match m.mv with
    | .wrap => balanced ms (d + 1)
    | .unwrap => decide (0 < d) && balanced ms (d - 1)
    | .none => balanced ms d

/-- operand counts as the parser builds them (table T6 = README, Props/C01 `arity_documented`) -/
def arityOK (m : Member) : Bool :=
  match m.mv with
  | .unwrap => true
  | .wrap => m.ops.length == 1 && SpecTables.wrappers.contains m.ctor
  | .none =>
    m.ctor != .unwrap &&
    (m.ops.length == (SpecTables.arity m.ctor).count || ((SpecTables.arity m.ctor).allowEmpty && m.ops.isEmpty))

theorem hoist_length (b e : Nat) (m : Member) : (hoist b e m).2.length = m.ops.length := by
  unfold hoist
  split <;> simp

/-- applying a member with a documented operand count never fails -/
theorem applyCtor_ok (a : Bool) (prev : Toks) (c : Comb) (ops : List Toks) (hc : c ≠ .unwrap)
    (h : ops.length = (SpecTables.arity c).count ∨ ((SpecTables.arity c).allowEmpty = true ∧ ops = [])) :
    ∃ t, applyCtor a prev c ops = .ok t := by
  rcases ops with _ | ⟨x, _ | ⟨y, _ | ⟨z, _ | ⟨w, _ | ⟨v, r⟩⟩⟩⟩⟩ <;> cases c <;>
    simp [SpecTables.arity] at h hc <;>
    simp [applyCtor, emitTokens, emitRow, Tables.emit, instTmpl, instTmplTok, bind, Except.bind, pure, Except.pure] <;>
    (cases a <;> simp)

theorem wrappers_unary : ∀ c ∈ SpecTables.wrappers, (SpecTables.arity c).count = 1 ∧ c ≠ .unwrap := by decide

/-- The recursive descent (= the generator's stack machine, Props/C02 `step_expr_nested`) succeeds on every balanced
    action list with parser-shaped members; it reports an explicit close only inside an open wrapper. -/
theorem nestGo_ok (a : Bool) (b : Nat) (fuel : Nat) : ∀ (cur : Toks) (ms : List Member) (e : Nat) (defs : List CapDef) (d : Nat),
    ms.length + 1 ≤ fuel → balanced ms d = true → (∀ m ∈ ms, arityOK m = true) →
    ∃ r, nestGo a b fuel cur ms e defs = .ok r ∧ (r.closed = true → 0 < d ∧ balanced r.rest (d - 1) = true) ∧
      (∀ m ∈ r.rest, arityOK m = true) := by
  induction fuel with
  | zero => intro cur ms e defs d hf; omega
  | succ n ih =>
    intro cur ms e defs d hf hb ha
    cases ms with
    | nil => exact ⟨⟨cur, [], e, defs, false⟩, rfl, by simp, by simp⟩
    | cons m ms =>
      have hf' : ms.length + 1 ≤ n := by simp at hf; omega
      have ham : arityOK m = true := ha m (by simp)
      have harest : ∀ m' ∈ ms, arityOK m' = true := fun m' hm' => ha m' (by simp [hm'])
      simp only [nestGo]
      cases hmv : m.mv with
      | none =>
        simp only [balanced, hmv] at hb
        simp only [arityOK, hmv, Bool.and_eq_true, bne_iff_ne, ne_eq, Bool.or_eq_true, beq_iff_eq,
          List.isEmpty_iff] at ham
        obtain ⟨t, ht⟩ := applyCtor_ok a cur m.ctor (hoist b e m).2 ham.1 (by
          rw [hoist_length]
          rcases ham.2 with h | ⟨h1, h2⟩
          · exact Or.inl h
          · right
            refine ⟨h1, ?_⟩
            have : (hoist b e m).2.length = 0 := by rw [hoist_length, h2]; rfl
            exact List.eq_nil_of_length_eq_zero this)
        simp only [ht]
        exact ih t ms (e + 1) _ d hf' hb harest
      | unwrap =>
        simp only [balanced, hmv, Bool.and_eq_true, decide_eq_true_eq] at hb
        exact ⟨⟨cur, ms, e + 1, defs, true⟩, rfl, fun _ => ⟨hb.1, hb.2⟩, harest⟩
      | wrap =>
        simp only [balanced, hmv] at hb
        simp only [arityOK, hmv, Bool.and_eq_true, beq_iff_eq] at ham
        obtain ⟨rin, hrin, hclosed, harin⟩ := ih [Var.v.tok] ms (e + 1) defs (d + 1) hf' hb harest
        simp only [hrin]
        have hwu := wrappers_unary m.ctor (by simpa using ham.2)
        obtain ⟨t, ht⟩ := applyCtor_ok a cur m.ctor [closureToks rin.toks] hwu.2 (Or.inl (by simp [hwu.1]))
        have hw : applyWrapper a cur m rin.toks = .ok t := by simp [applyWrapper, ham.1, ht]
        simp only [hw]
        have hrl := nestGo_rest_le a b n _ ms _ _ rin hrin
        by_cases hc : rin.closed = true
        · obtain ⟨_, hbal⟩ := hclosed hc
          simp only [Nat.add_sub_cancel] at hbal
          exact ih t rin.rest rin.pos rin.defs d (by omega) hbal harin
        · have hrest := nestGo_open_rest a b n _ ms _ _ rin hrin (by simpa using hc)
          rw [hrest]
          cases n with
          | zero => omega
          | succ n' => exact ⟨⟨t, [], rin.pos, rin.defs, false⟩, rfl, by simp, by simp⟩

/-- **The per-branch generator never hits one of its `expect()` sites** on a balanced, parser-shaped step. -/
theorem genBranchStep_ok (a : Bool) (b : Nat) (prev : Var) (acts : List Member)
    (hb : balanced acts 0 = true) (ha : ∀ m ∈ acts, arityOK m = true) :
    ∃ r, genBranchStep a b prev acts = .ok r := by
  cases acts with
  | nil => exact ⟨none, rfl⟩
  | cons m ms =>
    obtain ⟨r, hr, hclosed, _⟩ := nestGo_ok a b ((m :: ms).length + 1) (wrapIntoBlock a [prev.tok]) (m :: ms) 0 [] 0
      (Nat.le_refl _) hb ha
    have hnc : r.closed = false := by
      cases hcl : r.closed with
      | false => rfl
      | true => have := (hclosed hcl).1; omega
    have h := runStack_eq a b ((m :: ms).length + 1) [] (wrapIntoBlock a [prev.tok]) [] (m :: ms) 0 (Nat.le_refl _)
    rw [hr] at h
    simp only [hnc, Bool.false_eq_true, if_false, unwind, Except.map, runStack] at h
    simp only [genBranchStep]
    cases hp : processActions a b ⟨[], [⟨wrapIntoBlock a [prev.tok], none⟩]⟩ (m :: ms) 0 with
    | error er => rw [hp] at h; simp at h
    | ok acc =>
      rw [hp] at h
      simp only at h ⊢
      rw [h]
      exact ⟨_, rfl⟩

/-- a program whose every step is balanced and parser-shaped -/
def WellFormed (p : Input) : Prop :=
  ∀ br ∈ p.branches, ∀ g ∈ splitSteps br.members, balanced g 0 = true ∧ ∀ m ∈ g, arityOK m = true

theorem genElems_ok (c : Ctx) (k : Nat) (actss : List (List Member)) (b0 : Nat)
    (h : ∀ acts ∈ actss, balanced acts 0 = true ∧ ∀ m ∈ acts, arityOK m = true) :
    ∃ r, genElems c k actss b0 = .ok r := by
  induction actss generalizing b0 with
  | nil => exact ⟨_, rfl⟩
  | cons acts rest ih =>
    obtain ⟨hb, ha⟩ := h acts (by simp)
    obtain ⟨r, hr⟩ := genBranchStep_ok c.kind.isAsync b0 ((c.pats[b0]?.map (·.var)).getD (.r b0)) acts hb ha
    obtain ⟨r2, hr2⟩ := ih (b0 + 1) (fun a' ha' => h a' (by simp [ha']))
    simp only [genElems, hr, hr2]
    cases r with
    | none => exact ⟨_, rfl⟩
    | some dc => exact ⟨_, rfl⟩

theorem genSteps_ok (c : Ctx) (rem k : Nat)
    (h : ∀ k', ∀ acts ∈ c.stepActs k', balanced acts 0 = true ∧ ∀ m ∈ acts, arityOK m = true) :
    ∃ s, genSteps c rem k = .ok s := by
  induction rem generalizing k with
  | zero =>
    obtain ⟨r, hr⟩ := genElems_ok c k (c.stepActs k) 0 (h k)
    simp only [genSteps, genStep, hr]
    exact ⟨_, rfl⟩
  | succ rem ih =>
    obtain ⟨r, hr⟩ := genElems_ok c k (c.stepActs k) 0 (h k)
    obtain ⟨s, hs⟩ := ih (k + 1)
    simp only [genSteps, genStep, hr, hs]
    exact ⟨_, rfl⟩

/-- **No internal bug.**  For every well-formed program and every macro kind the generator returns code or one of the
    four whitelisted configuration rejections (wrong handler kind, `futures_crate_path` on a non-async macro, no
    branch) — never an internal panic. -/
theorem no_internal_bug (p : Input) (kind : Kind) (hwf : WellFormed p) :
    (∃ code, gen p kind = .ok code) ∨ (∃ e, gen p kind = .error e ∧ e.isReject = true) := by
  unfold gen
  cases hm : mkCtx p kind with
  | error e =>
    right
    refine ⟨e, rfl, ?_⟩
    unfold mkCtx at hm
    split at hm
    · cases hm; rfl
    · split at hm
      · cases hm; rfl
      · split at hm
        · cases hm; rfl
        · split at hm
          · cases hm; rfl
          · cases hm
  | ok c =>
    simp only
    -- the context carries the split chains of `p`
    have hch : c.chains = (p.branches.map fun b => splitSteps b.members) ∧ c.depths = c.chains.map (·.length) ∧
        p.branches ≠ [] := by
      unfold mkCtx at hm
      split at hm
      · cases hm
      · split at hm
        · cases hm
        · split at hm
          · cases hm
          · split at hm
            · cases hm
            · rename_i hne
              cases hm
              exact ⟨rfl, rfl, by intro he; simp [he] at hne⟩
    have hsteps : ∀ k', ∀ acts ∈ c.stepActs k', balanced acts 0 = true ∧ ∀ m ∈ acts, arityOK m = true := by
      intro k' acts hacts
      simp only [Ctx.stepActs, List.mem_map] at hacts
      obtain ⟨ch, hch', rfl⟩ := hacts
      rw [hch.1] at hch'
      obtain ⟨br, hbr, rfl⟩ := List.mem_map.mp hch'
      cases hg : (splitSteps br.members)[k']? with
      | none => simp [balanced]
      | some g => exact hwf br hbr g (List.mem_of_getElem? hg)
    have hmax : c.maxSteps ≠ 0 := by
      have : c.maxSteps = c.depths.foldl max 0 := by
        unfold mkCtx at hm
        split at hm
        · cases hm
        · split at hm
          · cases hm
          · split at hm
            · cases hm
            · split at hm
              · cases hm
              · cases hm; rfl
      rw [this, hch.2.1, hch.1]
      cases hb : p.branches with
      | nil => exact absurd hb hch.2.2
      | cons br rest =>
        simp only [List.map_cons, List.foldl_cons]
        have hpos : 0 < (splitSteps br.members).length := List.length_pos_iff.mpr (splitSteps_ne_nil _)
        have : ∀ (l : List Nat) (a : Nat), a ≤ l.foldl max a := by
          intro l
          induction l with
          | nil => intro a; exact Nat.le_refl _
          | cons z l ih2 => intro a; exact Nat.le_trans (Nat.le_max_left a z) (ih2 _)
        have := this (rest.map fun b => (splitSteps b.members).length |>.succ.pred) (max 0 (splitSteps br.members).length)
        intro h0
        have h1 := Nat.le_trans (Nat.le_max_right 0 (splitSteps br.members).length)
          (‹∀ (l : List Nat) (a : Nat), a ≤ l.foldl max a› (List.map (fun x => x.length) (List.map (fun b => splitSteps b.members) rest)) _)
        omega
    simp only [hmax, if_false]
    obtain ⟨s, hs⟩ := genSteps_ok c (c.maxSteps - 1) 0 hsteps
    left
    simp only [hs]
    exact ⟨_, rfl⟩

/-! ### The parser half: everything the parser accepts is well-formed

  `Lemmas/ParseWF.lean` shows, for every oracle (whatever syn answers) and every token list, what the parser model can
  return: members of table shape and a `>>>`/`<<<` balance — reset at each `~` — that never drops below zero.  Here that is
  connected with `WellFormed` (two facts about the *extracted* tables, checked row by row), which gives totality of the
  whole pipeline. -/

/-- table fact: a wrapper member's constructor is one of the ten wrapper-capable operators -/
theorem wrapperCtor_in_spec (c : Comb) :
    (match wrapperCtorOf c with | some ctor => SpecTables.wrappers.contains ctor | none => true) = true := by
  cases c <;> rfl

/-- table fact: an operator other than `<<<` builds a constructor other than UNWRAP, with the documented operand count -/
theorem arity_in_spec (c : Comb) (hc : c ≠ .unwrap) :
    (match arityOf c with
      | some ar => ar.ctor != .unwrap && (SpecTables.arity ar.ctor).count == ar.count &&
          (!ar.allowEmpty || (SpecTables.arity ar.ctor).allowEmpty)
      | none => true) = true := by
  cases c <;> first | rfl | exact absurd rfl hc

theorem shape_arityOK (m : Member) (h : MemberShape m) : arityOK m = true := by
  unfold MemberShape at h
  unfold arityOK
  cases hmv : m.mv with
  | unwrap => rfl
  | wrap =>
    rw [hmv] at h
    obtain ⟨⟨c, hc⟩, hl⟩ := h
    have := wrapperCtor_in_spec c
    rw [hc] at this
    simp only at this
    simp only [hl, this, beq_self_eq_true, Bool.and_self]
  | none =>
    rw [hmv] at h
    obtain ⟨c, ar, har, hcu, hctor, hl⟩ := h
    have := arity_in_spec c hcu
    rw [har] at this
    simp only [Bool.and_eq_true, Bool.or_eq_true, Bool.not_eq_true', beq_iff_eq] at this
    obtain ⟨⟨h1, h2⟩, h3⟩ := this
    simp only [hctor, h1, Bool.true_and, Bool.or_eq_true, Bool.and_eq_true, beq_iff_eq, List.isEmpty_iff]
    rcases hl with hl | ⟨ha, hl⟩
    · exact Or.inl (by rw [hl, h2])
    · refine Or.inr ⟨?_, hl⟩
      rcases h3 with h3 | h3
      · rw [ha] at h3; cases h3
      · exact h3

/-- the builder's running balance, reset at each `~`, is the per-step balance of the generator's step split -/
theorem chk_balanced : ∀ (ms : List Member) (w : Int), 0 ≤ w → chk w ms = true →
    ∀ g gs, splitSteps ms = g :: gs → balanced g w.toNat = true ∧ ∀ g' ∈ gs, balanced g' 0 = true := by
  intro ms
  induction ms with
  | nil =>
    intro w _ _ g gs h
    simp only [splitSteps, List.cons.injEq] at h
    obtain ⟨rfl, rfl⟩ := h
    exact ⟨rfl, fun _ h => by cases h⟩
  | cons m ms ih =>
    intro w hw hc g gs h
    simp only [chk, Bool.and_eq_true, decide_eq_true_eq] at hc
    obtain ⟨hw1, hc⟩ := hc
    cases hs : splitSteps ms with
    | nil => exact absurd hs (splitSteps_ne_nil ms)
    | cons g0 gs0 =>
      obtain ⟨ihg, ihgs⟩ := ih _ hw1 hc g0 gs0 hs
      simp only [splitSteps, hs] at h
      cases hd : m.deferred with
      | true =>
        simp only [hd, if_true, List.cons.injEq] at h
        obtain ⟨rfl, rfl⟩ := h
        simp only [hd, if_true, Int.zero_add] at hw1 ihg
        refine ⟨rfl, ?_⟩
        intro g' hg'
        rcases List.mem_cons.mp hg' with rfl | hg'
        · cases hmv : m.mv with
          | wrap => simp only [balanced, hmv]; simpa [hmv, mvDelta] using ihg
          | unwrap => simp [hmv, mvDelta] at hw1
          | none => simp only [balanced, hmv]; simpa [hmv, mvDelta] using ihg
        · exact ihgs g' hg'
      | false =>
        simp only [hd, Bool.false_eq_true, if_false, List.cons.injEq] at h
        obtain ⟨rfl, rfl⟩ := h
        simp only [hd, Bool.false_eq_true, if_false] at hw1 ihg
        refine ⟨?_, ihgs⟩
        cases hmv : m.mv with
        | wrap =>
          simp only [balanced, hmv]
          simp only [hmv, mvDelta] at ihg
          have : (w + 1).toNat = w.toNat + 1 := by omega
          rwa [this] at ihg
        | unwrap =>
          simp only [balanced, hmv, Bool.and_eq_true, decide_eq_true_eq]
          simp only [hmv, mvDelta] at ihg hw1
          have : (w + -1).toNat = w.toNat - 1 := by omega
          rw [this] at ihg
          exact ⟨by omega, ihg⟩
        | none =>
          simp only [balanced, hmv]
          simpa [hmv, mvDelta] using ihg

/-- **The parser only accepts well-formed programs** — for every oracle, i.e. whatever syn answers. -/
theorem parse_wellformed (o : Oracle) (toks : Toks) (p : Input) (h : parseMacroInput o toks = .ok p) : WellFormed p := by
  obtain ⟨_, hb⟩ := parseMacroInput_ok o toks p h
  intro br hbr g hg
  obtain ⟨hsh, hchk⟩ := hb br hbr
  cases hs : splitSteps br.members with
  | nil => exact absurd hs (splitSteps_ne_nil _)
  | cons g0 gs0 =>
    obtain ⟨h0, hrest⟩ := chk_balanced br.members 0 (Int.le_refl 0) hchk g0 gs0 hs
    rw [hs] at hg
    refine ⟨?_, ?_⟩
    · rcases List.mem_cons.mp hg with rfl | hg
      · exact h0
      · exact hrest g hg
    · intro m hm
      refine shape_arityOK m (hsh m ?_)
      have : ∀ (ms : List Member) (g : List Member), g ∈ splitSteps ms → ∀ m ∈ g, m ∈ ms := by
        intro ms
        induction ms with
        | nil => intro g hg m hm; simp [splitSteps] at hg; subst hg; cases hm
        | cons x xs ih =>
          intro g hg m hm
          cases hxs : splitSteps xs with
          | nil => exact absurd hxs (splitSteps_ne_nil xs)
          | cons y ys =>
            simp only [splitSteps, hxs] at hg
            split at hg
            · rcases List.mem_cons.mp hg with rfl | hg
              · cases hm
              · rcases List.mem_cons.mp hg with rfl | hg
                · rcases List.mem_cons.mp hm with rfl | hm
                  · exact List.mem_cons_self
                  · exact List.mem_cons_of_mem _ (ih y (by rw [hxs]; exact List.mem_cons_self) m hm)
                · exact List.mem_cons_of_mem _ (ih g (by rw [hxs]; exact List.mem_cons_of_mem _ hg) m hm)
            · rcases List.mem_cons.mp hg with rfl | hg
              · rcases List.mem_cons.mp hm with rfl | hm
                · exact List.mem_cons_self
                · exact List.mem_cons_of_mem _ (ih y (by rw [hxs]; exact List.mem_cons_self) m hm)
              · exact List.mem_cons_of_mem _ (ih g (by rw [hxs]; exact List.mem_cons_of_mem _ hg) m hm)
      exact this br.members g (by rw [hs]; exact hg) m hm

/-- **Expansion is total.**  For every token list, every behaviour of syn (oracle) and every macro kind, the pipeline
    parser → generator ends in one of three ways: the parser rejects the input with an error, the generator rejects the
    configuration (wrong handler kind, `futures_crate_path` on a non-async macro), or code is produced.  An internal
    error (an `expect`/`unwrap`/`panic!`/`unreachable!` site of the generator) is not among the outcomes. -/
theorem expansion_total (o : Oracle) (toks : Toks) (kind : Kind) :
    (∃ e, parseMacroInput o toks = .error e) ∨
    ∃ p, parseMacroInput o toks = .ok p ∧
      ((∃ code, gen p kind = .ok code) ∨ ∃ e, gen p kind = .error e ∧ e.isReject = true) := by
  cases h : parseMacroInput o toks with
  | error e => exact Or.inl ⟨e, rfl⟩
  | ok p => exact Or.inr ⟨p, rfl, no_internal_bug p kind (parse_wellformed o toks p h)⟩

/-- **Expansion terminates.**  Every loop of the parser model carries fuel, and running out of it is the outcome
    `.syn "fuel"`; that outcome never occurs: each iteration of the scan of `parse_until`, of the chain builder and of the
    branch/handler loop consumes at least one token tree.  The one fact about syn this needs — the empty token stream is
    not an expression — is checked against syn itself on every run (harness mode `synfacts`).  (The generator is
    structurally recursive over the parsed program.) -/
theorem expansion_terminates (o : Oracle) (hempty : o.validExpr [] = false) (toks : Toks) :
    parseMacroInput o toks ≠ .error (.syn "fuel") :=
  parse_never_out_of_fuel o hempty toks

/-- totality and termination together: the three outcomes of `expansion_total`, and the parser's error is never the
    model's own out-of-fuel artefact -/
theorem expansion_total_terminating (o : Oracle) (hempty : o.validExpr [] = false) (toks : Toks) (kind : Kind) :
    (∃ e, parseMacroInput o toks = .error e ∧ e ≠ .syn "fuel") ∨
    ∃ p, parseMacroInput o toks = .ok p ∧
      ((∃ code, gen p kind = .ok code) ∨ ∃ e, gen p kind = .error e ∧ e.isReject = true) := by
  rcases expansion_total o toks kind with ⟨e, he⟩ | h
  · exact Or.inl ⟨e, he, fun hf => expansion_terminates o hempty toks (by rw [he, hf])⟩
  · exact Or.inr h

/-! Non-vacuity.  The steps of `init |> >>> ..b() <<< ~=> c` are balanced and parser-shaped; the second step of
    `a => >>> |> f ~<<< |> g` (the input behind the defect fixed in 225b285) is not balanced: the parser must reject
    it, and now does (K1 family `invalid`). -/

private def mk (c : Comb) (d : Bool) (mv : Move) (n : Nat) : Member := ⟨c, d, mv, List.replicate n ⟨.expr, []⟩⟩

example : (splitSteps [mk .initial false .none 1, mk .map false .wrap 1, mk .dot false .none 1, mk .unwrap false .unwrap 0,
      mk .andThen true .none 1]).map (fun g => (balanced g 0, g.all arityOK)) = [(true, true), (true, true)] := by decide

example : (splitSteps [mk .initial false .none 1, mk .andThen false .wrap 1, mk .map false .none 1, mk .unwrap true .unwrap 0,
      mk .map false .none 1]).map (fun g => balanced g 0) = [true, false] := by decide

/-- the premise of `expansion_terminates` is satisfiable, and the three outcomes all occur: `a |> f` is accepted and
    generates code, `<<<` alone is rejected by the parser (an oracle that accepts single tokens as expressions) -/
example :
    let o : Oracle := { validExpr := fun ts => ts.length == 1, validType := fun _ => false, isBlock := fun _ => false,
                        letSplit := fun _ => .notLet, reprintExpr := id, reprintType := id, exprPrefix := fun _ => none,
                        pathPrefix := fun _ => none, litBool := fun _ => none }
    o.validExpr [] = false ∧
    ((parseMacroInput o [.ident "a", .punct '|' true, .punct '>' false, .ident "f"]).toOption.map
        (fun p => (gen p ⟨false, false, false⟩).toOption.isSome)) = some true ∧
    (parseMacroInput o [.ident "a", .punct '<' true, .punct '<' true, .punct '<' false]).toOption.isSome = false := by
  intro o
  exact ⟨rfl, rfl, rfl⟩

end JoinModel.Props.C15
