/-
  C09 — async macros are lazy, concurrent within a step, and always complete.

  Three layers:
  1. the *shape* of the async expansion, for every program: one pinned boxed `async move` block containing everything,
     steps joined by `futures::join!/try_join!` or awaited directly, task-spawning through `__spawn_tokio`;
  2. `sync_refines` covers `join_async!` / `join_async_spawn!`: under the canonical schedule (every operand polled to
     completion in turn) the generated code is the reference step loop (`async_canonical`);
  3. the poll-level model (`Async.lean`: tasks with gated pending points, `join!` = poll every unfinished operand once,
     the `async` block = steps in sequence) built from the parsed program (`AsyncSpec.lean`), for *every* schedule of
     gate openings — any order, batches, spurious polls: nothing runs before the first poll, a pending branch never
     blocks a ready sibling, a pending future waits exactly on closed gates (no lost wake-up), and as soon as it is
     polled with all gates open it completes with the reference result, having emitted the reference events exactly
     once each (`join_async_every_schedule`).
  Trusted: that rustc's `async`/`.await` and futures' `join!`/`try_join!` behave like `Plan.poll`/`pollStep`; K2-async
  compares real futures on a deterministic executor (gates, counting root waker) and on tokio with the reference.
  Partial: the schedule theorem is for the non-try async macros without handler; `try_join!` plans are covered by the
  per-poll theorems (`pollStep_prefix`, `Plan.pending_blocked`, `Plan.poll_allOpen`) but not by schedule independence
  (which failing branch wins is schedule dependent, as C05 says).
-/
import JoinModel.Lemmas.GenFacts
import JoinModel.Print
import JoinModel.AsyncSpec
import JoinModel.Props.Common
import JoinModel.AsyncTry
namespace JoinModel.Props.C09
open JoinModel

/-- Laziness, syntactically: the whole async expansion is `Box::pin(async move { … })` — a single expression whose
    evaluation creates a future and runs nothing; every user token (handler definition, block captures, chains,
    handler call) is inside the `async move` block. -/
theorem all_user_tokens_inside_async (c : Code) (ha : c.kind.isAsync = true) :
    ∃ body, printCode c = [kw "Box"] ++ pathSep ++ [kw "pin", paren [kw "async", kw "move", brace body]] := by
  simp only [printCode, ha, if_true]
  exact ⟨_, rfl⟩

/-- Within a step the active branches are joined by one `P::join!(…)` / `P::try_join!(…)` (or the custom joiner) when
    there are several, and awaited directly (`chain.await`) when there is one: the macro adds no polling logic. -/
theorem async_step_join (c : Ctx) (k : Nat) (s : StepCode) (h : genStep c k = .ok s) (ha : c.kind.isAsync = true)
    (hj : c.joiner = none) :
    s.form = (if c.activeCount k > 1 then
        JoinForm.futJoin ((c.fcp.getD []) ++ [pj ':', pu ':', id' (if c.kind.isTry then "try_join" else "join"), pu '!'])
          c.kind.isTry
      else JoinForm.awaitCat) ∧ s.tbs = [] ∧ s.spawnJoin = none := by
  unfold genStep at h
  split at h
  · cases h
  · cases h
    refine ⟨?_, by simp [ha], by simp [ha]⟩
    by_cases hm : c.activeCount k > 1 <;> simp [hm, hj, ha]

/-- Task-spawning: every operand of a multi-branch step is `{ __spawn_tokio(Box::pin(chain)) }`; a single active
    branch is awaited in place. -/
theorem async_spawn_wrap (c : Ctx) (k : Nat) (s : StepCode) (h : genStep c k = .ok s) (ha : c.kind.isAsync = true)
    (hs : c.kind.isSpawn = true) :
    ∀ e ∈ s.elems, e.wrap = (if c.activeCount k > 1 then ElemWrap.tokio else ElemWrap.plain) := by
  unfold genStep at h
  split at h
  · cases h
  · rename_i defs elems hel
    cases h
    obtain ⟨_, he⟩ := genElems_spec c k (c.stepActs k) 0 defs elems hel
    intro e hmem
    have : e.sem ∈ elems.map Elem.sem := List.mem_map.mpr ⟨e, hmem, rfl⟩
    rw [he] at this
    obtain ⟨ab, _, hab⟩ := List.mem_map.mp this
    have hw : e.wrap = c.wrapOf k ab.2 := by
      have := congrArg (fun (t : Nat × Bool × ElemWrap × Var × List Member) => t.2.2.1) hab
      simpa [Elem.sem] using this.symm
    rw [hw]
    by_cases hm : c.activeCount k > 1 <;> simp [Ctx.wrapOf, Ctx.multi, hm, hs, ha]

/-- the spawn wrapper prints as `{ __spawn_tokio(Box::pin(chain)) }` -/
theorem tokio_elem_printed (e : Elem) (hw : e.wrap = .tokio) (hl : e.lazy = false) :
    printElem e = [brace [Var.spawnTokio.tok, paren ([kw "Box"] ++ pathSep ++ [kw "pin", paren e.chain])]] := by
  simp [printElem, hw, hl]

/-- later steps start from the previous result wrapped into a future: `async move { r }` -/
theorem async_step_start (t : Toks) : wrapIntoBlock true t = [id' "async", id' "move", brace t] := rfl

/-! ### 2. canonical schedule -/

/-- `join_async!` / `join_async_spawn!` (and alias): the meaning of the generated code under the canonical schedule is
    the reference semantics — events and result, for every program, world and size. -/
theorem async_canonical (σ : World) (parent : Option String) (p : Input) (kind : Kind) (code : Code)
    (hs : Supported p kind) (_ha : kind.isAsync = true) (hgen : gen p kind = .ok code) :
    evalCode σ parent code = specRun σ parent p kind := sync_refines σ parent p kind code hs hgen

/-- the theorem is not vacuous: a two-branch, two-step program under `join_async!` is supported and generates code -/
example :
    let p : Input := { branches := [⟨none, [⟨.initial, false, .none, [⟨.expr, [.ident "a"]⟩]⟩,
                                              ⟨.map, true, .none, [⟨.expr, [.ident "f"]⟩]⟩]⟩,
                                     ⟨none, [⟨.initial, false, .none, [⟨.expr, [.ident "b"]⟩]⟩]⟩] }
    (gen p ⟨true, false, false⟩).toOption.isSome = true := by decide

/-- `try_join_async!` / `try_join_async_spawn!` (and aliases): under the canonical schedule the generated code is the
    async-try reference semantics (`specRunAT`: a step stops at its first failing chain). -/
theorem async_try_canonical (σ : World) (parent : Option String) (p : Input) (kind : Kind) (code : Code)
    (hs : SupportedAT p kind) (hgen : gen p kind = .ok code) :
    evalCode σ parent code = specRunAT σ parent p kind := async_try_refines σ parent p kind code hs hgen

/-! ### 3. every schedule -/

/-- no chain of the world panics (a panic ends the future at the poll in which it happens; which one that is, is
    schedule dependent) -/
def NoChainPanic (σ : World) : Prop := ∀ b k prev caps vis, isPanicUR (σ.chain b k prev caps vis).res = false

theorem planLoop_nostop (c : SpecCfg) (pend : Pend) (hnp : NoChainPanic c.σ) (htry : c.kind.isTry = false) (rem k : Nat)
    (vals : List (Option Value)) :
    (planLoop c pend rem k vals).2.NoStop := by
  induction rem generalizing k vals with
  | zero =>
    unfold planLoop
    simp only
    split
    · exact .done _
    · exact .done _
    · refine .step _ _ _ _ _ ?_ (fun _ => .done _)
      intro t ht
      obtain ⟨bc, _, rfl⟩ := List.mem_map.mp ht
      simp only [stopOf, htry, Bool.false_and, Bool.or_false]
      exact hnp _ _ _ _ _
  | succ rem ih =>
    unfold planLoop
    simp only
    split
    · exact .done _
    · exact .done _
    · refine .step _ _ _ _ _ ?_ (fun _ => ih _ _)
      intro t ht
      obtain ⟨bc, _, rfl⟩ := List.mem_map.mp ht
      simp only [stopOf, htry, Bool.false_and, Bool.or_false]
      exact hnp _ _ _ _ _

/-- **Every schedule.**  `join_async!{ p }` without a handler, in a world whose chains do not panic, with arbitrary
    pending points `pend` inside the chains: whatever gates are open at the successive polls `gs` (any order, any
    batches, spurious polls), once the future is polled with every gate open it is complete; its result is the result of
    the generated code, and the events it has emitted over all polls are the generated code's events, each exactly once. -/
theorem join_async_every_schedule (σ : World) (parent : Option String) (p : Input) (kind : Kind) (code : Code)
    (hs : Supported p kind) (ha : kind.isAsync = true) (hh : p.handler = none) (hgen : gen p kind = .ok code)
    (hnp : NoChainPanic σ) (pend : Pend) (gs : List Gates) :
    let c := cfgFor σ parent p kind
    let pl := planLoop c pend (c.maxDepth - 1) 0 (List.replicate c.n none)
    (pl.2.run (gs ++ [allOpen])).2 = .done (loopOf σ parent p kind).res ∧
    (pl.1 ++ (pl.2.run (gs ++ [allOpen])).1).Perm (evalCode σ parent code).trace := by
  intro c pl
  have htry : kind.isTry = false := hs.asyncNotTry ha
  have hth : c.kind.threads = false := by
    show kind.threads = false
    simp [Kind.threads, ha]
  obtain ⟨c1, c2⟩ := planLoop_canon c pend hth htry (c.maxDepth - 1) 0 (List.replicate c.n none)
  obtain ⟨r1, r2⟩ := Plan.run_complete gs pl.2 (planLoop_nostop c pend hnp htry _ _ _)
  refine ⟨by rw [r1, c2]; rfl, ?_⟩
  rw [sync_refines σ parent p kind code hs hgen, (run_trace_no_handler σ parent p kind hh).1]
  show (pl.1 ++ (pl.2.run (gs ++ [allOpen])).1).Perm (specLoop c (c.maxDepth - 1) 0 (List.replicate c.n none)).trace
  rw [← c1]
  exact List.Perm.append_left _ r2

/-- **Laziness** (model): before the first poll nothing has been emitted; in particular the block captures of step 0
    (`pl.1`) belong to the first poll, not to the creation of the future. -/
theorem nothing_before_first_poll (c : SpecCfg) (pend : Pend) (rem : Nat) (vals : List (Option Value)) :
    ((planLoop c pend rem 0 vals).2.run []).1 = [] := rfl

/-- **A pending branch never blocks a ready sibling**: in one poll of a step of a `join!` plan every operand advances
    exactly as far as its own gates allow. -/
theorem siblings_independent (op : Gates) (ts : List (Task MEv (UR Value))) :
    (pollStep op (fun _ => false) ts).2.1 = ts.map (fun t => (t.poll op).2) := (pollStep_join op ts).1

/-- **No lost wake-up**: a future left pending by a poll waits on at least one gate, and every gate it waits on is
    closed — for `join!` and `try_join!` plans alike. -/
theorem pending_only_on_closed_gates (op : Gates) (pl : Plan MEv (UR Value) (Res Fin)) (h : (pl.poll op).2.isDone = false) :
    (pl.poll op).2.wakeSet ≠ [] ∧ ∀ g ∈ (pl.poll op).2.wakeSet, op g = false := Plan.pending_blocked op pl h

end JoinModel.Props.C09
