/-
  Order of the hoisted definitions of a generated step: ascending in (branch, position of the action in its step, operand
  index) — the order in which `let __ew{b}_{e}_{i} = {…};` are written, hence evaluated.  Used by Props/C11.
-/
import JoinModel.Lemmas.CtxFacts
import JoinModel.Refinement
namespace JoinModel

/-- lexicographic order on (position, operand index) -/
def lex2 (a b : Nat × Nat) : Prop := a.1 < b.1 ∨ (a.1 = b.1 ∧ a.2 < b.2)

/-- lexicographic order on (branch, position, operand index) -/
def lex3 (a b : Nat × Nat × Nat) : Prop := a.1 < b.1 ∨ (a.1 = b.1 ∧ lex2 a.2 b.2)

theorem hoist_keys_sorted (b e : Nat) (m : Member) :
    ((hoist b e m).1.map (fun d => (d.e, d.i))).Pairwise lex2 ∧ ∀ d ∈ (hoist b e m).1, d.e = e := by
  unfold hoist
  split
  · refine ⟨?_, ?_⟩
    · -- the operand indices are a sublist of 0, 1, 2, …
      have hsub := filterMap_snd_sublist m.ops.zipIdx (fun oi => decide (oi.1.kind = .block))
      have hlt : (m.ops.zipIdx.map Prod.snd).Pairwise (· < ·) := by
        rw [List.zipIdx_map_snd]; exact List.pairwise_lt_range'
      have hs := List.Pairwise.sublist hsub hlt
      have hf : ((m.ops.zipIdx.filterMap fun (x : Operand × Nat) =>
            if x.1.kind = .block then some (⟨b, e, x.2, x.1.toks⟩ : CapDef) else none).map fun d => (d.e, d.i)) =
          (m.ops.zipIdx.filterMap (fun x => if decide (x.1.kind = OpKind.block) = true then some x.2 else none)).map
            (fun i => (e, i)) := by
        simp only [List.map_filterMap]
        congr 1
        funext oi
        by_cases h : oi.1.kind = .block <;> simp [h]
      have e1 : (fun (x : Operand × Nat) =>
          match x with
          | (o, i) => if o.kind = .block then some (⟨b, e, i, o.toks⟩ : CapDef) else none) =
          fun x => if x.1.kind = .block then some (⟨b, e, x.2, x.1.toks⟩ : CapDef) else none := by
        funext x; obtain ⟨o, i⟩ := x; rfl
      rw [e1, hf]
      exact List.Pairwise.map _ (fun i j hij => Or.inr ⟨rfl, hij⟩) hs
    · intro d hd
      simp only [List.mem_filterMap] at hd
      obtain ⟨⟨o, i⟩, _, h2⟩ := hd
      simp only at h2
      split at h2
      · cases h2; rfl
      · cases h2
  · simp

theorem capDefsOf_sorted (b : Nat) (acts : List Member) (e : Nat) :
    ((capDefsOf b acts e).map (fun d => (d.e, d.i))).Pairwise lex2 := by
  induction acts generalizing e with
  | nil => simp [capDefsOf]
  | cons m ms ih =>
    simp only [capDefsOf, List.map_append]
    refine List.pairwise_append.mpr ⟨?_, ih (e + 1), ?_⟩
    · split
      · exact (hoist_keys_sorted b e m).1
      · simp
    · intro x hx y hy
      have h1 : x.1 = e := by
        split at hx
        · obtain ⟨d, hd, rfl⟩ := List.mem_map.mp hx
          exact (hoist_keys_sorted b e m).2 d hd
        · simp at hx
      obtain ⟨d, hd, rfl⟩ := List.mem_map.mp hy
      have := capDefsOf_e_ge b ms (e + 1) d hd
      exact Or.inl (by simp only at h1 ⊢; omega)

/-- the definitions of several branches, the branches ascending -/
theorem flatMap_capDefs_sorted (acts : Nat → List Member) :
    ∀ (bs : List Nat), bs.Pairwise (· < ·) →
      ((bs.flatMap fun b => capDefsOf b (acts b) 0).map fun d => (d.b, d.e, d.i)).Pairwise lex3 := by
  intro bs
  induction bs with
  | nil => intro _; simp
  | cons b bs ih =>
    intro hp
    have hp' := List.pairwise_cons.mp hp
    simp only [List.flatMap_cons, List.map_append]
    refine List.pairwise_append.mpr ⟨?_, ih hp'.2, ?_⟩
    · have hs := capDefsOf_sorted b (acts b) 0
      have hb := capDefsOf_b b (acts b) 0
      generalize capDefsOf b (acts b) 0 = ds at hs hb
      induction ds with
      | nil => simp
      | cons d ds ihd =>
        simp only [List.map_cons, List.pairwise_cons] at hs ⊢
        refine ⟨?_, ihd hs.2 (fun x hx => hb x (by simp [hx]))⟩
        intro y hy
        obtain ⟨d', hd', rfl⟩ := List.mem_map.mp hy
        exact Or.inr ⟨by rw [hb d (by simp), hb d' (by simp [hd'])], hs.1 _ (List.mem_map.mpr ⟨d', hd', rfl⟩)⟩
    · intro x hx y hy
      obtain ⟨d, hd, rfl⟩ := List.mem_map.mp hx
      obtain ⟨d', hd', rfl⟩ := List.mem_map.mp hy
      obtain ⟨b', hb', hd''⟩ := List.mem_flatMap.mp hd'
      have h1 := capDefsOf_b b (acts b) 0 d hd
      have h2 := capDefsOf_b b' (acts b') 0 d' hd''
      exact Or.inl (by simp only; rw [h1, h2]; exact hp'.1 b' hb')

/-- any world (the shape of a generated step does not depend on it) -/
def anyWorld : World where
  capture _ _ _ _ _ := .ok (.atom 0)
  chain _ _ _ _ _ := ⟨[], .ok (.atom 0)⟩
  handlerDef := .ok ()
  handlerCall _ := .ok (.atom 0)
  joiner _ vs := .ok (mkTuple vs)

/-- **The hoisted definitions of a generated step are written in (branch, position, operand) order.** -/
theorem genStep_defs_sorted {p : Input} {kind : Kind} (hs : SupportedBase p) {c : Ctx} (hc : mkCtx p kind = .ok c)
    (k : Nat) (s : StepCode) (h : genStep c k = .ok s) :
    (s.defs.map fun d => (d.b, d.e, d.i)).Pairwise lex3 := by
  obtain ⟨ok, _⟩ := mkCtx_ok hs hc
  obtain ⟨_, hdefs, _⟩ := genStep_shape ok anyWorld none k s h
  rw [hdefs]
  apply flatMap_capDefs_sorted
  unfold Ctx.activeIdx
  exact List.Pairwise.sublist List.filter_sublist List.pairwise_lt_range

end JoinModel
