/-
  Helper lemmas: the evaluation monad, association-list lookups, tuples.
-/
import JoinModel.Sem
namespace JoinModel

/-! ### The evaluation monad -/
namespace M

@[ext] theorem ext' {α} {a b : M α} (h1 : a.trace = b.trace) (h2 : a.res = b.res) : a = b := by
  cases a; cases b; simp_all

@[simp] theorem ret_andThen {α β} (a : α) (f : α → M β) : (M.ret a).andThen f = f a := by
  simp [M.ret, M.andThen]

@[simp] theorem stuck_andThen {α β} (f : α → M β) : (M.stuck : M α).andThen f = M.stuck := by
  simp [M.stuck, M.andThen]

@[simp] theorem lift_ok_andThen {α β} (a : α) (f : α → M β) : (M.lift (.ok a)).andThen f = f a := by
  simp [M.lift, M.andThen]

@[simp] theorem lift_panic_andThen {α β} (s : Site) (f : α → M β) :
    (M.lift (.panic s) : M α).andThen f = M.lift (.panic s) := by
  simp [M.lift, M.andThen]

@[simp] theorem andThen_ret {α} (m : M α) : m.andThen M.ret = m := by
  cases m with
  | mk t r => cases r <;> simp [M.andThen, M.ret]

theorem andThen_assoc {α β γ} (m : M α) (f : α → M β) (g : β → M γ) :
    (m.andThen f).andThen g = m.andThen fun a => (f a).andThen g := by
  cases m with
  | mk t r =>
    cases r with
    | ok a =>
      simp only [M.andThen]
      cases h : (f a).res <;> simp [List.append_assoc]
    | panic s => simp [M.andThen]
    | stuck => simp [M.andThen]

@[simp] theorem tell_andThen_trace {β} (es : List MEv) (f : Unit → M β) :
    ((M.tell es).andThen f).trace = es ++ (f ()).trace := by
  simp [M.tell, M.andThen]

@[simp] theorem tell_andThen_res {β} (es : List MEv) (f : Unit → M β) :
    ((M.tell es).andThen f).res = (f ()).res := by
  simp [M.tell, M.andThen]

/-- prefixing a trace -/
def pre {α} (es : List MEv) (m : M α) : M α := ⟨es ++ m.trace, m.res⟩

theorem tell_andThen {β} (es : List MEv) (f : Unit → M β) : (M.tell es).andThen f = pre es (f ()) := by
  simp [M.tell, M.andThen, pre]

@[simp] theorem pre_nil {α} (m : M α) : pre [] m = m := by simp [pre]

theorem pre_andThen {α β} (es : List MEv) (m : M α) (f : α → M β) :
    (pre es m).andThen f = pre es (m.andThen f) := by
  cases m with
  | mk t r => cases r <;> simp [pre, M.andThen, List.append_assoc]

theorem pre_pre {α} (a b : List MEv) (m : M α) : pre a (pre b m) = pre (a ++ b) m := by
  simp [pre, List.append_assoc]

@[simp] theorem ofOption_some {α} (a : α) : M.ofOption (some a) = M.ret a := rfl
@[simp] theorem ofOption_none {α} : (M.ofOption none : M α) = M.stuck := rfl

end M

/-! ### Association lists -/

theorem lookup_eq_none_of_not_mem {α β} [BEq α] [LawfulBEq α] (k : α) (l : List (α × β))
    (h : k ∉ l.map Prod.fst) : l.lookup k = none := by
  induction l with
  | nil => rfl
  | cons x xs ih =>
    obtain ⟨k', v⟩ := x
    simp only [List.map_cons, List.mem_cons, not_or] at h
    have hne : (k == k') = false := by simpa using h.1
    simp [List.lookup, hne, ih h.2]

theorem lookup_append {α β} [BEq α] (k : α) (l₁ l₂ : List (α × β)) :
    (l₁ ++ l₂).lookup k = (l₁.lookup k).or (l₂.lookup k) := by
  induction l₁ with
  | nil => simp [List.lookup]
  | cons x xs ih =>
    obtain ⟨k', v⟩ := x
    simp only [List.cons_append, List.lookup]
    cases h : (k == k') <;> simp [ih]

/-- with distinct keys, a zipped association list finds each key's value -/
theorem lookup_zip_of_nodup {α β} [BEq α] [LawfulBEq α] (ks : List α) (vs : List β) (hl : ks.length = vs.length)
    (hnd : ks.Nodup) (i : Nat) (hi : i < ks.length) :
    (ks.zip vs).lookup ks[i] = some (vs[i]'(hl ▸ hi)) := by
  induction ks generalizing vs i with
  | nil => simp at hi
  | cons k ks ih =>
    cases vs with
    | nil => simp at hl
    | cons v vs =>
      cases i with
      | zero => simp [List.lookup]
      | succ i =>
        simp only [List.length_cons, Nat.add_lt_add_iff_right] at hi
        have hne : (ks[i] == k) = false := by
          have : ks[i] ≠ k := by
            intro h
            have hmem : k ∈ ks := h ▸ List.getElem_mem hi
            exact (List.nodup_cons.mp hnd).1 hmem
          simpa using this
        simp only [List.zip_cons_cons, List.getElem_cons_succ, List.lookup, hne]
        exact ih vs (by simpa using hl) (List.nodup_cons.mp hnd).2 i hi

/-! ### Tuples -/

@[simp] theorem unspine_spine (vs : List Value) : unspine (spine vs) = some vs := by
  induction vs with
  | nil => rfl
  | cons v vs ih => simp [spine, unspine, ih]

theorem untuple_mkTuple (vs : List Value) : untuple vs.length (mkTuple vs) = some vs := by
  match vs with
  | [] => simp [untuple, mkTuple, spine, unspine]
  | [v] => simp [untuple, mkTuple]
  | a :: b :: rest => simp [untuple, mkTuple]

end JoinModel
