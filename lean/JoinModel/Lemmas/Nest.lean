/-
  Nested combinators: the generator's stack of partial chains (ChainGen.lean, mirroring
  `process_step_action_expr` / `wrap_last_step_stream` / the closing loop) computes exactly the documented
  desugaring `X >>> inner… <<< rest  ↦  .x(|__v| __v inner…) rest`, defined here by recursive descent.
-/
import JoinModel.ChainGen
namespace JoinModel

/-- Result of descending into one nesting level: the stream built, the actions not consumed, the position of the
    next action, the hoisted definitions so far, and whether the level was closed by an explicit `<<<`
    (`false`: the actions ran out — wrappers close implicitly at the end of the step). -/
structure NestOut where
  toks : Toks
  rest : List Member
  pos : Nat
  defs : List CapDef
  closed : Bool

/-- apply the wrapper operator `w` to `outer`, with the closure `|__v| inner` as its operand -/
def applyWrapper (a : Bool) (outer : Toks) (w : Member) (inner : Toks) : Except ChainErr Toks :=
  if w.ops.length ≠ 1 then .error .replaceFailed else applyCtor a outer w.ctor [closureToks inner]

/-- The documented reading of a step's action list, by recursive descent. -/
def nestGo (a : Bool) (b : Nat) : Nat → Toks → List Member → Nat → List CapDef → Except ChainErr NestOut
  | 0, _, _, _, _ => .error .zeroStepStreams
  | _ + 1, cur, [], e, defs => .ok ⟨cur, [], e, defs, false⟩
  | fuel + 1, cur, m :: ms, e, defs =>
    match m.mv with
    | .none =>
      match applyCtor a cur m.ctor (hoist b e m).2 with
      | .ok t => nestGo a b fuel t ms (e + 1) (defs ++ (hoist b e m).1)
      | .error er => .error er
    | .unwrap => .ok ⟨cur, ms, e + 1, defs, true⟩
    | .wrap =>
      match nestGo a b fuel [Var.v.tok] ms (e + 1) defs with
      | .error er => .error er
      | .ok inner =>
        match applyWrapper a cur m inner.toks with
        | .error er => .error er
        | .ok t => nestGo a b fuel t inner.rest inner.pos inner.defs

/-- close every open wrapper, innermost first -/
def unwind (a : Bool) : Toks → List Frame → Except ChainErr Toks
  | t, [] => .ok t
  | t, ⟨o, some (w, _)⟩ :: below =>
    match applyWrapper a o w t with
    | .ok t' => unwind a t' below
    | .error er => .error er
  | _, ⟨_, none⟩ :: _ => .error .expectedWrapper

theorem wrapLast_eq (a : Bool) (defs : List CapDef) (inner : Frame) (o : Toks) (w : Member) (x : Nat) (rest : List Frame) :
    wrapLast a ⟨defs, inner :: ⟨o, some (w, x)⟩ :: rest⟩ =
      match applyWrapper a o w inner.toks with
      | .ok t => .ok ⟨defs, ⟨t, none⟩ :: rest⟩
      | .error er => .error er := by
  simp only [wrapLast, applyWrapper]
  by_cases h : w.ops.length ≠ 1
  · simp [h]
  · simp only [h, if_false]
    cases applyCtor a o w.ctor [closureToks inner.toks] <;> rfl

theorem closeAll_eq (a : Bool) (fuel : Nat) (defs : List CapDef) (top : Frame) (below : List Frame)
    (hf : below.length + 1 ≤ fuel) :
    closeAll a fuel ⟨defs, top :: below⟩ = (unwind a top.toks below).map fun t => (defs, t) := by
  induction below generalizing fuel top with
  | nil =>
    cases fuel with
    | zero => omega
    | succ n => simp [closeAll, unwind, Except.map]
  | cons f below ih =>
    cases fuel with
    | zero => omega
    | succ n =>
      obtain ⟨o, wr⟩ := f
      cases wr with
      | none => simp [closeAll, wrapLast, unwind, Except.map]
      | some wx =>
        obtain ⟨w, x⟩ := wx
        simp only [closeAll, wrapLast_eq, unwind]
        cases hap : applyWrapper a o w top.toks with
        | error er => simp [Except.map]
        | ok t =>
          simp only
          exact ih n ⟨t, none⟩ (by simp at hf; omega)

/-- the descent never lengthens the remaining input -/
theorem nestGo_rest_le (a : Bool) (b : Nat) (fuel : Nat) (cur : Toks) (ms : List Member) (e : Nat) (defs : List CapDef)
    (r : NestOut) (h : nestGo a b fuel cur ms e defs = .ok r) : r.rest.length ≤ ms.length := by
  induction fuel generalizing cur ms e defs r with
  | zero => simp [nestGo] at h
  | succ n ih =>
    cases ms with
    | nil => simp [nestGo] at h; subst h; simp
    | cons m ms =>
      simp only [nestGo] at h
      split at h
      · split at h
        · have := ih _ _ _ _ _ h; simp; omega
        · cases h
      · cases h; simp
      · split at h
        · cases h
        · rename_i inner hin
          split at h
          · cases h
          · have h1 := ih _ _ _ _ _ hin
            have h2 := ih _ _ _ _ _ h
            simp; omega

/-- a level that was not closed explicitly consumed all actions -/
theorem nestGo_open_rest (a : Bool) (b : Nat) (fuel : Nat) (cur : Toks) (ms : List Member) (e : Nat) (defs : List CapDef)
    (r : NestOut) (h : nestGo a b fuel cur ms e defs = .ok r) (hc : r.closed = false) : r.rest = [] := by
  induction fuel generalizing cur ms e defs r with
  | zero => simp [nestGo] at h
  | succ n ih =>
    cases ms with
    | nil => simp [nestGo] at h; subst h; rfl
    | cons m ms =>
      simp only [nestGo] at h
      split at h
      · split at h
        · exact ih _ _ _ _ _ h hc
        · cases h
      · cases h; simp at hc
      · split at h
        · cases h
        · split at h
          · cases h
          · exact ih _ _ _ _ _ h hc

/-- run the remaining actions of a step on the stack, then close what is still open -/
def runStack (a : Bool) (b : Nat) (acc : Acc) (ms : List Member) (e : Nat) : Except ChainErr (List CapDef × Toks) :=
  match processActions a b acc ms e with
  | .ok acc' => closeAll a (acc'.frames.length + 1) acc'
  | .error er => .error er

/-- The stack machine against the recursive descent, for any stack. -/
theorem runStack_eq (a : Bool) (b : Nat) (fuel : Nat) (defs : List CapDef) (cur : Toks) (below : List Frame)
    (ms : List Member) (e : Nat) (hf : ms.length + 1 ≤ fuel) :
    runStack a b ⟨defs, ⟨cur, none⟩ :: below⟩ ms e =
      match nestGo a b fuel cur ms e defs with
      | .error er => .error er
      | .ok r =>
        if r.closed then
          match below with
          | [] => .error .stepExprsLenZero
          | ⟨_, none⟩ :: _ => .error .expectedWrapper
          | ⟨o, some (w, _)⟩ :: below' =>
            match applyWrapper a o w r.toks with
            | .error er => .error er
            | .ok t => runStack a b ⟨r.defs, ⟨t, none⟩ :: below'⟩ r.rest r.pos
        else (unwind a r.toks below).map fun t => (r.defs, t) := by
  induction fuel generalizing defs cur below ms e with
  | zero => omega
  | succ n ih =>
    cases ms with
    | nil =>
      simp only [runStack, processActions, nestGo, Bool.false_eq_true, if_false]
      exact closeAll_eq a _ defs ⟨cur, none⟩ below (by simp)
    | cons m ms =>
      have hf' : ms.length + 1 ≤ n := by simp at hf; omega
      simp only [nestGo]
      cases hmv : m.mv with
      | none =>
        simp only [runStack, processActions, processAction, hmv]
        cases hap : applyCtor a cur m.ctor (hoist b e m).2 with
        | error er => simp
        | ok t =>
          simp only
          have := ih (defs ++ (hoist b e m).1) t below ms (e + 1) hf'
          simp only [runStack] at this
          exact this
      | unwrap =>
        simp only [runStack, processActions, processAction, hmv, if_true]
        cases below with
        | nil => simp [wrapLast]
        | cons f below' =>
          obtain ⟨o, wr⟩ := f
          cases wr with
          | none => simp [wrapLast]
          | some wx =>
            obtain ⟨w, x⟩ := wx
            simp only [wrapLast_eq]
            cases applyWrapper a o w cur with
            | error er => simp
            | ok t => simp only [runStack]
      | wrap =>
        simp only [runStack, processActions, processAction, hmv]
        have hin := ih defs [Var.v.tok] (⟨cur, some (m, e)⟩ :: below) ms (e + 1) hf'
        simp only [runStack] at hin
        rw [hin]
        cases hng : nestGo a b n [Var.v.tok] ms (e + 1) defs with
        | error er => simp
        | ok inner =>
          simp only
          have hrl := nestGo_rest_le a b n _ ms _ _ inner hng
          by_cases hcl : inner.closed = true
          · simp only [hcl, if_true]
            cases hap : applyWrapper a cur m inner.toks with
            | error er => simp
            | ok t =>
              simp only
              have := ih inner.defs t below inner.rest inner.pos (by omega)
              simp only [runStack] at this ⊢
              exact this
          · simp only [hcl, Bool.false_eq_true, if_false, unwind]
            cases hap : applyWrapper a cur m inner.toks with
            | error er => simp [Except.map]
            | ok t =>
              simp only
              -- the descent stopped because the actions ran out: the continuation sees no actions
              have hrest := nestGo_open_rest a b n _ ms _ _ inner hng (by simpa using hcl)
              rw [hrest]
              cases n with
              | zero => omega
              | succ n' => simp [nestGo, Except.map]

end JoinModel
