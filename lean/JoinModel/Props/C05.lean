/-
  C05 — try macros: all-success tuple, otherwise the first failure, unchanged.

  Stated on the reference loop and carried to the generated code by `generated_eq_reference`
  (Props/Common.lean).  `chainEnds t` lists the chains that ran to completion in trace `t` as
  `(branch, step, returned value)`, including those that ran on spawned threads.
-/
import JoinModel.Props.Common
namespace JoinModel.Props.C05
open JoinModel JoinModel.Props

/-- A try macro whose loop ends in success: every chain that ran returned `Some`/`Ok`. -/
theorem try_success_all_chains_succeeded (σ : World) (parent : Option String) (p : Input) (kind : Kind)
    (htry : kind.isTry = true) (ps : List Value) (h : (loopOf σ parent p kind).res = .ok (.vals ps)) :
    ∀ e ∈ chainEnds (loopOf σ parent p kind).trace, e.2.2.isSucc = true :=
  specLoop_try (cfgFor σ parent p kind) htry _ 0 _ (by simp [SpecCfg.n]) (allSucc_init _) (.vals ps) h

/-- A try macro whose loop ends in failure returns, unchanged, the value `v` that the chain of branch `b`
    returned in step `j`, where `j` is the earliest step in which a chain failed and `b` the lowest-numbered
    branch failing in that step.  (Sequential and thread-spawning macros.) -/
theorem try_failure_is_first_failure (σ : World) (parent : Option String) (p : Input) (kind : Kind)
    (htry : kind.isTry = true) (v : Value) (h : (loopOf σ parent p kind).res = .ok (.failed v)) :
    v.isSucc = false ∧ ∃ b j, (b, j, v) ∈ chainEnds (loopOf σ parent p kind).trace ∧
      ∀ e ∈ chainEnds (loopOf σ parent p kind).trace, e.2.2.isSucc = false → j ≤ e.2.1 ∧ (e.2.1 = j → b ≤ e.1) := by
  have := specLoop_try (cfgFor σ parent p kind) htry _ 0 _ (by simp [SpecCfg.n]) (allSucc_init _) (.failed v) h
  obtain ⟨h1, b, j, _, h3, h4, _, _⟩ := this
  exact ⟨h1, b, j, h3, h4⟩

/-- The macro's value: `Ok(tuple of payloads)` on success, the failing value itself on failure
    (no handler; with a handler see C13). -/
theorem try_value (σ : World) (parent : Option String) (p : Input) (kind : Kind) (htry : kind.isTry = true) (f : Fin) :
    specHandle (cfgFor σ parent p kind) none f =
      match f with
      | .vals ps => M.ret (.succ (mkTuple ps))
      | .failed v => M.ret v := by
  cases f <;> simp [specHandle, cfgFor, htry]

/-- "exactly when": if every chain that ran succeeded and the run did not panic, the result is the success tuple. -/
theorem try_success_iff (σ : World) (parent : Option String) (p : Input) (kind : Kind)
    (htry : kind.isTry = true) (f : Fin) (h : (loopOf σ parent p kind).res = .ok f) :
    (∃ ps, f = .vals ps) ↔ ∀ e ∈ chainEnds (loopOf σ parent p kind).trace, e.2.2.isSucc = true := by
  constructor
  · rintro ⟨ps, rfl⟩
    exact try_success_all_chains_succeeded σ parent p kind htry ps h
  · intro hall
    cases f with
    | vals ps => exact ⟨ps, rfl⟩
    | failed v =>
      obtain ⟨hv, b, j, hmem, _⟩ := try_failure_is_first_failure σ parent p kind htry v h
      have := hall _ hmem
      simp only at this
      rw [hv] at this; cases this

/-- The same for the code the macro expands to (no handler): its events and result are those of the loop. -/
theorem generated_try_result (σ : World) (parent : Option String) (p : Input) (kind : Kind) (code : Code)
    (hs : Supported p kind) (hgen : gen p kind = .ok code) (htry : kind.isTry = true) (hh : p.handler = none)
    (r : Value) (hr : (evalCode σ parent code).res = .ok r) :
    (∃ ps, r = .succ (mkTuple ps) ∧ ∀ e ∈ chainEnds (evalCode σ parent code).trace, e.2.2.isSucc = true) ∨
    (r.isSucc = false ∧ ∃ b j, (b, j, r) ∈ chainEnds (evalCode σ parent code).trace ∧
      ∀ e ∈ chainEnds (evalCode σ parent code).trace, e.2.2.isSucc = false → j ≤ e.2.1 ∧ (e.2.1 = j → b ≤ e.1)) := by
  rw [generated_eq_reference σ parent p kind code hs hgen] at hr ⊢
  obtain ⟨ht, hres⟩ := run_trace_no_handler σ parent p kind hh
  rw [ht]
  rw [hres] at hr
  obtain ⟨f, hf, hr⟩ := M.andThen_res_ok hr
  rw [try_value σ parent p kind htry f] at hr
  cases f with
  | vals ps =>
    simp [M.ret] at hr; subst hr
    exact Or.inl ⟨ps, rfl, try_success_all_chains_succeeded σ parent p kind htry ps hf⟩
  | failed v =>
    simp [M.ret] at hr; subst hr
    exact Or.inr (try_failure_is_first_failure σ parent p kind htry v hf)

/-- The same from the tokens the caller wrote: parser, generator and evaluation composed (any behaviour of syn). -/
theorem accepted_try_result (o : Oracle) (toks : Toks) (σ : World) (parent : Option String) (p : Input) (kind : Kind)
    (code : Code) (hparse : parseMacroInput o toks = .ok p) (hd : PlainInvocation p kind) (hgen : gen p kind = .ok code)
    (htry : kind.isTry = true) (hh : p.handler = none) (r : Value) (hr : (evalCode σ parent code).res = .ok r) :
    (∃ ps, r = .succ (mkTuple ps) ∧ ∀ e ∈ chainEnds (evalCode σ parent code).trace, e.2.2.isSucc = true) ∨
    (r.isSucc = false ∧ ∃ b j, (b, j, r) ∈ chainEnds (evalCode σ parent code).trace ∧
      ∀ e ∈ chainEnds (evalCode σ parent code).trace, e.2.2.isSucc = false → j ≤ e.2.1 ∧ (e.2.1 = j → b ≤ e.1)) :=
  generated_try_result σ parent p kind code (accepted_supported o toks p kind hparse hd) hgen htry hh r hr

/-- Non-vacuity and regression for the defect fixed in /repo 704b5ce: depths (1, 3, 3), branch 1 fails in step 1. -/
def d1World : World where
  capture _ _ _ _ _ := .ok (.atom 0)
  chain b k prev _ _ := ⟨[], .ok (if b = 1 ∧ k = 1 then .fail (.atom 7) else .succ (.atom (b + 10 * k)))⟩
  handlerDef := .ok ()
  handlerCall _ := .ok (.atom 0)
  joiner _ vs := .ok (mkTuple vs)

def d1Prog : Input :=
  let ini : Member := ⟨.initial, false, .none, [⟨.expr, []⟩]⟩
  let stp : Member := ⟨.map, true, .none, [⟨.expr, []⟩]⟩
  { branches := [⟨none, [ini]⟩, ⟨none, [ini, stp, stp]⟩, ⟨none, [ini, stp, stp]⟩] }

example : (match gen d1Prog ⟨false, true, false⟩ with
    | .ok code => (evalCode d1World none code).res
    | .error _ => .stuck) = .ok (.fail (.atom 7)) := by decide

example : (specRun d1World none d1Prog ⟨false, true, false⟩).res = .ok (.fail (.atom 7)) := by decide

end JoinModel.Props.C05
