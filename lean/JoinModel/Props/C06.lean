/-
  C06 — try macros: a failed step aborts everything after it.
  Reference loop + bridge (`generated_eq_reference`).  Every event carries its step (`MEv.step`): block
  captures, chain starts/ends, callbacks inside chains, forks/joins of branch threads.
-/
import JoinModel.Props.Common
namespace JoinModel.Props.C06
open JoinModel JoinModel.Props

/-- When the loop of a try macro ends in failure there is a failing step `j` such that nothing that belongs
    to a later step appears in the trace — no capture, chain, callback, fork — and every branch active in
    step `j` ran its chain of that step to the end. -/
theorem no_later_step_after_failure (σ : World) (parent : Option String) (p : Input) (kind : Kind)
    (htry : kind.isTry = true) (v : Value) (h : (loopOf σ parent p kind).res = .ok (.failed v)) :
    ∃ b j, (b, j, v) ∈ chainEnds (loopOf σ parent p kind).trace ∧
      (∀ e ∈ (loopOf σ parent p kind).trace, ∀ s, e.step = some s → s ≤ j) ∧
      (∀ b' ∈ (cfgFor σ parent p kind).active j, ∃ v', (b', j, v') ∈ chainEnds (loopOf σ parent p kind).trace) := by
  have := specLoop_try (cfgFor σ parent p kind) htry _ 0 _ (by simp [SpecCfg.n]) (allSucc_init _) (.failed v) h
  obtain ⟨_, b, j, _, h3, _, h5, h6⟩ := this
  exact ⟨b, j, h3, h5, h6⟩

/-- A `map` / `and_then` handler is not called after a failure: the failing value is the macro's value and no
    event is added. -/
theorem handler_not_called_on_failure (sc : SpecCfg) (h : Option HKind) (v : Value) :
    specHandle sc h (.failed v) = M.ret v := by
  cases h with
  | none => rfl
  | some k => cases k <;> rfl

/-- The whole run of a failing try macro with a handler: the trace is "handler definition, then the loop";
    in particular it contains no `handlerCall` event. -/
theorem failing_run_trace (σ : World) (parent : Option String) (p : Input) (kind : Kind) (v : Value)
    (hd : σ.handlerDef = .ok ()) (h : (loopOf σ parent p kind).res = .ok (.failed v)) :
    (specRun σ parent p kind).res = .ok v ∧
    (specRun σ parent p kind).trace = (handlerDefOf σ p).trace ++ (loopOf σ parent p kind).trace := by
  rw [specRun_eq]
  have hdr : (handlerDefOf σ p).res = .ok () := by
    unfold handlerDefOf
    cases p.handler <;> simp [M.ret, M.tell, M.andThen, M.lift, hd, UR.toRes]
  obtain ⟨t1, r1⟩ := M.andThen_trace_ok (f := fun _ => (loopOf σ parent p kind).andThen fun f =>
    specHandle (cfgFor σ parent p kind) (p.handler.map Prod.fst) f) hdr
  obtain ⟨t2, r2⟩ := M.andThen_trace_ok (f := fun f =>
    specHandle (cfgFor σ parent p kind) (p.handler.map Prod.fst) f) h
  rw [t1, r1, t2, r2, handler_not_called_on_failure]
  simp [M.ret]

end JoinModel.Props.C06
