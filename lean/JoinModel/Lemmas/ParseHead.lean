/-
  The first member of every branch the parser model returns is the branch's initial value (constructor `initial`, not
  deferred): the fact `SupportedBase.firstInitial` asks of the refinement theorems' inputs, here derived from the parser
  model itself — for every oracle — so that the refinement applies to whatever the parser accepts.
-/
import JoinModel.Lemmas.ParseWF
namespace JoinModel

/-- the constructor of a member that does not open a wrapper is the one its operator's arity row names -/
theorem parseGroup_ctor {o : Oracle} {g : NextGroup} {input : Toks} {m : Member} {raws : List Toks}
    {next : Option NextGroup} {rest : Toks} (h : parseGroup o g input = .ok ((m, raws), next, rest))
    (hw : g.mv ≠ .wrap) : ∃ ar, arityOf g.comb = some ar ∧ m.ctor = ar.ctor := by
  unfold parseGroup at h
  split at h
  · rename_i hw'; exact absurd hw' hw
  · split at h
    · cases h
    · rename_i ar har
      simp only at h
      split at h
      · cases h
      · simp only [Except.ok.injEq, Prod.mk.injEq] at h
        obtain ⟨⟨rfl, _⟩, _, _⟩ := h
        exact ⟨ar, har, rfl⟩

/-- the member the chain builder appends first carries the constructor of the group it was started with -/
theorem buildChain_head (o : Oracle) (fuel : Nat) (g : NextGroup) (input : Toks) (members : List Member)
    (pat : Option BranchPat) (w : Int) (isFirst : Bool) (br : Branch) (rest : Toks)
    (h : buildChain o fuel g input members pat w isFirst = .ok (br, rest)) (hg : GroupOK g) (hw : g.mv ≠ .wrap) :
    ∃ m tail ar, br.members = members ++ m :: tail ∧ m.deferred = g.deferred ∧ arityOf g.comb = some ar ∧
      m.ctor = ar.ctor := by
  cases fuel with
  | zero => simp [buildChain] at h
  | succ fuel =>
    have hall := buildChain_shape o (fuel + 1) g input members pat w isFirst br rest h hg
    obtain ⟨m0, tail0, hmem0, _, hdef0, _, _⟩ := hall
    unfold buildChain at h
    split at h
    · cases h
    · rename_i m raws next rest' hpg
      obtain ⟨ar, har, hctor⟩ := parseGroup_ctor hpg hw
      obtain ⟨_, _, _, _, hnext⟩ := parseGroup_shape hpg hg
      simp only at h
      split at h
      · cases h
      · rename_i m' pat' hfirst
        have hc' : m'.ctor = m.ctor := by
          have keep : (Except.ok (m, pat) : Except ParseErr (Member × Option BranchPat)) = .ok (m', pat') →
              m'.ctor = m.ctor := by
            intro he; cases he; rfl
          split at hfirst
          · split at hfirst
            · split at hfirst
              · exact keep hfirst
              · cases hfirst
              · cases hfirst; rfl
            · exact keep hfirst
          · exact keep hfirst
        -- whatever follows, the list starts with `members ++ [m']`
        have hpre : ∃ tl, br.members = (members ++ [m']) ++ tl := by
          split at h
          · rename_i nx
            have fin : ∀ w1 : Int, buildChain o fuel nx rest' (members ++ [m']) pat' w1 false = .ok (br, rest) →
                ∃ tl, br.members = (members ++ [m']) ++ tl := by
              intro w1 hb
              obtain ⟨m2, tail2, hmem, _⟩ := buildChain_shape o _ _ _ _ _ _ _ _ _ hb (hnext nx rfl)
              exact ⟨m2 :: tail2, hmem⟩
            cases hd : nx.deferred with
            | false =>
              simp only [hd, Bool.false_eq_true, if_false] at h
              by_cases hneg : w + mvDelta nx.mv < 0
              · simp [hneg] at h
              · simp only [hneg, if_false] at h
                exact fin _ h
            | true =>
              simp only [hd, if_true, Int.zero_add] at h
              by_cases hneg : mvDelta nx.mv < 0
              · simp [hneg] at h
              · simp only [hneg, if_false] at h
                exact fin _ h
          · refine ⟨[], ?_⟩
            have : br.members = members ++ [m'] := by
              repeat' split at h
              all_goals first | (cases h; rfl) | cases h
            simp [this]
        obtain ⟨tl, htl⟩ := hpre
        have heq : m0 = m' := by
          have h1 : members ++ m0 :: tail0 = members ++ m' :: tl := by
            rw [← hmem0, htl]; simp
          have := List.append_cancel_left h1
          exact (List.cons.inj this).1
        exact ⟨m0, tail0, ar, hmem0, hdef0, har, by rw [heq, hc', hctor]⟩

/-- the arity row of the initial value names the `initial` constructor (a fact of the extracted table) -/
theorem arity_initial_ctor : ∀ ar, arityOf .initial = some ar → ar.ctor = .initial := by
  intro ar h
  have : arityOf .initial = some ⟨.initial, 1, false, .expr⟩ := by decide
  rw [this] at h
  cases h
  rfl

/-- a branch as `SupportedBase.firstInitial` wants it -/
def HeadInitial (b : Branch) : Prop := ∃ m ms, b.members = m :: ms ∧ m.deferred = false ∧ m.ctor = .initial

theorem parseItems_head (o : Oracle) : ∀ (fuel : Nat) (input : Toks) (bs : List Branch) (h : Option (HKind × Toks))
    (bs' : List Branch) (h' : Option (HKind × Toks)), parseItems o fuel input bs h = .ok (bs', h') →
    (∀ b ∈ bs, HeadInitial b) → ∀ b ∈ bs', HeadInitial b := by
  intro fuel
  induction fuel with
  | zero => intro input bs h bs' h' he; simp [parseItems] at he
  | succ fuel ih =>
    intro input bs h bs' h' he hbs
    cases input with
    | nil => simp only [parseItems, Except.ok.injEq, Prod.mk.injEq] at he; obtain ⟨rfl, _⟩ := he; exact hbs
    | cons t ts =>
      unfold parseItems at he
      split at he
      · split at he
        · cases he
        · split at he
          · cases he
          · exact ih _ _ _ _ _ he hbs
      · split at he
        · cases he
        · rename_i b rest hb
          refine ih _ _ _ _ _ he ?_
          intro b' hb'
          rcases List.mem_append.mp hb' with hb' | hb'
          · exact hbs b' hb'
          · have : b' = b := by simpa using hb'
            subst this
            obtain ⟨m, tail, ar, hmem, hdef, har, hctor⟩ :=
              buildChain_head o _ _ _ _ _ _ _ _ _ hb (by intro _; simp) (by simp)
            simp only [List.nil_append] at hmem
            exact ⟨m, tail, hmem, hdef, by rw [hctor]; exact arity_initial_ctor ar har⟩

/-- **Every branch of every program the parser accepts starts with its initial value.** -/
theorem parse_first_initial (o : Oracle) (input : Toks) (p : Input) (h : parseMacroInput o input = .ok p) :
    ∀ b ∈ p.branches, HeadInitial b := by
  unfold parseMacroInput at h
  simp only at h
  split at h
  · cases h
  · split at h
    · cases h
    · rename_i bs hd hitems
      split at h
      · cases h
      · split at h
        · cases h
        · cases h
          exact parseItems_head o _ _ _ _ _ _ hitems (by intro b hb; cases hb)

end JoinModel
