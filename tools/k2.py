"""K2: semantic correspondence — the real macros compiled by rustc and executed, against the Lean reference
semantics (`SPEC`) and the Lean semantics of the model's generated code (`RUN`).

A K2 program is a macro invocation whose operands are instrumented helper calls with a fixed, tiny behaviour
(prelude below = lean/JoinModel/Concrete.lean).  Python renders (a) the Rust test program, (b) the macro
input for the real parser (harness → STRUCT) and (c) the WORLD description for the Lean driver.
"""
import hashlib
import json
import os
import re
import shutil
import subprocess
import time

import k1
import runner

K2DIR = os.path.join(runner.BUILD, "k2")
LAST_CHAIN_SRC = ""
K2TARGET = os.path.join(runner.BUILD, "k2target")

NAMES = {
    "a0t0s0": ["join"], "a0t1s0": ["try_join"],
    "a0t0s1": ["join_spawn", "spawn"], "a0t1s1": ["try_join_spawn", "try_spawn"],
    "a1t0s0": ["join_async"], "a1t1s0": ["try_join_async"],
    "a1t0s1": ["join_async_spawn", "async_spawn"], "a1t1s1": ["try_join_async_spawn", "try_async_spawn"],
}

PRELUDE_SYNC = r'''
#![allow(unused, non_snake_case)]
use join::*;
// a quarter of the programs reaches its macro through a forwarding `macro_rules!` wrapper, as user crates do: the names the
// caller writes (`let n1 = …`, captures) must keep meaning what they mean in a direct call
macro_rules! fwd_join { ($($t:tt)*) => { join! { $($t)* } } }
macro_rules! fwd_try_join { ($($t:tt)*) => { try_join! { $($t)* } } }
macro_rules! fwd_join_spawn { ($($t:tt)*) => { join_spawn! { $($t)* } } }
macro_rules! fwd_spawn { ($($t:tt)*) => { spawn! { $($t)* } } }
macro_rules! fwd_try_join_spawn { ($($t:tt)*) => { try_join_spawn! { $($t)* } } }
macro_rules! fwd_try_spawn { ($($t:tt)*) => { try_spawn! { $($t)* } } }
macro_rules! fwd_join_async { ($($t:tt)*) => { join_async! { $($t)* } } }
macro_rules! fwd_try_join_async { ($($t:tt)*) => { try_join_async! { $($t)* } } }
macro_rules! fwd_join_async_spawn { ($($t:tt)*) => { join_async_spawn! { $($t)* } } }
macro_rules! fwd_async_spawn { ($($t:tt)*) => { async_spawn! { $($t)* } } }
macro_rules! fwd_try_join_async_spawn { ($($t:tt)*) => { try_join_async_spawn! { $($t)* } } }
macro_rules! fwd_try_async_spawn { ($($t:tt)*) => { try_async_spawn! { $($t)* } } }
use std::sync::Mutex;
static LOG: Mutex<Vec<String>> = Mutex::new(Vec::new());
pub fn log(s: String) {
    let t = std::thread::current();
    let line = format!("{}@{}#{:?}", s, t.name().unwrap_or("-"), t.id());
    LOG.lock().unwrap_or_else(|e| e.into_inner()).push(line.replace(' ', ""));
}
pub trait Show { fn show(&self) -> String; }
impl Show for i64 { fn show(&self) -> String { format!("{}", self) } }
impl<T: Show, E: Show> Show for Result<T, E> {
    fn show(&self) -> String { match self { Ok(v) => format!("S({})", v.show()), Err(e) => format!("F({})", e.show()) } }
}
impl<T: Show> Show for Option<T> {
    fn show(&self) -> String { match self { Some(v) => format!("S({})", v.show()), None => "F(T())".to_string() } }
}
impl Show for () { fn show(&self) -> String { "T()".to_string() } }
macro_rules! show_tuple { ($($n:ident),+) => {
    impl<$($n: Show),+> Show for ($($n,)+) { fn show(&self) -> String { let ($($n,)+) = self; format!("T({})", vec![$($n.show()),+].join(",")) } }
} }
show_tuple!(T1, T2); show_tuple!(T1, T2, T3); show_tuple!(T1, T2, T3, T4); show_tuple!(T1, T2, T3, T4, T5); show_tuple!(T1, T2, T3, T4, T5, T6);
show_tuple!(T1, T2, T3, T4, T5, T6, T7); show_tuple!(T1, T2, T3, T4, T5, T6, T7, T8);
show_tuple!(T1, T2, T3, T4, T5, T6, T7, T8, T9); show_tuple!(T1, T2, T3, T4, T5, T6, T7, T8, T9, T10);
show_tuple!(T1, T2, T3, T4, T5, T6, T7, T8, T9, T10, T11); show_tuple!(T1, T2, T3, T4, T5, T6, T7, T8, T9, T10, T11, T12);
show_tuple!(T1, T2, T3, T4, T5, T6, T7, T8, T9, T10, T11, T12, T13); show_tuple!(T1, T2, T3, T4, T5, T6, T7, T8, T9, T10, T11, T12, T13, T14);
pub fn mix(v: i64, c: i64) -> i64 { (v * 7 + c).rem_euclid(1000003) }
pub type R = Result<i64, i64>;
#[derive(Clone, Copy)] pub enum Out { O(i64), E(i64), P }
pub use Out::*;
static SLOW: Mutex<Vec<u32>> = Mutex::new(Vec::new());
/// callbacks that take their time (a sibling's failure must not let the caller go on before they are done)
pub fn set_slow(ids: &[u32]) { *SLOW.lock().unwrap_or_else(|e| e.into_inner()) = ids.to_vec(); }
static WAITERS: Mutex<Vec<u32>> = Mutex::new(Vec::new());
static RELEASED: std::sync::atomic::AtomicU64 = std::sync::atomic::AtomicU64::new(0);
/// callbacks that do not return before the program around them is over (a sibling's panic must reach the caller all the same)
pub fn set_waiters(ids: &[u32]) { *WAITERS.lock().unwrap_or_else(|e| e.into_inner()) = ids.to_vec(); }
pub fn release_waiters() { RELEASED.fetch_add(1, std::sync::atomic::Ordering::SeqCst); }
fn cb(id: u32) {
    if id != 0 {
        let waits = WAITERS.lock().unwrap_or_else(|e| e.into_inner()).contains(&id);
        if waits {
            let g = RELEASED.load(std::sync::atomic::Ordering::SeqCst);
            let t0 = std::time::Instant::now();
            while RELEASED.load(std::sync::atomic::Ordering::SeqCst) == g && t0.elapsed().as_secs() < 60 {
                std::thread::sleep(std::time::Duration::from_millis(5));
            }
        }
        let slow = SLOW.lock().unwrap_or_else(|e| e.into_inner()).contains(&id);
        if slow { std::thread::sleep(std::time::Duration::from_millis(80)); }
        log(format!("cb:{}", id));
    }
}
pub fn cap(id: u32, vis: &[(&str, String)]) {
    log(format!("cap:{}:[{}]", id, vis.iter().map(|(n, v)| format!("{}={}", n, v)).collect::<Vec<_>>().join(",")));
}
pub fn capp(id: u32, vis: &[(&str, String)]) { cap(id, vis); panic!("user{}", id); }
pub fn init(id: u32, out: Out) -> R { cb(id); match out { O(c) => Ok(c), E(c) => Err(c), P => panic!("user{}", id) } }
/// `v.pipe(f)` = `f(v)`: lets an operator be written in wrapper spelling (`=> >>> ..pipe(f) <<<` means `=> f`)
pub trait Pipe: Sized { fn pipe<T>(self, f: impl FnOnce(Self) -> T) -> T { f(self) } }
impl Pipe for i64 {}
pub fn fmap(id: u32, out: Out) -> impl Fn(i64) -> i64 + Send + 'static {
    move |v| { cb(id); match out { O(c) | E(c) => mix(v, c), P => panic!("user{}", id) } } }
pub fn fand(id: u32, out: Out) -> impl Fn(i64) -> R + Send + 'static {
    move |v| { cb(id); match out { O(c) => Ok(mix(v, c)), E(c) => Err(c), P => panic!("user{}", id) } } }
pub fn fthen(id: u32, out: Out) -> impl Fn(R) -> R + Send + 'static {
    move |r| { cb(id); match (r, out) { (_, P) => panic!("user{}", id), (_, E(c)) => Err(c), (Ok(v), O(c)) => Ok(mix(v, c)), (Err(e), O(c)) => Err(mix(e, c)) } } }
pub fn fins(id: u32, out: Out) -> impl Fn(&R) + Send + 'static {
    move |_| { cb(id); if let P = out { panic!("user{}", id) } } }
pub fn forelse(id: u32, out: Out) -> impl Fn(i64) -> R + Send + 'static {
    move |e| { cb(id); match out { O(c) => Ok(mix(e, c)), E(c) => Err(mix(e, c)), P => panic!("user{}", id) } } }
/// operand of `<|`: a value, evaluated whenever the chain reaches the operator
pub fn forv(id: u32, out: Out) -> R { cb(id); match out { O(c) => Ok(c), E(c) => Err(c), P => panic!("user{}", id) } }
thread_local! { static FILTER_FAIL: std::cell::Cell<i64> = std::cell::Cell::new(0); }
/// `?>` on the scaffold's `Result` values: like `Option::filter`, the predicate sees a reference to the success value; a rejected
/// value becomes the failure the predicate left behind
pub trait FilterExt: Sized { fn filter(self, p: impl FnOnce(&i64) -> bool) -> Self; }
impl FilterExt for R {
    fn filter(self, p: impl FnOnce(&i64) -> bool) -> Self {
        match self { Ok(v) => if p(&v) { Ok(v) } else { Err(FILTER_FAIL.with(|c| c.get())) }, e => e }
    }
}
pub fn ffilter(id: u32, out: Out) -> impl Fn(&i64) -> bool + Send + 'static {
    move |_| { cb(id); match out { O(_) => true, E(c) => { FILTER_FAIL.with(|x| x.set(c)); false }, P => panic!("user{}", id) } } }
pub fn fmaperr(id: u32, out: Out) -> impl Fn(i64) -> i64 + Send + 'static {
    move |e| { cb(id); match out { O(c) | E(c) => mix(e, c), P => panic!("user{}", id) } } }
static GATES: Mutex<Vec<(u32, std::sync::Arc<std::sync::Barrier>)>> = Mutex::new(Vec::new());
/// all `n` sibling threads of a step must be alive at the same time: each waits here for the others
pub fn fgate(id: u32, n: usize) -> impl Fn(&R) + Send + 'static {
    move |_| {
        let b = { let mut g = GATES.lock().unwrap_or_else(|e| e.into_inner());
                  if let Some((_, b)) = g.iter().find(|(i, _)| *i == id) { b.clone() }
                  else { let b = std::sync::Arc::new(std::sync::Barrier::new(n)); g.push((id, b.clone())); b } };
        b.wait();
    }
}
/// logs the name of the thread it runs on (nested spawn macros)
pub fn tname(id: u32) -> i64 { cb(id); id as i64 }
pub fn hdef(id: u32, out: Out) { log(format!("hd:{}", id)); if let P = out { panic!("user{}", id) } }
pub fn hcall(id: u32, args: String, out: Out) -> i64 {
    log(format!("hc:{}:{}", id, args)); match out { O(c) | E(c) => c, P => panic!("user{}", id) } }
pub fn hcallr(id: u32, args: String, out: Out) -> R {
    log(format!("hc:{}:{}", id, args)); match out { O(c) => Ok(c), E(c) => Err(c), P => panic!("user{}", id) } }
pub fn panic_text(e: Box<dyn std::any::Any + Send>) -> String {
    let s = if let Some(s) = e.downcast_ref::<&str>() { s.to_string() } else if let Some(s) = e.downcast_ref::<String>() { s.clone() } else { "<any>".to_string() };
    s.replace(|c: char| c.is_whitespace(), "_")
}
pub fn take_log() -> String { let mut l = LOG.lock().unwrap_or_else(|e| e.into_inner()); let s = l.join(" "); l.clear(); s }
'''

MAIN_SYNC = r'''
fn main() {
    std::panic::set_hook(Box::new(|_| {}));
    let only: Option<String> = std::env::args().nth(1);
    let progs: Vec<(&str, fn() -> String)> = vec![%s];
    for (name, f) in progs {
        if let Some(o) = &only { if o != name { continue; } }
        take_log();
        // watchdog: a blocked caller is a violation, not a hang of the check
        let (tx, rx) = std::sync::mpsc::channel();
        // programs whose id ends in `_u` are called from a thread without a name, the others from one named "main"
        let tb = std::thread::Builder::new();
        let tb = if name.ends_with("_u") { tb } else { tb.name("main".to_string()) };
        let h = tb.spawn(move || { let r = f(); let _ = tx.send(r); }).unwrap();
        match rx.recv_timeout(std::time::Duration::from_secs(20)) {
            Ok(res) => { let _ = h.join(); println!("{}\t{}\t{}", name, res, take_log()); }
            Err(_) => { println!("{}\tBLOCKED\t{}", name, take_log()); continue; }
        }
        // the same call site once more, from a thread with another name (`…_2` programs only): thread names are composed
        // from the thread that runs the macro *now*
        if name.ends_with("_2") {
            let (tx, rx) = std::sync::mpsc::channel();
            let h = std::thread::Builder::new().name("w2".to_string()).spawn(move || { let r = f(); let _ = tx.send(r); }).unwrap();
            match rx.recv_timeout(std::time::Duration::from_secs(20)) {
                Ok(res) => { let _ = h.join(); println!("{}#2\t{}\t{}", name, res, take_log()); }
                Err(_) => { println!("{}#2\tBLOCKED\t{}", name, take_log()); }
            }
        }
    }
}
'''


class Op:
    """One instrumented operator of a chain."""

    def __init__(self, mode, cb, out, deferred=False, block=False, cap_id=0, cap_panics=False):
        self.mode, self.cb, self.out = mode, cb, out       # out: ("ok", c) | ("fail", c) | ("panic", n)
        self.deferred, self.block, self.cap_id, self.cap_panics = deferred, block, cap_id, cap_panics


class Prog:
    def __init__(self, pid, kind, name):
        self.pid, self.kind, self.name = pid, kind, name
        self.base = 0               # offset added to every event id in the Rust text (isolates programs from each
                                    # other's detached threads, which may still log after their program was abandoned)
        self.branches = []          # list of dict(name=None|str, mut=bool, ops=[Op])   ops[0].mode == init
        self.handler = None         # dict(kind='map'|'then'|'and_then', id, out, block, pos)
        self.opts = []              # option source strings
        self.tags = {}

    # ---- structure helpers -----------------------------------------------------------------
    def steps(self, b):
        steps, cur = [], []
        for op in self.branches[b]["ops"]:
            if op.deferred:
                steps.append(cur)
                cur = []
            cur.append(op)
        steps.append(cur)
        return steps

    def depth(self, b):
        return len(self.steps(b))

    def is_try(self):
        return self.kind[3] == "1"

    def is_async(self):
        return self.kind[1] == "1"

    def is_spawn(self):
        return self.kind[5] == "1"

    def cap_positions(self):
        """cap_id -> (b, k, e, i); cb id -> (b, k)"""
        caps, cbs = {}, {}
        for b in range(len(self.branches)):
            for k, st in enumerate(self.steps(b)):
                e = 0
                for op in st:
                    if op.block:
                        caps[op.cap_id] = (b, k, e, 0)
                    if op.cb:
                        cbs[op.cb] = (b, k)
                    # position = index among the step's members; wrapper spelling takes 2 (`op >>>`, `..pipe(f)`) or 3 (`<<<`)
                    e += {0: 1, 1: 3, 2: 2}[getattr(op, "wspell", 0)]
        return caps, cbs

    def visible_names(self, k):
        return [br["name"] for br in self.branches if br["name"]] if k >= 1 else []

    # ---- rendering ---------------------------------------------------------------------------
    def out_src(self, out):
        return {"ok": "O(%d)", "fail": "E(%d)", "panic": "P"}[out[0]] % ((out[1],) if out[0] != "panic" else ())

    def operand_src(self, op, k):
        fn = {"init": "init", "map": "fmap", "andThen": "fand", "then": "fthen", "inspect": "fins",
              "orElse": "forelse", "mapErr": "fmaperr", "or": "forv", "filter": "ffilter"}[op.mode]
        call = "%s(%d, %s)" % (fn, op.cb + self.base if op.cb else 0, self.out_src(op.out))
        if getattr(op, "gate", None):
            call = "fgate(%d, %d)" % (op.gate[0] + self.base, op.gate[1])
        if self.is_async():
            call = self.async_operand(op, call)
        if op.block:
            vis = ", ".join('("%s", %s.show())' % (n, n) for n in self.visible_names(k))
            return "{ %s(%d, &[%s]); %s }" % ("capp" if op.cap_panics else "cap", op.cap_id + self.base, vis, call)
        return call

    def async_operand(self, op, call):
        # async chains work on futures: FutureExt::map gets the output, TryFutureExt::and_then returns a future
        if op.mode == "init":
            return "lazy(move |_| %s)" % call
        if op.mode == "map":
            return "{ let f = %s; move |r: R| r.map(&f) }" % call if False else "amap(%s)" % call
        if op.mode == "andThen":
            return "aand(%s)" % call
        if op.mode == "then":
            return "athen(%s)" % call
        if op.mode == "inspect":
            return call
        if op.mode == "orElse":
            return "aorelse(%s)" % call
        if op.mode == "mapErr":
            return "amaperr(%s)" % call
        return call

    def op_src(self, op, k):
        sym = {"map": "|>", "andThen": "=>", "then": "->", "inspect": "??", "orElse": "<=", "mapErr": "!>", "or": "<|", "filter": "?>"}
        if op.mode == "init":
            return self.operand_src(op, k)
        w = getattr(op, "wspell", 0)
        if w:
            # the same operator in wrapper spelling: `op >>> ..pipe(f) [<<<]` (implicitly closed at the end of the step)
            return ("~" if op.deferred else "") + sym[op.mode] + " >>> ..pipe(" + self.operand_src(op, k) + ")" + (" <<<" if w == 1 else "")
        return ("~" if op.deferred else "") + sym[op.mode] + " " + self.operand_src(op, k)

    def macro_input(self):
        items = []
        for b, br in enumerate(self.branches):
            head = ""
            if br["name"]:
                head = "let %s%s = " % ("mut " if br.get("mut") else "", br["name"])
            k = 0
            parts = []
            for op in br["ops"]:
                if op.deferred:
                    k += 1
                parts.append(self.op_src(op, k))
            items.append(head + " ".join(parts))
        if self.handler:
            h = self.handler
            n = len(self.branches)
            ty = "i64" if self.is_try() else "R"
            args = ", ".join("a%d: %s" % (i, ty) for i in range(n))
            shown = "format!(\"(%s)\", %s)" % (",".join("{}" for _ in range(n)), ", ".join("a%d.show()" % i for i in range(n)))
            fn = "hcallr" if h["kind"] == "and_then" else "hcall"
            body = "%s(%d, %s, %s)" % (fn, h["id"] + self.base, shown, self.out_src(h["out"]))
            if self.is_async() and h["kind"] in ("then", "and_then"):
                body = "ready(%s)" % body if h["kind"] == "then" else "ready(%s)" % body
            clo = "|%s| %s" % (args, body)
            if h.get("block"):
                clo = "{ hdef(%d, %s); %s }" % (h["id"] + self.base, self.out_src(h.get("def_out", ("ok", 0))), clo)
            items.insert(min(h.get("pos", len(items)), len(items)), "%s => %s" % (h["kind"], clo))
        return (" ".join(self.opts) + " " if self.opts else "") + ", ".join(items)

    def world(self):
        items = []
        for b in range(len(self.branches)):
            for k, st in enumerate(self.steps(b)):
                ops = ",".join("%s:%d:%s=%d" % (op.mode, op.cb, op.out[0], op.out[1]) for op in st)
                items.append("ch %d %d %s" % (b, k, ops))
                for e, op in enumerate(st):
                    if op.block and op.cap_panics:
                        items.append("cp %d %d %d 0 %d" % (b, k, e, op.cap_id))
        if self.handler:
            h = self.handler
            items.append("ho %s=%d" % (h["out"][0], h["out"][1]))
            if h["kind"] == "and_then":
                items.append("hw")
            if h.get("block") and h.get("def_out", ("ok", 0))[0] == "panic":
                items.append("hdp %d" % h["id"])
        return ";".join(items)

    def invocation(self):
        return "%s%s! { %s }" % ("fwd_" if getattr(self, "forwarded", False) else "", self.name, self.macro_input())

    def rust_fn(self):
        inv = self.invocation()
        if self.is_async():
            run = "block_on(%s)" % inv
        else:
            run = inv
        slow = "set_slow(&[%s]); " % ", ".join(str(i + self.base) for i in getattr(self, "slow", []))
        slow += "set_waiters(&[%s]); " % ", ".join(str(i + self.base) for i in getattr(self, "waiters", []))
        return ("fn %s() -> String {\n    %slet r = std::panic::catch_unwind(|| { let __res = %s; __res.show() });\n"
                "    release_waiters();\n"
                "    match r { Ok(s) => format!(\"ok {}\", s), Err(e) => format!(\"panic {}\", panic_text(e)) }\n}\n"
                % (self.pid, slow, run))


# ------------------------------------------------------------------------------------------------
# building and running


def cargo_toml(name, with_async):
    deps = 'join = { path = "%s/join" }\n' % runner.REPO
    if with_async:
        deps += 'futures = "0.3"\ntokio = { version = "1", features = ["rt", "rt-multi-thread", "macros", "time", "sync"] }\n'
    return ('[package]\nname = "%s"\nversion = "0.1.0"\nedition = "2018"\n\n[workspace]\n\n[dependencies]\n%s\n'
            '[profile.dev]\nopt-level = 0\ndebug = false\nincremental = false\n' % (name, deps))


def blame_compile_error(source, log):
    """Maps the first rustc error in `log` to the generated program function (`fn <pid>() -> String`) whose body
    contains it.  Returns (pid or None, excerpt of the error)."""
    m = re.search(r"^error(?:\[E\d+\])?:.*?$(?:\n.*?)*?\n\s*-->\s+src/main\.rs:(\d+):", log, re.M)
    if not m:
        return None, log[-1500:]
    line = int(m.group(1))
    lines = source.split("\n")
    pid = None
    for i in range(min(line, len(lines)) - 1, -1, -1):
        mm = re.match(r"fn (\w+)\(\) -> String", lines[i])
        if mm:
            pid = mm.group(1)
            break
    return pid, log[m.start():m.start() + 1200]


def build_and_run(name, source, with_async=False, timeout=900):
    """Writes crate `name`, builds it against the current /repo/join, runs it. Returns (ok, stdout, log)."""
    # checks of different properties may run at the same time and share the crate directories and the cargo target
    # directory: one K2 build + run at a time
    import fcntl
    os.makedirs(K2DIR, exist_ok=True)
    with open(os.path.join(K2DIR, ".lock"), "w") as lk:
        fcntl.flock(lk, fcntl.LOCK_EX)
        try:
            return _build_and_run(name, source, with_async, timeout)
        finally:
            fcntl.flock(lk, fcntl.LOCK_UN)


def _build_and_run(name, source, with_async, timeout):
    d = os.path.join(K2DIR, name)
    os.makedirs(os.path.join(d, "src"), exist_ok=True)
    os.makedirs(os.path.join(d, ".cargo"), exist_ok=True)
    with open(os.path.join(d, "Cargo.toml"), "w") as f:
        f.write(cargo_toml(name, with_async))
    with open(os.path.join(d, ".cargo", "config.toml"), "w") as f:
        f.write("[net]\noffline = true\n")
    shutil.copy(os.path.join(runner.REPO, "Cargo.lock"), os.path.join(d, "Cargo.lock"))
    with open(os.path.join(d, "src", "main.rs"), "w") as f:
        f.write(source)
    env = dict(os.environ, CARGO_NET_OFFLINE="true", CARGO_TARGET_DIR=K2TARGET, RUSTFLAGS="-Awarnings")
    t = time.time()
    rc, out, err = runner.sh(["cargo", "build", "--offline", "--quiet"], cwd=d, env=env, timeout=timeout)
    if rc != 0:
        # keep the first error (with its `--> src/main.rs:LINE` reference: the program to blame) as well as the end of the log;
        # the lines rustc echoes can be thousands of characters long
        m = re.search(r"^error(\[E\d+\])?:", err, re.M)
        head = err[m.start():m.start() + 3000] + "\n[…]\n" if m and m.start() < len(err) - 6000 else ""
        return False, "", head + err[-6000:]
    tb = time.time() - t
    try:
        rc, out, err = runner.sh([os.path.join(K2TARGET, "debug", name)], cwd=d, env=env, timeout=timeout)
    except subprocess.TimeoutExpired:
        return False, "", "run timed out"
    return True, out, "build %.1fs run rc=%s %s" % (tb, rc, err[-500:])


def setup():
    """Warm the K2 target directory (proc-macro crate and, for the async prelude, futures/tokio)."""
    p = Prog("p0", "a0t0s0", "join")
    p.branches = [dict(name=None, ops=[Op("init", 1, ("ok", 1))])]
    src = PRELUDE_SYNC + p.rust_fn() + MAIN_SYNC % '("p0", p0 as fn() -> String)'
    ok, out, log = build_and_run("k2sync", src)
    if not ok:
        raise RuntimeError("k2 setup failed: " + log)
    return 0


_ev_thread = re.compile(r"@([^#]*)#ThreadId\((\d+)\)$")


def parse_rust_events(s, base=0):
    """Returns list of (text, thread name, thread id); only the events of the program whose ids start at `base`."""
    out = []
    for w in s.split(" "):
        if not w:
            continue
        m = _ev_thread.search(w)
        text, tname, tid = (w[:m.start()], m.group(1), int(m.group(2))) if m else (w, "?", -1)
        f = text.split(":", 2)
        if f[0] in ("cb", "cap", "hd", "hc") and len(f) > 1 and f[1].isdigit():
            i = int(f[1])
            if not (base <= i < base + 1000):
                continue     # a detached thread of an earlier (abandoned) program
            i -= base
            if f[0] == "cb":
                text = "cb:%d" % i
            elif f[0] == "cap":
                text = "cap:%d:%s" % (i, f[2])
            elif f[0] == "hd":
                text = "hd"
            else:
                text = "hc:" + f[2]
        out.append((text, tname, tid))
    return out


def normalize_panic(msg, base=0):
    m = re.match(r"panic user(\d+)$", msg)
    if m:
        return "panic user%d" % (int(m.group(1)) - base)
    if msg.startswith("panic internal_error:_entered_unreachable_code") or "unreachable" in msg:
        return "panic unreachable"
    if msg.startswith("panic called_`Result::unwrap()`_on_an_`Err`_value") or "JoinHandle" in msg:
        return "panic joinUnwrap"
    return msg


def lean_expected(progs, structures, parent=None):
    """Runs SPEC and RUN for every program (on a caller thread called `parent`; default: `main`, or no name for `_u`
    programs). Returns dict pid -> (spec_line, run_line)."""
    lines = []
    for p in progs:
        st = structures[p.pid]
        par = parent or ("-" if p.pid.endswith("_u") else "main")     # `-`: caller thread without a name
        lines.append("SPECN\t%s\t%s\t%s\t%s\t%s" % (p.pid, p.kind, st, p.world(), par))
        lines.append("RUNN\t%s\t%s\t%s\t%s\t%s" % (p.pid, p.kind, st, p.world(), par))
    outs = k1.run_driver(lines)
    res = {}
    for i, p in enumerate(progs):
        res[p.pid] = (outs[2 * i].split("\t", 1)[1] if "\t" in outs[2 * i] else outs[2 * i],
                      outs[2 * i + 1].split("\t", 1)[1] if "\t" in outs[2 * i + 1] else outs[2 * i + 1])
    return res


def lean_flat(line, prog):
    """Canonical view of a Lean result line: (result, main-thread events, {(b,k): (thread name, [cb ids])})"""
    parts = line.split("\t")
    res = parts[0]
    m = re.match(r"panic (user\d+)", res)
    if res.startswith("panic unreachable"):
        res = "panic unreachable"
    elif res.startswith("panic joinUnwrap"):
        res = "panic joinUnwrap"
    trace = parts[1] if len(parts) > 1 else ""
    caps, _ = prog.cap_positions()
    inv = {v: k for k, v in caps.items()}
    main, forks = [], {}
    for w in re.findall(r"fork:\d+:\d+:[^:]*:<[^>]*>|\S+", trace):
        if w.startswith("fork:"):
            m = re.match(r"fork:(\d+):(\d+):([^:]*):<([^>]*)>", w)
            b, k, name, body = int(m.group(1)), int(m.group(2)), m.group(3), m.group(4)
            ids = [int(x.split(":")[3]) for x in body.split(" ") if x.startswith("cb:")]
            forks[(b, k)] = (name, [i for i in ids if i != 0])
            main.append("fork:%d:%d" % (b, k))
        elif w.startswith("join:"):
            main.append(w)
        elif w.startswith("cb:"):
            i = int(w.split(":")[3])
            if i != 0:
                main.append("cb:%d" % i)
        elif w.startswith("cap:"):
            f = w.split(":", 5)
            key = tuple(int(x) for x in f[1:5])
            main.append("cap:%d:%s" % (inv.get(key, -1), f[5]))
        elif w.startswith("cs:") or w.startswith("ce:"):
            continue
        elif w == "hd" and not (prog.handler and prog.handler.get("block")):
            continue   # creating a closure is not observable; only a `{ hdef(..); closure }` handler logs its definition
        else:
            main.append(w)
    return res, main, forks


def compare_program(prog, rust_line, spec_line, run_line):
    """Returns list of problems: ('impl-vs-spec' | 'model-vs-spec', text)."""
    problems = []
    s_res, s_main, s_forks = lean_flat(spec_line, prog)
    r_res, r_main, r_forks = lean_flat(run_line, prog)
    if (s_res, s_main, s_forks) != (r_res, r_main, r_forks):
        problems.append(("model-vs-spec", "Sem(gen p) = %r  but  Spec = %r" % (run_line, spec_line)))
    f = rust_line.split("\t")
    if f[0] == "BLOCKED":
        problems.append(("impl-vs-spec", "the caller was still blocked after 20 s; events so far: " + (f[1] if len(f) > 1 else "")))
        return problems
    i_res = normalize_panic(f[0], prog.base)
    evs = parse_rust_events(f[1] if len(f) > 1 else "", prog.base)
    if i_res != s_res:
        problems.append(("impl-vs-spec", "result: implementation %r, reference semantics %r" % (i_res, s_res)))
    _, cbs = prog.cap_positions()
    forked_ids = set(i for (_, ids) in s_forks.values() for i in ids)
    # caller-side events (everything not inside a forked chain), in order
    i_main = []
    for (text, tname, tid) in evs:
        if text.startswith("cb:") and int(text[3:]) in forked_ids:
            continue
        i_main.append(text)
    s_main_cmp = [w for w in s_main if not w.startswith("fork:") and not w.startswith("join:")]
    if i_main != s_main_cmp:
        problems.append(("impl-vs-spec", "caller-side events: implementation %r, reference semantics %r" % (i_main, s_main_cmp)))
    # forked chains: per (b, k) the callbacks in order, on a thread of the documented name, one distinct thread each
    tids = {}
    mjp = re.match(r"panic joinUnwrap:(\d+):(\d+)", spec_line)
    for (b, k), (name, ids) in s_forks.items():
        got = [(text, tname, tid) for (text, tname, tid) in evs if text.startswith("cb:") and cbs.get(int(text[3:])) == (b, k)]
        got_ids = [int(t[0][3:]) for t in got]
        if mjp and int(mjp.group(2)) == k and b > int(mjp.group(1)):
            # the caller panicked at the join of a lower-numbered thread: this thread is detached and may not have
            # finished (or started) when the log was read; what it did run must be a prefix of its chain
            if got_ids != ids[:len(got_ids)]:
                problems.append(("impl-vs-spec", "detached thread of branch %d step %d ran %r, not a prefix of %r" % (b, k, got_ids, ids)))
        elif got_ids != ids:
            problems.append(("impl-vs-spec", "thread of branch %d step %d ran callbacks %r, expected %r" % (b, k, [t[0] for t in got], ids)))
        for (_, tname, tid) in got:
            if tname != name:
                problems.append(("impl-vs-spec", "branch %d step %d ran on thread %r, documented name %r" % (b, k, tname, name)))
                break
            tids.setdefault(k, {}).setdefault(tid, set()).add(b)
    for k, m in tids.items():
        for tid, bs in m.items():
            if len(bs) > 1:
                problems.append(("impl-vs-spec", "branches %r of step %d shared one thread" % (sorted(bs), k)))
    # barrier: no event of step k+1 before the last event of step k (global log order)
    last_step = -1
    caps, _ = prog.cap_positions()
    for (text, tname, tid) in evs:
        st = None
        if text.startswith("cb:"):
            st = cbs.get(int(text[3:]), (None, None))[1]
        elif text.startswith("cap:"):
            st = caps.get(int(text.split(":")[1]), (None, None))[1]
        if st is None:
            continue
        if st < last_step:
            problems.append(("impl-vs-spec", "event %s of step %d after an event of step %d" % (text, st, last_step)))
            break
        last_step = max(last_step, st)
    return problems


def run_programs(ctx, progs, crate="k2sync", with_async=False, prelude=PRELUDE_SYNC, main=MAIN_SYNC):
    """Compile + run progs, compare with Lean. Returns list of (prog, problems, rust_line, spec_line)."""
    if not progs:
        return []
    # every third program of a thread-spawning kind is called from a thread without a name; another third is executed a
    # second time, from a thread called `w2`
    for i, p in enumerate(progs):
        if main is MAIN_SYNC and not p.pid.endswith(("_u", "_2")):
            if i % 3 == 2 and p.kind in ("a0t0s1", "a0t1s1"):
                p.pid += "_u"
            elif i % 3 == 1:
                p.pid += "_2"       # (sequential kinds too: a second execution must do exactly what the first did)
        if i % 4 == 3 and not hasattr(p, "forwarded"):
            p.forwarded = True      # invoked through a forwarding `macro_rules!` wrapper
    # structures through the real parser (also a K1 comparison of these inputs)
    cases = [(p.pid, p.kind, p.macro_input(), "k2") for p in progs]
    reals = k1.run_real(cases)
    structures = {}
    bad = []
    for p, r in zip(progs, reals):
        if r.parse != "ok":
            bad.append((p, r))
        structures[p.pid] = r.structure
    if bad:
        raise RuntimeError("K2 generator produced a program the real parser rejects: %s -> %s" % (bad[0][0].macro_input(), bad[0][1].parse))
    n, diffs = k1.compare_gen(reals)
    ctx.k1_compared += n
    if diffs:
        ctx.k1_diffs += diffs
        ctx.broken.append(("K1 generator correspondence (K2 programs)", [d.to_json() for d in diffs[:3]]))
    expected = lean_expected(progs, structures)
    second = [p for p in progs if p.pid.endswith("_2")]
    expected2 = lean_expected(second, structures, parent="w2") if second else {}
    for i, p in enumerate(progs):
        p.base = 1000 * (i + 1)
    src = prelude + "".join(p.rust_fn() for p in progs) + main % ", ".join('("%s", %s as fn() -> String)' % (p.pid, p.pid) for p in progs)
    ok, out, log = build_and_run(crate, src, with_async)
    results = []
    if not ok:
        pid, excerpt = blame_compile_error(src, log)
        culprit = next((p for p in progs if p.pid == pid), None)
        return [(None, [("compile", log, culprit, excerpt)], "", "")]
    lines = {}
    for l in out.splitlines():
        f = l.split("\t", 1)
        if len(f) == 2:
            lines[f[0]] = f[1]
    for p in progs:
        spec_line, run_line = expected[p.pid]
        rl = lines.get(p.pid, "MISSING\t")
        problems = compare_program(p, rl, spec_line, run_line)
        if p.pid in expected2 and not problems:
            spec2, run2 = expected2[p.pid]
            rl2 = lines.get(p.pid + "#2", "MISSING\t")
            # threads of the first execution that were left detached (the caller panicked at an earlier join) may still log
            # while the second one runs: only events on `w2` and the threads it named belong to the second execution
            f2 = rl2.split("\t")
            if len(f2) > 1:
                keep = [w for w in f2[1].split(" ") if re.search(r"@w2(?:_join_\d+)*#ThreadId", w) or "@" not in w]
                rl2 = f2[0] + "\t" + " ".join(keep)
            pr2 = compare_program(p, rl2, spec2, run2)
            if pr2:
                problems = [(c, "second execution of the same call site, from a thread called `w2`: " + t) for (c, t) in pr2]
                rl, spec_line = rl2, spec2
        results.append((p, problems, rl, spec_line))
    ctx.evals += len(progs) + len(second)
    return results


def report(ctx, results, signature_fn=None):
    """Turn comparison problems into violations (impl vs reference semantics) or broken-tie entries (model vs spec)."""
    n_impl = 0
    for (p, problems, rust_line, spec_line) in results:
        if p is None:
            culprit, excerpt = problems[0][2], problems[0][3]
            ctx.broken.append(("K2 programs do not compile against the current macros", problems[0][1][-3000:]))
            if culprit is not None:
                ctx.out.violation({
                    "macro": culprit.name, "macro_kind": culprit.kind, "source": culprit.macro_input(),
                    "program": "%s! { %s }" % (culprit.name, culprit.macro_input()), "compiler": excerpt,
                    "what": "a program that is well-typed under the reference semantics no longer compiles against the current macros "
                            "(every program of this family compiles on a tree where the property holds)"},
                    found_input=True, signature=None)
            continue
        impl = [t for (c, t) in problems if c == "impl-vs-spec"]
        model = [t for (c, t) in problems if c == "model-vs-spec"]
        if model:
            ctx.broken.append(("refinement on a concrete program (Sem(gen p) vs Spec)", {"program": p.macro_input(), "detail": model[0]}))
        if impl:
            n_impl += 1
            sig = signature_fn(p, impl) if signature_fn else None
            ctx.out.violation({
                "macro": p.name, "macro_kind": p.kind, "source": p.macro_input(), "program": p.invocation(),
                "world": p.world(), "observed": rust_line, "reference_semantics": spec_line, "problems": impl[:4],
                "caller_thread": ("a thread without a name" if p.pid.endswith("_u") else
                                  "a thread named `main`, then the same call site again from a thread named `w2`" if p.pid.endswith("_2")
                                  else "a thread named `main`"),
                "slow_callbacks": [i + p.base for i in getattr(p, "slow", [])],
                "waiting_callbacks": [i + p.base for i in getattr(p, "waiters", [])],
                "how_to_replay": "./check %s --replay <this file>  (compiles the program against /repo and re-compares)" % ctx.pid,
            }, found_input=True, signature=sig)
    return n_impl


def check_aliases(ctx):
    ctx.out.notes.append("K2 alias programs: see scaffold programs")


def replay(obj):
    """Re-runs the program of a replay file against the current /repo: compiles the stored macro invocation with the
    scaffold prelude, runs it (a second time from thread `w2` when the violation was about a second execution) and prints
    what it does now next to what was observed and what the reference semantics says.  Exit code 1 if the result or the
    event log still differs from the stored reference line."""
    kind = obj.get("macro_kind", "")
    prog = obj.get("program")
    if not prog or not kind.startswith("a0"):
        print(json.dumps({"note": "replay by recompilation is implemented for the sequential and thread-spawning kinds; "
                                  "for this file re-run the check itself (same VERIF_SEED) to regenerate the program"}))
        return 0
    second = "second execution" in " ".join(obj.get("problems", []))
    unnamed = "without a name" in obj.get("caller_thread", "")
    pid = "p0" + ("_2" if second else "_u" if unnamed else "")
    slow = obj.get("slow_callbacks", [])
    fn = ("fn %s() -> String {\n    set_slow(&[%s]); set_waiters(&[%s]); let r = std::panic::catch_unwind(|| { let __res = %s; __res.show() });\n"
          "    release_waiters();\n"
          "    match r { Ok(s) => format!(\"ok {}\", s), Err(e) => format!(\"panic {}\", panic_text(e)) }\n}\n"
          % (pid, ", ".join(str(i) for i in slow), ", ".join(str(i) for i in obj.get("waiting_callbacks", [])), prog))
    src = PRELUDE_SYNC + fn + MAIN_SYNC % ('("%s", %s as fn() -> String)' % (pid, pid))
    ok, out, log = build_and_run("k2replay", src)
    if not ok:
        print(json.dumps({"compiles_now": False, "compiler": log[-1500:]}, indent=1))
        return 1
    lines = dict(l.split("\t", 1) for l in out.splitlines() if "\t" in l)
    now = lines.get(pid + "#2" if second else pid, "MISSING")
    print(json.dumps({"compiles_now": True, "observed_now": now[:1500], "observed_then": obj.get("observed", "")[:1500],
                      "reference_semantics": obj.get("reference_semantics", "")[:1500]}, indent=1))
    # a slow callback of a sibling thread must have run to its end before the caller went on
    if any(("cb:%d@" % i) not in now for i in slow):
        return 1
    ref = obj.get("reference_semantics", "").split("\t")[0]
    res_now = normalize_panic(now.split("\t")[0], 0) if now.startswith("panic") else now.split("\t")[0]
    return 1 if ref and lean_flat(ref + "\t", Prog("x", kind, "join"))[0] != res_now else 0


# ------------------------------------------------------------------------------------------------
# scaffold program generator


class Ids:
    def __init__(self):
        self.n = 0

    def next(self):
        self.n += 1
        return self.n


def add_gates(p, ids):
    """Every chain of a step with n>1 active branches first waits until all n sibling threads have arrived."""
    depths = [p.depth(b) for b in range(len(p.branches))]
    for b, br in enumerate(p.branches):
        new_ops = []
        k = -1
        for op in br["ops"]:
            new_ops.append(op)
            if op.mode == "init" or op.deferred:
                k += 1
                n = sum(1 for d in depths if d > k)
                if n > 1:
                    g = Op("inspect", 0, ("ok", 0))
                    g.gate = (900 + k, n)
                    new_ops.append(g)
        br["ops"] = new_ops
    return p


def nested_names_programs():
    """Nested thread-spawning macros: thread names at nesting depth 2 and 3 (expected names computed here)."""
    out = []
    # (rust body, expected (cb id -> thread name))
    body2 = "join_spawn! { tname(1), join_spawn! { tname(2), tname(3) ~-> |v| v + tname(4) } -> |t: (i64, i64)| t.0, tname(5) ~-> |v: i64| v + tname(6) }"
    exp2 = {1: "main_join_0", 2: "main_join_1_join_0", 3: "main_join_1_join_1", 4: "main_join_1", 5: "main_join_2", 6: "main_join_2"}
    # step 1 of the outer macro has one active branch (branch 2): it runs on the caller
    exp2[6] = "main"
    # inner step 1 has one active branch: runs on the inner caller = thread of outer branch 1
    out.append(("n2", body2, exp2))
    body3 = ("spawn! { tname(1), try_join_spawn! { Ok::<i64, i64>(tname(2)), Ok::<i64, i64>(spawn! { tname(3), tname(4) }.1) } "
             "-> |r: Result<(i64, i64), i64>| r.unwrap().0 }")
    exp3 = {1: "main_join_0", 2: "main_join_1_join_0", 3: "main_join_1_join_1_join_0", 4: "main_join_1_join_1_join_1"}
    out.append(("n3", body3, exp3))
    # the same from a caller without a name: no prefix, the thread's own events show `-`
    for pid, body, exp in list(out):
        out.append((pid + "_u", body, {i: ("-" if n == "main" else n[len("main_"):]) for i, n in exp.items()}))
    return out


def run_nested_names(ctx):
    progs = nested_names_programs()
    fns = []
    for pid, body, _ in progs:
        fns.append("fn %s() -> String { let r = std::panic::catch_unwind(|| { let __res = %s; __res.show() });\n"
                   "    match r { Ok(s) => format!(\"ok {}\", s), Err(e) => format!(\"panic {}\", panic_text(e)) } }\n" % (pid, body))
    src = PRELUDE_SYNC + "".join(fns) + MAIN_SYNC % ", ".join('("%s", %s as fn() -> String)' % (pid, pid) for pid, _, _ in progs)
    ok, out, log = build_and_run("k2nested", src)
    if not ok:
        ctx.broken.append(("nested spawn programs do not compile", log[-2000:]))
        return
    lines = dict(l.split("\t", 1) for l in out.splitlines() if "\t" in l)
    for pid, body, exp in progs:
        f = lines.get(pid, "MISSING\t").split("\t")
        evs = parse_rust_events(f[1] if len(f) > 1 else "")
        got = {int(t[3:]): tn for (t, tn, tid) in evs if t.startswith("cb:")}
        ctx.evals += 1
        if f[0].startswith("panic") or f[0] in ("BLOCKED", "MISSING") or got != exp:
            ctx.out.violation({"program": body, "observed": lines.get(pid, "MISSING")[:800], "expected_thread_names": exp, "got": got,
                               "what": "nested thread-spawning macros: thread names differ from <caller>_join_<branch index>"},
                              found_input=True, signature=None)


def gen_scaffold(rng, pid, kind, name=None, max_branches=4, max_depth=4, fail_rate=(1, 6), panic_rate=(0, 1),
                 block_rate=(1, 4), name_rate=(1, 3), handler_rate=(1, 2), profile=None, wrap_rate=(0, 1), step_len=None):
    p = Prog(pid, kind, name or rng.pick(NAMES[kind]))
    ids = Ids()
    nb = len(profile) if profile else 1 + rng.below(max_branches)
    is_try = p.is_try()

    def outcome(can_fail):
        if panic_rate[0] and rng.chance(*panic_rate):
            return ("panic", 0)
        if can_fail and rng.chance(*fail_rate):
            return ("fail", 1 + rng.below(90))
        return ("ok", 1 + rng.below(90))

    for b in range(nb):
        depth = profile[b] if profile else 1 + rng.below(max_depth)
        ops = []
        for k in range(depth):
            n_ops = 1 + (rng.below(3) if rng.chance(1, 2) else 0)
            if step_len:
                # long steps: behaviour that depends on the position of an action in its step (two-digit positions)
                n_ops = step_len[0] + rng.below(step_len[1] - step_len[0] + 1)
            for j in range(n_ops):
                first = j == 0
                if k == 0 and first:
                    mode = "init"
                else:
                    # `<|` takes a value, not a callback: only in the sync scaffold (the async one maps operators to future combinators)
                    mode = rng.pick(["map", "andThen", "then", "inspect", "orElse", "mapErr", "andThen", "map"] +
                                    (["or", "filter"] if kind[1] == "0" else []))
                cbid = ids.next()
                out = outcome(mode in ("init", "andThen", "then", "orElse", "or", "filter"))
                if out[0] == "panic":
                    out = ("panic", cbid)
                block = rng.chance(*block_rate)
                op = Op(mode, cbid, out, deferred=(first and k > 0), block=block)
                if (wrap_rate[0] and not block and kind[1] == "0" and mode in ("map", "andThen", "orElse", "mapErr")
                        and rng.chance(*wrap_rate)):
                    op.wspell = 2 if (j == n_ops - 1 and rng.chance(1, 2)) else 1
                if block:
                    op.cap_id = ids.next()
                    if mode in ("init", "or"):
                        # the block's content (a value, not a callback) is evaluated at capture time: keep the value atom quiet
                        op.cb = 0
                        if op.out[0] == "panic":
                            op.out = ("ok", 5)
                ops.append(op)
        nm = ("n%d" % b) if rng.chance(*name_rate) else None
        p.branches.append(dict(name=nm, mut=rng.chance(1, 4), ops=ops))
    # thread-spawning kinds: in half of the programs in which a chain fails, a callback of a *later* branch in the failing step
    # takes its time: the caller may go on only after every thread of the step has finished, whatever its siblings returned
    if kind[1] == "0" and kind[5] == "1" and not panic_rate[0]:
        fails = []
        for b, br in enumerate(p.branches):
            k = 0
            for op in br["ops"]:
                if op.deferred:
                    k += 1
                if op.out[0] == "fail" and op.mode in ("init", "andThen", "then", "orElse", "or", "filter"):
                    fails.append((b, k))
        if fails and rng.chance(1, 2):
            fb, fk = rng.pick(fails)
            cands = []
            for b, br in enumerate(p.branches):
                k = 0
                for op in br["ops"]:
                    if op.deferred:
                        k += 1
                    if b > fb and k == fk and op.cb:
                        cands.append(op.cb)
            if cands:
                p.slow = [rng.pick(cands)]
    if rng.chance(*handler_rate):
        hk = rng.pick(["map", "and_then"]) if is_try else "then"
        hid = ids.next()
        out = outcome(hk == "and_then")
        if out[0] == "panic":
            out = ("panic", hid)
        p.handler = dict(kind=hk, id=hid, out=out, block=rng.chance(1, 2), pos=rng.below(nb + 1))
    return p


def gen_panic_beside_waiter(rng, pid, kind, profile):
    """A thread-spawning program in which a branch panics in a step while a *later* sibling of that step does not return before
    the program is over (its callback waits for a release that comes only after the macro expression has been left): the panic
    must reach the caller all the same - a caller that first waits for every sibling is left blocked (watchdog)."""
    p = gen_scaffold(rng, pid, kind, profile=profile, fail_rate=(0, 1), panic_rate=(0, 1), handler_rate=(0, 1), block_rate=(0, 1))
    last = max(profile) - 1
    act = [b for b, d in enumerate(profile) if d - 1 == last]
    if len(act) < 2:
        return p
    i = act[rng.below(len(act) - 1)]
    j = rng.pick([b for b in act if b > i])

    def ops_of_step(br, k):
        kk, out = 0, []
        for op in br["ops"]:
            if op.deferred:
                kk += 1
            if kk == k:
                out.append(op)
        return out
    oi = [op for op in ops_of_step(p.branches[i], last) if op.cb]
    oj = [op for op in ops_of_step(p.branches[j], last) if op.cb]
    if not oi or not oj:
        return p
    oi[0].out = ("panic", oi[0].cb)
    p.waiters = [oj[0].cb]
    return p


def gen_late_failure(rng, pid, kind, profile):
    """A program in which a branch fails in the *last* step while a later sibling of that step is still busy (a slow callback):
    the caller may only go on - with that failure, for the try macros - once the sibling's thread has finished."""
    p = gen_scaffold(rng, pid, kind, profile=profile, fail_rate=(0, 1), panic_rate=(0, 1), handler_rate=(1, 3), block_rate=(1, 6))
    last = max(profile) - 1
    act = [b for b, d in enumerate(profile) if d - 1 == last]
    if len(act) < 2:
        return p
    i = act[rng.below(len(act) - 1)]
    j = rng.pick([b for b in act if b > i])

    def ops_of_step(br, k):
        kk, out = 0, []
        for op in br["ops"]:
            if op.deferred:
                kk += 1
            if kk == k:
                out.append(op)
        return out
    oi = ops_of_step(p.branches[i], last)[-1]
    if oi.mode not in ("init", "andThen", "then", "orElse", "or", "filter"):
        oi.mode = "andThen"
    if oi.cb == 0:
        return p
    oi.out = ("fail", 1 + rng.below(90))
    cands = [op.cb for op in ops_of_step(p.branches[j], last) if op.cb]
    if cands:
        p.slow = [cands[0]]
    return p


# ------------------------------------------------------------------------------------------------
# K2-chains: every generated chain is compiled through the macro AND as the plain documented method chain
# (README "Combinators" / "Nested combinators") in the same binary; value and callback trace must agree.

CH_PRELUDE = r'''
impl Show for usize { fn show(&self) -> String { format!("{}", self) } }
impl Show for i32 { fn show(&self) -> String { format!("{}", self) } }
impl Show for u32 { fn show(&self) -> String { format!("{}", self) } }
impl Show for bool { fn show(&self) -> String { format!("{}", self) } }
impl<T: Show> Show for Vec<T> { fn show(&self) -> String { format!("V[{}]", self.iter().map(|x| x.show()).collect::<Vec<_>>().join(",")) } }
pub fn t(id: u32) { log(format!("cb:{}", id)); }
pub fn tins<T>(id: u32) -> impl Fn(&T) { move |_| t(id) }
'''

# state -> list of (operator, operand template, plain template with {P} = previous expr and {O} = operand, next state)
CH_OPS = {
    "Opt": [
        ("|>", "|v| {{ t({id}); v + {c} }}", "{P}.map({O})", "Opt"),
        ("=>", "|v| {{ t({id}); if v % 2 == 0 {{ Some(v + {c}) }} else {{ None }} }}", "{P}.and_then({O})", "Opt"),
        ("?>", "|v| {{ t({id}); *v > {c} }}", "{P}.filter({O})", "Opt"),
        ("<|", "Some({c}i64)", "{P}.or({O})", "Opt"),
        ("<=", "|| {{ t({id}); Some({c}i64) }}", "{P}.or_else({O})", "Opt"),
        ("??", "tins({id})", "{{ let __x = {P}; ({O})(&__x); __x }}", "Opt"),
        ("->", "|o: Option<i64>| {{ t({id}); o.map(|x| x + {c}) }}", "({O})({P})", "Opt"),
        ("..", "ok_or({c}i64)", "{P}.{O}", "Res"),
        (">.", "unwrap_or({c})", "{P}.{O}", "Int"),
        ("..", "xor(None::<i64>)", "{P}.{O}", "Opt"),
    ],
    "Res": [
        ("|>", "|v| {{ t({id}); v + {c} }}", "{P}.map({O})", "Res"),
        ("=>", "|v| {{ t({id}); if v % 2 == 0 {{ Ok(v + {c}) }} else {{ Err(v) }} }}", "{P}.and_then({O})", "Res"),
        ("!>", "|e| {{ t({id}); e + {c} }}", "{P}.map_err({O})", "Res"),
        ("<=", "|e| {{ t({id}); if e % 2 == 0 {{ Ok(e) }} else {{ Err(e + {c}) }} }}", "{P}.or_else({O})", "Res"),
        ("<|", "Ok::<i64, i64>({c})", "{P}.or({O})", "Res"),
        ("??", "tins({id})", "{{ let __x = {P}; ({O})(&__x); __x }}", "Res"),
        ("->", "|r: Result<i64, i64>| {{ t({id}); r.map(|x| x * 2 + {c}) }}", "({O})({P})", "Res"),
        (">.", "ok()", "{P}.{O}", "Opt"),
        ("..", "unwrap_or({c})", "{P}.{O}", "Int"),
    ],
    "Int": [
        ("->", "|v: i64| {{ t({id}); v + {c} }}", "({O})({P})", "Int"),
        ("->", "Some", "({O})({P})", "Opt"),
        ("->", "Ok::<i64, i64>", "({O})({P})", "Res"),
        ("..", "wrapping_mul({c})", "{P}.{O}", "Int"),
        ("->", "|v: i64| vec![v, v + 1, {c}].into_iter()", "({O})({P})", "Iter"),
        ("->", "|v: i64| (v, v + {c})", "({O})({P})", "Pair"),
    ],
    # member access whose member is a tuple index: `pair ..0` = `pair.0`
    "Pair": [("..", "0", "{P}.{O}", "Int"), (">.", "1", "{P}.{O}", "Int"), ("..", "1", "{P}.{O}", "Int")],
    "Iter": [
        ("|>", "|v| {{ t({id}); v * 2 + {c} }}", "{P}.map({O})", "Iter"),
        ("?>", "|v| {{ t({id}); v % 2 == 0 }}", "{P}.filter({O})", "Iter"),
        ("?|>", "|v| {{ t({id}); if v > {c} {{ Some(v - 1) }} else {{ None }} }}", "{P}.filter_map({O})", "Iter"),
        (">@>", "vec![{c}i64, 5].into_iter()", "{P}.chain({O})", "Iter"),
        ("|n>", "", "{P}.enumerate()", "EnumIter"),
        (">^>", "vec![{c}i64, 7, 9].into_iter()", "{P}.zip({O})", "PairIter"),
        ("^@", "0i64, |a, v| {{ t({id}); a + v }}", "{P}.fold({O})", "Int"),
        ("?^@", "0i64, |a: i64, v| {{ t({id}); a.checked_add(v) }}", "{P}.try_fold({O})", "Opt"),
        ("?@", "|v| {{ t({id}); *v > {c} }}", "{P}.find({O})", "Opt"),
        ("?|>@", "|v| {{ t({id}); if v > {c} {{ Some(v * 2) }} else {{ None }} }}", "{P}.find_map({O})", "Opt"),
        ("?&!>", "|v| {{ t({id}); v % 2 == 0 }}", "{P}.partition({O})", "Part"),
        ("=>[]", "Vec<i64>", "{P}.collect::<{O}>()", "VecI"),
        ("=>[]", "", "{P}.collect()", "VecI"),
        ("|>", "|v| vec![v, v + {c}]", "{P}.map({O})", "NestIter"),
        ("??", "tins({id})", "{{ let __x = {P}; ({O})(&__x); __x }}", "Iter"),
    ],
    "NestIter": [("^^>", "", "{P}.flatten()", "Iter")],
    "EnumIter": [("|>", "|(i, v)| {{ t({id}); v + i as i64 }}", "{P}.map({O})", "Iter"),
                 ("<->", "usize, i64, Vec<usize>, Vec<i64>", "{P}.unzip::<{O}>()", "UnzU")],
    "PairIter": [("|>", "|(a, b)| {{ t({id}); a + b }}", "{P}.map({O})", "Iter"),
                 ("<->", "", "{P}.unzip()", "Unz")],
    "VecI": [("..", "into_iter()", "{P}.{O}", "Iter"), ("..", "len()", "{P}.{O}", "Usize")],
}
# wrappers: (state, macro text with {id}/{c}, plain template, next state)
CH_WRAP = {
    "Opt": [
        ("=> >>> ..checked_add({c}) <<<", "{P}.and_then(|__v| __v.checked_add({c}))", "Opt"),
        ("|> >>> ..wrapping_mul(2) ..wrapping_add({c}) <<<", "{P}.map(|__v| __v.wrapping_mul(2).wrapping_add({c}))", "Opt"),
        ("?> >>> ..is_positive() <<<", "{P}.filter(|__v| __v.is_positive())", "Opt"),
        ("|> >>> -> Some |> >>> ..wrapping_add({c}) <<< ..unwrap_or(0) <<<",
         "{P}.map(|__v| (Some)(__v).map(|__v| __v.wrapping_add({c})).unwrap_or(0))", "Opt"),
        ("=> >>> -> Some ?> >>> ..is_positive()", "{P}.and_then(|__v| (Some)(__v).filter(|__v| __v.is_positive()))", "Opt"),
        ("|> >>> <<<", "{P}.map(|__v| __v)", "Opt"),
        ("=> >>> ..checked_sub({c})", "{P}.and_then(|__v| __v.checked_sub({c}))", "Opt"),
    ],
    "Res": [
        ("!> >>> ..wrapping_add({c}) <<<", "{P}.map_err(|__v| __v.wrapping_add({c}))", "Res"),
        ("<= >>> -> Err::<i64, i64> <<<", "{P}.or_else(|__v| (Err::<i64, i64>)(__v))", "Res"),
        ("=> >>> -> Ok::<i64, i64> |> >>> ..wrapping_sub({c}) <<< <<<", "{P}.and_then(|__v| (Ok::<i64, i64>)(__v).map(|__v| __v.wrapping_sub({c})))", "Res"),
        ("|> >>> ..wrapping_mul({c})", "{P}.map(|__v| __v.wrapping_mul({c}))", "Res"),
    ],
    "Iter": [
        ("|> >>> ..wrapping_mul({c}) <<<", "{P}.map(|__v| __v.wrapping_mul({c}))", "Iter"),
        ("?> >>> ..is_positive() <<<", "{P}.filter(|__v| __v.is_positive())", "Iter"),
        ("?|> >>> ..checked_sub({c}) <<<", "{P}.filter_map(|__v| __v.checked_sub({c}))", "Iter"),
        ("?@ >>> ..is_positive() <<<", "{P}.find(|__v| __v.is_positive())", "Opt"),
        ("?|>@ >>> ..checked_sub({c}) <<<", "{P}.find_map(|__v| __v.checked_sub({c}))", "Opt"),
        ("?&!> >>> ..is_positive()", "{P}.partition(|__v| __v.is_positive())", "Part"),
        ("|> >>> ..wrapping_add(1) -> Some ?> >>> ..is_positive() <<< ..unwrap_or({c}) <<<",
         "{P}.map(|__v| (Some)(__v.wrapping_add(1)).filter(|__v| __v.is_positive()).unwrap_or({c}))", "Iter"),
    ],
}
CH_INIT = {
    "Opt": ["Some({c}i64)", "None::<i64>", "{{ Some({c}i64) }}", "Some(-{c}i64)"],
    "Res": ["Ok::<i64, i64>({c})", "Err::<i64, i64>({c})", "{{ Ok::<i64, i64>({c}) }}"],
    "Int": ["{c}i64", "-{c}i64", "{c}i64 + 1", "{{ {c}i64 }}", "3i64 | {c}i64"],
    "Iter": ["vec![1i64, 2, 3, {c}].into_iter()", "Vec::<i64>::new().into_iter()", "vec![{c}i64, -4, 7, 10, 11].into_iter()"],
}
CH_TYPE = {"Pair": "(i64, i64)", "Opt": "Option<i64>", "Res": "Result<i64, i64>", "Int": "i64", "VecI": "Vec<i64>", "Part": "(Vec<i64>, Vec<i64>)",
           "Unz": "(Vec<i64>, Vec<i64>)", "UnzU": "(Vec<usize>, Vec<i64>)", "Usize": "usize"}
CH_FINALIZE = {"Iter": ("=>[] Vec<i64>", "{P}.collect::<Vec<i64>>()", "VecI"), "Iter0": ("=>[] Vec<i64>", "{P}.collect::<Vec<i64>>()", "VecI"),
               "EnumIter": ("|> |(i, v)| v + i as i64 =>[] Vec<i64>", "{P}.map(|(i, v)| v + i as i64).collect::<Vec<i64>>()", "VecI"),
               "PairIter": ("<->", "{P}.unzip()", "Unz"), "NestIter": ("^^> =>[] Vec<i64>", "{P}.flatten().collect::<Vec<i64>>()", "VecI")}


class Chain:
    def __init__(self):
        self.macro, self.plain, self.state, self.ops = "", "", "", []


def gen_chain(rng, ids, length, want_final=None, allow_tilde=False, wrappers=(1, 4), force_ops=None):
    """One branch: initial value + operators.  Returns Chain (macro text, plain Rust text, final state)."""
    ch = Chain()
    st = rng.pick(list(CH_INIT))
    c = 1 + rng.below(9)
    init = rng.pick(CH_INIT[st]).format(c=c)
    ch.macro = init
    ch.plain = "(%s)" % init
    n = 0
    while n < length:
        n += 1
        if st == "Iter0":
            st = "Iter"
        if st not in CH_OPS:
            break
        tilde = "~" if allow_tilde and rng.chance(1, 4) else ""
        c = 1 + rng.below(9)
        if st in CH_WRAP and rng.chance(*wrappers):
            m, pl, nxt = rng.pick(CH_WRAP[st])
            # a wrapper left open must be the last action of its step
            if m.count(">>>") > m.count("<<<") and n < length:
                continue
            ch.macro += " " + tilde + m.format(c=c)
            ch.plain = pl.replace("{P}", ch.plain).replace("{c}", str(c))
            ch.ops.append(m.split(" ")[0] + ">>>")
            st = nxt
            continue
        op, otmpl, ptmpl, nxt = rng.pick(CH_OPS[st]) if not force_ops else force_ops.pop(0)
        if op == "=>[]" and not otmpl and n < length:
            continue     # an untyped collect needs the annotated result type: last operator only
        i = ids.next()
        operand = otmpl.format(id=i, c=c)
        needs_inference = operand.startswith("|") and not re.match(r"^\|\w+: ", operand)
        as_block = bool(operand) and op not in ("..", ">.", "=>[]", "<->", "^@", "?^@") and not needs_inference and rng.chance(1, 3)
        o_macro = "{ %s }" % operand if as_block else operand
        ch.macro += " " + tilde + op + (" " + o_macro if o_macro else "")
        ch.plain = ptmpl.replace("{P}", ch.plain).replace("{O}", operand)
        ch.ops.append(op)
        st = nxt
    if st in CH_FINALIZE:
        m, pl, nxt = CH_FINALIZE[st]
        ch.macro += " " + m
        ch.plain = pl.replace("{P}", ch.plain)
        st = nxt
    ch.state = st
    return ch


_CLOSURE_TYPES = {
    ("Opt", "|>"): "i64", ("Opt", "=>"): "i64", ("Opt", "?>"): "&i64",
    ("Res", "|>"): "i64", ("Res", "=>"): "i64", ("Res", "!>"): "i64", ("Res", "<="): "i64",
    ("Iter", "|>"): "i64", ("Iter", "?>"): "&i64", ("Iter", "?|>"): "i64", ("Iter", "?@"): "&i64", ("Iter", "?|>@"): "i64",
    ("Iter", "?&!>"): "&i64", ("EnumIter", "|>"): "(usize, i64)", ("PairIter", "|>"): "(i64, i64)",
}


def typed_operand(st, op, operand):
    """The operand with its closure parameter annotated, so that it also type-checks once hoisted into a `let`."""
    ty = _CLOSURE_TYPES.get((st, op))
    if not ty:
        return operand
    m = re.match(r"^\|(\w+|\(\w+, \w+\))\|", operand)
    if not m:
        return operand
    return "|%s: %s|%s" % (m.group(1), ty, operand[m.end():])


# wrappers whose inner chain has a block operand: hoisted and evaluated exactly once, however often the wrapper's closure runs
CH_WRAP_BLOCK = {
    "Iter": [("|> >>> -> {{ t({id}); |x: i64| x + {c} }} <<<",
              "{{ let __b = {{ t({id}); |x: i64| x + {c} }}; {P}.map(move |__v| (__b)(__v)) }}", "Iter"),
             ("?|> >>> -> {{ t({id}); |x: i64| x.checked_sub({c}) }} <<<",
              "{{ let __b = {{ t({id}); |x: i64| x.checked_sub({c}) }}; {P}.filter_map(move |__v| (__b)(__v)) }}", "Iter"),
             ("|> >>> |> {{ t({id}); 5i64 }} <<<"[:0] or "|> >>> ..wrapping_add({{ t({id}); {c}i64 }}) <<<"[:0] or
              "?|>@ >>> -> {{ t({id}); |x: i64| x.checked_sub({c}) }} <<<",
              "{{ let __b = {{ t({id}); |x: i64| x.checked_sub({c}) }}; {P}.find_map(move |__v| (__b)(__v)) }}", "Opt")],
    "Opt": [("=> >>> -> {{ t({id}); |x: i64| Some(x + {c}) }} <<<",
             "{{ let __b = {{ t({id}); |x: i64| Some(x + {c}) }}; {P}.and_then(move |__v| (__b)(__v)) }}", "Opt"),
            ("|> >>> -> {{ t({id}); |x: i64| x * {c} }} ?? {{ t({id}0); tins({id}1) }} <<<"[:0] or
             "|> >>> -> {{ t({id}); |x: i64| x * {c} }} <<<",
             "{{ let __b = {{ t({id}); |x: i64| x * {c} }}; {P}.map(move |__v| (__b)(__v)) }}", "Opt")],
    "Res": [("!> >>> -> {{ t({id}); |x: i64| x - {c} }} <<<",
             "{{ let __b = {{ t({id}); |x: i64| x - {c} }}; {P}.map_err(move |__v| (__b)(__v)) }}", "Res"),
            ("=> >>> -> {{ t({id}); |x: i64| Ok::<i64, i64>(x + {c}) }} <<<",
             "{{ let __b = {{ t({id}); |x: i64| Ok::<i64, i64>(x + {c}) }}; {P}.and_then(move |__v| (__b)(__v)) }}", "Res")],
}
_MATRIX_PREFIX = {"Pair": ("Int", [("->", "|v: i64| (v, v + {c})", "({O})({P})", "Pair")]), "Opt": ("Opt", []), "Res": ("Res", []), "Int": ("Int", []), "Iter": ("Iter", []),
                  "NestIter": ("Iter", [("|>", "|v| vec![v, v + {c}]", "{P}.map({O})", "NestIter")]),
                  "EnumIter": ("Iter", [("|n>", "", "{P}.enumerate()", "EnumIter")]),
                  "PairIter": ("Iter", [(">^>", "vec![{c}i64, 7, 9].into_iter()", "{P}.zip({O})", "PairIter")]),
                  "VecI": ("Iter", [("=>[]", "Vec<i64>", "{P}.collect::<{O}>()", "VecI")])}
_NO_BLOCK_OPS = ("..", ">.", "=>[]", "<->", "^@", "?^@")


def matrix_chain_programs():
    """Deterministic: every operator of every value kind with a plain operand and, where an operand can be a block, with a
    logging block operand; every wrapper form; wrappers with a block operand inside, on values that make the wrapper's closure
    run 0, 1 and several times.  Single-branch `join!` (no `~`), so the plain form is: blocks first, then the method chain."""
    ids = Ids()
    out = []

    def start(st, which=0):
        ch = Chain()
        init = CH_INIT[st][which % len(CH_INIT[st])].format(c=3)
        ch.macro, ch.plain, ch.state = init, "(%s)" % init, st
        return ch

    def apply(ch, entry, block):
        op, otmpl, ptmpl, nxt = entry
        i = ids.next()
        operand = typed_operand(ch.state, op, otmpl.format(id=i, c=4))
        if block:
            b = ids.next()
            ch.macro += " %s { t(%d); %s }" % (op, b, operand)
            ch.plain = "{ let __b%d = { t(%d); %s }; %s }" % (b, b, operand, ptmpl.replace("{P}", ch.plain).replace("{O}", "__b%d" % b))
        else:
            ch.macro += " " + op + (" " + operand if operand else "")
            ch.plain = ptmpl.replace("{P}", ch.plain).replace("{O}", operand)
        ch.ops.append(op)
        ch.state = nxt

    def finish(ch):
        if ch.state in CH_FINALIZE:
            m, pl, nxt = CH_FINALIZE[ch.state]
            ch.macro += " " + m
            ch.plain = pl.replace("{P}", ch.plain)
            ch.state = nxt
        return ch.state in CH_TYPE

    n = 0
    for st, entries in CH_OPS.items():
        st0, prefix = _MATRIX_PREFIX[st]
        for entry in entries:
            for block in (False, True):
                if block and (not entry[1] or entry[0] in _NO_BLOCK_OPS):
                    continue
                if entry[0] == "=>[]" and not entry[1]:
                    continue        # the untyped collect is covered by the random chains (needs the annotated result)
                for which in ((0, 1) if st0 in ("Opt", "Res") else (0,)):
                    ch = start(st0, which)
                    for pe in prefix:
                        apply(ch, pe, False)
                    apply(ch, entry, block)
                    if finish(ch):
                        out.append(ChainProg("m%d" % n, "join", [ch]))
                        n += 1
    for table in (CH_WRAP, CH_WRAP_BLOCK):
        for st, entries in table.items():
            for (m, pl, nxt) in entries:
                for which in range(len(CH_INIT[st])):
                    ch = start(st, which)
                    i = ids.next()
                    ch.macro += " " + (m.format(c=4, id=i) if table is CH_WRAP_BLOCK else m.replace("{c}", "4"))
                    if table is CH_WRAP_BLOCK:
                        ch.plain = pl.format(c=4, id=i, P="\0").replace("\0", ch.plain)
                    else:
                        ch.plain = pl.replace("{P}", ch.plain).replace("{c}", "4")
                    ch.ops.append(m.split(" ")[0] + ">>>")
                    ch.state = nxt
                    if finish(ch):
                        out.append(ChainProg("m%d" % n, "join", [ch]))
                        n += 1
    return out


class ChainProg:
    def __init__(self, pid, name, chains):
        self.pid, self.name, self.chains = pid, name, chains

    def invocation(self):
        return "%s! { %s }" % (self.name, self.macro_input())

    def macro_input(self):
        return ", ".join(c.macro for c in self.chains)

    def ty(self):
        ts = [CH_TYPE[c.state] for c in self.chains]
        return ts[0] if len(ts) == 1 else "(" + ", ".join(ts) + ")"

    def rust_fn(self):
        plain = self.chains[0].plain if len(self.chains) == 1 else "(" + ", ".join(c.plain for c in self.chains) + ")"
        text = self._rust_fn(plain)
        return text.replace("strip(", "strip_sorted(") if len(self.chains) > 1 else text

    def _rust_fn(self, plain):
        return ("fn %s() -> String {\n    take_log();\n"
                "    let a = std::panic::catch_unwind(|| { let __r: %s = %s! { %s }; __r.show() }).unwrap_or_else(|e| format!(\"panic {}\", panic_text(e))); let ta = take_log();\n"
                "    let b = std::panic::catch_unwind(|| { let __r: %s = %s; __r.show() }).unwrap_or_else(|e| format!(\"panic {}\", panic_text(e))); let tb = take_log();\n"
                "    if a == b && strip(&ta) == strip(&tb) { format!(\"same {}\", a) } else { format!(\"DIFF macro={} [{}] plain={} [{}]\", a, strip(&ta), b, strip(&tb)) }\n}\n"
                % (self.pid, self.ty(), self.name, self.macro_input(), self.ty(), plain))


CH_MAIN = r'''
fn strip(s: &str) -> String { s.split(' ').map(|w| w.split('@').next().unwrap_or("")).collect::<Vec<_>>().join(" ") }
// several branches: the macro runs step by step across the branches, the plain tuple branch by branch; compare as multisets
fn strip_sorted(s: &str) -> String { let mut v: Vec<&str> = s.split(' ').map(|w| w.split('@').next().unwrap_or("")).collect(); v.sort(); v.join(" ") }
fn main() {
    std::panic::set_hook(Box::new(|_| {}));
    let progs: Vec<(&str, fn() -> String)> = vec![%s];
    for (name, f) in progs { println!("{}\t{}", name, f()); }
}
'''


def gen_chain_programs(rng, n, kinds=("join", "try_join", "join_spawn", "spawn", "try_join_spawn")):
    ids = Ids()
    out = []
    for i in range(n):
        name = rng.pick(list(kinds))
        is_try = name.startswith("try")
        nb = 1 if rng.chance(2, 3) else 2
        chains = []
        for b in range(nb):
            for _ in range(50):
                ch = gen_chain(rng, ids, 1 + rng.below(7), allow_tilde=not is_try)
                if ch.state in CH_TYPE and (not is_try or ch.state == "Res"):
                    break
            else:
                ch = gen_chain(rng, ids, 0)
                if is_try or ch.state not in CH_TYPE:
                    ch = Chain()
                    ch.macro, ch.plain, ch.state = "Ok::<i64, i64>(1)", "Ok::<i64, i64>(1)", "Res"
            chains.append(ch)
        if is_try and nb > 1:
            # try macros transpose: plain form is the tuple transposed by hand
            p = ChainProg("c%d" % i, name, chains)
            p.try_multi = True
        else:
            p = ChainProg("c%d" % i, name, chains)
            p.try_multi = False
        out.append(p)
    return out


class FixedChainProg(ChainProg):
    """A hand-written regression: (macro name, macro input, plain Rust, result type)."""

    def __init__(self, pid, name, macro, plain, ty):
        ChainProg.__init__(self, pid, name, [])
        self._macro, self._plain, self._ty = macro, plain, ty

    def macro_input(self):
        return self._macro

    def ty(self):
        return self._ty

    def rust_fn(self):
        return self._rust_fn(self._plain)


# initial expressions of lower precedence than a method call (defect fixed in /repo 2872bae), in every sync macro
REGRESSION_CHAINS = [
    ("-5i32 ..abs()", "(-5i32).abs()", "i32"),
    # tuple-index members, also deferred and after a multi-operand operator
    ("(1i64, 2i64) ..0", "(1i64, 2i64).0", "i64"),
    ("(1i64, (2i64, 3i64)) ~..1 ~>. 0", "((1i64, (2i64, 3i64)).1).0", "i64"),
    ("vec![1i64, 2, 3].into_iter() |n> <-> usize, i64, Vec<usize>, Vec<i64> ..1 ..len()",
     "vec![1i64, 2, 3].into_iter().enumerate().unzip::<usize, i64, Vec<usize>, Vec<i64>>().1.len()", "usize"),
    ("1u32 | 2u32 ..count_ones()", "(1u32 | 2u32).count_ones()", "u32"),
    ("2i64 + 3 -> |v: i64| v * 2", "(|v: i64| v * 2)(2i64 + 3)", "i64"),
    ("Some(1i64) == None |> |b: bool| !b ..then(|| 1i64)", "(Some(1i64) == None).then(|| 1i64)", "Option<i64>")[:0] or
    ("!true ..then(|| 1i64)", "(!true).then(|| 1i64)", "Option<i64>"),
    ("-7i64 ~-> |v: i64| v + 1 ~..abs()", "((|v: i64| v + 1)(-7i64)).abs()", "i64"),
    ("(1i64..4) |> |v| v * 2 =>[] Vec<i64>", "(1i64..4).map(|v| v * 2).collect::<Vec<i64>>()", "Vec<i64>"),
    # a deferred wrapper closes the wrappers still open and applies to the outer value, in the next step
    ("Err::<Result<i64, i64>, i64>(3) => >>> !> |e: i64| e + 1 ~!> >>> ..wrapping_mul(10)",
     "Err::<Result<i64, i64>, i64>(3).and_then(|v| v.map_err(|e: i64| e + 1)).map_err(|e| e.wrapping_mul(10))", "Result<i64, i64>"),
    ("Ok::<Result<i64, i64>, i64>(Err(4)) => >>> !> |e: i64| e + 1 ~!> >>> ..wrapping_mul(10)",
     "Ok::<Result<i64, i64>, i64>(Err(4)).and_then(|v| v.map_err(|e: i64| e + 1)).map_err(|e| e.wrapping_mul(10))", "Result<i64, i64>"),
    ("Some(2i64) => >>> ..checked_add(1) ~?> >>> ..is_positive() <<< |> |v| v * 3", "Some(2i64).and_then(|v| v.checked_add(1)).filter(|v| v.is_positive()).map(|v| v * 3)", "_"),
    # a wrapper with an empty nested chain is `.op(|v| v)`, which is the identity only for `|>` and `!>`
    ("Some(Some(1i64)) => >>> <<< |> |v| v + 1", "Some(Some(1i64)).and_then(|v| v).map(|v| v + 1)", "Option<i64>"),
    ("vec![Some(1i64), None, Some(3)].into_iter() ?|> >>> <<< ..count()", "vec![Some(1i64), None, Some(3)].into_iter().filter_map(|v| v).count()", "usize"),
    ("vec![None, Some(4i64)].into_iter() ?|>@ >>>", "vec![None, Some(4i64)].into_iter().find_map(|v| v)", "Option<i64>"),
    ("Err::<i64, Result<i64, i64>>(Ok(5)) <= >>> <<< |> |v| v * 2", "Err::<i64, Result<i64, i64>>(Ok(5)).or_else(|v| v).map(|v| v * 2)", "Result<i64, i64>"),
    ("Some(Some(Some(2i64))) => >>> => >>> <<< <<< |> |v| v + 1", "Some(Some(Some(2i64))).and_then(|v| v.and_then(|v| v)).map(|v| v + 1)", "Option<i64>"),
]


# operators with two operands, one or both written as blocks: hoisted in operand order, each evaluated once, before the step
_FB1, _FB2 = "{ t(901); 10i64 }", "{ t(902); |a: i64, v: i64| { t(903); a + v } }"
_TB2 = "{ t(902); |a: i64, v: i64| { t(903); a.checked_add(v) } }"
FOLD_BLOCK_CHAINS = [
    ("vec![1i64, 2, 3].into_iter() ^@ %s, %s" % (_FB1, _FB2),
     "{ let __b1 = %s; let __b2 = %s; vec![1i64, 2, 3].into_iter().fold(__b1, __b2) }" % (_FB1, _FB2), "i64"),
    ("vec![1i64, 2, 3].into_iter() ?^@ %s, %s" % (_FB1, _TB2),
     "{ let __b1 = %s; let __b2 = %s; vec![1i64, 2, 3].into_iter().try_fold(__b1, __b2) }" % (_FB1, _TB2), "Option<i64>"),
    ("vec![1i64, 2, 3].into_iter() |> |v| v + 1 ~^@ %s, %s ~-> |v: i64| { t(904); v * 2 }" % (_FB1, _FB2),
     "{ let __p = vec![1i64, 2, 3].into_iter().map(|v| v + 1); let __b1 = %s; let __b2 = %s; let __f = __p.fold(__b1, __b2); "
     "(|v: i64| { t(904); v * 2 })(__f) }" % (_FB1, _FB2), "i64"),
    ("vec![1i64, 2, 3].into_iter() ^@ 10i64, %s" % _FB2,
     "{ let __b2 = %s; vec![1i64, 2, 3].into_iter().fold(10i64, __b2) }" % _FB2, "i64"),
    ("vec![1i64, 2, 3].into_iter() ^@ %s, |a: i64, v: i64| { t(903); a + v }" % _FB1,
     "{ let __b1 = %s; vec![1i64, 2, 3].into_iter().fold(__b1, |a: i64, v: i64| { t(903); a + v }) }" % _FB1, "i64"),
    ("Some(vec![1i64, 2]) |> >>> ..into_iter() ^@ %s, %s <<<" % (_FB1, _FB2),
     "{ let __b1 = %s; let __b2 = %s; Some(vec![1i64, 2]).map(move |__v| __v.into_iter().fold(__b1, __b2)) }" % (_FB1, _FB2), "Option<i64>"),
    ("{ t(900); vec![1i64, 2, 3].into_iter() } ^@ %s, %s" % (_FB1, _FB2),
     "{ let __b0 = { t(900); vec![1i64, 2, 3].into_iter() }; let __b1 = %s; let __b2 = %s; __b0.fold(__b1, __b2) }" % (_FB1, _FB2), "i64"),
]


class CounterChainProg(FixedChainProg):
    """A wrapper chain whose nested user closure counts its calls in a `Copy` local of the caller (`calls += 1`): the wrapper's
    closure must borrow what the nested closures mention, exactly as the documented `.x(|v| v inner…)` does - the count is
    compared together with the value."""

    def rust_fn(self):
        return ("fn %s() -> String {\n    take_log();\n"
                "    let a = { let mut calls = 0i64; let __r: %s = %s! { %s }; (__r, calls).show() }; let ta = take_log();\n"
                "    let b = { let mut calls = 0i64; let __r: %s = %s; (__r, calls).show() }; let tb = take_log();\n"
                "    if a == b && strip(&ta) == strip(&tb) { format!(\"same {}\", a) } else { format!(\"DIFF macro={} [{}] plain={} [{}]\", a, strip(&ta), b, strip(&tb)) }\n}\n"
                % (self.pid, self._ty, self.name, self._macro, self._ty, self._plain))


_CB = "{ let k = 1i64; move |v: i64| v + k }"          # a block operand: hoisted in front of the step
_IT = "vec![1i64, 2, 3].into_iter()"
# (macro input, documented plain chain with the block bound first, type): one per wrapper-capable operator whose closure may be FnMut
COUNTER_CHAINS = [
    ("Some(5i64) |> %s |> >>> -> |v: i64| { calls += 1; v * 2 }" % _CB,
     "{ let __b = %s; Some(5i64).map(__b).map(|__v| (|v: i64| { calls += 1; v * 2 })(__v)) }" % _CB, "Option<i64>"),
    ("Some(5i64) |> %s => >>> -> |v: i64| { calls += 1; Some(v) }" % _CB,
     "{ let __b = %s; Some(5i64).map(__b).and_then(|__v| (|v: i64| { calls += 1; Some(v) })(__v)) }" % _CB, "Option<i64>"),
    ("Some(5i64) |> %s ?> >>> -> |r: &i64| { calls += 1; *r > 0 }" % _CB,
     "{ let __b = %s; Some(5i64).map(__b).filter(|__v| (|r: &i64| { calls += 1; *r > 0 })(__v)) }" % _CB, "Option<i64>"),
    ("%s |> %s ?|> >>> -> |v: i64| { calls += 1; if v > 2 { Some(v) } else { None } } <<< =>[] Vec<i64>" % (_IT, _CB),
     "{ let __b = %s; %s.map(__b).filter_map(|__v| (|v: i64| { calls += 1; if v > 2 { Some(v) } else { None } })(__v)).collect::<Vec<i64>>() }" % (_CB, _IT), "Vec<i64>"),
    ("%s |> %s ?@ >>> -> |v: &i64| { calls += 1; *v > 2 }" % (_IT, _CB),
     "{ let __b = %s; %s.map(__b).find(|__v| (|v: &i64| { calls += 1; *v > 2 })(__v)) }" % (_CB, _IT), "Option<i64>"),
    ("%s |> %s ?|>@ >>> -> |v: i64| { calls += 1; if v > 2 { Some(v) } else { None } }" % (_IT, _CB),
     "{ let __b = %s; %s.map(__b).find_map(|__v| (|v: i64| { calls += 1; if v > 2 { Some(v) } else { None } })(__v)) }" % (_CB, _IT), "Option<i64>"),
    ("%s |> %s ?&!> >>> -> |v: &i64| { calls += 1; *v > 2 }" % (_IT, _CB),
     "{ let __b = %s; %s.map(__b).partition(|__v| (|v: &i64| { calls += 1; *v > 2 })(__v)) }" % (_CB, _IT), "(Vec<i64>, Vec<i64>)"),
    ("Err::<i64, i64>(3) |> %s <= >>> -> |e: i64| { calls += 1; Ok::<i64, i64>(e) }" % _CB,
     "{ let __b = %s; Err::<i64, i64>(3).map(__b).or_else(|__v| (|e: i64| { calls += 1; Ok::<i64, i64>(e) })(__v)) }" % _CB, "Result<i64, i64>"),
    ("Err::<i64, i64>(3) |> %s !> >>> -> |e: i64| { calls += 1; e + 1 }" % _CB,
     "{ let __b = %s; Err::<i64, i64>(3).map(__b).map_err(|__v| (|e: i64| { calls += 1; e + 1 })(__v)) }" % _CB, "Result<i64, i64>"),
    # two wrappers deep, the block inside the outer one
    ("Some(Some(5i64)) |> >>> |> %s ?> >>> -> |r: &i64| { calls += 1; *r > 0 }" % _CB,
     "{ let __b = %s; Some(Some(5i64)).map(|__v| __v.map(__b).filter(|__v| (|r: &i64| { calls += 1; *r > 0 })(__v))) }" % _CB, "Option<Option<i64>>"),
]


def regression_chain_programs():
    out = []
    for i, (m, pl, ty) in enumerate(COUNTER_CHAINS):
        for name in ("join", "try_join" if ty.startswith(("Option<i64", "Result")) else "join"):
            if not any(o.pid == "cc%d_%s" % (i, name) for o in out):
                out.append(CounterChainProg("cc%d_%s" % (i, name), name, m, pl, ty))
    for i, (m, pl, ty) in enumerate(REGRESSION_CHAINS):
        for name in ("join", "join_spawn", "spawn"):
            out.append(FixedChainProg("r%d_%s" % (i, name), name, m, pl, ty))
    for i, (m, pl, ty) in enumerate(FOLD_BLOCK_CHAINS):
        for name in ("join", "join_spawn"):
            out.append(FixedChainProg("fb%d_%s" % (i, name), name, m, pl, ty))
    return out


def run_chain_programs(ctx, progs, crate="k2chains"):
    """Returns list of (prog, verdict line).  Each program: macro vs plain documented chain."""
    fns = []
    for p in progs:
        if getattr(p, "try_multi", False):
            a, b = p.chains
            plain = "(%s).and_then(|x| (%s).map(|y| (x, y)))" % (a.plain, b.plain)
            ty = "Result<(i64, i64), i64>"
            fns.append(("fn %s() -> String {\n    take_log();\n"
                        "    let a = std::panic::catch_unwind(|| { let __r: %s = %s! { %s }; __r.show() }).unwrap_or_else(|e| format!(\"panic {}\", panic_text(e))); let _ = take_log();\n"
                        "    let b = std::panic::catch_unwind(|| { let __r: %s = %s; __r.show() }).unwrap_or_else(|e| format!(\"panic {}\", panic_text(e))); let _ = take_log();\n"
                        "    if a == b { format!(\"same {}\", a) } else { format!(\"DIFF macro={} plain={}\", a, b) }\n}\n")
                       % (p.pid, ty, p.name, p.macro_input(), ty, plain))
        else:
            fns.append(p.rust_fn())
    src = PRELUDE_SYNC + CH_PRELUDE + "".join(fns) + CH_MAIN % ", ".join('("%s", %s as fn() -> String)' % (p.pid, p.pid) for p in progs)
    global LAST_CHAIN_SRC
    LAST_CHAIN_SRC = src
    ok, out, log = build_and_run(crate, src)
    if not ok:
        return None, log
    lines = dict(l.split("\t", 1) for l in out.splitlines() if "\t" in l)
    ctx.evals += len(progs)
    return [(p, lines.get(p.pid, "MISSING")) for p in progs], log


# ------------------------------------------------------------------------------------------------
# hygiene: a caller's variable keeps its meaning inside a macro body, whatever it is called

RUST_KEYWORDS = set("as break const continue crate else enum extern false fn for if impl in let loop match mod move mut pub ref return "
                    "self Self static struct super trait true type unsafe use where while async await dyn abstract become box do final "
                    "macro override priv typeof unsized virtual yield try union gen _".split())

HYG_SYNC = ("1i64 -> move |hyg_v: i64| hyg_v + {X}, {{ {X} }} -> move |hyg_w: i64| hyg_w * 2 ~-> move |hyg_w: i64| hyg_w + {X}, "
            "3i64 ~-> {{ let hyg_k = {X}; move |hyg_w: i64| hyg_w + hyg_k }}, "
            "then => move |hyg_a: i64, hyg_b: i64, hyg_c: i64| (hyg_a, hyg_b, hyg_c + {X})")
HYG_TRY = ("Some(1i64) |> move |hyg_v: i64| hyg_v + {X}, {{ Some({X}) }} |> move |hyg_w: i64| hyg_w * 2 ~|> move |hyg_w: i64| hyg_w + {X}, "
           "Some(3i64) ~|> {{ let hyg_k = {X}; move |hyg_w: i64| hyg_w + hyg_k }}, "
           "map => move |hyg_a: i64, hyg_b: i64, hyg_c: i64| (hyg_a, hyg_b, hyg_c + {X})")
HYG_ASYNC = ("::futures::future::ready(1i64) |> move |hyg_v: i64| hyg_v + {X}, {{ ::futures::future::ready({X}) }} |> move |hyg_w: i64| hyg_w * 2 "
             "~|> move |hyg_w: i64| hyg_w + {X}, ::futures::future::ready(3i64) ~|> {{ let hyg_k = {X}; move |hyg_w: i64| hyg_w + hyg_k }}, "
             "then => move |hyg_a: i64, hyg_b: i64, hyg_c: i64| ::futures::future::ready((hyg_a, hyg_b, hyg_c + {X}))")
HYG_ASYNC_TRY = ("::futures::future::ok::<i64, i64>(1) |> move |hyg_v: Result<i64, i64>| hyg_v.map(|hyg_v| hyg_v + {X}), "
                 "{{ ::futures::future::ok::<i64, i64>({X}) }} |> move |hyg_w: Result<i64, i64>| hyg_w.map(|hyg_w| hyg_w * 2) "
                 "~|> move |hyg_w: Result<i64, i64>| hyg_w.map(|hyg_w| hyg_w + {X}), "
                 "::futures::future::ok::<i64, i64>(3) ~|> {{ let hyg_k = {X}; move |hyg_w: Result<i64, i64>| hyg_w.map(|hyg_w| hyg_w + hyg_k) }}, "
                 "and_then => move |hyg_a: i64, hyg_b: i64, hyg_c: i64| ::futures::future::ok::<(i64, i64, i64), i64>((hyg_a, hyg_b, hyg_c + {X}))")
# nothing in the probe's own text is a plain lower-case name that a candidate could shadow: paths are absolute, helpers `hyg_…`
HYG_MAIN = r"""
fn hyg_rt() -> ::tokio::runtime::Runtime { ::tokio::runtime::Builder::new_multi_thread().worker_threads(2).enable_all().build().unwrap() }
fn main() {
    let progs: Vec<(&str, fn() -> String)> = vec![%s];
    for (name, f) in progs { println!("{}\t{}", name, f()); }
}
"""


def bound_name_candidates(outs, input_words=()):
    """Identifiers written by the expansion itself (lower-case, not `__…`, not keywords): the names a careless `let`, closure
    parameter or match arm of the expansion could capture from the caller."""
    ids = set()
    for o in outs:
        ids.update(w[2:] for w in o.split(" ") if w[:2] == "i:")
    return sorted(x for x in ids if not x.startswith("__") and x not in RUST_KEYWORDS and x not in input_words
                  and re.match(r"^[a-z][a-z0-9_]*$", x) and not re.match(r"^[a-z]\d+$", x) and not x.startswith("hyg_"))


def in_binding_position(x, outs):
    """`let x`, `let mut x`, `|x|`, `|x:`, `|…, x`, `Ok(x)` / `Err(x)` / `Some(x)` somewhere in the expansions"""
    w = "i:" + x
    for o in outs:
        t = o.split(" ")
        for i, tok in enumerate(t):
            if tok != w:
                continue
            prev, prev2 = (t[i - 1] if i else ""), (t[i - 2] if i > 1 else "")
            nxt = t[i + 1] if i + 1 < len(t) else ""
            if prev == "i:let" or (prev == "i:mut" and prev2 == "i:let") or prev in ("i:static", "i:const", "i:ref"):
                return True
            if prev.startswith("p:|") and (nxt.startswith("p:|") or nxt.startswith("p::") or nxt.startswith("p:,")):
                return True
            if prev == "(" and nxt == ")" and prev2 in ("i:Ok", "i:Err", "i:Some"):
                return True
    return False


def run_hygiene_programs(ctx, candidates, kinds=None):
    """For every candidate name X and every macro: the same program once with a caller variable called X and once with the
    variable called `hyg_fresh`; user code sits in a branch expression, a block operand, a deferred step, a hoisted block and
    the handler.  Both must give the same value.  Returns the number of programs run (None: did not compile)."""
    macros = []
    for k, names in NAMES.items():
        if kinds is None or k in kinds:
            macros += [(k, n) for n in names]
    fns, index = [], []
    for ci, x in enumerate(candidates):
        for (k, name) in macros:
            is_async, is_try = k[1] == "1", k[3] == "1"
            body = (HYG_ASYNC_TRY if is_try else HYG_ASYNC) if is_async else (HYG_TRY if is_try else HYG_SYNC)
            pid = "hyg%d_%s" % (ci, name)

            def call(var):
                m = "%s! { %s }" % (name, body.format(X=var))
                return "hyg_rt().block_on(async move { %s.await })" % m if is_async else m
            fns.append("fn %s() -> String {\n    let a = { let %s = 5i64; format!(\"{:?}\", %s) };\n"
                       "    let b = { let hyg_fresh = 5i64; format!(\"{:?}\", %s) };\n"
                       "    if a == b { format!(\"same {}\", a) } else { format!(\"DIFF named={} fresh={}\", a, b) }\n}\n"
                       % (pid, x, call(x), call("hyg_fresh")))
            index.append((pid, x, name, "%s! { %s }" % (name, body.format(X=x))))
    src = ("#![allow(unused, non_snake_case)]\n#[macro_use] extern crate join;\n" + "".join(fns)
           + HYG_MAIN % ", ".join('("%s", %s as fn() -> String)' % (i[0], i[0]) for i in index))
    ok, out, log = build_and_run("k2hygiene", src, with_async=True)
    if not ok:
        bad, excerpt = blame_compile_error(src, log)
        who = [i for i in index if i[0] == bad]
        if who:
            for (pid, x, name, prog) in who[:3]:
                ctx.out.violation({"macro": name, "program": "let %s = 5i64; %s" % (x, prog), "compiler": excerpt,
                                   "what": "a program whose macro body uses the caller's variable `%s` no longer compiles (the same program "
                                           "with the variable renamed does): the expansion binds that name around user code" % x},
                                  found_input=True, signature="hygiene-" + x)
        else:
            ctx.broken.append(("hygiene programs do not compile against the current macros", log[-3000:]))
        return None
    lines = dict(l.split("\t", 1) for l in out.splitlines() if "\t" in l)
    for (pid, x, name, prog) in index:
        v = lines.get(pid, "MISSING")
        if not v.startswith("same"):
            ctx.out.violation({"macro": name, "program": "let %s = 5i64; %s" % (x, prog), "observed": v[:600],
                               "what": "the macro body sees something else than the caller's variable `%s`: the expansion binds that name "
                                       "around user code (the same program with the variable renamed gives the other value)" % x},
                              found_input=True, signature="hygiene-" + x)
    ctx.evals += len(index)
    return len(index)


# ------------------------------------------------------------------------------------------------
# C16: custom joiner programs (logging joiner macro), C17: nested macros, C19: costs


JOINER_PRELUDE = r'''
macro_rules! jn { ($($e:expr),*) => {{ log(format!("jn:{}", [$(stringify!($e)),*].len())); ($($e),*) }} }
'''


def run_joiner_programs(ctx):
    """`custom_joiner(jn!)`: exactly one application per step with >1 active branches, with exactly those branches;
    the results equal those of the default configuration (reference semantics)."""
    n = 60 if ctx.quick() else 600
    progs = []
    for i in range(n):
        kind = ctx.rng.pick(["a0t0s0", "a0t1s0", "a0t0s1", "a0t1s1"])
        p = gen_scaffold(ctx.rng, "j%d" % i, kind, max_depth=4, fail_rate=(1, 8), handler_rate=(1, 4), block_rate=(1, 5))
        p.opts = ["custom_joiner(jn!)"]
        progs.append(p)
    for i, p in enumerate(progs):
        p.base = 1000 * (i + 1)
    # reference: the same program without the option
    cases = []
    for p in progs:
        opts, p.opts = p.opts, []
        cases.append((p.pid, p.kind, p.macro_input(), "k2joiner"))
        p.opts = opts
    reals = k1.run_real(cases)
    lines = ["SPEC\t%s\t%s\t%s\t%s" % (p.pid, p.kind, r.structure, p.world()) for p, r in zip(progs, reals)]
    outs = k1.run_driver(lines)
    src = PRELUDE_SYNC + JOINER_PRELUDE + "".join(p.rust_fn() for p in progs) + MAIN_SYNC % ", ".join(
        '("%s", %s as fn() -> String)' % (p.pid, p.pid) for p in progs)
    ok, out, log = build_and_run("k2joiner", src)
    if not ok:
        ctx.broken.append(("custom-joiner programs do not compile against the current macros", log[-3000:]))
        return
    got = dict(l.split("\t", 1) for l in out.splitlines() if "\t" in l)
    ctx.evals += len(progs)
    for p, o in zip(progs, outs):
        spec_line = o.split("\t", 1)[1] if "\t" in o else o
        rl = got.get(p.pid, "MISSING\t")
        f = rl.split("\t")
        evs = [t for (t, tn, tid) in parse_rust_events(f[1] if len(f) > 1 else "", p.base)]
        jn = [int(t[3:]) for t in evs if t.startswith("jn:")]
        # steps the reference ran, and their active counts
        ran = sorted(set(int(m) for m in re.findall(r"cs:\d+:(\d+)", spec_line)))
        depths = [p.depth(b) for b in range(len(p.branches))]
        expect = [sum(1 for d in depths if d > k) for k in ran]
        expect = [a for a in expect if a > 1]
        problems = []
        s_res = lean_flat(spec_line, p)[0]
        if normalize_panic(f[0], p.base) != s_res:
            problems.append("result with custom joiner %r differs from the default configuration's %r" % (f[0], s_res))
        if not s_res.startswith("panic") and jn != expect:
            problems.append("joiner applications (argument counts) %r, expected one per multi-branch step: %r" % (jn, expect))
        if problems:
            ctx.out.violation({"macro": p.name, "macro_kind": p.kind, "program": p.invocation(),
                               "observed": rl[:1200], "problems": problems}, found_input=True, signature=None)


NESTING = [
    # a brace-delimited macro standing as a whole operand is an expression like any other: it runs where it is written, after
    # the branches in front of it (`tname` logs its id)
    ("join", "tname(1), join! { tname(2), tname(3) }, tname(4)", "(tname(1), (tname(2), tname(3)), tname(4))", "(i64, (i64, i64), i64)"),
    ("join", "tname(1) -> |v: i64| v + 1, join! { tname(2) } -> |v: i64| v * 2", "((|v: i64| v + 1)(tname(1)), (|v: i64| v * 2)(tname(2)))",
     "(i64, i64)"),
    ("try_join", "Some(tname(1)), try_join! { Some(tname(2)), Some(tname(3)) }, Some(9i64) <| join! { Some(tname(4)) }",
     "{ let a = Some(tname(1)); let b = { let x = Some(tname(2)); let y = Some(tname(3)); x.and_then(|x| y.map(|y| (x, y))) }; "
     "let c = Some(9i64).or({ Some(tname(4)) }); a.and_then(|a| b.and_then(|b| c.map(|c| (a, b, c)))) }", "Option<(i64, (i64, i64), i64)>"),
    # (macro name, macro input, plain Rust, type)
    ("join", "Some(1i64) |> |v| join! { v -> |x: i64| try_join! { Some(x) |> |y| y + 1 }.unwrap_or(0) }",
     "Some(1i64).map(|v| (|x: i64| Some(x).map(|y| y + 1).unwrap_or(0))(v))", "Option<i64>"),
    ("try_join", "Some(2i64) |> { let k = join! { 3i64 -> |z: i64| z * 2 }; move |v| v + k }, Some(1i64)",
     "Some(2i64).map({ let k = 6i64; move |v| v + k }).and_then(|a| Some(1i64).map(|b| (a, b)))", "Option<(i64, i64)>"),
    ("try_join", "Some(1i64), Some(2i64), map => |a, b| join! { a + b -> |s: i64| join_spawn! { s, s * 2 } }",
     "Some((3i64, 6i64))", "Option<(i64, i64)>"),
    ("join_spawn", "join! { 1i64, join_spawn! { 2i64, try_join! { Some(3i64), Some(4i64) } } }, spawn! { 5i64 ~-> |v: i64| join! { v, v } }",
     "((1i64, (2i64, Some((3i64, 4i64)))), (5i64, 5i64))", "((i64, (i64, Option<(i64, i64)>)), (i64, i64))"),
    ("join", "join! { join! { join! { 1i64 -> |a: i64| a + 1 } -> |b: i64| b + 1 } -> |c: i64| c + 1 } ~-> |d: i64| try_join! { Ok::<i64, i64>(d), "
     "Ok::<i64, i64>(join! { d ~-> |e: i64| e * 2 }) }", "Ok::<(i64, i64), i64>((4, 8))", "Result<(i64, i64), i64>"),
    ("try_join_spawn", "Ok::<i64, i64>(1) => |v| try_join_spawn! { Ok::<i64, i64>(v + 1), Ok::<i64, i64>(v + 2) } |> |t: (i64, i64)| t.0 + t.1, "
     "Ok::<i64, i64>(join! { 10i64 ~-> |v: i64| v + 1 })", "Ok::<(i64, i64), i64>((5, 11))", "Result<(i64, i64), i64>"),
]


def run_nesting_programs(ctx):
    progs = [FixedChainProg("nest%d" % i, name, m, pl, ty) for i, (name, m, pl, ty) in enumerate(NESTING)]
    res, log = run_chain_programs(ctx, progs, crate="k2nesting")
    if res is None:
        ctx.broken.append(("nested macro programs do not compile against the current macros", log[-3000:]))
        return
    for (p, verdict) in res:
        if not verdict.startswith("same"):
            ctx.out.violation({"macro": p.name, "program": p.invocation(), "observed": verdict[:1200],
                               "what": "nesting macros changed the meaning of one of them"}, found_input=True, signature=None)


COST_PROGRAM = r'''
use std::alloc::{GlobalAlloc, Layout, System};
use std::sync::atomic::{AtomicUsize, Ordering};
struct Counting;
static ALLOCS: AtomicUsize = AtomicUsize::new(0);
unsafe impl GlobalAlloc for Counting {
    unsafe fn alloc(&self, l: Layout) -> *mut u8 { ALLOCS.fetch_add(1, Ordering::SeqCst); System.alloc(l) }
    unsafe fn dealloc(&self, p: *mut u8, l: Layout) { System.dealloc(p, l) }
}
#[global_allocator] static A: Counting = Counting;
use join::*;
use std::rc::Rc;
struct NoClone(i64);
static DROPS: AtomicUsize = AtomicUsize::new(0);
struct Tok(i64);
impl Drop for Tok { fn drop(&mut self) { DROPS.fetch_add(1, Ordering::SeqCst); } }
fn inc(v: i64) -> i64 { v + 1 }
fn dbl(v: i64) -> i64 { v * 2 }
fn some_inc(v: i64) -> Option<i64> { Some(v + 1) }
fn main() {
    // allocation: sequential macros over non-allocating user code
    let before = ALLOCS.load(Ordering::SeqCst);
    let a = join! { 1i64 -> inc, 2i64 ~-> dbl ~-> inc, 3i64 ~-> inc };
    let b = try_join! { Some(1i64) |> inc, Some(2i64) ~=> some_inc ~|> dbl, Some(3i64), map => |x, y, z| x + y + z };
    let c = try_join! { Ok::<i64, i64>(1) |> inc, Err::<i64, i64>(7) ~|> dbl };
    let d = join! { 5i64 ?? |_: &i64| () -> inc };
    let after = ALLOCS.load(Ordering::SeqCst);
    println!("alloc\t{}\t{:?} {:?} {:?} {:?}", after - before, a, b, c, d);
    // move-only values, each dropped exactly once
    {
        let r = join! { NoClone(1) -> |x: NoClone| x, NoClone(2) ~-> |x: NoClone| NoClone(x.0 + 1) ~-> |x: NoClone| x };
        println!("moveonly\t{} {}", (r.0).0, (r.1).0);
        let t = try_join! { Some(Tok(1)), Some(Tok(2)) ~|> |t: Tok| t, Some(Tok(3)) ~|> |t: Tok| t ~|> |t: Tok| t };
        drop(t);
        let t2 = try_join! { Some(Tok(4)), None::<Tok> ~|> |t: Tok| t, Some(Tok(5)) };
        drop(t2);
    }
    println!("drops\t{}", DROPS.load(Ordering::SeqCst));
    // !Send values and borrows of the caller's stack through the non-spawning macros
    let rc = join! { Rc::new(1i64) -> |r: Rc<i64>| *r + 1, Rc::new(2i64) };
    println!("rc\t{} {}", rc.0, rc.1);
    let data = vec![1i64, 2, 3];
    let mut acc = 0i64;
    let text = String::from("abc");
    let br = join! { data.iter() |> |x| x + 1 =>[] Vec<i64>, &mut acc -> |a: &mut i64| { *a += 5; *a }, &text -> |t: &String| t.len() };
    println!("borrow\t{:?} {} {} {}", br.0, br.1, br.2, acc);
    let mut counter = 0i64;
    let tb = try_join! { Some(&mut counter) |> |c: &mut i64| { *c += 1; *c }, Some(data.len()) ~|> |n| n + 1 };
    println!("tryborrow\t{:?} {}", tb, counter);
    let fb = futures::executor::block_on(join_async! { futures::future::ready(&data) |> |d: &Vec<i64>| d.len(), futures::future::ready(Rc::new(3i64)) |> |r| *r });
    println!("asyncborrow\t{:?}", fb);
    // user closures inside a `>>>` section borrow from the caller's stack like any other operand: a counter that is
    // captured by reference, and a move-only value that is only borrowed and still usable afterwards
    let mut calls = 0i64;
    let wb = join! { Some(Some(2i64)) => >>> |> |v| { calls += 1; v + 1 } <<< };
    println!("wrapborrow\t{:?} {}", wb, calls);
    let label = String::from("ab");
    let mut seen = 0usize;
    let wm = try_join! { Some(Some(1usize)) => >>> |> |v| { seen += 1; v + label.len() } <<< |> |v| v + 1, Some(2usize) };
    println!("wrapmoveonly\t{:?} {} {}", wm, seen, label);
    // the `??` inspector is a closure like any other operand: it may borrow from the caller's stack (a counter), in plain
    // and deferred position, in the sequential and the try macro
    let looks = std::cell::Cell::new(0i64);
    let ib = join! { 5i64 ?? |v: &i64| looks.set(looks.get() + *v) -> inc, 2i64 ~?? |_: &i64| { } };
    let it = try_join! { Some(7i64) ?? |v: &Option<i64>| looks.set(looks.get() + v.unwrap_or(0)) |> inc };
    println!("inspectborrow\t{:?} {:?} {}", ib, it, looks.get());
    // long chains in the non-spawning async macros: still no Send bound (an `Rc` flows through 12 combinators of one step, a
    // `Cell` on the caller's stack is borrowed by 10 closures) and no allocation beyond the one outer `Box::pin` of the macro
    let long_rc = futures::executor::block_on(join_async! { futures::future::ready(Rc::new(1i64))
        |> |r: Rc<i64>| r |> |r: Rc<i64>| r |> |r: Rc<i64>| r |> |r: Rc<i64>| r |> |r: Rc<i64>| r |> |r: Rc<i64>| r
        |> |r: Rc<i64>| r |> |r: Rc<i64>| r |> |r: Rc<i64>| r |> |r: Rc<i64>| r |> |r: Rc<i64>| r |> |r: Rc<i64>| *r + 1 });
    let hits = std::cell::Cell::new(0i64);
    let hr = &hits;     // the macro's future is an `async move` block: it takes the reference, not the cell
    let long_cell = futures::executor::block_on(try_join_async! { futures::future::ok::<i64, i64>(1)
        |> |r: Result<i64, i64>| { hr.set(hr.get() + 1); r } |> |r: Result<i64, i64>| { hr.set(hr.get() + 1); r }
        |> |r: Result<i64, i64>| { hr.set(hr.get() + 1); r } |> |r: Result<i64, i64>| { hr.set(hr.get() + 1); r }
        |> |r: Result<i64, i64>| { hr.set(hr.get() + 1); r } |> |r: Result<i64, i64>| { hr.set(hr.get() + 1); r }
        |> |r: Result<i64, i64>| { hr.set(hr.get() + 1); r } |> |r: Result<i64, i64>| { hr.set(hr.get() + 1); r }
        |> |r: Result<i64, i64>| { hr.set(hr.get() + 1); r } |> |r: Result<i64, i64>| { hr.set(hr.get() + 1); r },
        futures::future::ok::<i64, i64>(2) });
    println!("asynclong\t{} {:?} {}", long_rc, long_cell, hits.get());
    let _warm = futures::executor::block_on(join_async! { futures::future::ready(0i64) |> inc, futures::future::ready(0i64) });
    let a0 = ALLOCS.load(Ordering::SeqCst);
    let short = futures::executor::block_on(join_async! { futures::future::ready(1i64) |> inc, futures::future::ready(2i64) });
    let a1 = ALLOCS.load(Ordering::SeqCst);
    let long = futures::executor::block_on(join_async! { futures::future::ready(1i64) |> inc |> inc |> inc |> inc |> inc |> inc |> inc |> inc |> inc
        |> inc |> inc |> inc, futures::future::ready(2i64) ~|> inc ~|> inc });
    let a2 = ALLOCS.load(Ordering::SeqCst);
    println!("asyncalloc\t{} {}\t{:?} {:?}", a1 - a0, a2 - a1, short, long);
}
'''
COST_EXPECTED = {
    "alloc": "0\t(2, 5, 4) Some(11) Err(7) 6",
    "moveonly": "1 3",
    "drops": "5",
    "rc": "2 2",
    "borrow": "[2, 3, 4] 5 3 5",
    "tryborrow": "Some((1, 4)) 1",
    "asyncborrow": "(3, 3)",
    "wrapborrow": "Some(3) 1",
    "wrapmoveonly": "Some((4, 2)) 1 ab",
    "inspectborrow": "(6, 2) Some(8) 12",
    "asynclong": "2 Ok((1, 2)) 10",
    "asyncalloc": "1 1\t(2, 2) (13, 4)",
}


def run_cost_programs(ctx):
    d = "k2cost"
    ok, out, log = build_and_run(d, COST_PROGRAM, with_async=True)
    if not ok:
        ctx.broken.append(("move-only / Rc / borrowing programs do not compile through the non-spawning macros "
                           "(no Clone / Send / 'static requirement may be added)", log[-3000:]))
        m = re.search(r"^error(?:\[E\d+\])?:.*?$(?:\n.*?)*?\n\s*-->\s+src/main\.rs:(\d+):", log, re.M)
        if m:
            lines = COST_PROGRAM.split("\n")
            ln = int(m.group(1))
            # the macro invocation the compiler complains about: the nearest line at or above the reported one that has one
            src_line = next((lines[i].strip() for i in range(min(ln, len(lines)) - 1, -1, -1) if "join" in lines[i] and "!" in lines[i]), "")
            ctx.out.violation({"program": src_line, "compiler": log[m.start():m.start() + 1000],
                               "what": "a program over borrowed / move-only / !Send values that compiles on a tree where the property "
                                       "holds does not compile through the current macros (an added move, Clone, Send or 'static requirement)"},
                              found_input=True, signature=None)
        return
    got = dict(l.split("\t", 1) for l in out.splitlines() if "\t" in l)
    ctx.evals += len(COST_EXPECTED)
    for k, v in COST_EXPECTED.items():
        if got.get(k) != v:
            ctx.out.violation({"program": "tools/k2.py COST_PROGRAM, line `%s`" % k, "observed": got.get(k), "expected": v,
                               "what": {"alloc": "the sequential macros allocated on the heap", "drops": "a value was not dropped exactly once"}.get(
                                   k, "wrong value through borrowed / move-only / !Send operands")}, found_input=True, signature="cost-" + k)
    ctx.out.coverage["samples"].append({"cost_program_lines": got})
