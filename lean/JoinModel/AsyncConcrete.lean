/-
  Concrete async worlds for K2-async: where the pending points of the instrumented chains are, and the per-poll event
  sequence the poll-level model predicts for a schedule of gate openings.
-/
import JoinModel.AsyncSpec
import JoinModel.Concrete
namespace JoinModel

/-- pending points of an instrumented chain: a gated operator awaits its gate right before its callback runs
    (`since` = events of the chain since the last pending point; the chain starts with its `chainStart` event) -/
def pendOps : List COp → Value → Nat → List (Nat × Nat)
  | [], _, _ => []
  | op :: ops, cur, since =>
    let r := applyOp op cur
    let cut : List (Nat × Nat) := if op.gate != 0 && !r.1.isEmpty then [(since, op.gate)] else []
    let since' := (if cut.isEmpty then since else 0) + r.1.length
    match r.2 with
    | .ok v => cut ++ pendOps ops v since'
    | .panic _ => cut

def mkPend (d : WorldDesc) : Pend := fun b k prev _ _ =>
  match d.chains.lookup (b, k) with
  | some ops => pendOps ops (prev.getD (.atom 0)) 1
  | none => []

/-- pending point of the handler's future: after the call event it awaits the handler gate (a handler that panics does so
    when it is called: there is no future to wait for) -/
def mkPendH (d : WorldDesc) : PendH := fun _ =>
  match d.handlerOut with
  | .panic _ => []
  | _ => if d.handlerGate != 0 then [(1, d.handlerGate)] else []

/-- polls until done or the schedule is used up: events per poll -/
def runPolls {ρ : Type} : List Gates → Plan MEv (UR Value) ρ → List (List MEv) × Plan MEv (UR Value) ρ
  | [], p => ([], p)
  | g :: gs, p =>
    let r := p.poll g
    match r.2 with
    | .done x => ([r.1], .done x)
    | q => let rest := runPolls gs q; (r.1 :: rest.1, rest.2)

def gatesOf (opened : List Nat) : Gates := fun g => opened.contains g

/-- cumulative gate sets: poll 0 sees no open gate, poll i+1 the batches 0..i -/
def cumulative : List (List Nat) → List Nat → List Gates
  | [], acc => [gatesOf acc]
  | b :: bs, acc => gatesOf acc :: cumulative bs (acc ++ b)

/-- `APOLL`: the model's prediction for program `p` (async kind) in world `d` under the gate schedule `batches`:
    the plan of the whole block (`planRun`: handler definition, step loop, handler call), polled once per batch -/
def apollLine (p : Input) (kind : Kind) (d : WorldDesc) (batches : List (List Nat)) : String :=
  let σ := mkWorld d
  let c : SpecCfg := ⟨σ, kind, p.branches.map (fun b => b.pat.map (·.ident)), some "main",
                      p.branches.map fun b => splitSteps b.members⟩
  let pr := planRun c (mkPend d) (mkPendH d) (p.handler.map Prod.fst)
  let r := runPolls (cumulative batches []) pr.2
  -- the handler definition and the captures of step 0 belong to the first poll
  let polls : List (List MEv) := match r.1 with
    | [] => [pr.1]
    | first :: more => (pr.1 ++ first) :: more
  let shown := " | ".intercalate (polls.map fun evs => " ".intercalate (evs.map showMEv))
  match r.2 with
  | .done x => showRes x ++ "\t" ++ shown
  | _ => "PENDING\t" ++ shown

def parseBatches (s : String) : Option (List (List Nat)) :=
  if trimS s = "-" then some [] else
  (s.splitOn "|").mapM fun b =>
    if trimS b = "" then some [] else ((trimS b).splitOn ",").mapM (fun x => (trimS x).toNat?)

end JoinModel
