import JoinModel.Tok
