/-
  Model of `JoinOutput::new`, `generate_steps`, `generate_step`, `join_steps`, `generate_handle`
  (join_output.rs) and `generate_join` (join/mod.rs): parsed program + macro kind ↦ structured code.
-/
import JoinModel.IR
namespace JoinModel

/-- Split a branch's members into steps: a deferred (`~`) member starts a new step
    (`JoinOutput::new`, the fold over `expr_chain.members()`). -/
def splitSteps : List Member → List (List Member)
  | [] => [[]]
  | m :: ms =>
    match splitSteps ms with
    | [] => [[m]]            -- unreachable: the result is never empty
    | g :: gs => if m.deferred then [] :: (m :: g) :: gs else (m :: g) :: gs

structure Ctx where
  kind : Kind
  joiner : Option Toks
  fcp : Option Toks
  chains : List (List (List Member))
  depths : List Nat
  maxSteps : Nat
  lazy : Bool
  transpose : Bool
  n : Nat
  pats : List PatV               -- result_pats / result_vars per branch
  deriving Repr, Inhabited

def Ctx.vars (c : Ctx) : List Var := c.pats.map (·.var)

def Ctx.isActive (c : Ctx) (k b : Nat) : Bool :=
  match c.depths[b]? with
  | some d => decide (k < d)
  | none => false

def Ctx.activeCount (c : Ctx) (k : Nat) : Nat := (c.depths.filter fun d => decide (k < d)).length

/-- indices of the branches active in step `k`, ascending -/
def Ctx.activeIdx (c : Ctx) (k : Nat) : List Nat := (List.range c.n).filter (c.isActive k)

def defaultFcp : Toks := [pj ':', pu ':', id' "futures"]

def branchPat (i : Nat) (b : Branch) : PatV :=
  match b.pat with
  | some p => ⟨p.toks, .user p.ident⟩
  | none => ⟨[(Var.r i).tok], .r i⟩

def Input.isMapOrAndThen (p : Input) : Bool :=
  match p.handler with
  | some (.map, _) => true | some (.andThen, _) => true | _ => false

def Input.isThen (p : Input) : Bool :=
  match p.handler with | some (.then_, _) => true | _ => false

/-- `JoinOutput::new` (+ the futures path default of `generate_join`). -/
def mkCtx (p : Input) (kind : Kind) : Except GenErr Ctx :=
  if !kind.isTry && p.isMapOrAndThen then .error .handlerNotTry
  else if kind.isTry && p.isThen then .error .thenInTry
  else if !kind.isAsync && p.fcp.isSome then .error .fcpNotAsync
  else if p.branches.isEmpty then .error .noBranch
  else
    let chains := p.branches.map fun b => splitSteps b.members
    let depths := chains.map (·.length)
    .ok {
      kind := kind
      joiner := p.joiner
      fcp := match p.fcp with
        | some f => some f
        | none => if kind.isAsync then some defaultFcp else none
      chains := chains
      depths := depths
      maxSteps := depths.foldl max 0
      lazy := p.lazy.getD (kind.isSpawn && !kind.isAsync)
      transpose := p.transpose.getD (kind.isTry && !kind.isAsync)
      n := p.branches.length
      pats := p.branches.zipIdx.map fun (b, i) => branchPat i b }

/-- Per-branch results of one step, in branch order. -/
def genElems (c : Ctx) (k : Nat) : List (List Member) → Nat → Except GenErr (List CapDef × List Elem)
  | [], _ => .ok ([], [])
  | acts :: rest, b =>
    let prev := (c.pats[b]?.map (·.var)).getD (.r b)
    match genBranchStep c.kind.isAsync b prev acts with
    | .error e => .error (.internal e)
    | .ok r =>
      match genElems c k rest (b + 1) with
      | .error e => .error e
      | .ok (ds, es) =>
        match r with
        | none => .ok (ds, es)
        | some (d, chain) =>
          let multi := decide (c.activeCount k > 1)
          let wrap : ElemWrap :=
            if multi && c.kind.isSpawn then (if c.kind.isAsync then .tokio else .thread b) else .plain
          .ok (d ++ ds, ⟨b, multi && c.lazy, wrap, prev, acts, chain⟩ :: es)

/-- the actions of every branch in step `k` (`[]` for a branch that has none: it is skipped) -/
def Ctx.stepActs (c : Ctx) (k : Nat) : List (List Member) := c.chains.map fun ch => (ch[k]?).getD []

def idxProjs (c : Ctx) (k : Nat) : List Proj :=
  let n := (c.activeIdx k).length
  (List.range n).map fun i => if c.activeCount k > 1 then Proj.idx i else Proj.whole

/-- `generate_step` -/
def genStep (c : Ctx) (k : Nat) : Except GenErr StepCode :=
  match genElems c k (c.stepActs k) 0 with
  | .error e => .error e
  | .ok (defs, elems) =>
    let multi := decide (c.activeCount k > 1)
    let joiner : Option Toks :=
      if multi then
        match c.joiner with
        | some j => some j
        | none =>
          if c.kind.isAsync then
            some ((c.fcp.getD []) ++ [pj ':', pu ':', id' (if c.kind.isTry then "try_join" else "join"), pu '!'])
          else none
      else none
    let form : JoinForm := match joiner with
      | some j => if multi && c.joiner.isNone && c.kind.isAsync then .futJoin j c.kind.isTry else .call j
      | none => if c.kind.isAsync then .awaitCat else .tuple
    let threads := !c.kind.isAsync && c.kind.isSpawn && decide (c.activeCount k ≥ 2)
    .ok {
      k := k
      tbs := if threads then (c.activeIdx k).map (fun b => (b, b)) else []
      defs := defs
      form := form
      elems := elems
      spawnJoin := if threads then some (idxProjs c k) else none }

def Ctx.activePats (c : Ctx) (k : Nat) : List PatV :=
  (c.pats.zipIdx.filter fun (_, i) => c.isActive k i).map (·.1)

def Ctx.activeVars (c : Ctx) (k : Nat) : List Var := (c.activePats k).map (·.var)

def Ctx.inactiveVars (c : Ctx) (k : Nat) : List Var :=
  (c.pats.zipIdx.filter fun (_, i) => !c.isActive k i).map (·.1.var)

/-- labels of the `match __fail_index` arms: position among the active branches (= position in the flag array) -/
def Ctx.failArms (c : Ctx) (k : Nat) : List (Nat × Var) :=
  (c.activeVars k).zipIdx.map fun (x, pos) => (pos, x)

/-- `join_steps` for a step that has a successor -/
def genLink (c : Ctx) (k : Nat) : Link :=
  if c.kind.isTry then
    if c.transpose then .failCheck (c.activePats k) (c.activeVars k) (c.failArms k)
    else .matchOk (if c.kind.isAsync then some (idxProjs c k) else none) (c.activePats k)
  else .plain (c.activePats k)

/-- `join_steps` for the last step -/
def genFinal (c : Ctx) (k : Nat) : Final :=
  if c.transpose && c.kind.isTry then .transpose (c.activePats k) c.vars
  else if c.kind.isTry then
    if c.n > 1 then
      if (c.inactiveVars k).isEmpty then .matchOkTuple (c.activePats k) c.vars
      else .matchOkTranspose (c.activePats k) (c.inactiveVars k) c.vars
    else .matchOkSingle
  else .tuple (c.activePats k) c.vars

/-- `generate_steps`: steps `k, k+1, …, maxSteps-1` where `rem = maxSteps - 1 - k`. -/
def genSteps (c : Ctx) : (rem : Nat) → (k : Nat) → Except GenErr Steps
  | 0, k =>
    match genStep c k with
    | .error e => .error e
    | .ok s => .ok (.last s (genFinal c k))
  | rem + 1, k =>
    match genStep c k with
    | .error e => .error e
    | .ok s =>
      match genSteps c rem (k + 1) with
      | .error e => .error e
      | .ok rest => .ok (.cons s (genLink c k) rest)

def genHandle (c : Ctx) (h : Option (HKind × Toks)) : Handle :=
  let rvars := (List.range c.n).map Var.r
  match h with
  | none => .none
  | some (.then_, _) => .thenH rvars
  | some (.map, _) => .mapH rvars
  | some (.andThen, _) => .andThenH rvars

/-- `generate_join` -/
def gen (p : Input) (kind : Kind) : Except GenErr Code :=
  match mkCtx p kind with
  | .error e => .error e
  | .ok c =>
    if c.maxSteps = 0 then .error .noSteps else
    match genSteps c (c.maxSteps - 1) 0 with
    | .error e => .error e
    | .ok steps =>
      .ok { kind := kind, userNames := p.branches.map (fun b => b.pat.map (·.ident)), fcp := c.fcp, handlerDef := p.handler.map (·.2), steps := steps,
            handle := genHandle c p.handler }

end JoinModel
