/-
  One iteration of the scan loop of `parse_until` (parse/utils.rs), in three lemmas: it stops, it collects one more token
  tree, or it meets the end of the input.  Used by Props/C14 (round trip) and Lemmas/ParseFuel (termination).
-/
import JoinModel.Parse
namespace JoinModel

theorem firstMatch_nil : firstMatch [] = none := by decide

/-- the input with a leading `~` dropped (what the determiners are tried on) -/
def stripTilde (input : Toks) : Toks :=
  if Tables.deferredDet.check input then input.drop Tables.deferredDet.len else input

/-- the stop condition of one loop iteration -/
def stopHere (o : Oracle) (syn : Syn) (allowEmpty : Bool) (acc input : Toks) : Bool :=
  (firstMatch (stripTilde input)).isSome && ((acc.isEmpty && allowEmpty) || o.valid syn acc)

theorem scan_stop (o : Oracle) (syn : Syn) (ae : Bool) (fuel : Nat) (acc input : Toks) (d0 : Bool)
    (hne : input ≠ []) (h : stopHere o syn ae acc input = true) :
    scan o syn ae (fuel + 1) acc input d0 =
      .ok (acc, firstMatch (stripTilde input), Tables.deferredDet.check input, stripTilde input) := by
  cases input with
  | nil => exact absurd rfl hne
  | cons t r =>
    simp only [stopHere, stripTilde, Bool.and_eq_true] at h
    simp only [scan, stripTilde]
    cases hm : firstMatch (if Tables.deferredDet.check (t :: r) = true then List.drop Tables.deferredDet.len (t :: r) else t :: r) with
    | none => rw [hm] at h; simp at h
    | some g => rw [hm] at h; simp only [h.2]; simp

/-- **Inside a not yet complete operand nothing splits**: when the tokens collected so far are not a complete
    operand — or no determiner matches here — the next token tree is collected, whatever it looks like. -/
theorem scan_continue (o : Oracle) (syn : Syn) (ae : Bool) (fuel : Nat) (acc input : Toks) (d0 : Bool) (t : TT) (rest : Toks)
    (hne : input ≠ []) (h : stopHere o syn ae acc input = false) (hs : stripTilde input = t :: rest) :
    scan o syn ae (fuel + 1) acc input d0 = scan o syn ae fuel (acc ++ [t]) rest (Tables.deferredDet.check input) := by
  cases input with
  | nil => exact absurd rfl hne
  | cons t0 r =>
    simp only [stopHere, stripTilde] at h hs
    simp only [scan]
    cases hm : firstMatch (if Tables.deferredDet.check (t0 :: r) = true then List.drop Tables.deferredDet.len (t0 :: r) else t0 :: r) with
    | none => simp [hs]
    | some g =>
      rw [hm] at h
      simp only [Option.isSome_some, Bool.true_and] at h
      simp [h, hs]

/-- a `~` at the very end of the input: the real parser reports "unexpected end of input" -/
theorem scan_eof (o : Oracle) (syn : Syn) (ae : Bool) (fuel : Nat) (acc input : Toks) (d0 : Bool)
    (hne : input ≠ []) (h : stopHere o syn ae acc input = false) (hs : stripTilde input = []) :
    scan o syn ae (fuel + 1) acc input d0 = .error (.syn "unexpected end of input") := by
  cases input with
  | nil => exact absurd rfl hne
  | cons t0 r =>
    simp only [stopHere, stripTilde] at h hs
    simp only [scan]
    rw [hs] at h ⊢
    simp [firstMatch_nil]

end JoinModel
