/-
  Links between steps, final transposition, and the induction over the steps.
-/
import JoinModel.Lemmas.StepRefine
namespace JoinModel

/-! ### small facts -/

theorem extract_mkTuple (pats : List PatV) (news : List Value) (env : Env) (h : pats.length = news.length) :
    extract pats (mkTuple news) env = M.ret (bindPats pats news env) := by
  unfold extract
  rw [h, untuple_mkTuple]

theorem lookupAll_append (env : Env) (a b : List Var) :
    lookupAll env (a ++ b) = (lookupAll env a).bind fun a' => (lookupAll env b).map fun b' => a' ++ b' := by
  induction a with
  | nil => simp [lookupAll]
  | cons x a ih =>
    simp only [List.cons_append, lookupAll, ih]
    cases env.lookup x with
    | none => rfl
    | some v =>
      cases lookupAll env a with
      | none => rfl
      | some a' => cases lookupAll env b <;> rfl

theorem lookupAll_cons_not_mem (env : Env) (x : Var) (p : Value) (ks : List Var) (h : x ∉ ks) :
    lookupAll ((x, p) :: env) ks = lookupAll env ks := by
  induction ks with
  | nil => rfl
  | cons k ks ih =>
    simp only [List.mem_cons, not_or] at h
    have hne : (k == x) = false := by simpa using Ne.symm h.1
    simp only [lookupAll, List.lookup, hne, ih h.2]

theorem lookupAll_length (env : Env) (ks : List Var) (vs : List Value) (h : lookupAll env ks = some vs) :
    vs.length = ks.length := by
  induction ks generalizing vs with
  | nil => simp [lookupAll] at h; subst h; rfl
  | cons k ks ih =>
    simp only [lookupAll] at h
    cases hk : env.lookup k with
    | none => simp [hk] at h
    | some v =>
      cases hr : lookupAll env ks with
      | none => simp [hk, hr] at h
      | some vs' =>
        simp [hk, hr] at h
        subst h
        simp [ih vs' hr]

theorem firstFail_isSucc_false {l : List Value} {v : Value} (h : firstFail l = some v) : v.isSucc = false := by
  induction l with
  | nil => simp [firstFail] at h
  | cons a l ih =>
    simp only [firstFail] at h
    split at h
    · exact ih h
    · rename_i hn
      cases h
      simpa using hn

/-! ### the transposer -/

theorem evalTransposer_spec (env : Env) (pre suf : List Var) (pvals fvals : List Value)
    (hnd : (pre ++ suf).Nodup) (hne : suf ≠ [])
    (hpre : lookupAll env pre = some pvals) (hsuf : lookupAll env suf = some fvals) :
    evalTransposer env suf (pre ++ suf) =
      match firstFail fvals with
      | some v => M.ret v
      | none => M.ret (.succ (mkTuple (pvals ++ fvals.filterMap payload?))) := by
  induction suf generalizing env pre pvals fvals with
  | nil => exact absurd rfl hne
  | cons x suf ih =>
    simp only [lookupAll] at hsuf
    cases hx : env.lookup x with
    | none => simp [hx] at hsuf
    | some v =>
      cases hrest : lookupAll env suf with
      | none => simp [hx, hrest] at hsuf
      | some fv' =>
        simp [hx, hrest] at hsuf
        subst hsuf
        have hxpre : x ∉ pre := by
          intro hm
          have := List.nodup_append.mp hnd
          exact this.2.2 x hm x (by simp) rfl
        have hxsuf : x ∉ suf := by
          have := (List.nodup_append.mp hnd).2.1
          exact (List.nodup_cons.mp this).1
        cases suf with
        | nil =>
          simp only [lookupAll, Option.pure_def, Option.some.injEq] at hrest
          subst hrest
          simp only [evalTransposer, hx]
          cases v with
          | succ p =>
            have hl : lookupAll ((x, p) :: env) (pre ++ [x]) = some (pvals ++ [p]) := by
              rw [lookupAll_append, lookupAll_cons_not_mem _ _ _ _ hxpre, hpre]
              simp [lookupAll, List.lookup]
            simp [hl, firstFail, Value.isSucc, payload?]
          | _ => simp [firstFail, Value.isSucc]
        | cons y ys =>
          simp only [evalTransposer, hx]
          cases v with
          | succ p =>
            simp only [firstFail, Value.isSucc, if_true, List.filterMap_cons, payload?]
            have hnd' : ((pre ++ [x]) ++ (y :: ys)).Nodup := by simpa [List.append_assoc] using hnd
            have := ih ((x, p) :: env) (pre ++ [x]) (pvals ++ [p]) fv' hnd' (by simp)
              (by
                rw [lookupAll_append, lookupAll_cons_not_mem _ _ _ _ hxpre, hpre]
                simp [lookupAll, List.lookup])
              (by rw [lookupAll_cons_not_mem _ _ _ _ hxsuf, hrest])
            simp only [List.append_assoc, List.singleton_append] at this
            rw [this]
          | _ => simp [firstFail, Value.isSucc]

/-! ### the success check between steps -/

theorem firstFail_findIdx (l : List Value) :
    firstFail l = (l.findIdx? fun v => !v.isSucc).bind fun i => l[i]? := by
  induction l with
  | nil => rfl
  | cons a l ih =>
    simp only [firstFail, List.findIdx?_cons]
    by_cases ha : a.isSucc = true
    · simp only [ha, if_true, Bool.not_true, Bool.false_eq_true, if_false, ih]
      cases l.findIdx? fun v => !v.isSucc <;> simp
    · simp [ha]

theorem find_arm (xs : List Var) (pos : Nat) (h : pos < xs.length) :
    (xs.zipIdx.map fun (xp : Var × Nat) => (xp.2, xp.1)).find? (fun a => a.1 == pos) = some (pos, xs[pos]) := by
  have hgen : ∀ (xs : List Var) (n pos : Nat) (h : pos < xs.length),
      ((xs.zipIdx n).map fun (xp : Var × Nat) => (xp.2, xp.1)).find? (fun a => a.1 == n + pos) = some (n + pos, xs[pos]) := by
    intro xs
    induction xs with
    | nil => intro n pos h; simp at h
    | cons x xs ih =>
      intro n pos h
      cases pos with
      | zero => simp [List.zipIdx_cons]
      | succ pos =>
        have hne : (n == n + (pos + 1)) = false := by simp
        simp only [List.zipIdx_cons, List.map_cons, List.find?_cons, hne, List.getElem_cons_succ]
        have := ih (n + 1) pos (by simpa using h)
        rw [show n + 1 + pos = n + (pos + 1) by omega] at this
        exact this
  simpa using hgen xs 0 pos h

/-! ### final values -/

theorem allSome_of_bound (vals : List (Option Value)) (h : ∀ i, i < vals.length → ((vals[i]?).join).isSome = true) :
    ∃ finals, allSome vals = some finals ∧ finals.length = vals.length ∧
      ∀ i (hi : i < vals.length), (vals[i]?).join = finals[i]? := by
  induction vals with
  | nil => exact ⟨[], rfl, rfl, fun i hi => by simp at hi⟩
  | cons v vals ih =>
    have h0 := h 0 (by simp)
    cases v with
    | none => simp at h0
    | some v =>
      obtain ⟨finals, h1, h2, h3⟩ := ih (fun i hi => by simpa using h (i + 1) (by simp; omega))
      refine ⟨v :: finals, by simp [allSome, h1], by simp [h2], ?_⟩
      intro i hi
      cases i with
      | zero => simp
      | succ i => simpa using h3 i (by simpa using hi)

theorem finals_of_inv {c : Ctx} {names : List (Option String)} (ok : CtxOK c names) {k : Nat} {env : Env}
    {vals : List (Option Value)} (hinv : Inv c names k env vals) (hk : 0 < k) :
    ∃ finals, allSome vals = some finals ∧ lookupAll env c.vars = some finals ∧ finals.length = c.n := by
  obtain ⟨finals, h1, h2, h3⟩ := allSome_of_bound vals (fun i hi => hinv.bound hk i (hinv.len ▸ hi))
  refine ⟨finals, h1, ?_, by rw [h2, hinv.len]⟩
  rw [vars_eq ok]
  apply lookupAll_of_forall _ _ _ (by simp [h2, hinv.len])
  intro i hi
  have hi' : i < c.n := by simpa using hi
  simp only [List.getElem_map, List.getElem_range]
  rw [hinv.agree i hi', h3 i (hinv.len ▸ hi'), List.getElem?_eq_getElem]

def encode (isTry : Bool) : Fin → Value
  | .vals vs => if isTry then .succ (mkTuple vs) else mkTuple vs
  | .failed v => v

/-! ### the induction over the steps -/

theorem specChains_length (sc : SpecCfg) (k : Nat) (vals : List (Option Value)) (vis : List (String × Value))
    (act : List Nat) (caps : List (List Value)) (hl : act.length = caps.length) (news : List Value)
    (h : (specChains sc k vals vis act caps).res = .ok news) : news.length = act.length := by
  unfold specChains at h
  split at h
  · rw [specChainsFork_length _ _ _ _ _ _ h]; simp [hl]
  · rw [specChainsSeq_length _ _ _ _ _ _ h]; simp [hl]

theorem lookupAll_activeVars {c : Ctx} {names : List (Option String)} (ok : CtxOK c names) (k : Nat)
    (news : List Value) (hn : news.length = (c.activeIdx k).length) (env : Env) :
    lookupAll (bindPats (c.activePats k) news env) (c.activeVars k) = some news := by
  have hl : (c.activeVars k).length = news.length := by rw [activePats_vars ok k]; simp [hn]
  apply lookupAll_of_forall _ _ _ hl
  intro i hi
  unfold bindPats
  have hav : (c.activePats k).map (·.var) = c.activeVars k := rfl
  rw [hav, lookup_append, lookup_zip_of_nodup _ _ hl (activeVars_nodup ok k) i hi]
  rfl

theorem evalSteps_eq {c : Ctx} {names : List (Option String)} (ok : CtxOK c names) (σ : World)
    (parent : Option String) (hall0 : c.activeIdx 0 = List.range c.n)
    (hfirst0 : ∀ b ∈ c.activeIdx 0, usesPrev ((specCfgOf σ parent names c).acts b 0) = false)
    (hn : 0 < c.n) (hnt : c.kind.isAsync = true → c.kind.isTry = false)
    (htrT : c.kind.isTry = true → c.transpose = true) :
    ∀ (rem k : Nat) (env : Env) (vals : List (Option Value)) (steps : Steps),
      Inv c names k env vals → genSteps c rem k = .ok steps →
      evalSteps (cfgOf σ parent names) env steps =
        (specLoop (specCfgOf σ parent names c) rem k vals).andThen fun f => M.ret (encode c.kind.isTry f) := by
  intro rem
  induction rem with
  | zero =>
    intro k env vals steps hinv hgen
    simp only [genSteps] at hgen
    split at hgen
    · cases hgen
    · rename_i s hs
      cases hgen
      have hstep := evalStep_eq ok σ parent k env vals hinv s hs (fun h0 => by subst h0; exact hfirst0) hnt
      obtain ⟨hk, -, -, -, -, -⟩ := genStep_shape ok σ parent k s hs
      simp only [evalSteps, hstep, M.andThen_assoc, M.ret_andThen]
      rw [specLoop]
      simp only [active_eq ok σ parent k, M.andThen_assoc]
      apply M.andThen_congr
      intro capss hcapss
      obtain ⟨hl, -⟩ := specCapsAll_length _ _ _ _ _ hcapss
      have hsc : (specCfgOf σ parent names c).kind = c.kind := rfl
      show (specChains _ _ _ _ _ _).andThen _ = (specChains _ _ _ _ _ _).andThen _
      apply M.andThen_congr
      intro news hnews
      have hnl := specChains_length _ _ _ _ _ _ hl _ hnews
      generalize hjunk : (Var.sr s.k, mkTuple news) :: (capEnv (fun b => (specCfgOf σ parent names c).acts b k)
        (c.activeIdx k) capss ++ (tbsEnv c k ++ env)) = env2
      have hjunk' : ∃ junk, env2 = junk ++ env ∧ ∀ xv ∈ junk, xv.1.isScratch = true := by
        refine ⟨(Var.sr s.k, mkTuple news) :: (capEnv (fun b => (specCfgOf σ parent names c).acts b k)
          (c.activeIdx k) capss ++ tbsEnv c k), by rw [← hjunk]; simp, ?_⟩
        intro xv hxv
        rcases List.mem_cons.mp hxv with rfl | h
        · rfl
        · rcases List.mem_append.mp h with h | h
          · exact capEnv_scratch _ _ _ xv h
          · exact tbsEnv_scratch c k xv h
      obtain ⟨junk, hje, hjs⟩ := hjunk'
      have hinv' := inv_step ok hinv news hnl junk hjs (fun h0 => by subst h0; exact hall0)
      rw [← hje] at hinv'
      obtain ⟨finals, hf1, hf2, hf3⟩ := finals_of_inv ok hinv' (Nat.succ_pos k)
      have hpl : (c.activePats k).length = news.length := by rw [activePats_length ok k, hnl]
      simp only [hk, hf1, hsc]
      by_cases htry : c.kind.isTry = true
      · have htr := htrT htry
        simp only [genFinal, htr, htry, Bool.and_self, if_true, evalSteps]
        rw [extract_mkTuple _ _ _ hpl, M.ret_andThen]
        have hvne : c.vars ≠ [] := by
          rw [vars_eq ok]; intro h
          have := congrArg List.length h
          simp at this; omega
        have := evalTransposer_spec (bindPats (c.activePats k) news env2) [] c.vars [] finals
          (by simpa using ok.varsNodup) hvne rfl hf2
        simp only [List.nil_append] at this
        rw [this]
        cases firstFail finals <;> simp [encode, htry]
      · have htry' : c.kind.isTry = false := by simpa using htry
        simp only [genFinal, htry', Bool.and_false, Bool.false_eq_true, if_false, evalSteps]
        rw [extract_mkTuple _ _ _ hpl, M.ret_andThen, hf2]
        simp [encode, htry']
  | succ rem ih =>
    intro k env vals steps hinv hgen
    simp only [genSteps] at hgen
    split at hgen
    · cases hgen
    · rename_i s hs
      split at hgen
      · cases hgen
      · rename_i rest hrest
        cases hgen
        have hstep := evalStep_eq ok σ parent k env vals hinv s hs (fun h0 => by subst h0; exact hfirst0) hnt
        obtain ⟨hk, -, -, -, -, -⟩ := genStep_shape ok σ parent k s hs
        simp only [evalSteps, hstep, M.andThen_assoc, M.ret_andThen]
        rw [specLoop]
        simp only [active_eq ok σ parent k, M.andThen_assoc]
        apply M.andThen_congr
        intro capss hcapss
        obtain ⟨hl, -⟩ := specCapsAll_length _ _ _ _ _ hcapss
        have hsc : (specCfgOf σ parent names c).kind = c.kind := rfl
        show (specChains _ _ _ _ _ _).andThen _ = (specChains _ _ _ _ _ _).andThen _
        apply M.andThen_congr
        intro news hnews
        have hnl := specChains_length _ _ _ _ _ _ hl _ hnews
        generalize hjunk : (Var.sr s.k, mkTuple news) :: (capEnv (fun b => (specCfgOf σ parent names c).acts b k)
          (c.activeIdx k) capss ++ (tbsEnv c k ++ env)) = env2
        have hjunk' : ∃ junk, env2 = junk ++ env ∧ ∀ xv ∈ junk, xv.1.isScratch = true := by
          refine ⟨(Var.sr s.k, mkTuple news) :: (capEnv (fun b => (specCfgOf σ parent names c).acts b k)
            (c.activeIdx k) capss ++ tbsEnv c k), by rw [← hjunk]; simp, ?_⟩
          intro xv hxv
          rcases List.mem_cons.mp hxv with rfl | h
          · rfl
          · rcases List.mem_append.mp h with h | h
            · exact capEnv_scratch _ _ _ xv h
            · exact tbsEnv_scratch c k xv h
        obtain ⟨junk, hje, hjs⟩ := hjunk'
        have hinv' := inv_step ok hinv news hnl junk hjs (fun h0 => by subst h0; exact hall0)
        rw [← hje] at hinv'
        have hpl : (c.activePats k).length = news.length := by rw [activePats_length ok k, hnl]
        have hrec := ih (k + 1) _ _ rest hinv' hrest
        simp only [hk, hsc]
        by_cases htry : c.kind.isTry = true
        · have htr := htrT htry
          simp only [genLink, htr, htry, if_true]
          rw [extract_mkTuple _ _ _ hpl, M.ret_andThen, lookupAll_activeVars ok k news hnl]
          simp only [M.ofOption_some, M.ret_andThen]
          rw [firstFail_findIdx]
          cases hfi : news.findIdx? (fun v => !v.isSucc) with
          | none => simp only [Option.bind_none]; rw [htry] at hrec; exact hrec
          | some pos =>
            have hpos : pos < news.length := by
              have := List.findIdx?_eq_some_iff_getElem.mp hfi
              exact this.1
            have hpv : pos < (c.activeVars k).length := by rw [activePats_vars ok k]; simpa [hnl] using hpos
            have hnot : (news[pos]).isSucc = false := by
              have := List.findIdx?_eq_some_iff_getElem.mp hfi
              simpa using this.2.1
            simp only [Ctx.failArms, find_arm _ pos hpv, Option.bind_some, List.getElem?_eq_getElem hpos]
            have hlk : (bindPats (c.activePats k) news env2).lookup (c.activeVars k)[pos] = some news[pos] := by
              unfold bindPats
              have hav : (c.activePats k).map (·.var) = c.activeVars k := rfl
              have hl2 : (c.activeVars k).length = news.length := by rw [activePats_vars ok k]; simp [hnl]
              rw [hav, lookup_append, lookup_zip_of_nodup _ _ hl2 (activeVars_nodup ok k) pos hpv]
              rfl
            rw [hlk]
            cases hv : news[pos] with
            | succ p => rw [hv] at hnot; simp [Value.isSucc] at hnot
            | _ => simp [encode]
        · have htry' : c.kind.isTry = false := by simpa using htry
          simp only [genLink, htry', Bool.false_eq_true, if_false]
          rw [extract_mkTuple _ _ _ hpl, M.ret_andThen]
          rw [htry'] at hrec
          exact hrec

end JoinModel
