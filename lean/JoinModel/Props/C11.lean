/-
  C11 — block operands are evaluated once, before their step's expressions.
-/
import JoinModel.Props.Common
import JoinModel.SpecTables
import JoinModel.AsyncSpec
import JoinModel.Lemmas.CapsOrder
import JoinModel.Print
namespace JoinModel.Props.C11
open JoinModel JoinModel.Props

/-- The operators whose `{…}` operands are evaluated ahead of the step are exactly the documented ones:
    every operator that takes expression operands, member access excluded, the initial value included
    (table T9, regenerated from process_expr.rs / err_expr.rs / initial_expr.rs on every run). -/
theorem hoistable_set : ∀ c : Comb, (isReplaceable c && hasInner c) = SpecTables.hoisting.contains c := by
  intro c; cases c <;> decide

/-- Which operands of a member are hoisted: exactly its block operands, when the operator hoists — for both
    operands of fold / try_fold as well. -/
theorem hoisted_operands (b e : Nat) (m : Member) (h : (isReplaceable m.ctor && hasInner m.ctor) = true) :
    (hoist b e m).1.map (fun d => d.i) =
      (m.ops.zipIdx.filter fun oi => decide (oi.1.kind = .block)).map Prod.snd := by
  simp only [hoist, h, if_true, List.map_filterMap]
  have hf : (fun (x : Operand × Nat) => Option.map (fun (d : CapDef) => d.i)
      (if x.fst.kind = OpKind.block then some { b := b, e := e, i := x.snd, toks := x.fst.toks } else none))
      = fun x => if x.fst.kind = OpKind.block then some x.snd else none := by
    funext x; by_cases hb : x.1.kind = .block <;> simp [hb]
  rw [hf]
  induction m.ops.zipIdx with
  | nil => rfl
  | cons oi l ih =>
    simp only [List.filterMap_cons, List.filter_cons]
    by_cases hb : oi.1.kind = .block <;> simp [hb, ih]

/-- In a step whose captures all return, the capture events are exactly: for every active branch in branch
    order, for every hoisted operand in (action position, operand index) order, one event — each exactly once. -/
theorem captures_in_branch_then_position_order (sc : SpecCfg) (k : Nat) (vis : List (String × Value))
    (capss : List (List Value)) (h : (specCapsAll sc k vis (sc.active k)).res = .ok capss) :
    (specCapsAll sc k vis (sc.active k)).trace =
      (sc.active k).flatMap fun b => (capKeys (sc.acts b k)).map fun ei => .ev (.cap b k ei.1 ei.2 vis) :=
  specCapsAll_trace_ok sc k vis _ capss h

/-- All captures of step k come after every event of step k-1 and before every chain event (or fork) of step k:
    the trace is sorted by (step, captures before chains). -/
theorem captures_before_chains (σ : World) (parent : Option String) (p : Input) (kind : Kind) :
    (keysOf (loopOf σ parent p kind).trace).Pairwise (· ≤ ·) :=
  specLoop_sorted _ _ _ _

/-- Captures run on the calling thread, never inside a branch thread: a fork body consists of chain events only. -/
theorem captures_on_caller (b k : Nat) (o : ChainOut) : ∀ e ∈ chainEvents b k o, ∀ b' k' e' i' vis, e ≠ .cap b' k' e' i' vis := by
  intro e he b' k' e' i' vis heq
  subst heq
  simp only [chainEvents, List.mem_append, List.mem_singleton, List.mem_map] at he
  rcases he with (h | ⟨_, _, h⟩) | h
  · cases h
  · cases h
  · cases hr : o.res with
    | ok v => rw [hr] at h; simp at h
    | panic n => rw [hr] at h; simp at h

/-- The captured value is used as the operand: the chain receives the list of its captured values, in the same
    order, and the emitted chain refers to them by the names the definitions bind (`hoist`). -/
theorem operand_replaced_by_name (b e : Nat) (m : Member) (h : (isReplaceable m.ctor && hasInner m.ctor) = true) :
    (hoist b e m).2 = m.ops.zipIdx.map fun oi => if oi.1.kind = .block then [(Var.ew b e oi.2).tok] else oi.1.toks := by
  simp [hoist, h]

/-! ### the async macros: every schedule of gate openings -/

/-- **Block captures before their step's chains — async, every schedule.**  Give every event the key `2·step` (block
    capture) or `2·step + 1` (anything inside a chain).  Whatever gates are open at whatever polls, along everything the
    `async move` block emits these keys never decrease: the block operands of step `k` are all evaluated after the last
    event of step `k − 1` and before the first event of any chain of step `k` — also when chains fail or panic. -/
theorem async_captures_before_chains_every_schedule (c : SpecCfg) (pend : Pend) (rem k : Nat) (vals : List (Option Value))
    (gs : List Gates) :
    (((planLoop c pend rem k vals).1 ++ ((planLoop c pend rem k vals).2.run gs).1).map keyLevel).Pairwise (· ≤ ·) ∧
    ∀ e ∈ (planLoop c pend rem k vals).1 ++ ((planLoop c pend rem k vals).2.run gs).1, e.step.isSome = true := by
  obtain ⟨h1, _, h2, h3⟩ := planLoop_leveled c pend rem k vals
  obtain ⟨m, _, _, hs, hb⟩ := h2.run keyLevel gs
  obtain ⟨ha, _⟩ := h3.run (fun e : MEv => e.step.isSome = true) gs
  have hk : ∀ e ∈ (planLoop c pend rem k vals).1, keyLevel e = 2 * k := by
    intro e he
    obtain ⟨x, y⟩ := h1 e he
    simp [keyLevel, x, y]; omega
  refine ⟨?_, ?_⟩
  · rw [List.map_append, List.pairwise_append]
    refine ⟨pairwise_const_level keyLevel _ (2 * k) hk, hs, ?_⟩
    intro u hu v hv
    obtain ⟨x, hx, rfl⟩ := List.mem_map.mp hu
    obtain ⟨y, hy, rfl⟩ := List.mem_map.mp hv
    have := (hb y hy).1
    rw [hk x hx]; omega
  · intro e he
    rcases List.mem_append.mp he with he | he
    · simp [(h1 e he).1]
    · exact ha e he

/-- **The hoisted definitions of every generated step are written — hence evaluated — in branch order, and within a
    branch in the order of the actions' positions in the step, then of the operands** (`lex3` on (branch, position, operand
    index), all ascending, for positions and indices of any size: position 10 comes after position 9, not after position 1).
    For every program, macro kind and step. -/
theorem generated_defs_in_position_order (p : Input) (kind : Kind) (c : Ctx) (hs : SupportedBase p)
    (hc : mkCtx p kind = .ok c) (k : Nat) (s : StepCode) (h : genStep c k = .ok s) :
    (s.defs.map fun d => (d.b, d.e, d.i)).Pairwise lex3 := genStep_defs_sorted hs hc k s h

/-- the printer writes the definitions of a step in the order of `defs`, after the thread builders and in front of the step's
    join expression `let __sr{k} = …` -/
theorem defs_printed_in_order (s : StepCode) :
    ((s.tbs.flatMap fun (b, arg) => [kw "let", (Var.j b).tok, pu '=', Var.tb.tok, paren [usizeLit arg], pu ';']) ++
      s.defs.flatMap printCapDef ++ [kw "let", (Var.sr s.k).tok, pu '=']) <+: printStep s := by
  unfold printStep
  simp only [List.append_assoc]
  refine (List.prefix_append_right_inj _).mpr ((List.prefix_append_right_inj _).mpr ?_)
  exact List.prefix_append _ _

/-- Non-vacuity of the order theorem: a step of one branch with block operands at positions 1, 2 and 10 (the regression shape
    of seeded change C11-l), next to a second branch: the keys come out as (0,1,0), (0,2,0), (0,10,0), (1,0,0). -/
example :
    let blk : Operand := ⟨.block, [brace [.ident "x"]]⟩
    let pl : Operand := ⟨.expr, [.ident "f"]⟩
    let ini : Member := ⟨.initial, false, .none, [pl]⟩
    let mb : Member := ⟨.map, false, .none, [blk]⟩
    let mp : Member := ⟨.map, false, .none, [pl]⟩
    let p : Input := { branches := [⟨none, [ini, mb, mb, mp, mp, mp, mp, mp, mp, mp, mb]⟩, ⟨none, [⟨.initial, false, .none, [blk]⟩]⟩] }
    (match mkCtx p ⟨false, false, false⟩ with
      | .ok c => (match genStep c 0 with | .ok s => s.defs.map (fun d => (d.b, d.e, d.i)) | .error _ => [])
      | .error _ => []) = [(0, 1, 0), (0, 2, 0), (0, 10, 0), (1, 0, 0)] := by
  decide +kernel

/-- Non-vacuity: `fold` with two block operands hoists both (positions 0 and 1); with one block and one plain operand only
    the block; `map` with a block operand hoists it, `..` (dot) hoists nothing. -/
example : (hoist 1 2 ⟨.fold, true, .none, [⟨.block, [pu '#']⟩, ⟨.block, [pu '#']⟩]⟩).1.map (fun d => d.i) = [0, 1] := by decide
example : (hoist 1 2 ⟨.fold, true, .none, [⟨.expr, [pu '#']⟩, ⟨.block, [pu '#']⟩]⟩).1.map (fun d => d.i) = [1] := by decide
example : (hoist 0 1 ⟨.map, true, .none, [⟨.block, [pu '#']⟩]⟩).1.length = 1 := by decide
example : (hoist 0 1 ⟨.dot, true, .none, [⟨.block, [pu '#']⟩]⟩).1.length = 0 := by decide

/-- …and a run in which captures do occur: two branches whose steps 1 and 2 have a block operand; the keys of the emitted
    events (capture of step k = 2k, chain of step k = 2k+1) are 1 (×4: two chains, start and end) | 2,2,3,3,3,3 | 4,4,5,5,5,5. -/
def capWorld : World where
  capture b k _ _ _ := .ok (.atom (100 + b + 10 * k))
  chain b k _ _ _ := ⟨[], .ok (.succ (.atom (b + 10 * k)))⟩
  handlerDef := .ok ()
  handlerCall _ := .ok (.atom 0)
  joiner _ vs := .ok (mkTuple vs)

def capProg : Input :=
  let ini : Member := ⟨.initial, false, .none, [⟨.expr, []⟩]⟩
  let stp : Member := ⟨.map, true, .none, [⟨.block, []⟩]⟩
  { branches := [⟨none, [ini, stp, stp]⟩, ⟨none, [ini, stp, stp]⟩] }

example : keysOf (loopOf capWorld none capProg ⟨false, false, false⟩).trace = [1, 1, 1, 1, 2, 2, 3, 3, 3, 3, 4, 4, 5, 5, 5, 5] := by decide

end JoinModel.Props.C11
