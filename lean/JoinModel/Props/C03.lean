/-
  C03 — step barrier: `~` actions wait for every branch of the previous step.
  Part 1 (this file): program order on the calling thread and data flow, for the sequential and
  thread-spawning macros.  Part 2 (Props/C08.lean, `Lin`): every interleaving of the branch threads.
  Part 3 (last section): the async macros, every order in which pending futures become ready.
-/
import JoinModel.Props.Common
import JoinModel.Lemmas.LinLoop
import JoinModel.AsyncSpec
namespace JoinModel.Props.C03
open JoinModel JoinModel.Props

/-- On the calling thread the events of a run are sorted by (step, captures before chains): nothing that belongs
    to step k+1 — operand, callback, block capture, fork — comes before anything of step k.  A forked branch
    thread is one event here; its body is ordered by `Lin` (C08). -/
theorem steps_in_program_order (σ : World) (parent : Option String) (p : Input) (kind : Kind) :
    (keysOf (loopOf σ parent p kind).trace).Pairwise (· ≤ ·) :=
  specLoop_sorted _ _ _ _

/-- Every event of the loop belongs to one of the steps `0 … maxDepth-1`. -/
theorem events_have_steps (σ : World) (parent : Option String) (p : Input) (kind : Kind) :
    ∀ e ∈ (loopOf σ parent p kind).trace, ∃ s, e.step = some s ∧ s ≤ (cfgFor σ parent p kind).maxDepth - 1 := by
  intro e he
  obtain ⟨s, h1, _, h3⟩ := specLoop_step_ge _ _ _ _ e he
  exact ⟨s, h1, by omega⟩

/-- Step k+1 of a branch continues from that branch's own step-k value: the value handed to chain (b, k) is the
    current value of branch b … -/
theorem chain_input_is_own_value (sc : SpecCfg) (vals : List (Option Value)) (b k : Nat)
    (h : usesPrev (sc.acts b k) = true) : specPrev sc vals b k = (vals[b]?).join := by
  simp [specPrev, h]

/-- … and the current value of branch b after a step in which it was active is what its own chain returned
    (`updVals`, see also C04). -/
theorem own_value_after_step (vals : List (Option Value)) (act : List Nat) (news : List Value)
    (hl : act.length = news.length) (hnd : act.Nodup) (pos : Nat) (hpos : pos < act.length)
    (hb : act[pos] < vals.length) :
    ((updVals vals act news)[act[pos]]?).join = some (news[pos]'(hl ▸ hpos)) := by
  rw [updVals_mem vals act news hl hnd pos hpos hb]; rfl

/-- The same order holds for the code the macro expands to. -/
theorem generated_steps_in_program_order (σ : World) (parent : Option String) (p : Input) (kind : Kind) (code : Code)
    (hs : Supported p kind) (hgen : gen p kind = .ok code) (hh : p.handler = none) :
    (keysOf (evalCode σ parent code).trace).Pairwise (· ≤ ·) := by
  rw [generated_eq_reference σ parent p kind code hs hgen, (run_trace_no_handler σ parent p kind hh).1]
  exact steps_in_program_order σ parent p kind

/-- …and for the whole pipeline, from the tokens the caller wrote: whatever the parser accepts (any behaviour of syn),
    the code expanded from it emits its events in step order. -/
theorem accepted_steps_in_program_order (o : Oracle) (toks : Toks) (σ : World) (parent : Option String) (p : Input)
    (kind : Kind) (code : Code) (hparse : parseMacroInput o toks = .ok p) (hd : PlainInvocation p kind)
    (hgen : gen p kind = .ok code) (hh : p.handler = none) :
    (keysOf (evalCode σ parent code).trace).Pairwise (· ≤ ·) :=
  generated_steps_in_program_order σ parent p kind code (accepted_supported o toks p kind hparse hd) hgen hh

/-- **The step barrier under every schedule, for the whole run.**  Take any global order `t` of the events of a macro
    invocation's step loop that respects what threads guarantee (`Lin`: the caller's events in program order, each
    forked chain's events in its own order after its fork, a join only once the joined thread has finished — nothing
    else): the step numbers along `t` never decrease.  So no operand, callback or block capture of step k+1 is evaluated
    before every chain of step k has finished, for thread-spawning macros under *all* interleavings of the sibling
    threads (and trivially for the sequential ones), for every program, world and size, also when something panics. -/
theorem barrier_every_schedule (σ : World) (parent : Option String) (p : Input) (kind : Kind) (t : List TEv)
    (h : Lin (loopOf σ parent p kind).trace [] t) : (tsteps t).Pairwise (· ≤ ·) :=
  (loop_every_schedule (cfgFor σ parent p kind)
    (fun _ => List.Nodup.sublist List.filter_sublist List.nodup_range) _ 0 _ t h).1

/-- the hypothesis is satisfiable: the empty schedule of an empty trace, and a two-thread step in both orders -/
example : Lin [.fork 0 0 "a" [.chainStart 0 0], .fork 1 0 "b" [.chainStart 1 0], .join 0 0, .join 1 0] []
    [⟨some (1, 0), .chainStart 1 0⟩, ⟨some (0, 0), .chainStart 0 0⟩] := by
  apply Lin.fork; apply Lin.fork
  exact Lin.thr _ [((0, 0), [.chainStart 0 0])] [] (1, 0) _ [] _
    (Lin.thr _ [] [((1, 0), [])] (0, 0) _ [] _ (Lin.join 0 0 _ [] [((1, 0), [])] _ (Lin.join 1 0 _ [] [] _ (Lin.done _))))

/-! ### the async macros: every schedule of gate openings -/

theorem filterMap_step_eq (l : List MEv) (h : ∀ e ∈ l, e.step.isSome = true) : l.filterMap MEv.step = l.map stepLevel := by
  induction l with
  | nil => rfl
  | cons e l ih =>
    have he := h e List.mem_cons_self
    cases hs : e.step with
    | none => rw [hs] at he; cases he
    | some k => simp [List.filterMap_cons, hs, stepLevel, ih (fun x hx => h x (List.mem_cons_of_mem _ hx))]

/-- **The step barrier for the async macros, under every schedule.**  The `async move` block of any async macro
    (`planLoop`: from any step `k` and state `vals`, with arbitrary pending points `pend` inside the chains), polled with
    any sequence `gs` of sets of open gates — any order in which the pending futures become ready, any batches, spurious
    polls, finished or not: along everything it emits, the step numbers never decrease.  No operand, callback or block
    capture of step k+1 runs before every chain of step k has finished — also when chains fail or panic. -/
theorem async_barrier_every_schedule (c : SpecCfg) (pend : Pend) (rem k : Nat) (vals : List (Option Value)) (gs : List Gates) :
    (((planLoop c pend rem k vals).1 ++ ((planLoop c pend rem k vals).2.run gs).1).filterMap MEv.step).Pairwise (· ≤ ·) := by
  obtain ⟨h1', h2, _, h3⟩ := planLoop_leveled c pend rem k vals
  have h1 : ∀ e ∈ (planLoop c pend rem k vals).1, e.step = some k := fun e he => (h1' e he).1
  obtain ⟨m, _, _, hs, hb⟩ := h2.run stepLevel gs
  obtain ⟨ha, _⟩ := h3.run (fun e : MEv => e.step.isSome = true) gs
  have hall : ∀ e ∈ (planLoop c pend rem k vals).1 ++ ((planLoop c pend rem k vals).2.run gs).1, e.step.isSome = true := by
    intro e he
    rcases List.mem_append.mp he with he | he
    · simp [h1 e he]
    · exact ha e he
  rw [filterMap_step_eq _ hall, List.map_append, List.pairwise_append]
  refine ⟨pairwise_const_level stepLevel _ k (fun e he => by simp [stepLevel, h1 e he]), hs, ?_⟩
  intro a ha' b hb'
  obtain ⟨x, hx, rfl⟩ := List.mem_map.mp ha'
  obtain ⟨y, hy, rfl⟩ := List.mem_map.mp hb'
  have := (hb y hy).1
  simp only [stepLevel, h1 x hx, Option.getD_some] at this ⊢
  exact this

end JoinModel.Props.C03
