#!/bin/bash
cd /verif
for d in seeded/*/; do id=$(basename $d); prop=${id%%-*}; python3 tools/run_seeded.py $id $prop 2>&1 | tail -1 | cut -c1-110; done > ${OUT:-/tmp/all_seeded.txt} 2>&1
git -C /repo status --short >> ${OUT:-/tmp/all_seeded.txt}
echo done >> ${OUT:-/tmp/all_seeded.txt}
