"""C14 oracle on the real parser: programs are generated as *structures*, rendered to source, parsed by the real
parser, and the dumped structure must equal the one the source was rendered from (operators, `~`/`>>>` flags, operand
boundaries, branch boundaries, handler position)."""
import os
import subprocess

import gen_cases as G
import k1
import runner

# operands without a top-level split point, but full of look-alikes
EXPR_POOL = [
    "f", "|v| v + 1", "{ g }", "mk(1, 2)", "conv::<u8, u16>", "|v| -> u8 { v }", "mac!(a |> b, c => d <<< e)", "x.y(|z| z? > 1)",
    '"a |> b, c"', "vec![1 |> 2, 3 => 4 <<< 5]", "|a, b| a < b", "{ let q = x <= y; q }", "m::n::<Vec<Vec<u8>>>",
    "|v: Option<u8>| v", "[1, 2][0]", "move |v| (v, 1)", "S { a: 1, b: 2 }", "if c { 1 } else { 2 }", "&x", "*p", "a as u8",
    "|_| ()", "'|'", "|(a, b)| a", "unsafe { z }", "match v { 1 => 2, _ => 3 }", "f::<{ 1 + 2 }>",
    "|v| -> Vec<Vec<u8>> { vec![] }", "<T as Tr>::f", "|x| -> Result<u8, u8> { Ok(x) }", "g(|a| -> u8 { a?? })", "r#match",
    "|v| v >> 1", "m!{ a ~=> b }", "(|| -> u8 { 1 })()", "a[b >> c]", "!flag", "-x", "a + b * c",
    # Rust's own operators that share characters with DSL operators
    "|v| v << 2", "1 << 3", "a << b << c", "|v| v >> 2 << 1", "a || n > b", "a | b", "a & b && c", "a == b", "a != b", "a >= b",
    "a < b", "a > b", "|x| x ^ 1", "a % b / c", "!a != !b", "a - -b", "|x| -> u8 { x << 1 }", "a << m!(b |> c)",
    # operands that end in a word which, followed by `=>`, looks like a handler definition
    "cfg.map", "Steps::and_then", "then",
]
KEYWORD_POOL = ["then", "map", "and_then", "cfg.map", "Steps::and_then", "s.0.then", "m::map"]
DOT_POOL = ["unwrap()", "iter().map(|x| m!(x |> y))", "0", "field", "await", "a.b()", "0.1", "collect::<Vec<Vec<u8>>>()", "get(1..2)"]
TYPE_POOL = ["Vec<u8>", "Vec<_>", "std::collections::HashMap<u8, Vec<u8>>", "(u8, u16)", "[u8; 2]", "&'a str", "Vec<Vec<u8>>",
             "Box<dyn Fn(u8) -> Vec<u8>>"]
INIT_POOL = ["1 << 3", "a >> b", "a | b", "Ok::<u8, u8>(1)", "Some(2)", "a", "{ init }", "vec![1, 2].into_iter()", "-5i32", "x.y", "|| 3", "foo(1, 2)",
             "&mut z", "a + b", "*p", "(1, 2)", "join!{ 1 |> f, 2 }", "async { 1 }", "{ let t = 1; t }", "!flag", "m::<Vec<Vec<u8>>>()",
             "|v| -> u8 { v }"]
HANDLER_POOL = ["|a, b| a + b", "h", "|a| -> u8 { a }", "{ hh }", "|a, b| async move { Ok(a) }", "H::new"]


class M:
    def __init__(self, op, deferred=False, mv="N", operands=()):
        self.op, self.deferred, self.mv, self.operands = op, deferred, mv, list(operands)


class Prog:
    def __init__(self):
        self.branches = []     # (pat or None, init src, [M])
        self.handler = None    # (kind, src, pos)

    def render(self):
        items = []
        for (pat, init, ms) in self.branches:
            s = ("let %s = " % pat if pat else "") + init
            for m in ms:
                if m.mv == "U":
                    s += " " + ("~" if m.deferred else "") + "<<<"
                    continue
                s += " " + ("~" if m.deferred else "") + m.op[0] + (" >>>" if m.mv == "W" else "")
                if m.mv != "W" and m.operands:
                    s += " " + ", ".join(m.operands)
            items.append(s)
        if self.handler:
            kind, src, pos = self.handler
            items.insert(min(pos, len(items)), "%s => %s" % (kind, src))
        return ", ".join(items)

    def fragments(self):
        out = []
        for (pat, init, ms) in self.branches:
            if pat:
                out.append(pat)
                out.append(pat.split(" ")[-1])
            out.append(init)
            for m in ms:
                out += m.operands
        if self.handler:
            out.append(self.handler[1])
        return out

    def expected(self, lex):
        def op_kind(src, ty):
            if ty:
                return "T"
            t = lex[src].split(" ")
            return "B" if t and t[0] == "{" and t[-1] == "}" and _single_group(t) else "E"
        parts = ["O", "H ,, none" if not self.handler else "H ,, %s :: %s" % (self.handler[0], lex[self.handler[1]])]
        for (pat, init, ms) in self.branches:
            s = "B"
            if pat:
                s += " ,, pat :: %s :: %s" % (lex[pat], lex[pat.split(" ")[-1]])
            s += " ,, M Initial I N ,, X %s :: %s" % (op_kind(init, False), lex[init])
            for m in ms:
                if m.mv == "U":
                    s += " ,, M UNWRAP %s U" % ("D" if m.deferred else "I")
                    continue
                s += " ,, M %s %s %s" % (m.op[1], "D" if m.deferred else "I", m.mv)
                if m.mv == "W":
                    s += " ,, X E :: p:| i:__v p:| i:__v"
                else:
                    for o in m.operands:
                        s += " ,, X %s :: %s" % (op_kind(o, m.op[2] in ("t1", "t4")), lex[o])
            parts.append(s)
        return " ;; ".join(parts)


def _single_group(words):
    depth = 0
    for i, w in enumerate(words):
        if w in ("(", "{", "[", "N("):
            depth += 1
        elif w in (")", "}", "]", ")N"):
            depth -= 1
            if depth == 0 and i != len(words) - 1:
                return False
    return True


def operands_for(rng, op):
    k = op[2]
    if k == 0:
        return []
    if k == 1:
        o = rng.pick(EXPR_POOL)
        while op[0] == "=>" and o.startswith("["):      # `=> [..` is the `=>[]` operator
            o = rng.pick(EXPR_POOL)
        return [o]
    if k == 2:
        return [rng.pick(EXPR_POOL), rng.pick(EXPR_POOL)]
    if k == "dot":
        return [rng.pick(DOT_POOL)]
    if k == "t1":
        return [rng.pick(TYPE_POOL)] if rng.chance(2, 3) else []
    if k == "t4":
        return [rng.pick(TYPE_POOL) for _ in range(4)] if rng.chance(1, 2) else []
    raise ValueError(k)


def random_prog(rng, max_branches=3, max_actions=6):
    p = Prog()
    nb = 1 + rng.below(max_branches)
    for b in range(nb):
        pat = None
        if rng.chance(1, 4):
            pat = ("mut " if rng.chance(1, 3) else "") + "n%d" % b
        ms = []
        open_w = 0
        for _ in range(rng.below(max_actions + 1)):
            deferred = rng.chance(1, 4)
            if deferred:
                open_w = 0       # wrappers still open close at the step end
            if open_w > 0 and rng.chance(1, 3) and not deferred:
                ms.append(M(None, False, "U"))
                open_w -= 1
                continue
            if rng.chance(1, 4):
                ms.append(M(rng.pick(G.WRAPPERS), deferred, "W"))
                open_w += 1
                continue
            op = rng.pick(G.OPS)
            ms.append(M(op, deferred, "N", operands_for(rng, op)))
        p.branches.append((pat, rng.pick(INIT_POOL), ms))
    if rng.chance(1, 3):
        p.handler = (rng.pick(["map", "then", "and_then"]), rng.pick(HANDLER_POOL), rng.below(nb + 1))
    return p


def triple_progs(stride=1):
    """every operator, every single operand, every following operator (where D5-style interference shows)"""
    out = []
    i = 0
    for a in G.OPS:
        pool = {1: EXPR_POOL, "dot": DOT_POOL, "t1": TYPE_POOL}.get(a[2])
        if pool is None:
            continue
        for o in pool:
            if a[0] == "=>" and o.startswith("["):
                continue
            for b in G.OPS:
                i += 1
                if i % stride:
                    continue
                p = Prog()
                ob = {0: [], 1: ["fb"], 2: ["ib", "fb"], "dot": ["db()"], "t1": ["Vec<u8>"], "t4": []}[b[2]]
                p.branches.append((None, "init", [M(a, False, "N", [o]), M(b, False, "N", ob)]))
                out.append(p)
    return out


def keyword_progs():
    """operands ending in `map` / `then` / `and_then` directly before `=>`, `=>[]` and other operators: the handler
    look-alike may only split an operand that is complete"""
    out = []
    by = {o[0]: o for o in G.OPS}
    followers = [by[x] for x in ("=>", "=>[]", "|>", "<=", "->") if x in by]
    for a in G.OPS:
        if a[2] != 1:
            continue
        for o in KEYWORD_POOL:
            for b in followers:
                for deferred in (False, True):
                    p = Prog()
                    ob = {0: [], 1: ["fb"], "t1": ["Vec<u8>"]}[b[2]]
                    init = "x.map" if (len(out) % 2) else "init"
                    p.branches.append((None, init, [M(a, False, "N", [o]), M(b, deferred, "N", ob)]))
                    out.append(p)
    return out


def tilde_progs():
    """a `~` in front of every operator (with and without operands, alone and followed by an instant action), and in
    front of every wrapper: it must come back as that member's deferred flag — the step boundary of C03"""
    out = []
    fixed = {0: [], 1: ["fb"], 2: ["ib", "fb"], "dot": ["db()"], "t1": ["Vec<u8>"], "t4": []}
    by = {o[0]: o for o in G.OPS}
    for op in G.OPS:
        for tail in (False, True):
            for first in (False, True):
                p = Prog()
                ms = [] if first else [M(by["|>"], False, "N", ["f"])]
                ms.append(M(op, True, "N", fixed[op[2]]))
                if tail:
                    ms.append(M(by["|>"], False, "N", ["g"]))
                p.branches.append((None, "init", ms))
                p.branches.append((None, "other", [M(by["|>"], True, "N", ["h"])]))
                out.append(p)
    for w in G.WRAPPERS:
        p = Prog()
        p.branches.append((None, "init", [M(by["|>"], False, "N", ["f"]), M(w, True, "W"), M(by["|>"], False, "N", ["g"])]))
        p.branches.append((None, "other", []))
        out.append(p)
    return out


def run(ctx, progs, kinds=("a0t0s0",)):
    """Returns list of (prog, kind, real) whose real structure differs from the intended one."""
    frags = sorted(set(f for p in progs for f in p.fragments()))
    inp = "".join("%d\t%s\n" % (i, f) for i, f in enumerate(frags))
    pr = subprocess.run([k1.HARNESS, "lex"], input=inp, capture_output=True, text=True)
    lex = {}
    for l in pr.stdout.splitlines():
        i, t = l.split("\t", 1)
        lex[frags[int(i)]] = k1.unspace(t)
    cases = []
    for i, p in enumerate(progs):
        cases.append(("rt%d" % i, kinds[i % len(kinds)], p.render(), "roundtrip"))
    reals = k1.run_real(cases, with_oracle=True)
    bad = []
    for p, r in zip(progs, reals):
        exp = p.expected(lex)
        if r.parse != "ok" or k1.unspace(r.structure) != exp:
            bad.append((p, r, exp))
    ctx.evals += len(progs)
    return reals, bad
