/-
  Parsed DSL program (what `JoinInputDefault` holds) and its line-protocol text form
  (harness/src/dump.rs writes exactly this form from the real parser's result).
-/
import JoinModel.TableTypes
namespace JoinModel

inductive Move | wrap | unwrap | none
  deriving DecidableEq, Repr, Inhabited

/-- How an operand was parsed: an expression that is a `{…}` block, any other expression, or a type. -/
inductive OpKind | block | expr | type
  deriving DecidableEq, Repr, Inhabited

structure Operand where
  kind : OpKind
  toks : Toks
  deriving Repr, Inhabited

/-- One `ExprGroup<ActionExpr>`: expression constructor, `~` flag, `>>>`/`<<<` flag, operands. -/
structure Member where
  ctor : Comb
  deferred : Bool
  mv : Move
  ops : List Operand
  deriving Repr, Inhabited

/-- `let [mut] name =` in front of a branch: the whole identifier pattern and the bare identifier. -/
structure BranchPat where
  toks : Toks
  ident : String
  deriving Repr, Inhabited

structure Branch where
  pat : Option BranchPat
  members : List Member
  deriving Repr, Inhabited

inductive HKind | map | then_ | andThen
  deriving DecidableEq, Repr, Inhabited

structure Input where
  fcp : Option Toks := none
  joiner : Option Toks := none
  transpose : Option Bool := none
  lazy : Option Bool := none
  handler : Option (HKind × Toks) := none
  branches : List Branch := []
  deriving Repr, Inhabited

/-- The three booleans every proc-macro entry point fixes. -/
structure Kind where
  isAsync : Bool
  isTry : Bool
  isSpawn : Bool
  deriving DecidableEq, Repr, Inhabited

/-- branches run on OS threads of their own (when more than one is active) -/
def Kind.threads (k : Kind) : Bool := k.isSpawn && !k.isAsync

def Kind.ofString (s : String) : Option Kind :=
  match s.toList with
  | ['a', a, 't', t, 's', sp] =>
    let b (c : Char) : Option Bool := if c = '1' then some true else if c = '0' then some false else none
    do let a ← b a; let t ← b t; let sp ← b sp; pure ⟨a, t, sp⟩
  | _ => none

/-! ### Text form -/

def showOperand (o : Operand) : String :=
  "X " ++ (match o.kind with | .block => "B" | .expr => "E" | .type => "T") ++ " :: " ++ showToks o.toks

def showMember (m : Member) : String :=
  " ,, ".intercalate
    (("M " ++ m.ctor.name ++ " " ++ (if m.deferred then "D" else "I") ++ " " ++
      (match m.mv with | .wrap => "W" | .unwrap => "U" | .none => "N")) :: m.ops.map showOperand)

def showBranch (b : Branch) : String :=
  " ,, ".intercalate
    (["B"] ++ (match b.pat with
               | some p => ["pat :: " ++ showToks p.toks ++ " :: i:" ++ p.ident]
               | none => []) ++ b.members.map showMember)

def showInput (i : Input) : String :=
  let o := " ,, ".intercalate
    (["O"] ++ (match i.fcp with | some t => ["fcp :: " ++ showToks t] | none => [])
      ++ (match i.joiner with | some t => ["joiner :: " ++ showToks t] | none => [])
      ++ (match i.transpose with | some b => ["transpose :: " ++ (if b then "t" else "f")] | none => [])
      ++ (match i.lazy with | some b => ["lazy :: " ++ (if b then "t" else "f")] | none => []))
  let h := match i.handler with
    | none => "H ,, none"
    | some (.map, t) => "H ,, map :: " ++ showToks t
    | some (.then_, t) => "H ,, then :: " ++ showToks t
    | some (.andThen, t) => "H ,, and_then :: " ++ showToks t
  " ;; ".intercalate ([o, h] ++ i.branches.map showBranch)

def trimS (s : String) : String := s.trimAscii.toString

def parseBoolTF (s : String) : Option Bool :=
  match trimS s with | "t" => some true | "f" => some false | _ => none

/-- Items of one branch, folded left to right. -/
def parseBranchItems : List String → Branch → Option Branch
  | [], acc => some { acc with members := acc.members.reverse.map fun m => { m with ops := m.ops.reverse } }
  | it :: rest, acc =>
    match (it.splitOn " :: ").map (fun (x : String) => x) with
    | [pk, p, i] =>
      if trimS pk ≠ "pat" then none else
      match parseToks p, parseToks i with
      | some p, some [TT.ident i] => parseBranchItems rest { acc with pat := some ⟨p, i⟩ }
      | _, _ => none
    | [hd, toks] =>
      match (trimS hd).splitOn " ", parseToks toks with
      | ["X", k], some ts =>
        let kind? : Option OpKind := match k with | "B" => some .block | "E" => some .expr | "T" => some .type | _ => none
        match kind?, acc.members with
        | some kind, m :: ms => parseBranchItems rest { acc with members := { m with ops := ⟨kind, ts⟩ :: m.ops } :: ms }
        | _, _ => none
      | _, _ => none
    | [hd] =>
      match (trimS hd).splitOn " " with
      | ["M", c, d, mv] =>
        let mv? : Option Move := match mv with | "W" => some .wrap | "U" => some .unwrap | "N" => some .none | _ => none
        let d? : Option Bool := match d with | "D" => some true | "I" => some false | _ => none
        match Comb.ofName c, d?, mv? with
        | some c, some d, some mv => parseBranchItems rest { acc with members := ⟨c, d, mv, []⟩ :: acc.members }
        | _, _, _ => none
      | _ => none
    | _ => none

def parseBranch (s : String) : Option Branch :=
  match s.splitOn " ,, " with
  | hd :: items => if trimS hd = "B" then parseBranchItems items ⟨none, []⟩ else none
  | [] => none

def parseOpts : List String → Input → Option Input
  | [], acc => some acc
  | it :: rest, acc =>
    match it.splitOn " :: " with
    | [k, t] =>
      match trimS k with
      | "fcp" => (parseToks t).bind fun t => parseOpts rest { acc with fcp := some t }
      | "joiner" => (parseToks t).bind fun t => parseOpts rest { acc with joiner := some t }
      | "transpose" => (parseBoolTF t).bind fun b => parseOpts rest { acc with transpose := some b }
      | "lazy" => (parseBoolTF t).bind fun b => parseOpts rest { acc with lazy := some b }
      | _ => none
    | _ => none

def parseHandler (s : String) : Option (Option (HKind × Toks)) :=
  match s.splitOn " ,, " with
  | [h, body] =>
    if trimS h ≠ "H" then none else
    match body.splitOn " :: " with
    | [n] => if trimS n = "none" then some none else none
    | [k, t] =>
      match trimS k with
      | "map" => (parseToks t).map fun t => some (.map, t)
      | "then" => (parseToks t).map fun t => some (.then_, t)
      | "and_then" => (parseToks t).map fun t => some (.andThen, t)
      | _ => none
    | _ => none
  | _ => none

def parseInput (s : String) : Option Input :=
  match s.splitOn " ;; " with
  | o :: h :: bs =>
    match o.splitOn " ,, " with
    | oh :: opts =>
      if trimS oh ≠ "O" then none else do
      let i ← parseOpts opts {}
      let h ← parseHandler h
      let bs ← bs.mapM parseBranch
      pure { i with handler := h, branches := bs }
    | [] => none
  | _ => none

end JoinModel
