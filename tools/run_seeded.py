#!/usr/bin/env python3
"""Runs checks against a seeded change: applies seeded/<sid>/patch.diff to /repo, runs `./check <ID>` for each given
property, undoes the change (always), regenerates the tables, and records the outcome in seeded/<sid>/meta.json
under "detection".   usage: run_seeded.py <sid> <ID> [<ID> ...]"""
import json
import os
import re
import subprocess
import sys
import time

ROOT = os.path.dirname(os.path.dirname(os.path.abspath(__file__)))


def main():
    sid, ids = sys.argv[1], sys.argv[2:]
    d = os.path.join(ROOT, "seeded", sid)
    st = subprocess.run(["git", "-C", "/repo", "status", "--porcelain"], capture_output=True, text=True).stdout.strip()
    if st:
        print("refusing: /repo is not clean:\n" + st)
        return 2
    subprocess.run(["git", "-C", "/repo", "apply", os.path.join(d, "patch.diff")], check=True)
    results = {}
    try:
        for pid in ids:
            t0 = time.time()
            p = subprocess.run([os.path.join(ROOT, "check"), pid], capture_output=True, text=True, cwd=ROOT)
            lines = [l for l in p.stdout.splitlines() if l.startswith("VIOLATION")]
            replays = []
            for l in lines[:3]:
                m = re.search(r"replay=(\S+)", l)
                if m and os.path.exists(m.group(1)):
                    r = json.load(open(m.group(1)))
                    replays.append({k: (v if not isinstance(v, str) else v[:400]) for k, v in r.items()
                                    if k in ("what", "source", "macro_kind", "broken", "program", "difference", "input", "detail")})
            results[pid] = {"rc": p.returncode, "violations": len(lines),
                            "concrete_input": bool(lines) and not all(l.rstrip().endswith("no-failing-input-found") for l in lines),
                            "seconds": round(time.time() - t0), "replays": replays}
            print(sid, pid, json.dumps(results[pid])[:700], flush=True)
    finally:
        subprocess.run(["git", "-C", "/repo", "checkout", "--", "."], check=True)
        subprocess.run([sys.executable, os.path.join(ROOT, "tools", "extract_tables.py")], capture_output=True)
    mp = os.path.join(d, "meta.json")
    meta = json.load(open(mp))
    meta.setdefault("detection", {}).update(results)
    json.dump(meta, open(mp, "w"), indent=2)
    return 0


if __name__ == "__main__":
    sys.exit(main())
