#!/bin/bash
# Runs every property's check in the given tier (quick | thorough) on the current /repo tree, one after the other.
# Usage: tools/run_tier.sh quick            prints "<ID> rc=<exit code> <seconds>s violations=<n>" per property
tier=${1:-quick}
cd "$(dirname "$0")/.."
for i in 01 02 03 04 05 06 07 08 09 10 11 12 13 14 15 16 17 18 19 20; do
  s=$(date +%s); log=$(mktemp)
  ./check C$i --tier "$tier" > "$log" 2>&1; rc=$?
  echo "C$i rc=$rc $(( $(date +%s)-s ))s violations=$(grep -c '^VIOLATION' "$log")"
  grep '^VIOLATION\|^KNOWN-FINDING' "$log"; rm -f "$log"
done
