/-
  Hand-written specification tables, taken from README.md ("Combinators", "Nested combinators",
  "Macros") and from the property text.  Never regenerated: the table theorems compare the tables
  extracted from the code (`Tables.lean`) with these.
-/
import JoinModel.TableTypes
namespace JoinModel.SpecTables
open JoinModel

/-- One documented operator. -/
structure OpDoc where
  /-- the operator as written in source (multi-character operators written without spaces) -/
  toks : Toks
  comb : Comb
  /-- documented operand count; `optional`: the operands may be omitted altogether -/
  operands : Nat
  optional : Bool
  kind : OperandKind
  /-- one of the ten operators that may be followed by `>>>` -/
  wrapper : Bool
  deriving Repr

private def j (c : Char) : TT := .punct c true
private def a (c : Char) : TT := .punct c false

/-- README "Combinators", in README order, plus `<<<`. -/
def ops : List OpDoc := [
  ⟨[j '-', a '>'], .then_, 1, false, .expr, false⟩,
  ⟨[j '|', a '>'], .map, 1, false, .expr, true⟩,
  ⟨[j '=', a '>'], .andThen, 1, false, .expr, true⟩,
  ⟨[j '?', a '>'], .filter, 1, false, .expr, true⟩,
  ⟨[j '.', a '.'], .dot, 1, false, .expr, false⟩,
  ⟨[j '>', a '.'], .dot, 1, false, .expr, false⟩,
  ⟨[j '<', a '|'], .or_, 1, false, .expr, false⟩,
  ⟨[j '<', a '='], .orElse, 1, false, .expr, true⟩,
  ⟨[j '!', a '>'], .mapErr, 1, false, .expr, true⟩,
  ⟨[j '=', j '>', .group .bracket []], .collect, 1, true, .type, false⟩,
  ⟨[j '>', j '@', a '>'], .chain, 1, false, .expr, false⟩,
  ⟨[j '?', j '|', j '>', a '@'], .findMap, 1, false, .expr, true⟩,
  ⟨[j '?', j '|', a '>'], .filterMap, 1, false, .expr, true⟩,
  ⟨[j '|', .ident "n", a '>'], .enumerate, 0, true, .expr, false⟩,
  ⟨[j '?', j '&', j '!', a '>'], .partition, 1, false, .expr, true⟩,
  ⟨[j '^', j '^', a '>'], .flatten, 0, true, .expr, false⟩,
  ⟨[j '^', a '@'], .fold, 2, false, .expr, false⟩,
  ⟨[j '?', j '^', a '@'], .tryFold, 2, false, .expr, false⟩,
  ⟨[j '?', a '@'], .find, 1, false, .expr, true⟩,
  ⟨[j '>', j '^', a '>'], .zip, 1, false, .expr, false⟩,
  ⟨[j '<', j '-', a '>'], .unzip, 4, true, .type, false⟩,
  ⟨[j '?', a '?'], .inspect, 1, false, .expr, true⟩,
  ⟨[j '<', j '<', a '<'], .unwrap, 0, true, .expr, false⟩]

/-- Documented shape per combinator (the initial value is one expression). -/
def arity : Comb → Arity
  | .initial => ⟨.initial, 1, false, .expr⟩
  | .collect => ⟨.collect, 1, true, .type⟩
  | .unzip => ⟨.unzip, 4, true, .type⟩
  | .enumerate => ⟨.enumerate, 0, true, .expr⟩
  | .flatten => ⟨.flatten, 0, true, .expr⟩
  | .unwrap => ⟨.unwrap, 0, true, .expr⟩
  | .fold => ⟨.fold, 2, false, .expr⟩
  | .tryFold => ⟨.tryFold, 2, false, .expr⟩
  | c => ⟨c, 1, false, .expr⟩

/-- The ten wrapper-capable operators (property C02). -/
def wrappers : List Comb :=
  [.map, .andThen, .filter, .inspect, .filterMap, .find, .findMap, .partition, .orElse, .mapErr]

/-- Documented method name of the plain method-call operators. -/
def method : Comb → Option String
  | .map => some "map" | .andThen => some "and_then" | .filter => some "filter" | .or_ => some "or"
  | .orElse => some "or_else" | .mapErr => some "map_err" | .chain => some "chain"
  | .findMap => some "find_map" | .filterMap => some "filter_map" | .enumerate => some "enumerate"
  | .partition => some "partition" | .flatten => some "flatten" | .fold => some "fold"
  | .tryFold => some "try_fold" | .find => some "find" | .zip => some "zip"
  | .collect => some "collect" | .unzip => some "unzip" | .inspect => some "inspect"
  | _ => none

/-- Operators whose `{…}` operands are evaluated ahead of the step (property C11: every operator that takes
    expression operands, member access excluded; the initial value included). -/
def hoisting : List Comb :=
  [.initial, .map, .then_, .andThen, .filter, .findMap, .inspect, .chain, .filterMap, .find, .fold,
   .partition, .tryFold, .zip, .or_, .orElse, .mapErr]

/-- README "Macros": name ↦ (async, try, spawn). -/
def macroKinds : List MacroKindRow := [
  ⟨"try_join", false, true, false⟩,
  ⟨"try_join_async", true, true, false⟩,
  ⟨"try_join_spawn", false, true, true⟩,
  ⟨"try_spawn", false, true, true⟩,
  ⟨"try_join_async_spawn", true, true, true⟩,
  ⟨"try_async_spawn", true, true, true⟩,
  ⟨"join", false, false, false⟩,
  ⟨"join_async", true, false, false⟩,
  ⟨"join_spawn", false, false, true⟩,
  ⟨"spawn", false, false, true⟩,
  ⟨"join_async_spawn", true, false, true⟩,
  ⟨"async_spawn", true, false, true⟩]

/-- alias ↦ the macro it must behave like (property C07) -/
def aliases : List (String × String) :=
  [("spawn", "join_spawn"), ("try_spawn", "try_join_spawn"),
   ("async_spawn", "join_async_spawn"), ("try_async_spawn", "try_join_async_spawn")]

/-- spawn variant ↦ plain counterpart (property C07): same `async`/`try`, `spawn` off -/
def spawnPairs : List (String × String) :=
  [("join_spawn", "join"), ("try_join_spawn", "try_join"),
   ("join_async_spawn", "join_async"), ("try_join_async_spawn", "try_join_async")]

end JoinModel.SpecTables
