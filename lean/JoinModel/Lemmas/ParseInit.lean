/-
  The `initial` constructor occurs in a parsed branch only as its first member: every later member is built from a
  determiner row, no row names `initial`, and neither the arity table nor the wrapper table maps another operator to it.
  Discharges `InitialOnlyFirst` (Lemmas/Conserve.lean) for whatever the parser model accepts, for every oracle.
-/
import JoinModel.Lemmas.ParseHead
import JoinModel.Lemmas.Conserve
import JoinModel.Lemmas.ScanStep
namespace JoinModel

/-- the next group is not the initial value -/
def NextNI (nx : Option NextGroup) : Prop := ∀ g, nx = some g → g.comb ≠ .initial

theorem scan_row_mem (o : Oracle) (syn : Syn) (ae : Bool) : ∀ (fuel : Nat) (acc input : Toks) (d : Bool) (toks : Toks)
    (g : DetRow) (d' : Bool) (input' : Toks), scan o syn ae fuel acc input d = .ok (toks, some g, d', input') →
    g ∈ Tables.determiners := by
  intro fuel
  induction fuel with
  | zero => intro acc input d toks g d' input' h; simp [scan] at h
  | succ fuel ih =>
    intro acc input d toks g d' input' h
    by_cases hne : input = []
    · subst hne
      unfold scan at h
      simp at h
    · cases hst : stopHere o syn ae acc input with
      | true =>
        rw [scan_stop o syn ae fuel acc input d hne hst] at h
        simp only [Except.ok.injEq, Prod.mk.injEq] at h
        exact List.mem_of_find?_eq_some h.2.1
      | false =>
        cases hs : stripTilde input with
        | nil => rw [scan_eof o syn ae fuel acc input d hne hst hs] at h; cases h
        | cons t rest =>
          rw [scan_continue o syn ae fuel acc input d t rest hne hst hs] at h
          exact ih _ _ _ _ _ _ _ h

theorem lookup_mem {α β} [BEq α] [LawfulBEq α] (a : α) (b : β) : ∀ (l : List (α × β)), l.lookup a = some b → (a, b) ∈ l := by
  intro l
  induction l with
  | nil => intro h; simp [List.lookup] at h
  | cons x l ih =>
    intro h
    obtain ⟨k, v⟩ := x
    simp only [List.lookup] at h
    split at h
    · rename_i heq
      simp only [Option.some.injEq] at h
      subst h
      have : a = k := by simpa using heq
      subst this
      simp
    · exact List.mem_cons_of_mem _ (ih h)

theorem det_rows_not_initial : ∀ row ∈ Tables.determiners, row.comb ≠ some .initial := by decide

theorem arity_not_initial : ∀ c ar, arityOf c = some ar → c ≠ .initial → ar.ctor ≠ .initial := by
  intro c ar h hc
  have : ∀ row ∈ Tables.arity, row.1 ≠ .initial → row.2.ctor ≠ .initial := by decide
  unfold arityOf at h
  exact this _ (lookup_mem _ _ _ h) hc

theorem wrapper_not_initial : ∀ c ctor, wrapperCtorOf c = some ctor → ctor ≠ .initial := by
  intro c ctor h
  have : ∀ row ∈ Tables.wrapperCtor, row.2 ≠ .initial := by decide
  unfold wrapperCtorOf at h
  exact this _ (lookup_mem _ _ _ h)

theorem parseUntil_nextNI {o : Oracle} {syn : Syn} {ae : Bool} {input : Toks} {u : UnitOut}
    (h : parseUntil o syn ae input = .ok u) : NextNI u.next := by
  unfold parseUntil at h
  split at h
  · cases h
  · rename_i toks next deferred input' hscan
    simp only at h
    split at h
    · cases h
    · rename_i wrap rest _
      split at h
      · cases h
      · cases h
        intro g hg
        simp only [Option.bind_eq_some_iff, Option.map_eq_some_iff] at hg
        obtain ⟨row, hrow, c, hc, rfl⟩ := hg
        simp only
        subst hrow
        intro hci
        subst hci
        exact det_rows_not_initial row (scan_row_mem o syn ae _ _ _ _ _ _ _ _ hscan) hc

theorem parseUnits_nextNI {o : Oracle} {syn : Syn} : ∀ (n : Nat) (input : Toks) (acc ops : List Toks)
    (next : Option NextGroup) (rest : Toks), parseUnits o syn n input acc = .ok (ops, next, rest) → NextNI next := by
  intro n
  induction n with
  | zero =>
    intro input acc ops next rest h
    simp only [parseUnits, Except.ok.injEq, Prod.mk.injEq] at h
    obtain ⟨_, rfl, _⟩ := h
    exact fun g hg => by cases hg
  | succ n ih =>
    intro input acc ops next rest h
    unfold parseUnits at h
    split at h
    · cases h
    · rename_i u hu
      split at h
      · simp only [Except.ok.injEq, Prod.mk.injEq] at h
        obtain ⟨_, rfl, _⟩ := h
        exact parseUntil_nextNI hu
      · split at h
        · cases h
        · split at h
          · cases h
          · exact ih _ _ _ _ _ h

theorem parseNOrEmpty_nextNI {o : Oracle} {syn : Syn} {count : Nat} {ae : Bool} {input : Toks} {ops : Option (List Toks)}
    {next : Option NextGroup} {rest : Toks} (h : parseNOrEmpty o syn count ae input = .ok (ops, next, rest)) :
    NextNI next := by
  unfold parseNOrEmpty at h
  simp only at h
  split at h
  · rename_i u hfirst
    simp only [Except.ok.injEq, Prod.mk.injEq] at h
    obtain ⟨_, rfl, _⟩ := h
    cases ae with
    | false => simp at hfirst
    | true =>
      simp only [if_true] at hfirst
      split at hfirst
      · rename_i u' hu'
        cases hfirst
        exact parseUntil_nextNI hu'
      · cases hfirst
  · split at h
    · cases h
    · rename_i ops' next' rest' hu
      simp only [Except.ok.injEq, Prod.mk.injEq] at h
      obtain ⟨_, rfl, _⟩ := h
      exact parseUnits_nextNI _ _ _ _ _ _ hu

theorem parseGroup_nextNI {o : Oracle} {g : NextGroup} {input : Toks} {m : Member} {raws : List Toks}
    {next : Option NextGroup} {rest : Toks} (h : parseGroup o g input = .ok ((m, raws), next, rest)) : NextNI next := by
  unfold parseGroup at h
  split at h
  · split at h
    · cases h
    · split at h
      · cases h
      · rename_i u hu
        simp only [Except.ok.injEq, Prod.mk.injEq] at h
        obtain ⟨_, rfl, _⟩ := h
        exact parseUntil_nextNI hu
  · split at h
    · cases h
    · simp only at h
      split at h
      · cases h
      · rename_i ops next' rest' hp
        simp only [Except.ok.injEq, Prod.mk.injEq] at h
        obtain ⟨_, rfl, _⟩ := h
        exact parseNOrEmpty_nextNI hp

/-- a member that is not the `initial` constructor unless it is a `<<<` (whose constructor the generator never reads) -/
def MemberNI (m : Member) : Prop := (m.mv = .none → m.ctor ≠ .initial) ∧ (m.mv = .wrap → m.ctor ≠ .initial)

/-- the member built for a group that is not the initial value is not `initial` -/
theorem parseGroup_memberNI {o : Oracle} {g : NextGroup} {input : Toks} {m : Member} {raws : List Toks}
    {next : Option NextGroup} {rest : Toks} (h : parseGroup o g input = .ok ((m, raws), next, rest))
    (hg : g.comb ≠ .initial) : MemberNI m := by
  have hk : GroupOK g → True := fun _ => trivial
  unfold parseGroup at h
  split at h
  · rename_i hw
    split at h
    · cases h
    · rename_i ctor hctor
      split at h
      · cases h
      · simp only [Except.ok.injEq, Prod.mk.injEq] at h
        obtain ⟨⟨rfl, _⟩, _, _⟩ := h
        exact ⟨fun hmv => (by cases hmv), fun _ => wrapper_not_initial _ _ hctor⟩
  · rename_i hw
    split at h
    · cases h
    · rename_i ar har
      simp only at h
      split at h
      · cases h
      · simp only [Except.ok.injEq, Prod.mk.injEq] at h
        obtain ⟨⟨rfl, _⟩, _, _⟩ := h
        exact ⟨fun _ => arity_not_initial _ _ har hg, fun hmv => absurd hmv hw⟩

/-- the `let` handling of the first member keeps its constructor and flags -/
theorem buildChain_tailNI (o : Oracle) : ∀ (fuel : Nat) (g : NextGroup) (input : Toks) (members : List Member)
    (pat : Option BranchPat) (w : Int) (isFirst : Bool) (br : Branch) (rest : Toks),
    buildChain o fuel g input members pat w isFirst = .ok (br, rest) →
    ∃ m tail, br.members = members ++ m :: tail ∧ (g.comb ≠ .initial → MemberNI m) ∧ (∀ x ∈ tail, MemberNI x) ∧
      (g.mv = .wrap → m.mv = .wrap ∧ m.ctor ≠ .initial) := by
  intro fuel
  induction fuel with
  | zero => intro g input members pat w isFirst br rest h; simp [buildChain] at h
  | succ fuel ih =>
    intro g input members pat w isFirst br rest h
    unfold buildChain at h
    split at h
    · cases h
    · rename_i m raws next rest' hpg
      have hnext := parseGroup_nextNI hpg
      simp only at h
      split at h
      · cases h
      · rename_i m' pat' hfirst
        have hsame : m'.ctor = m.ctor ∧ m'.mv = m.mv := by
          have keep : (Except.ok (m, pat) : Except ParseErr (Member × Option BranchPat)) = .ok (m', pat') →
              m'.ctor = m.ctor ∧ m'.mv = m.mv := by
            intro he; cases he; exact ⟨rfl, rfl⟩
          split at hfirst
          · split at hfirst
            · split at hfirst
              · exact keep hfirst
              · cases hfirst
              · cases hfirst; exact ⟨rfl, rfl⟩
            · exact keep hfirst
          · exact keep hfirst
        have hm'1 : g.comb ≠ .initial → MemberNI m' := by
          intro hg
          obtain ⟨a, b⟩ := parseGroup_memberNI hpg hg
          exact ⟨fun hmv => by rw [hsame.1]; exact a (hsame.2 ▸ hmv), fun hmv => by rw [hsame.1]; exact b (hsame.2 ▸ hmv)⟩
        have hm'2 : g.mv = .wrap → m'.mv = .wrap ∧ m'.ctor ≠ .initial := by
          intro hw
          have : m.mv = .wrap ∧ m.ctor ≠ .initial := by
            unfold parseGroup at hpg
            simp only [hw, if_true] at hpg
            split at hpg
            · cases hpg
            · rename_i ctor hctor
              split at hpg
              · cases hpg
              · simp only [Except.ok.injEq, Prod.mk.injEq] at hpg
                obtain ⟨⟨rfl, _⟩, _, _⟩ := hpg
                exact ⟨rfl, wrapper_not_initial _ _ hctor⟩
          exact ⟨hsame.2 ▸ this.1, hsame.1 ▸ this.2⟩
        split at h
        · rename_i nx
          have fin : ∀ w1 : Int, buildChain o fuel nx rest' (members ++ [m']) pat' w1 false = .ok (br, rest) →
              ∃ m tail, br.members = members ++ m :: tail ∧ (g.comb ≠ .initial → MemberNI m) ∧
                (∀ x ∈ tail, MemberNI x) ∧ (g.mv = .wrap → m.mv = .wrap ∧ m.ctor ≠ .initial) := by
            intro w1 hb
            obtain ⟨m2, tail2, hmem, hni2, htl2, _⟩ := ih _ _ _ _ _ _ _ _ hb
            refine ⟨m', m2 :: tail2, by simp [hmem], hm'1, ?_, hm'2⟩
            intro x hx
            rcases List.mem_cons.mp hx with rfl | hx
            · exact hni2 (hnext nx rfl)
            · exact htl2 x hx
          cases hd : nx.deferred with
          | false =>
            simp only [hd, Bool.false_eq_true, if_false] at h
            by_cases hneg : w + mvDelta nx.mv < 0
            · simp [hneg] at h
            · simp only [hneg, if_false] at h
              exact fin _ h
          | true =>
            simp only [hd, if_true, Int.zero_add] at h
            by_cases hneg : mvDelta nx.mv < 0
            · simp [hneg] at h
            · simp only [hneg, if_false] at h
              exact fin _ h
        · have hmem : br.members = members ++ [m'] := by
            repeat' split at h
            all_goals first | (cases h; rfl) | cases h
          exact ⟨m', [], by simp [hmem], hm'1, by simp, hm'2⟩

theorem parseItems_initOnly (o : Oracle) : ∀ (fuel : Nat) (input : Toks) (bs : List Branch) (h : Option (HKind × Toks))
    (bs' : List Branch) (h' : Option (HKind × Toks)), parseItems o fuel input bs h = .ok (bs', h') →
    (∀ b ∈ bs, (∀ m ∈ b.members.tail, MemberNI m) ∧ (∀ m ∈ b.members, m.mv = .wrap → m.ctor ≠ .initial)) →
    ∀ b ∈ bs', (∀ m ∈ b.members.tail, MemberNI m) ∧ (∀ m ∈ b.members, m.mv = .wrap → m.ctor ≠ .initial) := by
  intro fuel
  induction fuel with
  | zero => intro input bs h bs' h' he; simp [parseItems] at he
  | succ fuel ih =>
    intro input bs h bs' h' he hbs
    cases input with
    | nil => simp only [parseItems, Except.ok.injEq, Prod.mk.injEq] at he; obtain ⟨rfl, _⟩ := he; exact hbs
    | cons t ts =>
      unfold parseItems at he
      split at he
      · split at he
        · cases he
        · split at he
          · cases he
          · exact ih _ _ _ _ _ he hbs
      · split at he
        · cases he
        · rename_i b rest hb
          refine ih _ _ _ _ _ he ?_
          intro b' hb'
          rcases List.mem_append.mp hb' with hb' | hb'
          · exact hbs b' hb'
          · have : b' = b := by simpa using hb'
            subst this
            obtain ⟨m, tail, hmem, _, htl, _⟩ := buildChain_tailNI o _ _ _ _ _ _ _ _ _ hb
            obtain ⟨m0, tail0, hmem0, hmv0, _, _, _⟩ := buildChain_shape o _ _ _ _ _ _ _ _ _ hb (by intro _; simp)
            simp only [List.nil_append] at hmem hmem0
            have hm0 : m0 = m := by rw [hmem0] at hmem; exact (List.cons.inj hmem).1
            refine ⟨by rw [hmem]; simpa using htl, ?_⟩
            intro x hx hxw
            rw [hmem] at hx
            rcases List.mem_cons.mp hx with rfl | hx
            · rw [← hm0, hmv0] at hxw; cases hxw
            · exact (htl x hx).2 hxw

/-- **The parser only builds `initial` as a branch's first member**, for every oracle. -/
theorem parse_initial_only_first (o : Oracle) (input : Toks) (p : Input) (h : parseMacroInput o input = .ok p) :
    InitialOnlyFirst p := by
  unfold parseMacroInput at h
  simp only at h
  split at h
  · cases h
  · split at h
    · cases h
    · rename_i bs hd hitems
      split at h
      · cases h
      · split at h
        · cases h
        · cases h
          intro b hb
          obtain ⟨h1, h2⟩ := parseItems_initOnly o _ _ _ _ _ _ hitems (by intro b hb; cases hb) b hb
          exact ⟨fun m hm hmv => (h1 m hm).1 hmv, h2⟩

end JoinModel
