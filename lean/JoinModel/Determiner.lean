/-
  Model of `GroupDeterminer::check_input` (syn 1.0.109 `peek`/`peek2`/`peek3`, the crate's `skip`),
  over the extracted determiner table.
-/
import JoinModel.Tables
namespace JoinModel

/-- `peek_punct(cursor, token)`: every character but the last must be Joint; the last one's spacing is ignored. -/
def peekPunct : List Char → Toks → Bool
  | [], _ => false
  | [c], t :: _ => match t with | .punct d _ => d == c && d != '\'' | _ => false
  | c :: cs, t :: ts => match t with | .punct d j => d == c && d != '\'' && j && peekPunct cs ts | _ => false
  | _ :: _, [] => false

def peekPat (p : TokPat) (ts : Toks) : Bool :=
  match p with
  | .punct cs => peekPunct cs ts
  | .kw s => match ts with | .ident i :: _ => i == s | _ => false
  | .bracket => match ts with | .group .bracket _ :: _ => true | _ => false

/-- `Cursor::skip` / the crate's `skip`: one token tree, a lifetime (`'` Joint + ident) counting as one. -/
def skip1 : Toks → Option Toks
  | [] => none
  | .punct '\'' true :: .ident _ :: r => some r
  | _ :: r => some r

def checkSeq : List TokPat → Toks → Bool
  | [], _ => true
  | [p], ts => peekPat p ts
  | p :: ps, ts => peekPat p ts && (match skip1 ts with | some r => checkSeq ps r | none => false)

def DetRow.check (d : DetRow) (ts : Toks) : Bool := d.alts.any fun a => checkSeq a ts

/-- index of the first matching determiner -/
def firstMatchIdx (ts : Toks) : Option Nat := Tables.determiners.findIdx? fun d => d.check ts

def firstMatch (ts : Toks) : Option DetRow := Tables.determiners.find? fun d => d.check ts

end JoinModel
