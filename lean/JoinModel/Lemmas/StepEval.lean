/-
  One step of the generated code (Sem) against one step of the reference loop (Spec).
-/
import JoinModel.Lemmas.Caps
namespace JoinModel

def CapDef.var (d : CapDef) : Var := .ew d.b d.e d.i

theorem evalDefs_eq (cfg : EvalCfg) (sc : SpecCfg) (hσ : sc.σ = cfg.σ) (k b : Nat) (ds : List CapDef)
    (hb : ∀ d ∈ ds, d.b = b) (env : Env) :
    evalDefs cfg k ds env =
      (specCapsBranch sc k b (visible cfg.names env) (ds.map fun d => (d.e, d.i))).andThen fun vs =>
        M.ret (((ds.map CapDef.var).zip vs).reverse ++ env) := by
  induction ds generalizing env with
  | nil => simp [evalDefs, specCapsBranch]
  | cons d ds ih =>
    have hdb : d.b = b := hb d (by simp)
    have hrest : ∀ d' ∈ ds, d'.b = b := fun d' hd' => hb d' (by simp [hd'])
    simp only [evalDefs, List.map_cons, specCapsBranch, M.andThen_assoc, hdb, hσ]
    congr 1
    funext _
    congr 1
    funext v
    rw [ih hrest]
    have hv : visible cfg.names ((Var.ew b d.e d.i, v) :: env) = visible cfg.names env :=
      visible_cons_internal _ _ _ _ rfl
    rw [hv]
    congr 1
    funext vs
    simp [CapDef.var, hdb, List.reverse_cons, List.append_assoc]

theorem evalDefs_append (cfg : EvalCfg) (k : Nat) (ds₁ ds₂ : List CapDef) (env : Env) :
    evalDefs cfg k (ds₁ ++ ds₂) env = (evalDefs cfg k ds₁ env).andThen fun env' => evalDefs cfg k ds₂ env' := by
  induction ds₁ generalizing env with
  | nil => simp [evalDefs]
  | cons d ds ih =>
    simp only [List.cons_append, evalDefs, M.andThen_assoc]
    congr 1
    funext _
    congr 1
    funext v
    exact ih _

/-- environment entries made by the captures of the branches `bs` (newest first) -/
def capEnv (acts : Nat → List Member) : List Nat → List (List Value) → Env
  | b :: bs, caps :: capss => capEnv acts bs capss ++ ((capVars b (acts b)).zip caps).reverse
  | _, _ => []

theorem capEnv_internal (acts : Nat → List Member) (bs : List Nat) (capss : List (List Value)) :
    ∀ xv ∈ capEnv acts bs capss, xv.1.isInternal = true := by
  induction bs generalizing capss with
  | nil => simp [capEnv]
  | cons b bs ih =>
    cases capss with
    | nil => simp [capEnv]
    | cons caps capss =>
      intro xv hxv
      simp only [capEnv, List.mem_append, List.mem_reverse] at hxv
      rcases hxv with h | h
      · exact ih capss xv h
      · have := (List.of_mem_zip h).1
        simp only [capVars, List.mem_map] at this
        obtain ⟨d, _, hd⟩ := this
        rw [← hd]; rfl

theorem evalDefs_all (cfg : EvalCfg) (sc : SpecCfg) (hσ : sc.σ = cfg.σ) (k : Nat) (acts : Nat → List Member)
    (hacts : ∀ b, sc.acts b k = acts b) (bs : List Nat) (env : Env) :
    evalDefs cfg k (bs.flatMap fun b => capDefsOf b (acts b) 0) env =
      (specCapsAll sc k (visible cfg.names env) bs).andThen fun capss =>
        M.ret (capEnv acts bs capss ++ env) := by
  induction bs generalizing env with
  | nil => simp [evalDefs, specCapsAll, capEnv]
  | cons b bs ih =>
    simp only [List.flatMap_cons, evalDefs_append, specCapsAll, M.andThen_assoc]
    rw [evalDefs_eq cfg sc hσ k b _ (capDefsOf_b b (acts b) 0) env]
    simp only [M.andThen_assoc, M.ret_andThen]
    have hk : (capDefsOf b (acts b) 0).map (fun d => (d.e, d.i)) = capKeys (sc.acts b k) := by
      rw [hacts b, capKeys]; exact capDefsOf_keys b 0 (acts b) 0
    rw [hk]
    congr 1
    funext vs
    rw [ih]
    have hint : ∀ xv ∈ (((capDefsOf b (acts b) 0).map CapDef.var).zip vs).reverse, xv.1.isInternal = true := by
      intro xv hxv
      have := (List.of_mem_zip (List.mem_reverse.mp hxv)).1
      simp only [List.mem_map] at this
      obtain ⟨d, _, hd⟩ := this
      rw [← hd]; rfl
    rw [visible_append_internal _ _ _ hint]
    congr 1
    funext capss
    simp only [capEnv, capVars, List.append_assoc]
    rfl

/-! ### looking the captured values up again -/

theorem lookupAll_of_forall (env : Env) (ks : List Var) (vs : List Value) (hl : ks.length = vs.length)
    (h : ∀ i (hi : i < ks.length), env.lookup ks[i] = some (vs[i]'(hl ▸ hi))) : lookupAll env ks = some vs := by
  induction ks generalizing vs with
  | nil =>
    cases vs with
    | nil => simp [lookupAll]
    | cons v vs => simp at hl
  | cons k ks ih =>
    cases vs with
    | nil => simp at hl
    | cons v vs =>
      have h0 := h 0 (by simp)
      simp only [List.getElem_cons_zero] at h0
      have hrest := ih vs (by simpa using hl) (fun i hi => by
        have := h (i + 1) (by simp; omega)
        simpa using this)
      simp [lookupAll, h0, hrest]

theorem lookup_reverse_zip (ks : List Var) (vs : List Value) (hl : ks.length = vs.length) (hnd : ks.Nodup)
    (env : Env) (i : Nat) (hi : i < ks.length) :
    ((ks.zip vs).reverse ++ env).lookup ks[i] = some (vs[i]'(hl ▸ hi)) := by
  induction ks generalizing vs env i with
  | nil => simp at hi
  | cons k ks ih =>
    cases vs with
    | nil => simp at hl
    | cons v vs =>
      have hnd' := List.nodup_cons.mp hnd
      simp only [List.zip_cons_cons, List.reverse_cons, List.append_assoc]
      cases i with
      | zero =>
        have hnone : ((ks.zip vs).reverse).lookup k = none := by
          apply lookup_eq_none_of_not_mem
          intro hmem
          simp only [List.map_reverse, List.mem_reverse, List.mem_map] at hmem
          obtain ⟨kv, hkv, rfl⟩ := hmem
          exact hnd'.1 (List.of_mem_zip hkv).1
        simp [lookup_append, hnone, List.lookup]
      | succ i =>
        simp only [List.getElem_cons_succ]
        exact ih vs (by simpa using hl) hnd'.2 _ i (by simpa using hi)

theorem capVars_nodup (b : Nat) (acts : List Member) : (capVars b acts).Nodup := by
  unfold capVars
  have h := capDefsOf_keys_nodup b acts 0
  have hb := capDefsOf_b b acts 0
  generalize capDefsOf b acts 0 = ds at h hb
  induction ds with
  | nil => simp
  | cons d ds ih =>
    simp only [List.map_cons, List.nodup_cons] at h ⊢
    refine ⟨?_, ih h.2 (fun d' hd' => hb d' (by simp [hd']))⟩
    intro hmem
    simp only [List.mem_map] at hmem
    obtain ⟨d', hd', heq⟩ := hmem
    simp only [Var.ew.injEq] at heq
    exact h.1 (List.mem_map.mpr ⟨d', hd', by simp [heq.2.1, heq.2.2]⟩)

theorem capVars_b (b : Nat) (acts : List Member) : ∀ x ∈ capVars b acts, ∃ e i, x = .ew b e i := by
  intro x hx
  simp only [capVars, List.mem_map] at hx
  obtain ⟨d, hd, rfl⟩ := hx
  exact ⟨d.e, d.i, by rw [capDefsOf_b b acts 0 d hd]⟩

theorem capEnv_keys (acts : Nat → List Member) (bs : List Nat) (capss : List (List Value)) :
    ∀ xv ∈ capEnv acts bs capss, ∃ b ∈ bs, ∃ e i, xv.1 = .ew b e i := by
  induction bs generalizing capss with
  | nil => simp [capEnv]
  | cons b bs ih =>
    cases capss with
    | nil => simp [capEnv]
    | cons caps capss =>
      intro xv hxv
      simp only [capEnv, List.mem_append, List.mem_reverse] at hxv
      rcases hxv with h | h
      · obtain ⟨b', hb', r⟩ := ih capss xv h
        exact ⟨b', by simp [hb'], r⟩
      · obtain ⟨e, i, hx⟩ := capVars_b b (acts b) xv.1 (List.of_mem_zip h).1
        exact ⟨b, by simp, e, i, hx⟩

/-- every chain finds exactly its own captured values -/
theorem lookupAll_capEnv (acts : Nat → List Member) (bs : List Nat) (capss : List (List Value)) (env : Env)
    (hnd : bs.Nodup) (hl : bs.length = capss.length)
    (hlen : ∀ pos (h1 : pos < bs.length), (capVars bs[pos] (acts bs[pos])).length = (capss[pos]'(hl ▸ h1)).length)
    (pos : Nat) (hpos : pos < bs.length) :
    lookupAll (capEnv acts bs capss ++ env) (capVars bs[pos] (acts bs[pos])) = some (capss[pos]'(hl ▸ hpos)) := by
  induction bs generalizing capss env pos with
  | nil => simp at hpos
  | cons b bs ih =>
    cases capss with
    | nil => simp at hl
    | cons caps capss =>
      have hnd' := List.nodup_cons.mp hnd
      simp only [capEnv, List.append_assoc]
      cases pos with
      | zero =>
        simp only [List.getElem_cons_zero]
        have hl0 : (capVars b (acts b)).length = caps.length := hlen 0 (by simp)
        apply lookupAll_of_forall _ _ _ hl0
        intro i hi
        have hnone : (capEnv acts bs capss).lookup (capVars b (acts b))[i] = none := by
          apply lookup_eq_none_of_not_mem
          intro hmem
          simp only [List.mem_map] at hmem
          obtain ⟨xv, hxv, hx⟩ := hmem
          obtain ⟨b', hb', e', i', hx'⟩ := capEnv_keys acts bs capss xv hxv
          obtain ⟨e, i2, hx2⟩ := capVars_b b (acts b) _ (List.getElem_mem hi)
          rw [← hx, hx'] at hx2
          simp only [Var.ew.injEq] at hx2
          exact hnd'.1 (hx2.1 ▸ hb')
        rw [lookup_append, hnone]
        simp only [Option.none_or]
        exact lookup_reverse_zip _ _ hl0 (capVars_nodup b (acts b)) env i hi
      | succ pos =>
        simp only [List.getElem_cons_succ]
        exact ih capss _ hnd'.2 (by simpa using hl)
          (fun p hp => hlen (p + 1) (by simp; omega)) pos (by simpa using hpos)

/-! ### the chains of a step -/

theorem evalElem_plain (cfg : EvalCfg) (k : Nat) (env : Env) (e : Elem) (b : Nat) (x : Var) (acts : List Member)
    (prev : Option Value) (caps : List Value) (w : ElemWrap) (hw : w = .plain ∨ w = .tokio)
    (he : e.sem = (b, false, w, x, acts))
    (hprev : (if usesPrev acts then (env.lookup x).map some else some none) = some prev)
    (hcaps : lookupAll env (capVars b acts) = some caps) :
    evalElem cfg k env e =
      ⟨(chainEvents b k (cfg.σ.chain b k prev caps (visible cfg.names env))).map .ev,
        (cfg.σ.chain b k prev caps (visible cfg.names env)).res.toRes⟩ := by
  simp only [Elem.sem, Prod.mk.injEq] at he
  obtain ⟨h1, h2, h3, h4, h5⟩ := he
  unfold evalElem
  rcases hw with rfl | rfl <;> simp only [h1, h2, h3, h4, h5, hprev, hcaps]

theorem evalElems_seq (cfg : EvalCfg) (sc : SpecCfg) (hσ : sc.σ = cfg.σ) (k : Nat) (vals : List (Option Value))
    (env : Env) (varOf : Nat → Var) (bs : List Nat) (capss : List (List Value)) (elems : List Elem)
    (w : ElemWrap) (hw : w = .plain ∨ w = .tokio)
    (hel : elems.map Elem.sem = bs.map (fun b => (b, false, w, varOf b, sc.acts b k)))
    (hprev : ∀ b ∈ bs, usesPrev (sc.acts b k) = true →
      ∃ v, env.lookup (varOf b) = some v ∧ (vals[b]?).join = some v)
    (hl : bs.length = capss.length)
    (hcaps : ∀ pos (h : pos < bs.length),
      lookupAll env (capVars bs[pos] (sc.acts bs[pos] k)) = some (capss[pos]'(hl ▸ h))) :
    evalElems cfg k env elems = specChainsSeq sc k vals (visible cfg.names env) (bs.zip capss) := by
  induction bs generalizing capss elems with
  | nil =>
    cases elems with
    | nil => simp [evalElems, specChainsSeq]
    | cons e es => simp at hel
  | cons b bs ih =>
    cases capss with
    | nil => simp at hl
    | cons caps capss =>
      cases elems with
      | nil => simp at hel
      | cons e es =>
        simp only [List.map_cons, List.cons.injEq] at hel
        obtain ⟨he, hes⟩ := hel
        have hc0 := hcaps 0 (by simp)
        simp only [List.getElem_cons_zero] at hc0
        have hp : (if usesPrev (sc.acts b k) then (env.lookup (varOf b)).map some else some none)
            = some (specPrev sc vals b k) := by
          unfold specPrev
          by_cases hu : usesPrev (sc.acts b k) = true
          · obtain ⟨v, hv1, hv2⟩ := hprev b (by simp) hu
            simp [hu, hv1, hv2]
          · simp [hu]
        simp only [evalElems, List.zip_cons_cons, specChainsSeq]
        rw [evalElem_plain cfg k env e b (varOf b) (sc.acts b k) _ caps w hw he hp hc0, hσ]
        congr 1
        funext v
        rw [ih capss es hes (fun b' hb' => hprev b' (by simp [hb'])) (by simpa using hl)
          (fun pos h => hcaps (pos + 1) (by simp; omega))]

/-! ### thread-spawning steps -/

def handleOf (o : ChainOut) : Value :=
  match o.res with
  | .ok v => .handleOk v
  | _ => .handlePanic

theorem evalElem_thread (cfg : EvalCfg) (k : Nat) (env : Env) (e : Elem) (b : Nat) (x : Var) (acts : List Member)
    (prev : Option Value) (caps : List Value)
    (he : e.sem = (b, true, .thread b, x, acts))
    (hprev : (if usesPrev acts then (env.lookup x).map some else some none) = some prev)
    (hcaps : lookupAll env (capVars b acts) = some caps)
    (hj : env.lookup (.j b) = some (.builder b)) :
    evalElem cfg k env e =
      ⟨[.fork b k (threadName cfg.parent b) (chainEvents b k (cfg.σ.chain b k prev caps (visible cfg.names env)))],
        .ok (handleOf (cfg.σ.chain b k prev caps (visible cfg.names env)))⟩ := by
  simp only [Elem.sem, Prod.mk.injEq] at he
  obtain ⟨h1, h2, h3, h4, h5⟩ := he
  unfold evalElem
  simp only [h1, h2, h3, h4, h5, hprev, hcaps, hj, handleOf]
  cases (cfg.σ.chain b k prev caps (visible cfg.names env)).res <;> rfl

/-- the chain outcomes of a forked step, in branch order -/
def forkOuts (sc : SpecCfg) (k : Nat) (vals : List (Option Value)) (vis : List (String × Value))
    (bcs : List (Nat × List Value)) : List (Nat × ChainOut) :=
  bcs.map fun (b, caps) => (b, sc.σ.chain b k (specPrev sc vals b k) caps vis)

theorem evalElems_fork (cfg : EvalCfg) (sc : SpecCfg) (hσ : sc.σ = cfg.σ) (hpar : sc.parent = cfg.parent) (k : Nat)
    (vals : List (Option Value)) (env : Env) (varOf : Nat → Var) (bs : List Nat) (capss : List (List Value))
    (elems : List Elem)
    (hel : elems.map Elem.sem = bs.map (fun b => (b, true, ElemWrap.thread b, varOf b, sc.acts b k)))
    (hprev : ∀ b ∈ bs, usesPrev (sc.acts b k) = true →
      ∃ v, env.lookup (varOf b) = some v ∧ (vals[b]?).join = some v)
    (hl : bs.length = capss.length)
    (hcaps : ∀ pos (h : pos < bs.length),
      lookupAll env (capVars bs[pos] (sc.acts bs[pos] k)) = some (capss[pos]'(hl ▸ h)))
    (hj : ∀ b ∈ bs, env.lookup (.j b) = some (.builder b)) :
    evalElems cfg k env elems =
      ⟨(forkOuts sc k vals (visible cfg.names env) (bs.zip capss)).map
          (fun (bo : Nat × ChainOut) => MEv.fork bo.1 k (threadName sc.parent bo.1) (chainEvents bo.1 k bo.2)),
        .ok ((forkOuts sc k vals (visible cfg.names env) (bs.zip capss)).map fun bo => handleOf bo.2)⟩ := by
  induction bs generalizing capss elems with
  | nil =>
    cases elems with
    | nil => simp [evalElems, forkOuts, M.ret]
    | cons e es => simp at hel
  | cons b bs ih =>
    cases capss with
    | nil => simp at hl
    | cons caps capss =>
      cases elems with
      | nil => simp at hel
      | cons e es =>
        simp only [List.map_cons, List.cons.injEq] at hel
        obtain ⟨he, hes⟩ := hel
        have hc0 := hcaps 0 (by simp)
        simp only [List.getElem_cons_zero] at hc0
        have hp : (if usesPrev (sc.acts b k) then (env.lookup (varOf b)).map some else some none)
            = some (specPrev sc vals b k) := by
          unfold specPrev
          by_cases hu : usesPrev (sc.acts b k) = true
          · obtain ⟨v, hv1, hv2⟩ := hprev b (by simp) hu
            simp [hu, hv1, hv2]
          · simp [hu]
        simp only [evalElems]
        rw [evalElem_thread cfg k env e b (varOf b) (sc.acts b k) _ caps he hp hc0 (hj b (by simp)),
          ih capss es hes (fun b' hb' => hprev b' (by simp [hb'])) (by simpa using hl)
            (fun pos h => hcaps (pos + 1) (by simp; omega)) (fun b' hb' => hj b' (by simp [hb']))]
        simp [M.andThen, M.ret, forkOuts, hσ, hpar]

theorem mkTuple_of_two_le (vs : List Value) (h : 2 ≤ vs.length) : mkTuple vs = .tup (spine vs) := by
  match vs with
  | [] => simp at h
  | [_] => simp at h
  | _ :: _ :: _ => rfl

theorem evalJoins_cons_ok (k : Nat) (sr : Value) (b : Nat) (bs : List Nat) (p : Proj) (ps : List Proj) (v : Value)
    (h : projVal p sr = some (.handleOk v)) :
    evalJoins k sr (b :: bs) (p :: ps) =
      (M.tell [.join b k]).andThen fun _ => (evalJoins k sr bs ps).andThen fun vs => M.ret (v :: vs) := by
  conv => lhs; unfold evalJoins
  simp only [h]

theorem evalJoins_cons_panic (k : Nat) (sr : Value) (b : Nat) (bs : List Nat) (p : Proj) (ps : List Proj)
    (h : projVal p sr = some .handlePanic) :
    evalJoins k sr (b :: bs) (p :: ps) =
      (M.tell [.join b k]).andThen fun _ => M.lift (.panic (.joinUnwrap b k)) := by
  conv => lhs; unfold evalJoins
  simp only [h]

theorem evalJoins_spec (k : Nat) (hs : List Value) (h2 : 2 ≤ hs.length) (all : List (Nat × ChainOut))
    (hh : hs = all.map fun bo => handleOf bo.2) (i0 : Nat) :
    evalJoins k (mkTuple hs) ((all.drop i0).map Prod.fst) ((List.range' i0 (all.length - i0)).map Proj.idx)
      = specJoins k (all.drop i0) := by
  generalize hn : all.length - i0 = n
  induction n generalizing i0 with
  | zero =>
    have : all.drop i0 = [] := List.drop_eq_nil_of_le (by omega)
    simp [this, evalJoins, specJoins]
  | succ n ih =>
    have hi : i0 < all.length := by omega
    have hd : all.drop i0 = all[i0] :: all.drop (i0 + 1) := (List.drop_eq_getElem_cons hi)
    rw [hd]
    simp only [List.map_cons, List.range'_succ]
    have hproj : projVal (.idx i0) (mkTuple hs) = some (handleOf all[i0].2) := by
      rw [mkTuple_of_two_le hs h2]
      simp [projVal, hh, hi]
    have hrec := ih (i0 + 1) (by omega)
    rw [specJoins]
    cases hr : all[i0].2.res with
    | ok v =>
      have : projVal (.idx i0) (mkTuple hs) = some (.handleOk v) := by rw [hproj, handleOf, hr]
      rw [evalJoins_cons_ok _ _ _ _ _ _ v this, hrec]
    | panic n =>
      have : projVal (.idx i0) (mkTuple hs) = some .handlePanic := by rw [hproj, handleOf, hr]
      rw [evalJoins_cons_panic _ _ _ _ _ _ this]

end JoinModel
