/-
  What the parser model can return (for every oracle, i.e. whatever syn answers): every member has the operand count of
  its operator's table row, a member that is neither `>>>` nor `<<<` is never the UNWRAP constructor, and the running
  `>>>`/`<<<` balance — reset at every `~` — never drops below zero.  Used by Props/C15 (`expansion_total`).
-/
import JoinModel.Parse
namespace JoinModel

/-- a `<<<` is always announced as such -/
def GroupOK (g : NextGroup) : Prop := g.mv = .none → g.comb ≠ .unwrap

def NextOK (nx : Option NextGroup) : Prop := ∀ g, nx = some g → GroupOK g

/-- shape of a member built by `parseGroup`, in terms of the *extracted* tables -/
def MemberShape (m : Member) : Prop :=
  match m.mv with
  | .wrap => (∃ c, wrapperCtorOf c = some m.ctor) ∧ m.ops.length = 1
  | .unwrap => True
  | .none => ∃ c ar, arityOf c = some ar ∧ c ≠ .unwrap ∧ m.ctor = ar.ctor ∧
      (m.ops.length = ar.count ∨ (ar.allowEmpty = true ∧ m.ops = []))

/-- the builder's balance check, as a function of the finished member list: `w` is the balance before the first member -/
def chk : Int → List Member → Bool
  | _, [] => true
  | w, m :: ms =>
    let w1 := (if m.deferred then 0 else w) + mvDelta m.mv
    decide (0 ≤ w1) && chk w1 ms

theorem parseUntil_next {o : Oracle} {syn : Syn} {ae : Bool} {input : Toks} {u : UnitOut}
    (h : parseUntil o syn ae input = .ok u) : NextOK u.next := by
  unfold parseUntil at h
  split at h
  · cases h
  · rename_i toks next deferred input' _
    simp only at h
    split at h
    · cases h
    · rename_i wrap rest _
      split at h
      · cases h
      · cases h
        intro g hg hmv
        simp only [Option.bind_eq_some_iff, Option.map_eq_some_iff] at hg
        obtain ⟨row, _, c, _, rfl⟩ := hg
        simp only at hmv ⊢
        intro hc
        subst hc
        cases wrap <;> simp at hmv

theorem parseUnits_ok {o : Oracle} {syn : Syn} : ∀ (n : Nat) (input : Toks) (acc ops : List Toks) (next : Option NextGroup)
    (rest : Toks), parseUnits o syn n input acc = .ok (ops, next, rest) → ops.length = acc.length + n ∧ NextOK next := by
  intro n
  induction n with
  | zero =>
    intro input acc ops next rest h
    simp only [parseUnits, Except.ok.injEq, Prod.mk.injEq] at h
    obtain ⟨rfl, rfl, _⟩ := h
    exact ⟨rfl, fun g hg => by cases hg⟩
  | succ n ih =>
    intro input acc ops next rest h
    unfold parseUnits at h
    split at h
    · cases h
    · rename_i u hu
      split at h
      · rename_i hn
        simp only [Except.ok.injEq, Prod.mk.injEq] at h
        obtain ⟨rfl, rfl, _⟩ := h
        exact ⟨by simp [hn], parseUntil_next hu⟩
      · split at h
        · cases h
        · split at h
          · cases h
          · obtain ⟨h1, h2⟩ := ih _ _ _ _ _ h
            exact ⟨by simp at h1; omega, h2⟩

theorem parseNOrEmpty_ok {o : Oracle} {syn : Syn} {count : Nat} {ae : Bool} {input : Toks} {ops : Option (List Toks)}
    {next : Option NextGroup} {rest : Toks} (h : parseNOrEmpty o syn count ae input = .ok (ops, next, rest)) :
    NextOK next ∧ ((ops.getD []).length = count ∨ (ae = true ∧ ops.getD [] = [])) := by
  unfold parseNOrEmpty at h
  simp only at h
  split at h
  · rename_i u hfirst
    simp only [Except.ok.injEq, Prod.mk.injEq] at h
    obtain ⟨rfl, rfl, _⟩ := h
    cases ae with
    | false => simp at hfirst
    | true =>
      simp only [if_true] at hfirst
      split at hfirst
      · rename_i u' hu'
        cases hfirst
        exact ⟨parseUntil_next hu', Or.inr ⟨rfl, rfl⟩⟩
      · cases hfirst
  · split at h
    · cases h
    · rename_i ops' next' rest' hu
      simp only [Except.ok.injEq, Prod.mk.injEq] at h
      obtain ⟨rfl, rfl, _⟩ := h
      obtain ⟨h1, h2⟩ := parseUnits_ok _ _ _ _ _ _ hu
      refine ⟨h2, Or.inl ?_⟩
      by_cases hc : count = 0
      · simp [hc]
      · simp only [hc, if_false, Option.getD_some]
        simpa using h1

theorem parseGroup_shape {o : Oracle} {g : NextGroup} {input : Toks} {m : Member} {raws : List Toks}
    {next : Option NextGroup} {rest : Toks} (h : parseGroup o g input = .ok ((m, raws), next, rest)) (hg : GroupOK g) :
    MemberShape m ∧ m.mv = g.mv ∧ m.deferred = g.deferred ∧ (raws.length = 1 → m.ops.length = 1) ∧ NextOK next := by
  unfold parseGroup at h
  split at h
  · rename_i hw
    split at h
    · cases h
    · rename_i ctor hctor
      split at h
      · cases h
      · rename_i u hu
        simp only [Except.ok.injEq, Prod.mk.injEq] at h
        obtain ⟨⟨rfl, rfl⟩, rfl, _⟩ := h
        refine ⟨?_, hw.symm, rfl, fun _ => rfl, parseUntil_next hu⟩
        simp only [MemberShape]
        exact ⟨⟨_, hctor⟩, rfl⟩
  · rename_i hw
    split at h
    · cases h
    · rename_i ar har
      simp only at h
      split at h
      · cases h
      · rename_i ops next' rest' hp
        simp only [Except.ok.injEq, Prod.mk.injEq] at h
        obtain ⟨⟨rfl, rfl⟩, rfl, _⟩ := h
        obtain ⟨hn, hl⟩ := parseNOrEmpty_ok hp
        refine ⟨?_, rfl, rfl, fun hr => by simpa using hr, hn⟩
        simp only [MemberShape]
        cases hmv : g.mv with
        | wrap => exact absurd hmv hw
        | unwrap => trivial
        | none =>
          refine ⟨g.comb, ar, har, hg hmv, rfl, ?_⟩
          rcases hl with hl | ⟨ha, hl⟩
          · exact Or.inl (by simpa using hl)
          · exact Or.inr ⟨ha, by simp [hl]⟩

/-- **What a parsed chain looks like.**  The members appended by the chain builder all have table shape, and the balance
    check holds along them. -/
theorem buildChain_shape (o : Oracle) : ∀ (fuel : Nat) (g : NextGroup) (input : Toks) (members : List Member)
    (pat : Option BranchPat) (w : Int) (isFirst : Bool) (br : Branch) (rest : Toks),
    buildChain o fuel g input members pat w isFirst = .ok (br, rest) → GroupOK g →
    ∃ m tail, br.members = members ++ m :: tail ∧ m.mv = g.mv ∧ m.deferred = g.deferred ∧
      (∀ x ∈ m :: tail, MemberShape x) ∧ chk w tail = true := by
  intro fuel
  induction fuel with
  | zero => intro g input members pat w isFirst br rest h; simp [buildChain] at h
  | succ fuel ih =>
    intro g input members pat w isFirst br rest h hg
    unfold buildChain at h
    split at h
    · cases h
    · rename_i m raws next rest' hpg
      obtain ⟨hshape, hmv, hdef, hlen, hnext⟩ := parseGroup_shape hpg hg
      simp only at h
      -- the `let` handling keeps the member's operator, flags and operand count
      split at h
      · cases h
      · rename_i m' pat' hfirst
        have hm' : MemberShape m' ∧ m'.mv = g.mv ∧ m'.deferred = g.deferred := by
          have keep : (Except.ok (m, pat) : Except ParseErr (Member × Option BranchPat)) = .ok (m', pat') →
              MemberShape m' ∧ m'.mv = g.mv ∧ m'.deferred = g.deferred := by
            intro he; cases he; exact ⟨hshape, hmv, hdef⟩
          split at hfirst
          · split at hfirst
            · rename_i raw
              split at hfirst
              · exact keep hfirst
              · cases hfirst
              · rename_i p i rhs blk _
                cases hfirst
                have h1 := hlen rfl
                refine ⟨?_, hmv, hdef⟩
                simp only [MemberShape] at hshape ⊢
                cases hmv' : m.mv with
                | wrap => rw [hmv'] at hshape; simp only at hshape ⊢; exact ⟨hshape.1, rfl⟩
                | unwrap => trivial
                | none =>
                  rw [hmv'] at hshape
                  simp only at hshape ⊢
                  obtain ⟨c, ar, h1', h2', h3', h4'⟩ := hshape
                  refine ⟨c, ar, h1', h2', h3', ?_⟩
                  rcases h4' with h4' | ⟨_, h4'⟩
                  · exact Or.inl (by simp only [List.length_singleton]; omega)
                  · rw [h4'] at h1; simp at h1
            · exact keep hfirst
          · exact keep hfirst
        obtain ⟨hs', hmv', hdef'⟩ := hm'
        split at h
        · rename_i nx
          have fin : ∀ w1 : Int, w1 = (if nx.deferred then 0 else w) + mvDelta nx.mv → ¬ w1 < 0 →
              buildChain o fuel nx rest' (members ++ [m']) pat' w1 false = .ok (br, rest) →
              ∃ m tail, br.members = members ++ m :: tail ∧ m.mv = g.mv ∧ m.deferred = g.deferred ∧
                (∀ x ∈ m :: tail, MemberShape x) ∧ chk w tail = true := by
            intro w1 hw1 hneg hb
            obtain ⟨m2, tail2, hmem, hmv2, hdef2, hsh2, hchk2⟩ := ih _ _ _ _ _ _ _ _ hb (hnext nx rfl)
            refine ⟨m', m2 :: tail2, by simp [hmem], hmv', hdef', ?_, ?_⟩
            · intro x hx
              rcases List.mem_cons.mp hx with rfl | hx
              · exact hs'
              · exact hsh2 x hx
            · simp only [chk, hmv2, hdef2, ← hw1, Bool.and_eq_true, decide_eq_true_eq]
              exact ⟨by omega, hchk2⟩
          cases hd : nx.deferred with
          | false =>
            simp only [hd, Bool.false_eq_true, if_false] at h fin
            by_cases hneg : w + mvDelta nx.mv < 0
            · simp [hneg] at h
            · simp only [hneg, if_false] at h
              exact fin _ rfl hneg h
          | true =>
            simp only [hd, if_true, Int.zero_add] at h fin
            by_cases hneg : mvDelta nx.mv < 0
            · simp [hneg] at h
            · simp only [hneg, if_false] at h
              exact fin _ rfl hneg h
        · have hmem : br.members = members ++ [m'] := by
            repeat' split at h
            all_goals first | (cases h; rfl) | cases h
          exact ⟨m', [], by simp [hmem], hmv', hdef', by simpa using hs', rfl⟩

/-- a branch as the parser returns it -/
def BranchOK (br : Branch) : Prop := (∀ x ∈ br.members, MemberShape x) ∧ chk 0 br.members = true

theorem parseItems_ok (o : Oracle) : ∀ (fuel : Nat) (input : Toks) (bs : List Branch) (h : Option (HKind × Toks))
    (bs' : List Branch) (h' : Option (HKind × Toks)), parseItems o fuel input bs h = .ok (bs', h') →
    (∀ b ∈ bs, BranchOK b) → ∀ b ∈ bs', BranchOK b := by
  intro fuel
  induction fuel with
  | zero => intro input bs h bs' h' he; simp [parseItems] at he
  | succ fuel ih =>
    intro input bs h bs' h' he hbs
    cases input with
    | nil => simp only [parseItems, Except.ok.injEq, Prod.mk.injEq] at he; obtain ⟨rfl, _⟩ := he; exact hbs
    | cons t ts =>
      unfold parseItems at he
      split at he
      · split at he
        · cases he
        · split at he
          · cases he
          · exact ih _ _ _ _ _ he hbs
      · split at he
        · cases he
        · rename_i b rest hb
          refine ih _ _ _ _ _ he ?_
          intro b' hb'
          rcases List.mem_append.mp hb' with hb' | hb'
          · exact hbs b' hb'
          · have : b' = b := by simpa using hb'
            subst this
            obtain ⟨m, tail, hmem, hmv, hdef, hsh, hchk⟩ :=
              buildChain_shape o _ _ _ _ _ _ _ _ _ hb (by intro _; simp)
            simp only [List.nil_append] at hmem
            refine ⟨by rw [hmem]; exact hsh, ?_⟩
            rw [hmem]
            simp only [chk, hmv, hdef, mvDelta, Bool.false_eq_true, if_false, Int.add_zero, Int.le_refl, decide_true,
              Bool.true_and]
            exact hchk

/-- **Every program the parser accepts** has at least one branch, and every branch is `BranchOK`. -/
theorem parseMacroInput_ok (o : Oracle) (input : Toks) (p : Input) (h : parseMacroInput o input = .ok p) :
    p.branches ≠ [] ∧ ∀ b ∈ p.branches, BranchOK b := by
  unfold parseMacroInput at h
  simp only at h
  split at h
  · cases h
  · split at h
    · cases h
    · rename_i bs hd hitems
      split at h
      · cases h
      · rename_i hne
        split at h
        · cases h
        · cases h
          refine ⟨fun he => hne (by simpa using he), ?_⟩
          exact parseItems_ok o _ _ _ _ _ _ hitems (by intro b hb; cases hb)

end JoinModel
