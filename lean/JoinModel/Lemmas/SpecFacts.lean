/-
  Facts about the reference loop (`Spec.lean`) on which the property theorems rest: which events a step
  produces, in which order, and what the loop returns.
-/
import JoinModel.Lemmas.LoopRefine
namespace JoinModel

/-! ### views of a trace -/

/-- step an event belongs to (`none`: handler events) -/
def Ev.step : Ev → Option Nat
  | .cap _ k _ _ _ => some k
  | .chainStart _ k => some k
  | .cb _ k _ => some k
  | .chainEnd _ k _ => some k
  | .joiner k _ => some k
  | .handlerDef => none
  | .handlerCall _ => none

def MEv.step : MEv → Option Nat
  | .ev e => e.step
  | .fork _ k _ _ => some k
  | .join _ k => some k

/-- is this a block-capture event -/
def MEv.isCap : MEv → Bool
  | .ev (.cap _ _ _ _ _) => true
  | _ => false

def Ev.end? : Ev → Option (Nat × Nat × Value)
  | .chainEnd b k v => some (b, k, v)
  | _ => none

/-- the chains that ran to completion, with what they returned: `(branch, step, value)` -/
def MEv.ends : MEv → List (Nat × Nat × Value)
  | .ev e => e.end?.toList
  | .fork _ _ _ body => body.filterMap Ev.end?
  | .join _ _ => []

def chainEnds (t : List MEv) : List (Nat × Nat × Value) := t.flatMap MEv.ends

@[simp] theorem chainEnds_append (a b : List MEv) : chainEnds (a ++ b) = chainEnds a ++ chainEnds b := by
  simp [chainEnds]

@[simp] theorem chainEnds_nil : chainEnds [] = [] := rfl

/-! ### trace / result of `andThen` -/

theorem M.andThen_trace_ok {α β} {m : M α} {f : α → M β} {a : α} (h : m.res = .ok a) :
    (m.andThen f).trace = m.trace ++ (f a).trace ∧ (m.andThen f).res = (f a).res := by
  cases m with
  | mk t r => simp only at h; subst h; simp [M.andThen]

theorem M.andThen_trace_notok {α β} {m : M α} {f : α → M β} (h : ∀ a, m.res ≠ .ok a) :
    (m.andThen f).trace = m.trace := by
  cases m with
  | mk t r =>
    cases r with
    | ok a => exact absurd rfl (h a)
    | panic s => simp [M.andThen]
    | stuck => simp [M.andThen]

/-- the trace of `m.andThen f` always starts with the trace of `m` -/
theorem M.andThen_trace_prefix {α β} (m : M α) (f : α → M β) : ∃ rest, (m.andThen f).trace = m.trace ++ rest := by
  cases m with
  | mk t r =>
    cases r with
    | ok a => exact ⟨(f a).trace, by simp [M.andThen]⟩
    | panic s => exact ⟨[], by simp [M.andThen]⟩
    | stuck => exact ⟨[], by simp [M.andThen]⟩

/-! ### captures -/

theorem specCapsBranch_trace (sc : SpecCfg) (k b : Nat) (vis : List (String × Value)) (keys : List (Nat × Nat)) :
    ∀ e ∈ (specCapsBranch sc k b vis keys).trace, ∃ ei ∈ keys, e = .ev (.cap b k ei.1 ei.2 vis) := by
  induction keys with
  | nil => simp [specCapsBranch, M.ret]
  | cons ei rest ih =>
    obtain ⟨e0, i0⟩ := ei
    intro e he
    simp only [specCapsBranch, M.tell_andThen] at he
    simp only [M.pre, List.mem_append, List.mem_singleton, List.cons_append, List.nil_append, List.mem_cons] at he
    rcases he with rfl | he
    · exact ⟨(e0, i0), by simp, rfl⟩
    · cases hc : (sc.σ.capture b k e0 i0 vis) with
      | panic n => simp [hc, UR.toRes, M.lift, M.andThen] at he
      | ok v =>
        simp only [hc, UR.toRes, M.lift_ok_andThen] at he
        obtain ⟨rest', hr⟩ := M.andThen_trace_prefix (specCapsBranch sc k b vis rest) (fun vs => M.ret (v :: vs))
        cases hres : (specCapsBranch sc k b vis rest).res with
        | ok vs =>
          have := (M.andThen_trace_ok (f := fun vs => M.ret (v :: vs)) hres).1
          rw [this] at he
          simp only [M.ret, List.append_nil] at he
          obtain ⟨ei, hei, rfl⟩ := ih e he
          exact ⟨ei, by simp [hei], rfl⟩
        | panic s =>
          rw [M.andThen_trace_notok (by intro a; rw [hres]; simp)] at he
          obtain ⟨ei, hei, rfl⟩ := ih e he
          exact ⟨ei, by simp [hei], rfl⟩
        | stuck =>
          rw [M.andThen_trace_notok (by intro a; rw [hres]; simp)] at he
          obtain ⟨ei, hei, rfl⟩ := ih e he
          exact ⟨ei, by simp [hei], rfl⟩

theorem specCapsAll_trace (sc : SpecCfg) (k : Nat) (vis : List (String × Value)) (bs : List Nat) :
    ∀ e ∈ (specCapsAll sc k vis bs).trace, ∃ b ∈ bs, ∃ ei ∈ capKeys (sc.acts b k), e = .ev (.cap b k ei.1 ei.2 vis) := by
  induction bs with
  | nil => simp [specCapsAll, M.ret]
  | cons b bs ih =>
    intro e he
    simp only [specCapsAll] at he
    cases hres : (specCapsBranch sc k b vis (capKeys (sc.acts b k))).res with
    | ok vs =>
      rw [(M.andThen_trace_ok hres).1] at he
      rcases List.mem_append.mp he with h | h
      · obtain ⟨ei, hei, rfl⟩ := specCapsBranch_trace sc k b vis _ e h
        exact ⟨b, by simp, ei, hei, rfl⟩
      · cases hres2 : (specCapsAll sc k vis bs).res with
        | ok rest =>
          rw [(M.andThen_trace_ok (f := fun rest => M.ret (vs :: rest)) hres2).1] at h
          simp only [M.ret, List.append_nil] at h
          obtain ⟨b', hb', r⟩ := ih e h
          exact ⟨b', by simp [hb'], r⟩
        | panic s =>
          rw [M.andThen_trace_notok (by intro a; rw [hres2]; simp)] at h
          obtain ⟨b', hb', r⟩ := ih e h
          exact ⟨b', by simp [hb'], r⟩
        | stuck =>
          rw [M.andThen_trace_notok (by intro a; rw [hres2]; simp)] at h
          obtain ⟨b', hb', r⟩ := ih e h
          exact ⟨b', by simp [hb'], r⟩
    | panic s =>
      rw [M.andThen_trace_notok (by intro a; rw [hres]; simp)] at he
      obtain ⟨ei, hei, rfl⟩ := specCapsBranch_trace sc k b vis _ e he
      exact ⟨b, by simp, ei, hei, rfl⟩
    | stuck =>
      rw [M.andThen_trace_notok (by intro a; rw [hres]; simp)] at he
      obtain ⟨ei, hei, rfl⟩ := specCapsBranch_trace sc k b vis _ e he
      exact ⟨b, by simp, ei, hei, rfl⟩

theorem specCapsAll_ends (sc : SpecCfg) (k : Nat) (vis : List (String × Value)) (bs : List Nat) :
    chainEnds (specCapsAll sc k vis bs).trace = [] := by
  simp only [chainEnds, List.flatMap_eq_nil_iff]
  intro e he
  obtain ⟨b, _, ei, _, rfl⟩ := specCapsAll_trace sc k vis bs e he
  rfl

/-! ### chains -/

theorem ends_chainEvents (b k : Nat) (o : ChainOut) :
    (chainEvents b k o).filterMap Ev.end? = (match o.res with | .ok v => [(b, k, v)] | .panic _ => []) := by
  simp only [chainEvents, List.filterMap_append, List.filterMap_cons, List.filterMap_nil, Ev.end?, List.nil_append]
  have : (o.cbs.map (Ev.cb b k)).filterMap Ev.end? = [] := by
    simp [List.filterMap_map, Function.comp_def, Ev.end?]
  rw [this]
  cases o.res <;> simp [Ev.end?]

theorem chainEnds_map_ev (es : List Ev) : chainEnds (es.map .ev) = es.filterMap Ev.end? := by
  induction es with
  | nil => rfl
  | cons e es ih =>
    simp only [List.map_cons, chainEnds, List.flatMap_cons, List.filterMap_cons] at ih ⊢
    rw [ih]
    cases h : e.end? <;> simp [MEv.ends, h]

theorem specChainsSeq_ends (sc : SpecCfg) (k : Nat) (vals : List (Option Value)) (vis : List (String × Value))
    (bcs : List (Nat × List Value)) (news : List Value) (h : (specChainsSeq sc k vals vis bcs).res = .ok news) :
    chainEnds (specChainsSeq sc k vals vis bcs).trace = ((bcs.map Prod.fst).zip news).map fun bv => (bv.1, k, bv.2) := by
  induction bcs generalizing news with
  | nil => simp [specChainsSeq, M.ret] at h ⊢
  | cons bc rest ih =>
    obtain ⟨b, caps⟩ := bc
    simp only [specChainsSeq] at h ⊢
    obtain ⟨v, hv, h⟩ := M.andThen_res_ok h
    obtain ⟨vs, hvs, h⟩ := M.andThen_res_ok h
    simp only [M.ret, Res.ok.injEq] at h
    subst h
    rw [(M.andThen_trace_ok hv).1, (M.andThen_trace_ok hvs).1]
    simp only [M.ret, List.append_nil, chainEnds_append, List.map_cons, List.zip_cons_cons, ih vs hvs]
    congr 1
    rw [chainEnds_map_ev, ends_chainEvents]
    simp only at hv
    cases ho : (sc.σ.chain b k (specPrev sc vals b k) caps vis).res with
    | ok v' => simp [ho, UR.toRes] at hv; subst hv; rfl
    | panic n => simp [ho, UR.toRes] at hv

theorem specJoins_ends (k : Nat) (outs : List (Nat × ChainOut)) : chainEnds (specJoins k outs).trace = [] := by
  induction outs with
  | nil => simp [specJoins, M.ret]
  | cons bo rest ih =>
    obtain ⟨b, o⟩ := bo
    simp only [specJoins, M.tell_andThen, M.pre]
    cases ho : o.res with
    | ok v =>
      simp only
      cases hres : (specJoins k rest).res with
      | ok vs =>
        rw [(M.andThen_trace_ok (f := fun vs => M.ret (v :: vs)) hres).1]
        simp [chainEnds, MEv.ends, M.ret] at ih ⊢
        exact ih
      | panic s =>
        rw [M.andThen_trace_notok (by intro a; rw [hres]; simp)]
        simp [chainEnds, MEv.ends] at ih ⊢
        exact ih
      | stuck =>
        rw [M.andThen_trace_notok (by intro a; rw [hres]; simp)]
        simp [chainEnds, MEv.ends] at ih ⊢
        exact ih
    | panic n => simp [chainEnds, MEv.ends, M.lift]

theorem specJoins_ok_outs (k : Nat) (outs : List (Nat × ChainOut)) (news : List Value)
    (h : (specJoins k outs).res = .ok news) : outs.map (fun bo => bo.2.res) = news.map UR.ok := by
  induction outs generalizing news with
  | nil => simp [specJoins, M.ret] at h; subst h; rfl
  | cons bo rest ih =>
    obtain ⟨b, o⟩ := bo
    simp only [specJoins] at h
    obtain ⟨_, _, h⟩ := M.andThen_res_ok h
    cases ho : o.res with
    | ok v =>
      simp only [ho] at h
      obtain ⟨vs, hvs, h⟩ := M.andThen_res_ok h
      simp only [M.ret, Res.ok.injEq] at h
      subst h
      simp [ho, ih vs hvs]
    | panic n => simp [ho, M.lift] at h

theorem fork_ends_of_outs (parent : Option String) (k : Nat) (outs : List (Nat × ChainOut)) (news : List Value)
    (houts : outs.map (fun bo => bo.2.res) = news.map UR.ok) :
    chainEnds (outs.map fun x => MEv.fork x.1 k (threadName parent x.1) (chainEvents x.1 k x.2))
      = ((outs.map Prod.fst).zip news).map fun bv => (bv.1, k, bv.2) := by
  induction outs generalizing news with
  | nil => simp [chainEnds]
  | cons bo rest ih =>
    cases news with
    | nil => simp at houts
    | cons v vs =>
      simp only [List.map_cons, List.cons.injEq] at houts
      have := ih vs houts.2
      simp only [chainEnds] at this
      simp only [List.map_cons, chainEnds, List.flatMap_cons, MEv.ends, ends_chainEvents, houts.1,
        List.zip_cons_cons, List.singleton_append, List.cons.injEq, true_and]
      exact this

theorem specChainsFork_ends (sc : SpecCfg) (k : Nat) (vals : List (Option Value)) (vis : List (String × Value))
    (bcs : List (Nat × List Value)) (news : List Value) (h : (specChainsFork sc k vals vis bcs).res = .ok news) :
    chainEnds (specChainsFork sc k vals vis bcs).trace = ((bcs.map Prod.fst).zip news).map fun bv => (bv.1, k, bv.2) := by
  simp only [specChainsFork] at h ⊢
  obtain ⟨_, _, h⟩ := M.andThen_res_ok h
  have houts := specJoins_ok_outs k _ news h
  simp only [M.tell_andThen, M.pre, chainEnds_append, specJoins_ends, List.append_nil]
  rw [fork_ends_of_outs sc.parent k _ news houts]
  simp [List.map_map, Function.comp_def]

theorem specChains_ends (sc : SpecCfg) (k : Nat) (vals : List (Option Value)) (vis : List (String × Value))
    (act : List Nat) (caps : List (List Value)) (hl : act.length = caps.length) (news : List Value)
    (h : (specChains sc k vals vis act caps).res = .ok news) :
    chainEnds (specChains sc k vals vis act caps).trace = (act.zip news).map fun bv => (bv.1, k, bv.2) := by
  have hfst : (act.zip caps).map Prod.fst = act := by rw [List.map_fst_zip]; omega
  unfold specChains at h ⊢
  split
  · rename_i hc; simp only [hc, if_true] at h
    rw [specChainsFork_ends _ _ _ _ _ _ h, hfst]
  · rename_i hc; simp only [hc, if_false] at h
    rw [specChainsSeq_ends _ _ _ _ _ _ h, hfst]

/-! ### every event of a step belongs to that step -/

theorem chainEvents_step (b k : Nat) (o : ChainOut) : ∀ e ∈ chainEvents b k o, e.step = some k := by
  intro e he
  simp only [chainEvents, List.mem_append, List.mem_singleton, List.mem_map] at he
  rcases he with (rfl | ⟨id, _, rfl⟩) | he
  · rfl
  · rfl
  · cases hr : o.res with
    | ok v => rw [hr] at he; simp at he; subst he; rfl
    | panic n => rw [hr] at he; simp at he

theorem specChainsSeq_step (sc : SpecCfg) (k : Nat) (vals : List (Option Value)) (vis : List (String × Value))
    (bcs : List (Nat × List Value)) :
    ∀ e ∈ (specChainsSeq sc k vals vis bcs).trace, e.step = some k ∧ e.isCap = false := by
  induction bcs with
  | nil => simp [specChainsSeq, M.ret]
  | cons bc rest ih =>
    obtain ⟨b, caps⟩ := bc
    intro e he
    simp only [specChainsSeq] at he
    generalize hm : (⟨(chainEvents b k (sc.σ.chain b k (specPrev sc vals b k) caps vis)).map .ev,
      (sc.σ.chain b k (specPrev sc vals b k) caps vis).res.toRes⟩ : M Value) = m at he
    have hmt : ∀ e ∈ m.trace, e.step = some k ∧ e.isCap = false := by
      intro e he
      rw [← hm] at he
      simp only [List.mem_map] at he
      obtain ⟨e', he', rfl⟩ := he
      refine ⟨chainEvents_step b k _ e' he', ?_⟩
      simp only [chainEvents, List.mem_append, List.mem_singleton, List.mem_map] at he'
      rcases he' with (rfl | ⟨id, _, rfl⟩) | he'
      · rfl
      · rfl
      · cases hr : (sc.σ.chain b k (specPrev sc vals b k) caps vis).res with
        | ok v => rw [hr] at he'; simp at he'; subst he'; rfl
        | panic n => rw [hr] at he'; simp at he'
    cases hres : m.res with
    | ok v =>
      rw [(M.andThen_trace_ok hres).1] at he
      rcases List.mem_append.mp he with h | h
      · exact hmt e h
      · cases hres2 : (specChainsSeq sc k vals vis rest).res with
        | ok vs =>
          rw [(M.andThen_trace_ok (f := fun vs => M.ret (v :: vs)) hres2).1] at h
          simp only [M.ret, List.append_nil] at h
          exact ih e h
        | panic s => rw [M.andThen_trace_notok (by intro a; rw [hres2]; simp)] at h; exact ih e h
        | stuck => rw [M.andThen_trace_notok (by intro a; rw [hres2]; simp)] at h; exact ih e h
    | panic s => rw [M.andThen_trace_notok (by intro a; rw [hres]; simp)] at he; exact hmt e he
    | stuck => rw [M.andThen_trace_notok (by intro a; rw [hres]; simp)] at he; exact hmt e he

theorem specJoins_step (k : Nat) (outs : List (Nat × ChainOut)) :
    ∀ e ∈ (specJoins k outs).trace, e.step = some k ∧ e.isCap = false := by
  induction outs with
  | nil => simp [specJoins, M.ret]
  | cons bo rest ih =>
    obtain ⟨b, o⟩ := bo
    intro e he
    simp only [specJoins, M.tell_andThen, M.pre, List.singleton_append, List.mem_cons] at he
    rcases he with rfl | he
    · exact ⟨rfl, rfl⟩
    · cases ho : o.res with
      | ok v =>
        simp only [ho] at he
        cases hres : (specJoins k rest).res with
        | ok vs =>
          rw [(M.andThen_trace_ok (f := fun vs => M.ret (v :: vs)) hres).1] at he
          simp only [M.ret, List.append_nil] at he
          exact ih e he
        | panic s => rw [M.andThen_trace_notok (by intro a; rw [hres]; simp)] at he; exact ih e he
        | stuck => rw [M.andThen_trace_notok (by intro a; rw [hres]; simp)] at he; exact ih e he
      | panic n => simp [ho, M.lift] at he

theorem specChains_step (sc : SpecCfg) (k : Nat) (vals : List (Option Value)) (vis : List (String × Value))
    (act : List Nat) (caps : List (List Value)) :
    ∀ e ∈ (specChains sc k vals vis act caps).trace, e.step = some k ∧ e.isCap = false := by
  unfold specChains
  split
  · intro e he
    simp only [specChainsFork, M.tell_andThen, M.pre, List.mem_append, List.mem_map] at he
    rcases he with ⟨bo, _, rfl⟩ | he
    · exact ⟨rfl, rfl⟩
    · exact specJoins_step k _ e he
  · exact specChainsSeq_step sc k vals vis _

theorem specCapsAll_step (sc : SpecCfg) (k : Nat) (vis : List (String × Value)) (bs : List Nat) :
    ∀ e ∈ (specCapsAll sc k vis bs).trace, e.step = some k ∧ e.isCap = true := by
  intro e he
  obtain ⟨b, _, ei, _, rfl⟩ := specCapsAll_trace sc k vis bs e he
  exact ⟨rfl, rfl⟩

/-! ### the loop, one step at a time -/

/-- what the loop does after the chains of step `k` returned `news` -/
def specTail (sc : SpecCfg) (rem k : Nat) (vals : List (Option Value)) (news : List Value) : M Fin :=
  let vals' := updVals vals (sc.active k) news
  match rem with
  | 0 =>
    match allSome vals' with
    | none => M.stuck
    | some finals =>
      if sc.kind.isTry then
        match firstFail finals with
        | some v => M.ret (.failed v)
        | none => M.ret (.vals (finals.filterMap payload?))
      else M.ret (.vals finals)
  | rem' + 1 =>
    if sc.kind.isTry then
      match firstFail news with
      | some v => M.ret (.failed v)
      | none => specLoop sc rem' (k + 1) vals'
    else specLoop sc rem' (k + 1) vals'

theorem specLoop_eq (sc : SpecCfg) (rem k : Nat) (vals : List (Option Value)) :
    specLoop sc rem k vals =
      (specCapsAll sc k (visibleSpec sc.names vals) (sc.active k)).andThen fun caps =>
      (specChains sc k vals (visibleSpec sc.names vals) (sc.active k) caps).andThen fun news =>
      specTail sc rem k vals news := by
  rw [specLoop]
  cases rem <;> rfl

/-- the three ways a step of the loop can go -/
theorem specLoop_cases (sc : SpecCfg) (rem k : Nat) (vals : List (Option Value)) :
    let capsM := specCapsAll sc k (visibleSpec sc.names vals) (sc.active k)
    ((∀ a, capsM.res ≠ .ok a) → (specLoop sc rem k vals).trace = capsM.trace ∧ ∀ f, (specLoop sc rem k vals).res ≠ .ok f) ∧
    (∀ caps, capsM.res = .ok caps →
      let chM := specChains sc k vals (visibleSpec sc.names vals) (sc.active k) caps
      ((∀ a, chM.res ≠ .ok a) → (specLoop sc rem k vals).trace = capsM.trace ++ chM.trace ∧
          ∀ f, (specLoop sc rem k vals).res ≠ .ok f) ∧
      (∀ news, chM.res = .ok news →
        (specLoop sc rem k vals).trace = capsM.trace ++ chM.trace ++ (specTail sc rem k vals news).trace ∧
        (specLoop sc rem k vals).res = (specTail sc rem k vals news).res)) := by
  intro capsM
  refine ⟨?_, ?_⟩
  · intro hno
    rw [specLoop_eq]
    refine ⟨M.andThen_trace_notok hno, ?_⟩
    intro f hf
    obtain ⟨a, ha, _⟩ := M.andThen_res_ok hf
    exact hno a ha
  · intro caps hcaps chM
    refine ⟨?_, ?_⟩
    · intro hno
      rw [specLoop_eq]
      have h1 := M.andThen_trace_ok (f := fun caps =>
        (specChains sc k vals (visibleSpec sc.names vals) (sc.active k) caps).andThen fun news =>
          specTail sc rem k vals news) hcaps
      refine ⟨by rw [h1.1, M.andThen_trace_notok hno], ?_⟩
      intro f hf
      rw [h1.2] at hf
      obtain ⟨a, ha, _⟩ := M.andThen_res_ok hf
      exact hno a ha
    · intro news hnews
      rw [specLoop_eq]
      have h1 := M.andThen_trace_ok (f := fun caps =>
        (specChains sc k vals (visibleSpec sc.names vals) (sc.active k) caps).andThen fun news =>
          specTail sc rem k vals news) hcaps
      have h2 := M.andThen_trace_ok (f := fun news => specTail sc rem k vals news) hnews
      exact ⟨by rw [h1.1, h2.1, List.append_assoc], by rw [h1.2, h2.2]⟩

/-- every event of the loop started at step `k` belongs to a step `≥ k` -/
theorem specLoop_step_ge (sc : SpecCfg) (rem k : Nat) (vals : List (Option Value)) :
    ∀ e ∈ (specLoop sc rem k vals).trace, ∃ s, e.step = some s ∧ k ≤ s ∧ s ≤ k + rem := by
  induction rem generalizing k vals with
  | zero =>
    intro e he
    obtain ⟨hA, hB⟩ := specLoop_cases sc 0 k vals
    cases hc : (specCapsAll sc k (visibleSpec sc.names vals) (sc.active k)).res with
    | ok caps =>
      obtain ⟨hB1, hB2⟩ := hB caps hc
      cases hn : (specChains sc k vals (visibleSpec sc.names vals) (sc.active k) caps).res with
      | ok news =>
        rw [(hB2 news hn).1] at he
        have htail : (specTail sc 0 k vals news).trace = [] := by
          simp only [specTail]
          cases allSome (updVals vals (sc.active k) news) with
          | none => rfl
          | some finals =>
            simp only
            split
            · cases firstFail finals <;> rfl
            · rfl
        rw [htail, List.append_nil] at he
        rcases List.mem_append.mp he with h | h
        · exact ⟨k, (specCapsAll_step _ _ _ _ e h).1, Nat.le_refl _, by omega⟩
        · exact ⟨k, (specChains_step _ _ _ _ _ _ e h).1, Nat.le_refl _, by omega⟩
      | panic s =>
        rw [(hB1 (by intro a; rw [hn]; simp)).1] at he
        rcases List.mem_append.mp he with h | h
        · exact ⟨k, (specCapsAll_step _ _ _ _ e h).1, Nat.le_refl _, by omega⟩
        · exact ⟨k, (specChains_step _ _ _ _ _ _ e h).1, Nat.le_refl _, by omega⟩
      | stuck =>
        rw [(hB1 (by intro a; rw [hn]; simp)).1] at he
        rcases List.mem_append.mp he with h | h
        · exact ⟨k, (specCapsAll_step _ _ _ _ e h).1, Nat.le_refl _, by omega⟩
        · exact ⟨k, (specChains_step _ _ _ _ _ _ e h).1, Nat.le_refl _, by omega⟩
    | panic s =>
      rw [(hA (by intro a; rw [hc]; simp)).1] at he
      exact ⟨k, (specCapsAll_step _ _ _ _ e he).1, Nat.le_refl _, by omega⟩
    | stuck =>
      rw [(hA (by intro a; rw [hc]; simp)).1] at he
      exact ⟨k, (specCapsAll_step _ _ _ _ e he).1, Nat.le_refl _, by omega⟩
  | succ rem ih =>
    intro e he
    obtain ⟨hA, hB⟩ := specLoop_cases sc (rem + 1) k vals
    cases hc : (specCapsAll sc k (visibleSpec sc.names vals) (sc.active k)).res with
    | ok caps =>
      obtain ⟨hB1, hB2⟩ := hB caps hc
      cases hn : (specChains sc k vals (visibleSpec sc.names vals) (sc.active k) caps).res with
      | ok news =>
        rw [(hB2 news hn).1] at he
        rcases List.mem_append.mp he with h | h
        · rcases List.mem_append.mp h with h | h
          · exact ⟨k, (specCapsAll_step _ _ _ _ e h).1, Nat.le_refl _, by omega⟩
          · exact ⟨k, (specChains_step _ _ _ _ _ _ e h).1, Nat.le_refl _, by omega⟩
        · have htail : ∀ e ∈ (specTail sc (rem + 1) k vals news).trace, ∃ s, e.step = some s ∧ k + 1 ≤ s ∧ s ≤ k + 1 + rem := by
            intro e he
            simp only [specTail] at he
            split at he
            · cases hff : firstFail news with
              | some v => simp [hff, M.ret] at he
              | none => simp only [hff] at he; exact ih _ _ e he
            · exact ih _ _ e he
          obtain ⟨s, h1, h2, h3⟩ := htail e h
          exact ⟨s, h1, by omega, by omega⟩
      | panic s =>
        rw [(hB1 (by intro a; rw [hn]; simp)).1] at he
        rcases List.mem_append.mp he with h | h
        · exact ⟨k, (specCapsAll_step _ _ _ _ e h).1, Nat.le_refl _, by omega⟩
        · exact ⟨k, (specChains_step _ _ _ _ _ _ e h).1, Nat.le_refl _, by omega⟩
      | stuck =>
        rw [(hB1 (by intro a; rw [hn]; simp)).1] at he
        rcases List.mem_append.mp he with h | h
        · exact ⟨k, (specCapsAll_step _ _ _ _ e h).1, Nat.le_refl _, by omega⟩
        · exact ⟨k, (specChains_step _ _ _ _ _ _ e h).1, Nat.le_refl _, by omega⟩
    | panic s =>
      rw [(hA (by intro a; rw [hc]; simp)).1] at he
      exact ⟨k, (specCapsAll_step _ _ _ _ e he).1, Nat.le_refl _, by omega⟩
    | stuck =>
      rw [(hA (by intro a; rw [hc]; simp)).1] at he
      exact ⟨k, (specCapsAll_step _ _ _ _ e he).1, Nat.le_refl _, by omega⟩

end JoinModel
