/-
  Types of the table-like parts of the model.  `Tables.lean` (generated from /repo on every run by
  tools/extract_tables.py) and `SpecTables.lean` (hand-written from the README / property text)
  are both values of these types.
-/
import JoinModel.Tok
namespace JoinModel

/-- `join_impl::chain::group::Combinator` (default feature set).  The same enumeration also names the
    expression constructors (`ProcessExpr::Map`, `ErrExpr::Or`, `InitialExpr::Single` = `initial`). -/
inductive Comb
  | map | dot | filter | inspect | then_ | andThen | or_ | orElse | mapErr | initial
  | chain | flatten | collect | enumerate | find | fold | tryFold | unzip | zip
  | partition | filterMap | findMap | unwrap
  deriving DecidableEq, Repr, Inhabited

def Comb.all : List Comb :=
  [.map, .dot, .filter, .inspect, .then_, .andThen, .or_, .orElse, .mapErr, .initial,
   .chain, .flatten, .collect, .enumerate, .find, .fold, .tryFold, .unzip, .zip,
   .partition, .filterMap, .findMap, .unwrap]

theorem Comb.mem_all (c : Comb) : c ∈ Comb.all := by cases c <;> decide

/-- Name as printed by Rust's `Debug` and used in the line protocol. -/
def Comb.name : Comb → String
  | .map => "Map" | .dot => "Dot" | .filter => "Filter" | .inspect => "Inspect" | .then_ => "Then"
  | .andThen => "AndThen" | .or_ => "Or" | .orElse => "OrElse" | .mapErr => "MapErr"
  | .initial => "Initial" | .chain => "Chain" | .flatten => "Flatten" | .collect => "Collect"
  | .enumerate => "Enumerate" | .find => "Find" | .fold => "Fold" | .tryFold => "TryFold"
  | .unzip => "Unzip" | .zip => "Zip" | .partition => "Partition" | .filterMap => "FilterMap"
  | .findMap => "FindMap" | .unwrap => "UNWRAP"

def Comb.ofName (s : String) : Option Comb := Comb.all.find? (fun c => c.name == s)

/-- One token test of a determiner: `Token![..]` (one or more punctuation characters),
    a custom keyword, or `syn::token::Bracket`. -/
inductive TokPat
  | punct (cs : List Char)
  | kw (s : String)
  | bracket
  deriving DecidableEq, Repr, Inhabited

/-- One row of the determiner table: matches when any alternative sequence matches. -/
structure DetRow where
  comb : Option Comb
  alts : List (List TokPat)
  len : Nat
  deriving DecidableEq, Repr, Inhabited

inductive OperandKind | expr | type
  deriving DecidableEq, Repr, Inhabited

/-- Operand shape of a combinator: which constructor is built, how many units, may it be empty. -/
structure Arity where
  ctor : Comb
  count : Nat
  allowEmpty : Bool
  kind : OperandKind
  deriving DecidableEq, Repr, Inhabited

/-- An element of an emission template: literal token, or operand hole `#i`. -/
inductive TmplTok
  | tok (t : TT)
  | hole (i : Nat)
  | group (d : Delim) (ts : List TmplTok)
  deriving Repr, Inhabited

structure MacroKindRow where
  name : String
  isAsync : Bool
  isTry : Bool
  isSpawn : Bool
  deriving DecidableEq, Repr, Inhabited

end JoinModel
