/-
  Concrete async worlds for K2-async: where the pending points of the instrumented chains are, and the per-poll event
  sequence the poll-level model predicts for a schedule of gate openings.
-/
import JoinModel.AsyncSpec
import JoinModel.Concrete
namespace JoinModel

/-- pending points of an instrumented chain: a gated operator awaits its gate right before its callback runs
    (`since` = events of the chain since the last pending point; the chain starts with its `chainStart` event) -/
def pendOps : List COp → Value → Nat → List (Nat × Nat)
  | [], _, _ => []
  | op :: ops, cur, since =>
    let r := applyOp op cur
    let cut : List (Nat × Nat) := if op.gate != 0 && !r.1.isEmpty then [(since, op.gate)] else []
    let since' := (if cut.isEmpty then since else 0) + r.1.length
    match r.2 with
    | .ok v => cut ++ pendOps ops v since'
    | .panic _ => cut

def mkPend (d : WorldDesc) : Pend := fun b k prev _ _ =>
  match d.chains.lookup (b, k) with
  | some ops => pendOps ops (prev.getD (.atom 0)) 1
  | none => []

/-- polls until done or the schedule is used up: events per poll -/
def runPolls : List Gates → Plan MEv (UR Value) (Res Fin) → List (List MEv) × Plan MEv (UR Value) (Res Fin)
  | [], p => ([], p)
  | g :: gs, p =>
    let r := p.poll g
    match r.2 with
    | .done x => ([r.1], .done x)
    | q => let rest := runPolls gs q; (r.1 :: rest.1, rest.2)

def gatesOf (opened : List Nat) : Gates := fun g => opened.contains g

/-- cumulative gate sets: poll 0 sees no open gate, poll i+1 the batches 0..i -/
def cumulative : List (List Nat) → List Nat → List Gates
  | [], acc => [gatesOf acc]
  | b :: bs, acc => gatesOf acc :: cumulative bs (acc ++ b)

def showFinRes (c : SpecCfg) (h : Option HKind) (d : WorldDesc) (r : Res Fin) : List MEv × String :=
  match r with
  | .ok f =>
    let m := specHandle c h f
    (m.trace, showRes m.res)
  | .panic s => ([], "panic " ++ showSite s)
  | .stuck => ([], "stuck")

/-- `APOLL`: the model's prediction for program `p` (async kind) in world `d` under the gate schedule `batches` -/
def apollLine (p : Input) (kind : Kind) (d : WorldDesc) (batches : List (List Nat)) : String :=
  let σ := mkWorld d
  let c : SpecCfg := ⟨σ, kind, p.branches.map (fun b => b.pat.map (·.ident)), some "main",
                      p.branches.map fun b => splitSteps b.members⟩
  let hdef : M Unit := match p.handler with
    | some _ => (M.tell [.ev .handlerDef]).andThen fun _ => M.lift σ.handlerDef.toRes
    | none => M.ret ()
  match hdef.res with
  | .ok _ =>
    let pl := planLoop c (mkPend d) (c.maxDepth - 1) 0 (List.replicate c.n none)
    let r := runPolls (cumulative batches []) pl.2
    -- the handler definition and the captures of step 0 belong to the first poll
    let polls : List (List MEv) := match r.1 with
      | [] => []
      | first :: more => (hdef.trace ++ pl.1 ++ first) :: more
    match r.2 with
    | .done x =>
      let fin := showFinRes c (p.handler.map Prod.fst) d x
      let polls' := match polls.reverse with
        | last :: before => (before.reverse ++ [last ++ fin.1])
        | [] => [fin.1]
      fin.2 ++ "\t" ++ " | ".intercalate (polls'.map fun evs => " ".intercalate (evs.map showMEv))
    | _ => "PENDING\t" ++ " | ".intercalate (polls.map fun evs => " ".intercalate (evs.map showMEv))
  | .panic s => "panic " ++ showSite s ++ "\t" ++ " ".intercalate (hdef.trace.map showMEv)
  | .stuck => "stuck\t"

def parseBatches (s : String) : Option (List (List Nat)) :=
  if trimS s = "-" then some [] else
  (s.splitOn "|").mapM fun b =>
    if trimS b = "" then some [] else ((trimS b).splitOn ",").mapM (fun x => (trimS x).toNat?)

end JoinModel
