/-
  Counting occurrences of an identifier in token trees, and the two local conservation facts of the generator
  (`emitTokens`, `hoist`).  The property statements built on them are in Props/C10.
-/
import JoinModel.ChainGen
namespace JoinModel

/-! ### nothing dropped, nothing duplicated: one action at token level -/

mutual
  /-- occurrences of the identifier `s`, at any nesting depth -/
  def cntTT (s : String) : TT → Nat
    | .ident x => if x = s then 1 else 0
    | .group _ ts => cntToks s ts
    | _ => 0
  def cntToks (s : String) : List TT → Nat
    | [] => 0
    | t :: ts => cntTT s t + cntToks s ts
end

theorem cntToks_append (s : String) (a b : Toks) : cntToks s (a ++ b) = cntToks s a + cntToks s b := by
  induction a with
  | nil => simp [cntToks]
  | cons t a ih => simp [cntToks, ih, Nat.add_assoc]

mutual
  /-- occurrences of `s` among the literal tokens of a template -/
  def litCount (s : String) : List TmplTok → Nat
    | [] => 0
    | t :: ts => litCountTok s t + litCount s ts
  def litCountTok (s : String) : TmplTok → Nat
    | .tok t => cntTT s t
    | .hole _ => 0
    | .group _ ts => litCount s ts
end

mutual
  /-- the operand holes of a template, in the order they are written -/
  def holesOf : List TmplTok → List Nat
    | [] => []
    | t :: ts => holesOfTok t ++ holesOf ts
  def holesOfTok : TmplTok → List Nat
    | .tok _ => []
    | .hole i => [i]
    | .group _ ts => holesOf ts
end

def sumList : List Nat → Nat
  | [] => 0
  | x :: xs => x + sumList xs

theorem sumList_append (a b : List Nat) : sumList (a ++ b) = sumList a + sumList b := by
  induction a with
  | nil => simp [sumList]
  | cons x a ih => simp [sumList, ih, Nat.add_assoc]

mutual
  theorem instTmpl_count (s : String) (t : List TmplTok) (ops : List Toks) (r : Toks) (h : instTmpl t ops = some r) :
      cntToks s r = litCount s t + sumList ((holesOf t).map fun i => cntToks s ((ops[i]?).getD [])) := by
    cases t with
    | nil => simp [instTmpl] at h; subst h; simp [cntToks, litCount, holesOf, sumList]
    | cons x xs =>
      simp only [instTmpl] at h
      cases ha : instTmplTok x ops with
      | none => simp [ha] at h
      | some a =>
        cases hb : instTmpl xs ops with
        | none => simp [ha, hb] at h
        | some b =>
          simp [ha, hb] at h
          subst h
          rw [cntToks_append, instTmplTok_count s x ops a ha, instTmpl_count s xs ops b hb]
          simp only [litCount, holesOf, List.map_append, sumList_append]
          omega
  theorem instTmplTok_count (s : String) (t : TmplTok) (ops : List Toks) (r : Toks) (h : instTmplTok t ops = some r) :
      cntToks s r = litCountTok s t + sumList ((holesOfTok t).map fun i => cntToks s ((ops[i]?).getD [])) := by
    cases t with
    | tok x => simp [instTmplTok] at h; subst h; simp [cntToks, litCountTok, holesOfTok, sumList]
    | hole i =>
      simp only [instTmplTok] at h
      simp [litCountTok, holesOfTok, sumList, h]
    | group d ts =>
      simp only [instTmplTok] at h
      cases hi : instTmpl ts ops with
      | none => simp [hi] at h
      | some inner =>
        simp [hi] at h
        subst h
        have := instTmpl_count s ts ops inner hi
        simp [cntToks, cntTT, litCountTok, holesOfTok, this]
end

/-- **Every emission template uses each of its operands exactly once** (table theorem over the templates observed from
    the running `ToTokens` implementations): the holes of the template for `n` operands are `0, …, n-1`. -/
theorem templates_linear_tbl :
    ∀ row ∈ Tables.emit, ∀ t, row.2.2 = some t → holesOf t = List.range row.2.1 := by
  decide

/-- an identifier the macro's own templates never write -/
def UserIdent (s : String) : Prop := ∀ row ∈ Tables.emit, ∀ t, row.2.2 = some t → litCount s t = 0

instance (s : String) : Decidable (UserIdent s) := by unfold UserIdent; infer_instance

theorem sum_range_ops (s : String) (ops : List Toks) :
    sumList ((List.range ops.length).map fun i => cntToks s ((ops[i]?).getD [])) = sumList (ops.map (cntToks s)) := by
  induction ops with
  | nil => rfl
  | cons o ops ih =>
    rw [List.length_cons, List.range_succ_eq_map]
    simp only [List.map_cons, List.map_map, sumList, List.getElem?_cons_zero, Option.getD_some]
    have : ((fun i => cntToks s (((o :: ops)[i]?).getD [])) ∘ Nat.succ) = fun i => cntToks s ((ops[i]?).getD []) := by
      funext i; simp
    rw [this, ih]

/-- **The method call of an operator contains each operand's tokens exactly once**, and nothing else a user could have
    written: for every constructor, every operand list and every identifier `s` that is not a template word. -/
theorem emit_conserves (s : String) (hs : UserIdent s) (c : Comb) (ops : List Toks) (r : Toks)
    (h : emitTokens c ops = .ok r) : cntToks s r = sumList (ops.map (cntToks s)) := by
  unfold emitTokens at h
  split at h
  · rename_i t hrow
    split at h
    · rename_i r' hinst
      cases h
      simp only [emitRow] at hrow
      obtain ⟨row, hfind, hrow2⟩ := Option.map_eq_some_iff.mp hrow
      have hmem := List.mem_of_find?_eq_some hfind
      have hp := List.find?_some hfind
      simp only [Bool.and_eq_true, beq_iff_eq] at hp
      have hlin := templates_linear_tbl row hmem t hrow2
      have hlit := hs row hmem t hrow2
      rw [instTmpl_count s t ops _ hinst, hlit, hlin, hp.2, Nat.zero_add, sum_range_ops]
    · cases h
  · cases h

theorem zipIdx_map_fst_fun {α β} (f : α → β) (l : List α) (n : Nat) :
    (l.zipIdx n).map (fun oi => f oi.1) = l.map f := by
  induction l generalizing n with
  | nil => rfl
  | cons a l ih => simp [List.zipIdx_cons, ih]

/-- hoisting a member's block operands moves their tokens into the definitions and leaves a generated name behind:
    no user token is lost or duplicated -/
theorem hoist_conserves (s : String) (hs : ∀ b e i, (Var.ew b e i).render ≠ s) (b e : Nat) (m : Member) :
    sumList ((hoist b e m).1.map fun d => cntToks s d.toks) + sumList ((hoist b e m).2.map (cntToks s)) =
      sumList (m.ops.map fun o => cntToks s o.toks) := by
  unfold hoist
  split
  · have key : ∀ (l : List (Operand × Nat)),
        sumList ((l.filterMap fun (x : Operand × Nat) =>
            if x.1.kind = .block then some (⟨b, e, x.2, x.1.toks⟩ : CapDef) else none).map fun d => cntToks s d.toks) +
          sumList ((l.map fun (x : Operand × Nat) =>
            if x.1.kind = .block then [(Var.ew b e x.2).tok] else x.1.toks).map (cntToks s)) =
        sumList (l.map fun oi => cntToks s oi.1.toks) := by
      intro l
      induction l with
      | nil => rfl
      | cons oi l ih =>
        by_cases hk : oi.1.kind = .block
        · have hname : cntToks s [(Var.ew b e oi.2).tok] = 0 := by
            simp [cntToks, cntTT, Var.tok, hs b e oi.2]
          simp only [List.filterMap_cons, hk, if_true, List.map_cons, sumList, hname]
          omega
        · simp only [List.filterMap_cons, hk, if_false, List.map_cons, sumList]
          omega
    have e1 : (fun (x : Operand × Nat) =>
        match x with
        | (o, i) => if o.kind = .block then some (⟨b, e, i, o.toks⟩ : CapDef) else none) =
        fun x => if x.1.kind = .block then some (⟨b, e, x.2, x.1.toks⟩ : CapDef) else none := by
      funext x; obtain ⟨o, i⟩ := x; rfl
    have e2 : (fun (x : Operand × Nat) =>
        match x with
        | (o, i) => if o.kind = .block then [(Var.ew b e i).tok] else o.toks) =
        fun x => if x.1.kind = .block then [(Var.ew b e x.2).tok] else x.1.toks := by
      funext x; obtain ⟨o, i⟩ := x; rfl
    have h2 : sumList (m.ops.map fun o => cntToks s o.toks) = sumList (m.ops.zipIdx.map fun oi => cntToks s oi.1.toks) := by
      rw [zipIdx_map_fst_fun (fun (o : Operand) => cntToks s o.toks)]
    rw [h2, e1, e2]
    exact key _
  · simp [sumList, List.map_map, Function.comp_def]


end JoinModel
