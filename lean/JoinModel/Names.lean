/-
  Internal names of the expansion (join/name_constructors.rs), structured, and their rendering to
  identifier strings through the *extracted* format table.
-/
import JoinModel.Tables
namespace JoinModel

inductive Var
  | r (i : Nat)              -- result of branch i            `__r{i}`
  | user (s : String)        -- name given with `let name =`
  | sr (k : Nat)             -- results of step k             `__sr{k}`
  | j (b : Nat)              -- thread builder of branch b    `__j{b}`
  | ew (b e i : Nat)         -- hoisted block operand         `__ew{b}_{e}_{i}`
  | rs | h | v | inspect | tb | spawnTokio
  deriving DecidableEq, Repr, Inhabited

/-- piece₀ ++ repr i₀ ++ piece₁ ++ repr i₁ ++ … (what `format_ident!` does with `{}` holes). -/
def fmtName : List String → List Nat → String
  | [], _ => ""
  | p :: ps, [] => p ++ String.join ps
  | p :: ps, i :: is => p ++ Nat.repr i ++ fmtName ps is

def Var.render : Var → String
  | .r i => fmtName Tables.fmtResult [i]
  | .user s => s
  | .sr k => fmtName Tables.fmtStepResults [k]
  | .j b => fmtName Tables.fmtThreadBuilder [b]
  | .ew b e i => fmtName Tables.fmtExprWrapper [b, e, i]
  | .rs => Tables.nameResults
  | .h => Tables.nameHandler
  | .v => Tables.nameValue
  | .inspect => Tables.nameInspect
  | .tb => Tables.nameThreadBuilderFn
  | .spawnTokio => Tables.nameSpawnTokio

def Var.tok (x : Var) : TT := .ident x.render

def Var.isInternal : Var → Bool
  | .user _ => false
  | _ => true

end JoinModel
