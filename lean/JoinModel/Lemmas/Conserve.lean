/-
  Whole-program token conservation of the generator model: the user tokens of every member's operands end up — each
  occurrence exactly once — in the hoisted definitions and chain expressions of the steps `gen` produces.  Built from the
  two local facts of Lemmas/TokCount.lean (`emit_conserves`, `hoist_conserves`) through `applyCtor`, the wrapper stack
  (`processAction`, `wrapLast`, `closeAll`), `genBranchStep`, `genElems`, `genStep`, `genSteps` and the split of a branch
  into steps.  The property statement is in Props/C10 (`gen_conserves_tokens`).
-/
import JoinModel.Lemmas.TokCount
import JoinModel.Gen
namespace JoinModel

/-- what an identifier must not be for "its occurrences are the user's": a word of an emission template, one of the
    three words the chain generator writes itself, or an internal name -/
structure Marker (s : String) : Prop where
  user : UserIdent s
  notInternal : ∀ v : Var, v.isInternal = true → v.render ≠ s
  notInspect : "inspect" ≠ s
  notAsync : "async" ≠ s
  notMove : "move" ≠ s

def cntOps (s : String) (m : Member) : Nat := sumList (m.ops.map fun o => cntToks s o.toks)

/-- the user tokens of a member as the generator reads them: a `>>>` member's own operand is the placeholder closure and
    a `<<<` member has none -/
def cntMember (s : String) (m : Member) : Nat := if m.mv = .none then cntOps s m else 0

def cntMembers (s : String) (ms : List Member) : Nat := sumList (ms.map (cntMember s))

def cntDefs (s : String) (ds : List CapDef) : Nat := sumList (ds.map fun d => cntToks s d.toks)

def cntFrames (s : String) (fs : List Frame) : Nat := sumList (fs.map fun f => cntToks s f.toks)

def accCount (s : String) (acc : Acc) : Nat := cntFrames s acc.frames + cntDefs s acc.defs

/-- no pending wrapper is the `initial` constructor (which drops what precedes it) -/
def PW (fs : List Frame) : Prop := ∀ f ∈ fs, ∀ w e, f.wrapper = some (w, e) → w.ctor ≠ .initial

@[simp] theorem cntToks_nil (s : String) : cntToks s [] = 0 := by simp [cntToks]
@[simp] theorem cntToks_cons (s : String) (t : TT) (ts : Toks) : cntToks s (t :: ts) = cntTT s t + cntToks s ts := by
  simp [cntToks]
@[simp] theorem cntTT_paren (s : String) (ts : Toks) : cntTT s (paren ts) = cntToks s ts := by simp [paren, cntTT]
@[simp] theorem cntTT_brace (s : String) (ts : Toks) : cntTT s (brace ts) = cntToks s ts := by simp [brace, cntTT]
@[simp] theorem cntTT_pu (s : String) (c : Char) : cntTT s (pu c) = 0 := by simp [pu, cntTT]
@[simp] theorem cntTT_pj (s : String) (c : Char) : cntTT s (pj c) = 0 := by simp [pj, cntTT]
theorem cntTT_id (s x : String) (h : x ≠ s) : cntTT s (id' x) = 0 := by simp [id', cntTT, h]
theorem cntTT_var (s : String) (v : Var) (h : v.render ≠ s) : cntTT s v.tok = 0 := by simp [Var.tok, cntTT, h]
@[simp] theorem sumList_nil : sumList [] = 0 := rfl
@[simp] theorem sumList_cons (x : Nat) (xs : List Nat) : sumList (x :: xs) = x + sumList xs := rfl

theorem applyCtor_count {s : String} (hm : Marker s) {isAsync : Bool} {prev : Toks} {c : Comb} {ops : List Toks}
    {t : Toks} (h : applyCtor isAsync prev c ops = .ok t) (hc : c = .initial → cntToks s prev = 0) :
    cntToks s t = cntToks s prev + sumList (ops.map (cntToks s)) := by
  unfold applyCtor at h
  split at h
  · cases he : emitTokens .initial ops with
    | error er => simp [he, bind, Except.bind] at h
    | ok e =>
      simp only [he, bind, Except.bind, pure, Except.pure, Except.ok.injEq] at h
      subst h
      have := emit_conserves s hm.user _ _ _ he
      simp [this, hc rfl]
  · cases he : emitTokens .then_ ops with
    | error er => simp [he, bind, Except.bind] at h
    | ok e =>
      simp only [he, bind, Except.bind, pure, Except.pure, Except.ok.injEq] at h
      subst h
      have := emit_conserves s hm.user _ _ _ he
      simp [this, cntToks_append]
      omega
  · split at h
    · rename_i e
      split at h
      · cases h
        simp [cntToks_append, cntTT_id s "inspect" hm.notInspect]
      · cases h
        simp [cntToks_append, cntTT_var s .inspect (hm.notInternal .inspect rfl)]
        omega
    · cases h
  · cases he : emitTokens c ops with
    | error er => simp [he, bind, Except.bind] at h
    | ok e =>
      simp only [he, bind, Except.bind, pure, Except.pure, Except.ok.injEq] at h
      subst h
      have := emit_conserves s hm.user _ _ _ he
      simp [this, cntToks_append]

theorem cnt_closure {s : String} (hm : Marker s) (body : Toks) : cntToks s (closureToks body) = cntToks s body := by
  simp [closureToks, cntToks_append, cntTT_var s .v (hm.notInternal .v rfl)]

theorem wrapLast_count {s : String} (hm : Marker s) {isAsync : Bool} {acc acc' : Acc}
    (h : wrapLast isAsync acc = .ok acc') (hpw : PW acc.frames) :
    accCount s acc' = accCount s acc ∧ PW acc'.frames ∧ acc'.frames.length + 1 = acc.frames.length := by
  unfold wrapLast at h
  split at h
  · cases h
  · cases h
  · rename_i inner outer rest hfr
    split at h
    · cases h
    · rename_i w e hwr
      split at h
      · cases h
      · split at h
        · rename_i t hap
          cases h
          have hne : w.ctor ≠ .initial := hpw outer (by rw [hfr]; simp) w e hwr
          have := applyCtor_count hm hap (fun hc => absurd hc hne)
          refine ⟨?_, ?_, ?_⟩
          · simp only [List.map_cons, List.map_nil, sumList_cons, sumList_nil, cnt_closure hm] at this
            simp only [accCount, cntFrames, hfr, List.map_cons, sumList_cons, this]
            omega
          · intro f hf w' e' hw'
            rcases List.mem_cons.mp hf with rfl | hf
            · cases hw'
            · exact hpw f (by rw [hfr]; simp [hf]) w' e' hw'
          · simp [hfr]
        · cases h

theorem processAction_count {s : String} (hm : Marker s) {isAsync : Bool} {b e : Nat} {acc acc' : Acc} {m : Member}
    (h : processAction isAsync b acc m e = .ok acc') (hpw : PW acc.frames)
    (hw : m.mv = .wrap → m.ctor ≠ .initial)
    (hi : m.mv = .none → m.ctor = .initial → ∀ top rest, acc.frames = top :: rest → cntToks s top.toks = 0) :
    accCount s acc' = accCount s acc + cntMember s m ∧ PW acc'.frames := by
  unfold processAction at h
  split at h
  · rename_i hmv
    obtain ⟨h1, h2, _⟩ := wrapLast_count hm h hpw
    exact ⟨by simp [h1, cntMember, hmv], h2⟩
  · rename_i hmv
    split at h
    · cases h
    · rename_i top rest hfr
      cases h
      refine ⟨?_, ?_⟩
      · simp [accCount, cntFrames, hfr, cntMember, hmv, cntTT_var s .v (hm.notInternal .v rfl)]
      · intro f hf w' e' hw'
        rcases List.mem_cons.mp hf with rfl | hf
        · cases hw'
        · rcases List.mem_cons.mp hf with rfl | hf
          · simp only [Option.some.injEq, Prod.mk.injEq] at hw'
            obtain ⟨rfl, _⟩ := hw'
            exact hw hmv
          · exact hpw f (by rw [hfr]; simp [hf]) w' e' hw'
  · rename_i hmv
    split at h
    · cases h
    · rename_i top rest hfr
      simp only at h
      split at h
      · rename_i t hap
        cases h
        have hh := hoist_conserves s (fun b e i => hm.notInternal (.ew b e i) rfl) b e m
        have := applyCtor_count hm hap (fun hc => hi hmv hc top rest hfr)
        refine ⟨?_, ?_⟩
        · simp only [accCount, cntFrames, cntDefs, hfr, List.map_cons, sumList_cons, this, List.map_append,
            sumList_append, cntMember, hmv, if_true, cntOps]
          omega
        · intro f hf w' e' hw'
          rcases List.mem_cons.mp hf with rfl | hf
          · cases hw'
          · exact hpw f (by rw [hfr]; simp [hf]) w' e' hw'
      · cases h

theorem processActions_count {s : String} (hm : Marker s) {isAsync : Bool} {b : Nat} :
    ∀ (ms : List Member) (acc acc' : Acc) (e : Nat), processActions isAsync b acc ms e = .ok acc' → PW acc.frames →
      (∀ m ∈ ms, m.mv = .none → m.ctor ≠ .initial) → (∀ m ∈ ms, m.mv = .wrap → m.ctor ≠ .initial) →
      accCount s acc' = accCount s acc + cntMembers s ms ∧ PW acc'.frames := by
  intro ms
  induction ms with
  | nil =>
    intro acc acc' e h hpw _ _
    simp only [processActions, Except.ok.injEq] at h
    subst h
    exact ⟨by simp [cntMembers], hpw⟩
  | cons m ms ih =>
    intro acc acc' e h hpw hne hwr
    simp only [processActions] at h
    split at h
    · rename_i acc1 h1
      obtain ⟨c1, p1⟩ := processAction_count hm h1 hpw (hwr m (by simp)) (fun hmv hc => absurd hc (hne m (by simp) hmv))
      obtain ⟨c2, p2⟩ := ih acc1 acc' (e + 1) h p1 (fun x hx => hne x (by simp [hx])) (fun x hx => hwr x (by simp [hx]))
      refine ⟨?_, p2⟩
      simp only [cntMembers, List.map_cons, sumList_cons] at c2 ⊢
      omega
    · cases h

theorem closeAll_count {s : String} (hm : Marker s) {isAsync : Bool} :
    ∀ (fuel : Nat) (acc : Acc) (ds : List CapDef) (t : Toks), closeAll isAsync fuel acc = .ok (ds, t) → PW acc.frames →
      cntDefs s ds + cntToks s t = accCount s acc := by
  intro fuel
  induction fuel with
  | zero => intro acc ds t h; simp [closeAll] at h
  | succ fuel ih =>
    intro acc ds t h hpw
    unfold closeAll at h
    split at h
    · cases h
    · rename_i f hfr
      cases h
      simp [accCount, cntFrames, hfr]
      omega
    · split at h
      · rename_i acc1 h1
        obtain ⟨c1, p1, _⟩ := wrapLast_count hm h1 hpw
        rw [ih acc1 ds t h p1, c1]
      · cases h

/-- user tokens of a branch-step's result -/
def cntBranchStep (s : String) : Option (List CapDef × Toks) → Nat
  | none => 0
  | some (ds, t) => cntDefs s ds + cntToks s t

theorem genBranchStep_count {s : String} (hm : Marker s) {isAsync : Bool} {b : Nat} {prev : Var} {acts : List Member}
    {r : Option (List CapDef × Toks)} (h : genBranchStep isAsync b prev acts = .ok r) (hprev : prev.render ≠ s)
    (htail : ∀ m ∈ acts.tail, m.mv = .none → m.ctor ≠ .initial) (hw : ∀ m ∈ acts, m.mv = .wrap → m.ctor ≠ .initial) :
    cntBranchStep s r = cntMembers s acts := by
  unfold genBranchStep at h
  split at h
  · cases h; simp [cntBranchStep, cntMembers]
  · rename_i a rest
    split at h
    · cases h
    · rename_i acc hpa
      split at h
      · rename_i r' hcl
        cases h
        obtain ⟨ds, t⟩ := r'
        simp only [processActions] at hpa
        split at hpa
        · rename_i acc1 h1
          have h0 : cntToks s (wrapIntoBlock isAsync [prev.tok]) = 0 := by
            unfold wrapIntoBlock
            split <;> simp [cntTT_id s _ hm.notAsync, cntTT_id s _ hm.notMove, cntTT_var s prev hprev]
          have hpw0 : PW [⟨wrapIntoBlock isAsync [prev.tok], none⟩] := by
            intro f hf w e hwr
            simp only [List.mem_singleton] at hf
            subst hf
            cases hwr
          obtain ⟨c1, p1⟩ := processAction_count hm h1 hpw0 (hw a (by simp))
            (fun _ _ top rest hfr => by
              simp only [List.cons.injEq] at hfr
              obtain ⟨rfl, _⟩ := hfr
              exact h0)
          obtain ⟨c2, p2⟩ := processActions_count hm rest acc1 acc 1 hpa p1 (by simpa using htail)
            (fun x hx => hw x (by simp [hx]))
          have c3 := closeAll_count hm _ acc ds t hcl p2
          simp only [cntBranchStep, c3, c2, c1, cntMembers, List.map_cons, sumList_cons]
          simp [accCount, cntFrames, cntDefs, h0]
        · cases hpa
      · cases h

/-! ### one step, all steps -/

def cntElems (s : String) (es : List Elem) : Nat := sumList (es.map fun e => cntToks s e.chain)

/-- the user-token-carrying fields of a step: hoisted definitions and chain expressions -/
def stepCount (s : String) (sc : StepCode) : Nat := cntDefs s sc.defs + cntElems s sc.elems

def stepsCount (s : String) : Steps → Nat
  | .last sc _ => stepCount s sc
  | .cons sc _ rest => stepCount s sc + stepsCount s rest

/-- the shape the theorem needs of a step's actions: `initial` only in front, never as a wrapper -/
def ActsOK (acts : List Member) : Prop :=
  (∀ m ∈ acts.tail, m.mv = .none → m.ctor ≠ .initial) ∧ (∀ m ∈ acts, m.mv = .wrap → m.ctor ≠ .initial)

theorem genElems_count {s : String} (hm : Marker s) (c : Ctx) (k : Nat) (hp : ∀ pv ∈ c.pats, pv.var.render ≠ s) :
    ∀ (actss : List (List Member)) (b : Nat) (ds : List CapDef) (es : List Elem),
      genElems c k actss b = .ok (ds, es) → (∀ acts ∈ actss, ActsOK acts) →
      cntDefs s ds + cntElems s es = sumList (actss.map (cntMembers s)) := by
  intro actss
  induction actss with
  | nil =>
    intro b ds es h _
    simp only [genElems, Except.ok.injEq, Prod.mk.injEq] at h
    obtain ⟨rfl, rfl⟩ := h
    simp [cntDefs, cntElems]
  | cons acts rest ih =>
    intro b ds es h hok
    unfold genElems at h
    simp only at h
    split at h
    · cases h
    · rename_i r hr
      split at h
      · cases h
      · rename_i ds' es' hrest
        have hprev : (((c.pats[b]?).map PatV.var).getD (Var.r b)).render ≠ s := by
          cases hpb : c.pats[b]? with
          | none => simp only [Option.map_none, Option.getD_none]; exact hm.notInternal (.r b) rfl
          | some pv => simp only [Option.map_some, Option.getD_some]; exact hp pv (List.mem_of_getElem? hpb)
        have h1 := genBranchStep_count hm hr hprev (hok acts (by simp)).1 (hok acts (by simp)).2
        have h2 := ih (b + 1) ds' es' hrest (fun a ha => hok a (by simp [ha]))
        split at h
        · cases h
          simp only [cntBranchStep] at h1
          simp only [List.map_cons, sumList_cons, ← h1, ← h2]
          omega
        · rename_i d chain
          cases h
          simp only [cntBranchStep] at h1
          simp only [List.map_cons, sumList_cons, ← h1, ← h2, cntDefs, cntElems, List.map_append, sumList_append]
          omega

theorem genStep_count {s : String} (hm : Marker s) (c : Ctx) (k : Nat) (hp : ∀ pv ∈ c.pats, pv.var.render ≠ s)
    (sc : StepCode) (h : genStep c k = .ok sc) (hok : ∀ acts ∈ c.stepActs k, ActsOK acts) :
    stepCount s sc = sumList ((c.stepActs k).map (cntMembers s)) := by
  unfold genStep at h
  split at h
  · cases h
  · rename_i defs elems he
    cases h
    exact genElems_count hm c k hp _ 0 defs elems he hok

/-- `f k + f (k+1) + … + f (k+n-1)` -/
def sumR (f : Nat → Nat) : Nat → Nat → Nat
  | _, 0 => 0
  | k, n + 1 => f k + sumR f (k + 1) n

theorem genSteps_count {s : String} (hm : Marker s) (c : Ctx) (hp : ∀ pv ∈ c.pats, pv.var.render ≠ s)
    (hok : ∀ k, ∀ acts ∈ c.stepActs k, ActsOK acts) :
    ∀ (rem k : Nat) (steps : Steps), genSteps c rem k = .ok steps →
      stepsCount s steps = sumR (fun j => sumList ((c.stepActs j).map (cntMembers s))) k (rem + 1) := by
  intro rem
  induction rem with
  | zero =>
    intro k steps h
    simp only [genSteps] at h
    split at h
    · cases h
    · rename_i sc hs
      cases h
      simp [stepsCount, sumR, genStep_count hm c k hp sc hs (hok k)]
  | succ rem ih =>
    intro k steps h
    simp only [genSteps] at h
    split at h
    · cases h
    · rename_i sc hs
      split at h
      · cases h
      · rename_i rest hrest
        cases h
        simp only [stepsCount, genStep_count hm c k hp sc hs (hok k), ih (k + 1) rest hrest]
        rfl

/-! ### summing over steps = summing over branches -/

theorem sumR_add (f g : Nat → Nat) : ∀ (n k : Nat), sumR (fun j => f j + g j) k n = sumR f k n + sumR g k n := by
  intro n
  induction n with
  | zero => intro k; rfl
  | succ n ih => intro k; simp only [sumR, ih]; omega

theorem sumR_zero : ∀ (n k : Nat), sumR (fun _ => 0) k n = 0 := by
  intro n
  induction n with
  | zero => intro k; rfl
  | succ n ih => intro k; simp [sumR, ih]

theorem sumR_shift (f : Nat → Nat) : ∀ (n k : Nat), sumR f (k + 1) n = sumR (fun j => f (j + 1)) k n := by
  intro n
  induction n with
  | zero => intro k; rfl
  | succ n ih => intro k; simp only [sumR, ih]

theorem sumR_chains {α : Type} (F : Nat → α → Nat) (l : List α) (n k : Nat) :
    sumR (fun j => sumList (l.map (F j))) k n = sumList (l.map fun x => sumR (fun j => F j x) k n) := by
  induction l with
  | nil => simp [sumR_zero]
  | cons x l ih =>
    simp only [List.map_cons, sumList_cons]
    rw [sumR_add, ih]

/-- one chain: reading its steps by index up to any bound `n ≥ length` reads every step once -/
theorem sumR_chain (f : List Member → Nat) (hf : f [] = 0) :
    ∀ (ch : List (List Member)) (n : Nat), ch.length ≤ n →
      sumR (fun j => f ((ch[j]?).getD [])) 0 n = sumList (ch.map f) := by
  intro ch
  induction ch with
  | nil => intro n _; simp [hf, sumR_zero]
  | cons g ch ih =>
    intro n hn
    cases n with
    | zero => simp at hn
    | succ n =>
      simp only [sumR, List.getElem?_cons_zero, Option.getD_some, List.map_cons, sumList_cons]
      rw [sumR_shift]
      simp only [List.getElem?_cons_succ]
      rw [ih n (by simpa using hn)]

theorem cntMembers_append (s : String) (a b : List Member) : cntMembers s (a ++ b) = cntMembers s a + cntMembers s b := by
  simp [cntMembers, sumList_append]

/-- splitting a branch into steps loses and repeats nothing -/
theorem splitSteps_count (s : String) (ms : List Member) :
    sumList ((splitSteps ms).map (cntMembers s)) = cntMembers s ms := by
  induction ms with
  | nil => simp [splitSteps, cntMembers]
  | cons m ms ih =>
    unfold splitSteps
    split
    · rename_i hs
      rw [hs] at ih
      simp only [cntMembers, List.map_cons, List.map_nil, sumList_cons, sumList_nil] at ih ⊢
      omega
    · rename_i g gs hs
      rw [hs] at ih
      split
      · simp only [cntMembers, List.map_cons, List.map_nil, sumList_cons, sumList_nil] at ih ⊢
        omega
      · simp only [cntMembers, List.map_cons, sumList_cons] at ih ⊢
        omega

theorem le_foldl_max (l : List Nat) : ∀ (a x : Nat), x ∈ l → x ≤ l.foldl max a := by
  induction l with
  | nil => intro a x hx; simp at hx
  | cons y l ih =>
    intro a x hx
    simp only [List.foldl_cons]
    rcases List.mem_cons.mp hx with rfl | hx
    · have : ∀ (l : List Nat) (a : Nat), a ≤ l.foldl max a := by
        intro l
        induction l with
        | nil => intro a; exact Nat.le_refl _
        | cons z l ih2 => intro a; exact Nat.le_trans (Nat.le_max_left a z) (ih2 _)
      exact Nat.le_trans (Nat.le_max_right a x) (this l _)
    · exact ih _ x hx

/-- every group of `splitSteps ms` consists of members of `ms`, and what follows a group's first member comes from `ms.tail` -/
theorem splitSteps_mem (ms : List Member) :
    ∀ g ∈ splitSteps ms, (∀ m ∈ g, m ∈ ms) ∧ (∀ m ∈ g.tail, m ∈ ms.tail) := by
  induction ms with
  | nil => intro g hg; simp [splitSteps] at hg; subst hg; simp
  | cons x xs ih =>
    intro g hg
    unfold splitSteps at hg
    split at hg
    · simp only [List.mem_singleton] at hg
      subst hg
      simp
    · rename_i g0 gs hs
      rw [hs] at ih
      have ih0 := ih g0 (by simp)
      have ihs : ∀ g' ∈ gs, (∀ m ∈ g', m ∈ xs) ∧ (∀ m ∈ g'.tail, m ∈ xs.tail) := fun g' hg' => ih g' (by simp [hg'])
      have tl : ∀ m, m ∈ xs.tail → m ∈ xs := fun m hm => List.mem_of_mem_tail hm
      have head : (∀ m ∈ x :: g0, m ∈ x :: xs) ∧ (∀ m ∈ (x :: g0).tail, m ∈ (x :: xs).tail) := by
        refine ⟨?_, ?_⟩
        · intro m hm
          rcases List.mem_cons.mp hm with rfl | hm
          · simp
          · exact List.mem_cons_of_mem _ (ih0.1 m hm)
        · intro m hm; exact ih0.1 m (by simpa using hm)
      have rest : ∀ g' ∈ gs, (∀ m ∈ g', m ∈ x :: xs) ∧ (∀ m ∈ g'.tail, m ∈ (x :: xs).tail) := fun g' hg' =>
        ⟨fun m hm => List.mem_cons_of_mem _ ((ihs g' hg').1 m hm), fun m hm => by
          simpa using tl m ((ihs g' hg').2 m hm)⟩
      split at hg
      · rcases List.mem_cons.mp hg with rfl | hg
        · simp
        · rcases List.mem_cons.mp hg with rfl | hg
          · exact head
          · exact rest g hg
      · rcases List.mem_cons.mp hg with rfl | hg
        · exact head
        · exact rest g hg

/-- what the theorem asks of the program: the `initial` constructor occurs only as a branch's first member (never after
    it, never as a `>>>` wrapper) — the parser guarantees it (`HeadInitial` and the operator tables) -/
def InitialOnlyFirst (p : Input) : Prop :=
  ∀ b ∈ p.branches, (∀ m ∈ b.members.tail, m.mv = .none → m.ctor ≠ .initial) ∧
    (∀ m ∈ b.members, m.mv = .wrap → m.ctor ≠ .initial)

/-- user tokens of all operands of a program -/
def cntProgram (s : String) (p : Input) : Nat := sumList (p.branches.map fun b => cntMembers s b.members)

/-- **Whole-program token conservation of the generator model.** -/
theorem gen_count {s : String} (hm : Marker s) (p : Input) (kind : Kind) (code : Code) (h : gen p kind = .ok code)
    (hinit : InitialOnlyFirst p) (hnames : ∀ b ∈ p.branches, ∀ pt, b.pat = some pt → pt.ident ≠ s) :
    stepsCount s code.steps = cntProgram s p := by
  unfold gen at h
  cases hc : mkCtx p kind with
  | error e => simp [hc] at h
  | ok c =>
    simp only [hc] at h
    split at h
    · cases h
    · rename_i hmax
      split at h
      · cases h
      · rename_i steps hsteps
        cases h
        -- the context
        have hfields : c.pats = (p.branches.zipIdx.map fun (b, i) => branchPat i b) ∧
            c.chains = (p.branches.map fun b => splitSteps b.members) ∧
            c.maxSteps = ((p.branches.map fun b => splitSteps b.members).map (·.length)).foldl max 0 := by
          unfold mkCtx at hc
          split at hc
          · cases hc
          · split at hc
            · cases hc
            · split at hc
              · cases hc
              · split at hc
                · cases hc
                · cases hc
                  exact ⟨rfl, rfl, rfl⟩
        obtain ⟨hpats, hchains, hmaxeq⟩ := hfields
        simp only at hsteps hmax ⊢
        have hp : ∀ pv ∈ c.pats, pv.var.render ≠ s := by
          rw [hpats]
          intro pv hpv
          obtain ⟨⟨b, i⟩, hbi, rfl⟩ := List.mem_map.mp hpv
          have hb : b ∈ p.branches := (List.mem_zipIdx hbi).2.2 ▸ List.getElem_mem _
          simp only [branchPat]
          cases hpat : b.pat with
          | none => exact hm.notInternal (.r i) rfl
          | some pt => exact hnames b hb pt hpat
        have hok : ∀ k, ∀ acts ∈ c.stepActs k, ActsOK acts := by
          intro k acts hacts
          simp only [Ctx.stepActs, hchains] at hacts
          simp only [List.map_map, List.mem_map, Function.comp] at hacts
          obtain ⟨b, hb, rfl⟩ := hacts
          cases hg : (splitSteps b.members)[k]? with
          | none => simp [ActsOK]
          | some g =>
            simp only [Option.getD_some]
            obtain ⟨h1, h2⟩ := splitSteps_mem b.members g (List.mem_of_getElem? hg)
            obtain ⟨i1, i2⟩ := hinit b hb
            exact ⟨fun m hm' => i1 m (h2 m hm'), fun m hm' => i2 m (h1 m hm')⟩
        have hN : ∀ b ∈ p.branches, (splitSteps b.members).length ≤ c.maxSteps := by
          intro b hb
          rw [hmaxeq]
          exact le_foldl_max _ 0 _ (by simp only [List.map_map, List.mem_map, Function.comp]; exact ⟨b, hb, rfl⟩)
        have hn : c.maxSteps - 1 + 1 = c.maxSteps := by omega
        have := genSteps_count hm c hp hok _ 0 steps hsteps
        rw [this, hn]
        simp only [Ctx.stepActs, hchains, List.map_map, Function.comp_def]
        rw [sumR_chains (fun j (b : Branch) => cntMembers s (((splitSteps b.members)[j]?).getD [])) p.branches]
        simp only [cntProgram]
        congr 1
        apply List.map_congr_left
        intro b hb
        rw [sumR_chain (cntMembers s) (by simp [cntMembers]) _ _ (hN b hb), splitSteps_count]

end JoinModel
