/-
  Order of events in the reference loop: steps never interleave on the calling thread, and inside a step
  every block capture precedes every chain; result positions.
-/
import JoinModel.Lemmas.TryFacts
namespace JoinModel

/-- position of an event in the program order of the steps: captures of step k, then chains of step k -/
def MEv.key (e : MEv) : Option Nat := e.step.map fun k => 2 * k + (if e.isCap then 0 else 1)

def keysOf (t : List MEv) : List Nat := t.filterMap MEv.key

theorem keysOf_append (a b : List MEv) : keysOf (a ++ b) = keysOf a ++ keysOf b := by simp [keysOf]

theorem pairwise_le_append {a b : List Nat} (ha : a.Pairwise (· ≤ ·)) (hb : b.Pairwise (· ≤ ·))
    (hab : ∀ x ∈ a, ∀ y ∈ b, x ≤ y) : (a ++ b).Pairwise (· ≤ ·) :=
  List.pairwise_append.mpr ⟨ha, hb, hab⟩

theorem pairwise_le_const {a : List Nat} {c : Nat} (h : ∀ x ∈ a, x = c) : a.Pairwise (· ≤ ·) := by
  induction a with
  | nil => exact List.Pairwise.nil
  | cons x xs ih =>
    refine List.Pairwise.cons ?_ (ih fun y hy => h y (List.mem_cons_of_mem _ hy))
    intro y hy
    rw [h x (by simp), h y (List.mem_cons_of_mem _ hy)]
    exact Nat.le_refl _

theorem keys_caps (sc : SpecCfg) (k : Nat) (vis : List (String × Value)) (bs : List Nat) :
    ∀ x ∈ keysOf (specCapsAll sc k vis bs).trace, x = 2 * k := by
  intro x hx
  simp only [keysOf, List.mem_filterMap] at hx
  obtain ⟨e, he, hk⟩ := hx
  obtain ⟨h1, h2⟩ := specCapsAll_step sc k vis bs e he
  simp [MEv.key, h1, h2] at hk
  omega

theorem keys_chains (sc : SpecCfg) (k : Nat) (vals : List (Option Value)) (vis : List (String × Value))
    (act : List Nat) (caps : List (List Value)) :
    ∀ x ∈ keysOf (specChains sc k vals vis act caps).trace, x = 2 * k + 1 := by
  intro x hx
  simp only [keysOf, List.mem_filterMap] at hx
  obtain ⟨e, he, hk⟩ := hx
  obtain ⟨h1, h2⟩ := specChains_step sc k vals vis act caps e he
  simp [MEv.key, h1, h2] at hk
  omega

theorem keys_loop_ge (sc : SpecCfg) (rem k : Nat) (vals : List (Option Value)) :
    ∀ x ∈ keysOf (specLoop sc rem k vals).trace, 2 * k ≤ x := by
  intro x hx
  simp only [keysOf, List.mem_filterMap] at hx
  obtain ⟨e, he, hk⟩ := hx
  obtain ⟨s, h1, h2, _⟩ := specLoop_step_ge sc rem k vals e he
  simp only [MEv.key, h1, Option.map_some, Option.some.injEq] at hk
  split at hk <;> omega

/-- Program order on the calling thread: the events of the loop are sorted by (step, captures before chains). -/
theorem specLoop_sorted (sc : SpecCfg) (rem k : Nat) (vals : List (Option Value)) :
    (keysOf (specLoop sc rem k vals).trace).Pairwise (· ≤ ·) := by
  induction rem generalizing k vals with
  | zero =>
    obtain ⟨hA, hB⟩ := specLoop_cases sc 0 k vals
    cases hc : (specCapsAll sc k (visibleSpec sc.names vals) (sc.active k)).res with
    | panic s => rw [(hA (by intro a; rw [hc]; simp)).1]; exact pairwise_le_const (keys_caps sc k _ _)
    | stuck => rw [(hA (by intro a; rw [hc]; simp)).1]; exact pairwise_le_const (keys_caps sc k _ _)
    | ok caps =>
      obtain ⟨hB1, hB2⟩ := hB caps hc
      have hcc : (keysOf ((specCapsAll sc k (visibleSpec sc.names vals) (sc.active k)).trace ++
          (specChains sc k vals (visibleSpec sc.names vals) (sc.active k) caps).trace)).Pairwise (· ≤ ·) := by
        rw [keysOf_append]
        refine pairwise_le_append (pairwise_le_const (keys_caps sc k _ _)) (pairwise_le_const (keys_chains sc k _ _ _ _)) ?_
        intro x hx y hy
        rw [keys_caps sc k _ _ x hx, keys_chains sc k _ _ _ _ y hy]; omega
      cases hn : (specChains sc k vals (visibleSpec sc.names vals) (sc.active k) caps).res with
      | panic s => rw [(hB1 (by intro a; rw [hn]; simp)).1]; exact hcc
      | stuck => rw [(hB1 (by intro a; rw [hn]; simp)).1]; exact hcc
      | ok news =>
        rw [(hB2 news hn).1]
        have htail : (specTail sc 0 k vals news).trace = [] := by
          simp only [specTail]
          cases allSome (updVals vals (sc.active k) news) with
          | none => rfl
          | some finals =>
            simp only
            split
            · cases firstFail finals <;> rfl
            · rfl
        rw [htail, List.append_nil]
        exact hcc
  | succ rem ih =>
    obtain ⟨hA, hB⟩ := specLoop_cases sc (rem + 1) k vals
    cases hc : (specCapsAll sc k (visibleSpec sc.names vals) (sc.active k)).res with
    | panic s => rw [(hA (by intro a; rw [hc]; simp)).1]; exact pairwise_le_const (keys_caps sc k _ _)
    | stuck => rw [(hA (by intro a; rw [hc]; simp)).1]; exact pairwise_le_const (keys_caps sc k _ _)
    | ok caps =>
      obtain ⟨hB1, hB2⟩ := hB caps hc
      have hcc : (keysOf ((specCapsAll sc k (visibleSpec sc.names vals) (sc.active k)).trace ++
          (specChains sc k vals (visibleSpec sc.names vals) (sc.active k) caps).trace)).Pairwise (· ≤ ·) := by
        rw [keysOf_append]
        refine pairwise_le_append (pairwise_le_const (keys_caps sc k _ _)) (pairwise_le_const (keys_chains sc k _ _ _ _)) ?_
        intro x hx y hy
        rw [keys_caps sc k _ _ x hx, keys_chains sc k _ _ _ _ y hy]; omega
      cases hn : (specChains sc k vals (visibleSpec sc.names vals) (sc.active k) caps).res with
      | panic s => rw [(hB1 (by intro a; rw [hn]; simp)).1]; exact hcc
      | stuck => rw [(hB1 (by intro a; rw [hn]; simp)).1]; exact hcc
      | ok news =>
        rw [(hB2 news hn).1, keysOf_append]
        have htail : (keysOf (specTail sc (rem + 1) k vals news).trace).Pairwise (· ≤ ·) ∧
            ∀ x ∈ keysOf (specTail sc (rem + 1) k vals news).trace, 2 * (k + 1) ≤ x := by
          simp only [specTail]
          split
          · cases firstFail news with
            | some v => simp [M.ret, keysOf]
            | none => exact ⟨ih _ _, keys_loop_ge sc rem (k + 1) _⟩
          · exact ⟨ih _ _, keys_loop_ge sc rem (k + 1) _⟩
        refine pairwise_le_append hcc htail.1 ?_
        intro x hx y hy
        have hy' := htail.2 y hy
        rw [keysOf_append] at hx
        rcases List.mem_append.mp hx with h | h
        · rw [keys_caps sc k _ _ x h]; omega
        · rw [keys_chains sc k _ _ _ _ x h]; omega

/-! ### the captures of a step, exactly -/

theorem specCapsBranch_trace_ok (sc : SpecCfg) (k b : Nat) (vis : List (String × Value)) (keys : List (Nat × Nat))
    (vs : List Value) (h : (specCapsBranch sc k b vis keys).res = .ok vs) :
    (specCapsBranch sc k b vis keys).trace = keys.map fun ei => .ev (.cap b k ei.1 ei.2 vis) := by
  induction keys generalizing vs with
  | nil => simp [specCapsBranch, M.ret]
  | cons ei rest ih =>
    obtain ⟨e0, i0⟩ := ei
    simp only [specCapsBranch] at h ⊢
    obtain ⟨_, _, h⟩ := M.andThen_res_ok h
    obtain ⟨v, hv, h⟩ := M.andThen_res_ok h
    obtain ⟨vs', hvs, h⟩ := M.andThen_res_ok h
    rw [M.tell_andThen, M.pre]
    rw [(M.andThen_trace_ok hv).1, (M.andThen_trace_ok hvs).1]
    simp [M.lift, M.ret, ih vs' hvs]

theorem specCapsAll_trace_ok (sc : SpecCfg) (k : Nat) (vis : List (String × Value)) (bs : List Nat)
    (capss : List (List Value)) (h : (specCapsAll sc k vis bs).res = .ok capss) :
    (specCapsAll sc k vis bs).trace =
      bs.flatMap fun b => (capKeys (sc.acts b k)).map fun ei => .ev (.cap b k ei.1 ei.2 vis) := by
  induction bs generalizing capss with
  | nil => simp [specCapsAll, M.ret]
  | cons b bs ih =>
    simp only [specCapsAll] at h ⊢
    obtain ⟨vs, hvs, h⟩ := M.andThen_res_ok h
    obtain ⟨rest, hrest, h⟩ := M.andThen_res_ok h
    rw [(M.andThen_trace_ok hvs).1, (M.andThen_trace_ok hrest).1]
    simp [M.ret, specCapsBranch_trace_ok sc k b vis _ vs hvs, ih rest hrest]

/-! ### result positions (non-try loop) -/

/-- In a non-try loop started at step `k` (with `rem` more steps to go): the value at position `i` of the
    result is branch `i`'s untouched current value when the branch has finished, and otherwise the value that
    the chain of its own last step returned. -/
theorem specLoop_positions (sc : SpecCfg) (hnt : sc.kind.isTry = false) (rem k : Nat) (vals : List (Option Value))
    (hlen : vals.length = sc.n) (hdep : ∀ i, sc.depth i ≤ k + rem + 1) (vs : List Value)
    (h : (specLoop sc rem k vals).res = .ok (.vals vs)) (i : Nat) (hi : i < sc.n) :
    (sc.depth i ≤ k → (vals[i]?).join = vs[i]?) ∧
    (k < sc.depth i → ∃ v, vs[i]? = some v ∧ (i, sc.depth i - 1, v) ∈ chainEnds (specLoop sc rem k vals).trace) := by
  induction rem generalizing k vals with
  | zero =>
    obtain ⟨hA, hB⟩ := specLoop_cases sc 0 k vals
    cases hc : (specCapsAll sc k (visibleSpec sc.names vals) (sc.active k)).res with
    | panic s => exact absurd h ((hA (by intro a; rw [hc]; simp)).2 _)
    | stuck => exact absurd h ((hA (by intro a; rw [hc]; simp)).2 _)
    | ok caps =>
      obtain ⟨hB1, hB2⟩ := hB caps hc
      obtain ⟨hl, -⟩ := specCapsAll_length _ _ _ _ _ hc
      cases hn : (specChains sc k vals (visibleSpec sc.names vals) (sc.active k) caps).res with
      | panic s => exact absurd h ((hB1 (by intro a; rw [hn]; simp)).2 _)
      | stuck => exact absurd h ((hB1 (by intro a; rw [hn]; simp)).2 _)
      | ok news =>
        obtain ⟨htr, hres⟩ := hB2 news hn
        have hnl := specChains_length _ _ _ _ _ _ hl _ hn
        rw [hres] at h
        simp only [specTail, hnt] at h
        cases hall : allSome (updVals vals (sc.active k) news) with
        | none => simp [hall, M.stuck] at h
        | some finals =>
          simp [hall, M.ret] at h
          subst h
          have hget := allSome_getElem _ _ hall
          have htail : (specTail sc 0 k vals news).trace = [] := by
            simp [specTail, hall, hnt, M.ret]
          have hends : chainEnds (specLoop sc 0 k vals).trace = ((sc.active k).zip news).map fun bv => (bv.1, k, bv.2) := by
            rw [htr, htail]
            simp [specCapsAll_ends, specChains_ends _ _ _ _ _ _ hl _ hn]
          constructor
          · intro hd
            have hna : i ∉ sc.active k := by
              intro hm
              have := (List.mem_filter.mp hm).2
              simp at this; omega
            have := updVals_not_mem vals (sc.active k) news i hna
            rw [hget] at this
            rw [← this]
            cases finals[i]? <;> rfl
          · intro hd
            have hact : i ∈ sc.active k := by
              simp only [SpecCfg.active, List.mem_filter, List.mem_range, decide_eq_true_eq]
              exact ⟨hi, hd⟩
            obtain ⟨pos, hpos, hp⟩ := List.getElem_of_mem hact
            have hup := updVals_mem vals (sc.active k) news hnl.symm (active_nodup sc k) pos hpos
              (by rw [hlen, hp]; exact hi)
            rw [hp, hget] at hup
            have hdk : sc.depth i - 1 = k := by have := hdep i; omega
            refine ⟨news[pos]'(hnl ▸ hpos), ?_, ?_⟩
            · cases hfi : finals[i]? with
              | none => simp [hfi] at hup
              | some x => simp [hfi] at hup; rw [hup]
            · rw [hends, hdk]
              apply List.mem_map.mpr
              refine ⟨(i, news[pos]'(hnl ▸ hpos)), ?_, rfl⟩
              rw [← hp]
              exact List.mem_iff_getElem.mpr ⟨pos, by simp; omega, by simp⟩
  | succ rem ih =>
    obtain ⟨hA, hB⟩ := specLoop_cases sc (rem + 1) k vals
    cases hc : (specCapsAll sc k (visibleSpec sc.names vals) (sc.active k)).res with
    | panic s => exact absurd h ((hA (by intro a; rw [hc]; simp)).2 _)
    | stuck => exact absurd h ((hA (by intro a; rw [hc]; simp)).2 _)
    | ok caps =>
      obtain ⟨hB1, hB2⟩ := hB caps hc
      obtain ⟨hl, -⟩ := specCapsAll_length _ _ _ _ _ hc
      cases hn : (specChains sc k vals (visibleSpec sc.names vals) (sc.active k) caps).res with
      | panic s => exact absurd h ((hB1 (by intro a; rw [hn]; simp)).2 _)
      | stuck => exact absurd h ((hB1 (by intro a; rw [hn]; simp)).2 _)
      | ok news =>
        obtain ⟨htr, hres⟩ := hB2 news hn
        have hnl := specChains_length _ _ _ _ _ _ hl _ hn
        have htail : specTail sc (rem + 1) k vals news = specLoop sc rem (k + 1) (updVals vals (sc.active k) news) := by
          simp [specTail, hnt]
        rw [hres, htail] at h
        have hrec := ih (k + 1) (updVals vals (sc.active k) news) (by rw [updVals_length, hlen])
          (fun i => by have := hdep i; omega) h
        have hends : chainEnds (specLoop sc (rem + 1) k vals).trace =
            (((sc.active k).zip news).map fun bv => (bv.1, k, bv.2)) ++
              chainEnds (specLoop sc rem (k + 1) (updVals vals (sc.active k) news)).trace := by
          rw [htr, htail]
          simp [specCapsAll_ends, specChains_ends _ _ _ _ _ _ hl _ hn]
        constructor
        · intro hd
          have hna : i ∉ sc.active k := by
            intro hm
            have := (List.mem_filter.mp hm).2
            simp at this; omega
          rw [← hrec.1 (by omega), updVals_not_mem _ _ _ _ hna]
        · intro hd
          have hact : i ∈ sc.active k := by
            simp only [SpecCfg.active, List.mem_filter, List.mem_range, decide_eq_true_eq]
            exact ⟨hi, hd⟩
          by_cases hlast : sc.depth i ≤ k + 1
          · -- last active step of the branch
            obtain ⟨pos, hpos, hp⟩ := List.getElem_of_mem hact
            have hup := updVals_mem vals (sc.active k) news hnl.symm (active_nodup sc k) pos hpos
              (by rw [hlen, hp]; exact hi)
            rw [hp] at hup
            have := hrec.1 hlast
            rw [hup] at this
            have hdk : sc.depth i - 1 = k := by omega
            refine ⟨news[pos]'(hnl ▸ hpos), by rw [← this]; rfl, ?_⟩
            rw [hends, hdk]
            apply List.mem_append_left
            apply List.mem_map.mpr
            refine ⟨(i, news[pos]'(hnl ▸ hpos)), ?_, rfl⟩
            rw [← hp]
            exact List.mem_iff_getElem.mpr ⟨pos, by simp; omega, by simp⟩
          · obtain ⟨v, hv1, hv2⟩ := hrec.2 (by omega)
            exact ⟨v, hv1, by rw [hends]; exact List.mem_append_right _ hv2⟩

end JoinModel
