/-
  Semantics of the structured code (IR) for the sequential and thread-spawning macros.
  User code is opaque: a `World` gives the behaviour of every user-written atom (block capture, chain of a
  branch in a step, handler, custom joiner).  Everything the macro itself emits (lets, tuple patterns,
  `.N` projections, the success check, `match Ok/Err`, the transposer, thread spawn/join, the handler
  call) is given its Rust meaning here, one clause per template of `IR.lean`.
-/
import JoinModel.IR
namespace JoinModel

/-- Where a panic comes from. -/
inductive Site
  | user (n : Nat)            -- raised by user code (opaque id)
  | unreachableArm            -- `r.map(|_| unreachable!())` applied to a success value
  | unreachableDefault        -- `_ => unreachable!()`
  | joinUnwrap (b k : Nat)    -- `.join().unwrap()` on a thread that panicked
  deriving DecidableEq, Repr, Inhabited

/-- Values.  Tuples are `tup` of a `tnil`/`tcons` spine (not a nested `List`, so equality is decidable by
    `deriving`); `succ` is `Some`/`Ok`, `fail e` is `None`/`Err e`. -/
inductive Value
  | atom (n : Int)
  | tnil
  | tcons (a rest : Value)
  | tup (spine : Value)
  | succ (v : Value)
  | fail (e : Value)
  | builder (idx : Nat)           -- `::std::thread::Builder` made by `__tb(idx)`
  | handleOk (v : Value)          -- JoinHandle of a thread whose body returned `v`
  | handlePanic                   -- JoinHandle of a thread whose body panicked
  deriving DecidableEq, Repr, Inhabited

def spine : List Value → Value
  | [] => .tnil
  | v :: vs => .tcons v (spine vs)

def unspine : Value → Option (List Value)
  | .tnil => some []
  | .tcons a r => (unspine r).map (a :: ·)
  | _ => none

/-- `(v₀, …, vₙ₋₁)`; a one-element "tuple" `(v)` is `v` itself, as in Rust. -/
def mkTuple : List Value → Value
  | [v] => v
  | vs => .tup (spine vs)

/-- `let (p₀, …, pₙ₋₁) = v`: the components, or `none` when `v` has another shape. -/
def untuple (n : Nat) (v : Value) : Option (List Value) :=
  if n = 1 then some [v] else
  match v with
  | .tup sp => match unspine sp with
    | some vs => if vs.length = n then some vs else none
    | none => none
  | _ => none

def Value.isSucc : Value → Bool
  | .succ _ => true
  | _ => false

inductive Res (α : Type)
  | ok (a : α)
  | panic (s : Site)
  | stuck                        -- ill-formed code or ill-typed value: never for generated code (theorem)
  deriving Repr, Inhabited, DecidableEq

/-- Observable events. -/
inductive Ev
  | cap (b k e i : Nat) (vis : List (String × Value))   -- block capture `__ew{b}_{e}_{i}` of step k, with the `let` names it sees
  | chainStart (b k : Nat)
  | cb (b k : Nat) (id : Nat)         -- a user callback / atom inside chain (b, k) ran
  | chainEnd (b k : Nat) (v : Value)  -- chain (b, k) returned `v`
  | handlerDef
  | handlerCall (args : List Value)
  | joiner (k : Nat) (args : List Value)
  deriving DecidableEq, Repr, Inhabited

/-- Events of the calling thread, with forks carrying the complete event list of the thread body. -/
inductive MEv
  | ev (e : Ev)
  | fork (b k : Nat) (name : String) (body : List Ev)
  | join (b k : Nat)
  deriving DecidableEq, Repr, Inhabited

/-- Evaluation result: trace so far and outcome. -/
structure M (α : Type) where
  trace : List MEv
  res : Res α
  deriving Repr, Inhabited

namespace M
def ret (a : α) : M α := ⟨[], .ok a⟩
def tell (es : List MEv) : M Unit := ⟨es, .ok ()⟩
def lift (r : Res α) : M α := ⟨[], r⟩
def stuck : M α := ⟨[], .stuck⟩
def andThen (m : M α) (f : α → M β) : M β :=
  match m.res with
  | .ok a => ⟨m.trace ++ (f a).trace, (f a).res⟩
  | .panic s => ⟨m.trace, .panic s⟩
  | .stuck => ⟨m.trace, .stuck⟩
def ofOption : Option α → M α
  | some a => ret a
  | none => stuck
end M

instance : Monad M where
  pure := M.ret
  bind := M.andThen

/-- Outcome of a piece of user code: a value, or a panic with an opaque id. -/
inductive UR (α : Type)
  | ok (a : α)
  | panic (n : Nat)
  deriving Repr, Inhabited, DecidableEq

def UR.toRes : UR α → Res α
  | .ok a => .ok a
  | .panic n => .panic (.user n)

/-- What a chain does: the ids of the user callbacks that ran inside it, and its result. -/
structure ChainOut where
  cbs : List Nat
  res : UR Value
  deriving Repr, Inhabited

/-- The user's code.  Every theorem quantifies over all worlds. -/
structure World where
  /-- a hoisted `{…}` operand: sees the `let` names in scope -/
  capture : (b k e i : Nat) → List (String × Value) → UR Value
  /-- the chain of branch `b` in step `k`, applied to the branch's previous value (none in step 0),
      the values of its hoisted operands, and the `let` names in scope -/
  chain : (b k : Nat) → Option Value → List Value → List (String × Value) → ChainOut
  handlerDef : UR Unit
  handlerCall : List Value → UR Value
  joiner : Nat → List Value → UR Value

abbrev Env := List (Var × Value)

/-- The `let` names of the branches that are bound in `env`, in branch order: what user code can see. -/
def visible (names : List (Option String)) (env : Env) : List (String × Value) :=
  names.filterMap fun nm => nm.bind fun s => (env.lookup (.user s)).map fun v => (s, v)

/-- name of the thread spawned for branch `b` by a caller whose thread name is `parent` -/
def threadName (parent : Option String) (b : Nat) : String :=
  match parent with
  | some p => p ++ "_" ++ ("join_" ++ Nat.repr b)
  | none => "join_" ++ Nat.repr b

def usesPrev (acts : List Member) : Bool :=
  match acts with
  | m :: _ => m.ctor != .initial
  | [] => false

/-- names of the hoisted operands a chain refers to -/
def capVars (b : Nat) (acts : List Member) : List Var :=
  (capDefsOf b acts 0).map fun d => Var.ew d.b d.e d.i

structure EvalCfg where
  σ : World
  names : List (Option String)
  parent : Option String

def lookupAll (env : Env) : List Var → Option (List Value)
  | [] => some []
  | x :: xs => do
    let v ← env.lookup x
    let vs ← lookupAll env xs
    pure (v :: vs)

def evalDefs (c : EvalCfg) (k : Nat) : List CapDef → Env → M Env
  | [], env => M.ret env
  | d :: ds, env =>
    (M.tell [.ev (.cap d.b k d.e d.i (visible c.names env))]).andThen fun _ =>
    (M.lift (c.σ.capture d.b k d.e d.i (visible c.names env)).toRes).andThen fun v =>
    evalDefs c k ds ((Var.ew d.b d.e d.i, v) :: env)

def chainEvents (b k : Nat) (o : ChainOut) : List Ev :=
  [.chainStart b k] ++ o.cbs.map (.cb b k) ++ (match o.res with | .ok v => [.chainEnd b k v] | _ => [])

/-- evaluate one operand of the join expression -/
def evalElem (c : EvalCfg) (k : Nat) (env : Env) (e : Elem) : M Value :=
  let prev? : Option (Option Value) :=
    if usesPrev e.acts then (env.lookup e.prev).map some else some none
  match prev?, lookupAll env (capVars e.b e.acts) with
  | some prev, some caps =>
    let o := c.σ.chain e.b k prev caps (visible c.names env)
    match e.wrap, e.lazy with
    | .plain, false => ⟨(chainEvents e.b k o).map .ev, o.res.toRes⟩
    -- a tokio task, awaited: under the canonical schedule (every operand polled to completion in turn) it is the chain
    | .tokio, false => ⟨(chainEvents e.b k o).map .ev, o.res.toRes⟩
    | .thread b, true =>
      match env.lookup (.j b) with
      | some (.builder idx) =>
        ⟨[.fork e.b k (threadName c.parent idx) (chainEvents e.b k o)],
          .ok (match o.res with | .ok v => .handleOk v | _ => .handlePanic)⟩
      | _ => M.stuck
    | _, _ => M.stuck
  | _, _ => M.stuck

def evalElems (c : EvalCfg) (k : Nat) (env : Env) : List Elem → M (List Value)
  | [] => M.ret []
  | e :: es =>
    (evalElem c k env e).andThen fun v =>
    (evalElems c k env es).andThen fun vs => M.ret (v :: vs)

/-- operands of `try_join!`, in order, up to the first one whose output is not a success: the payloads of all of
    them, or that output (the operands behind it are not evaluated) -/
def evalElemsTry (c : EvalCfg) (k : Nat) (env : Env) : List Elem → M (Except Value (List Value))
  | [] => M.ret (.ok [])
  | e :: es =>
    (evalElem c k env e).andThen fun v =>
    match v with
    | .succ p => (evalElemsTry c k env es).andThen fun r => M.ret (r.map (p :: ·))
    | f => M.ret (.error f)

/-- the join expression of a step -/
def evalJoinForm (c : EvalCfg) (k : Nat) (env : Env) (form : JoinForm) (elems : List Elem) : M Value :=
  match form with
  | .tuple => (evalElems c k env elems).andThen fun vs => M.ret (mkTuple vs)
  | .call _ =>
    (evalElems c k env elems).andThen fun vs =>
    (M.tell [.ev (.joiner k vs)]).andThen fun _ => M.lift (c.σ.joiner k vs).toRes
  -- `futures::join!(e₁, …, eₙ)`: awaits all operands, yields the tuple of their outputs
  | .futJoin _ false => (evalElems c k env elems).andThen fun vs => M.ret (mkTuple vs)
  -- `futures::try_join!(e₁, …, eₙ)`: `Ok` of the tuple of payloads, or the first failure
  | .futJoin _ true =>
    (evalElemsTry c k env elems).andThen fun r =>
    M.ret (match r with | .ok ps => .succ (mkTuple ps) | .error f => f)
  -- a single operand, awaited
  | .awaitCat => (evalElems c k env elems).andThen fun vs => M.ret (mkTuple vs)

def projVal (p : Proj) (v : Value) : Option Value :=
  match p with
  | .whole => some v
  | .idx i => match v with
    | .tup sp => (unspine sp).bind (·[i]?)
    | _ => none

/-- `(sr.i.join().unwrap(), …)`, left to right -/
def evalJoins (k : Nat) (sr : Value) (bs : List Nat) : List Proj → M (List Value)
  | [] => M.ret []
  | p :: ps =>
    match projVal p sr, bs with
    | some (.handleOk v), b :: bs' =>
      (M.tell [.join b k]).andThen fun _ => (evalJoins k sr bs' ps).andThen fun vs => M.ret (v :: vs)
    | some .handlePanic, b :: _ =>
      (M.tell [.join b k]).andThen fun _ => M.lift (.panic (.joinUnwrap b k))
    | _, _ => M.stuck

/-- value of `__srK` after a step's statements -/
def evalStep (c : EvalCfg) (env : Env) (s : StepCode) : M (Env × Value) :=
  -- `let __jB = __tb(arg);` only builds thread builders: no event, cannot fail
  let envb : Env := (s.tbs.map fun (b, arg) => (Var.j b, Value.builder arg)).reverse ++ env
  (evalDefs c s.k s.defs envb).andThen fun env' =>
  (evalJoinForm c s.k env' s.form s.elems).andThen fun sr =>
  match s.spawnJoin with
  | none => M.ret (env', sr)
  | some ps => (evalJoins s.k sr (s.elems.map Elem.b) ps).andThen fun vs' => M.ret (env', mkTuple vs')

def bindPats (pats : List PatV) (vs : List Value) (env : Env) : Env :=
  (pats.map (·.var)).zip vs ++ env

/-- `let (pats) = v;` -/
def extract (pats : List PatV) (v : Value) (env : Env) : M Env :=
  match untuple pats.length v with
  | some vs => M.ret (bindPats pats vs env)
  | none => M.stuck

/-- `r₀.and_then(|r₀| … rₙ.map(|rₙ| (ret)))`: the first non-success among `vars` is returned unchanged,
    otherwise each variable is rebound to its payload and the tuple `ret` is built. -/
def evalTransposer (env : Env) : List Var → List Var → M Value
  | [], _ => M.stuck
  | [x], ret =>
    match env.lookup x with
    | some (.succ p) => (M.ofOption (lookupAll ((x, p) :: env) ret)).andThen fun vs => M.ret (.succ (mkTuple vs))
    | some v => M.ret v
    | none => M.stuck
  | x :: y :: xs, ret =>
    match env.lookup x with
    | some (.succ p) => evalTransposer ((x, p) :: env) (y :: xs) ret
    | some v => M.ret v
    | none => M.stuck

def evalSteps (c : EvalCfg) : Env → Steps → M Value
  | env, .last s f =>
    (evalStep c env s).andThen fun (env1, sr) =>
    let env2 := (Var.sr s.k, sr) :: env1
    match f with
    | .tuple pats vars =>
      (extract pats sr env2).andThen fun env3 =>
      (M.ofOption (lookupAll env3 vars)).andThen fun vs => M.ret (mkTuple vs)
    | .transpose pats vars =>
      (extract pats sr env2).andThen fun env3 => evalTransposer env3 vars vars
    | .matchOkTranspose pats results ret =>
      match sr with
      | .succ p => (extract pats p ((Var.sr s.k, p) :: env2)).andThen fun env3 => evalTransposer env3 results ret
      | v => M.ret v
    | .matchOkTuple pats vars =>
      match sr with
      | .succ p =>
        (extract pats p ((Var.sr s.k, p) :: env2)).andThen fun env3 =>
        (M.ofOption (lookupAll env3 vars)).andThen fun vs => M.ret (.succ (mkTuple vs))
      | v => M.ret v
    | .matchOkSingle =>
      match sr with
      | .succ p => M.ret (.succ p)
      | v => M.ret v
  | env, .cons s l rest =>
    (evalStep c env s).andThen fun (env1, sr) =>
    let env2 := (Var.sr s.k, sr) :: env1
    match l with
    | .plain pats => (extract pats sr env2).andThen fun env3 => evalSteps c env3 rest
    | .failCheck pats flags arms =>
      (extract pats sr env2).andThen fun env3 =>
      (M.ofOption (lookupAll env3 flags)).andThen fun fvs =>
      match fvs.findIdx? (fun v => !v.isSucc) with
      | none => evalSteps c env3 rest
      | some pos =>
        match arms.find? (fun a => a.1 == pos) with
        | none => M.lift (.panic .unreachableDefault)
        | some a =>
          match env3.lookup a.2 with
          | some (.succ _) => M.lift (.panic .unreachableArm)
          | some v => M.ret v
          | none => M.stuck
    | .matchOk rewrap pats =>
      match sr with
      | .succ p =>
        let env3 := (Var.sr s.k, p) :: env2
        (match rewrap with
          | none => M.ret (env3, p)
          | some ps =>
            match ps.mapM (fun pr => projVal pr p) with
            | some vs => let t := mkTuple (vs.map .succ); M.ret ((Var.sr s.k, t) :: env3, t)
            | none => M.stuck).andThen fun (env4, t) =>
        (extract pats t env4).andThen fun env5 => evalSteps c env5 rest
      | v => M.ret v

/-- `{ let (__r0, …) = __rs; __h(__r0, …) }` -/
def evalCall (c : EvalCfg) (n : Nat) (rs : Value) : M Value :=
  match untuple n rs with
  | some vs => (M.tell [.ev (.handlerCall vs)]).andThen fun _ => M.lift (c.σ.handlerCall vs).toRes
  | none => M.stuck

def evalHandle (c : EvalCfg) (h : Handle) (rs : Value) : M Value :=
  match h with
  | .none => M.ret rs
  | .thenH vars => evalCall c vars.length rs
  | .mapH vars =>
    match rs with
    | .succ p => (evalCall c vars.length p).andThen fun v => M.ret (.succ v)
    | v => M.ret v
  | .andThenH vars =>
    match rs with
    | .succ p => evalCall c vars.length p
    | v => M.ret v

/-- Evaluation of a whole sequential or thread-spawning expansion on a thread named `parent`. -/
def evalCode (σ : World) (parent : Option String) (code : Code) : M Value :=
  let c : EvalCfg := ⟨σ, code.userNames, parent⟩
  (match code.handlerDef with
    | some _ => (M.tell [.ev .handlerDef]).andThen fun _ => M.lift σ.handlerDef.toRes
    | none => M.ret ()).andThen fun _ =>
  (evalSteps c [] code.steps).andThen fun rs => evalHandle c code.handle rs

end JoinModel
