/-
  C01 — every combinator operator means its documented method call.

  Table theorems over the tables regenerated from /repo on every run (T1 determiners, T6 arity, T8 emission),
  compared with the hand-written README tables (`SpecTables`), plus the shape of a wrapper-free chain.
  "A well-typed chain expands to code that compiles" is outside Lean (rustc): K2 compiles every generated chain.
-/
import JoinModel.Determiner
import JoinModel.ChainGen
import JoinModel.SpecTables
namespace JoinModel.Props.C01
open JoinModel

/-- the row of the determiner table a documented operator must select -/
def rowOf (c : Comb) (n : Nat) : Option DetRow := Tables.determiners.find? fun d => d.comb == some c && d.len == n

local macro "det_simp" : tactic =>
  `(tactic| simp [firstMatch, Tables.determiners, List.find?_cons, DetRow.check, checkSeq, peekPat, peekPunct, skip1])

/-! Each documented token sequence selects its combinator (first match in the ordered table), whatever follows —
    for the operators that are a prefix of a longer documented one, whenever the longer one does not follow. -/

theorem op_then (r : Toks) : (firstMatch ([.punct '-' true, .punct '>' false] ++ r)).map (·.comb) = some (some .then_) := by det_simp
theorem op_map (r : Toks) : (firstMatch ([.punct '|' true, .punct '>' false] ++ r)).map (·.comb) = some (some .map) := by det_simp
theorem op_filter (r : Toks) : (firstMatch ([.punct '?' true, .punct '>' false] ++ r)).map (·.comb) = some (some .filter) := by det_simp
theorem op_dot1 (r : Toks) : (firstMatch ([.punct '.' true, .punct '.' false] ++ r)).map (·.comb) = some (some .dot) := by det_simp
theorem op_dot2 (r : Toks) : (firstMatch ([.punct '>' true, .punct '.' false] ++ r)).map (·.comb) = some (some .dot) := by det_simp
theorem op_or (r : Toks) : (firstMatch ([.punct '<' true, .punct '|' false] ++ r)).map (·.comb) = some (some .or_) := by det_simp
theorem op_orElse (r : Toks) : (firstMatch ([.punct '<' true, .punct '=' false] ++ r)).map (·.comb) = some (some .orElse) := by det_simp
theorem op_mapErr (r : Toks) : (firstMatch ([.punct '!' true, .punct '>' false] ++ r)).map (·.comb) = some (some .mapErr) := by det_simp
theorem op_collect (g r : Toks) : (firstMatch ([.punct '=' true, .punct '>' true, .group .bracket g] ++ r)).map (·.comb) = some (some .collect) := by det_simp
theorem op_chain (r : Toks) : (firstMatch ([.punct '>' true, .punct '@' true, .punct '>' false] ++ r)).map (·.comb) = some (some .chain) := by det_simp
theorem op_findMap (r : Toks) : (firstMatch ([.punct '?' true, .punct '|' true, .punct '>' true, .punct '@' false] ++ r)).map (·.comb) = some (some .findMap) := by det_simp
theorem op_enumerate (r : Toks) : (firstMatch ([.punct '|' true, .ident "n", .punct '>' false] ++ r)).map (·.comb) = some (some .enumerate) := by det_simp
theorem op_partition (r : Toks) : (firstMatch ([.punct '?' true, .punct '&' true, .punct '!' true, .punct '>' false] ++ r)).map (·.comb) = some (some .partition) := by det_simp
theorem op_flatten (r : Toks) : (firstMatch ([.punct '^' true, .punct '^' true, .punct '>' false] ++ r)).map (·.comb) = some (some .flatten) := by det_simp
theorem op_fold (r : Toks) : (firstMatch ([.punct '^' true, .punct '@' false] ++ r)).map (·.comb) = some (some .fold) := by det_simp
theorem op_tryFold (r : Toks) : (firstMatch ([.punct '?' true, .punct '^' true, .punct '@' false] ++ r)).map (·.comb) = some (some .tryFold) := by det_simp
theorem op_find (r : Toks) : (firstMatch ([.punct '?' true, .punct '@' false] ++ r)).map (·.comb) = some (some .find) := by det_simp
theorem op_zip (r : Toks) : (firstMatch ([.punct '>' true, .punct '^' true, .punct '>' false] ++ r)).map (·.comb) = some (some .zip) := by det_simp
theorem op_unzip (r : Toks) : (firstMatch ([.punct '<' true, .punct '-' true, .punct '>' false] ++ r)).map (·.comb) = some (some .unzip) := by det_simp
theorem op_inspect (r : Toks) : (firstMatch ([.punct '?' true, .punct '?' false] ++ r)).map (·.comb) = some (some .inspect) := by det_simp
theorem op_unwrap (r : Toks) : (firstMatch ([.punct '<' true, .punct '<' true, .punct '<' false] ++ r)).map (·.comb) = some (some .unwrap) := by det_simp

/-- `=>` is and_then unless a bracket group follows (then it is `=>[]`, collect) -/
theorem op_andThen (r : Toks) (h : ∀ g r', r ≠ .group .bracket g :: r') :
    (firstMatch ([.punct '=' true, .punct '>' false] ++ r)).map (·.comb) = some (some .andThen) := by
  cases r with
  | nil => det_simp
  | cons t r' =>
    cases t with
    | group d g =>
      cases d with
      | bracket => exact absurd rfl (h g r')
      | _ => det_simp
    | _ => det_simp

/-- `?|>` is filter_map unless `@` follows (then it is `?|>@`, find_map) -/
theorem op_filterMap (r : Toks) (h : ∀ j r', r ≠ .punct '@' j :: r') :
    (firstMatch ([.punct '?' true, .punct '|' true, .punct '>' false] ++ r)).map (·.comb) = some (some .filterMap) := by
  cases r with
  | nil => det_simp
  | cons t r' =>
    cases t with
    | punct c j =>
      have : c ≠ '@' := by intro hc; subst hc; exact h j r' rfl
      simp [firstMatch, Tables.determiners, List.find?_cons, DetRow.check, checkSeq, peekPat, peekPunct, skip1, this]
    | _ => det_simp

/-- Operand shapes: for every combinator the extracted arity table says what the README says. -/
theorem arity_documented : ∀ c : Comb, (Tables.arity.lookup c) = some (SpecTables.arity c) := by
  intro c; cases c <;> decide

/-- the documented method call `.name(a₀, …)` -/
def methodCall (name : String) (args : List Toks) : Toks :=
  [.punct '.' false, .ident name, .group .paren (match args with
    | [] => [] | [a] => a | [a, b] => a ++ [.punct ',' false] ++ b | _ => [])]

/-- Emission: each one-operand method operator emits exactly `.method(operand)` with its documented method
    (`.chain` for `>@>`, `.find` for `?@`, `.find_map` for `?|>@`, …). -/
theorem emit_documented_unary (e : Toks) :
    emitTokens .map [e] = .ok (methodCall "map" [e]) ∧
    emitTokens .andThen [e] = .ok (methodCall "and_then" [e]) ∧
    emitTokens .filter [e] = .ok (methodCall "filter" [e]) ∧
    emitTokens .or_ [e] = .ok (methodCall "or" [e]) ∧
    emitTokens .orElse [e] = .ok (methodCall "or_else" [e]) ∧
    emitTokens .mapErr [e] = .ok (methodCall "map_err" [e]) ∧
    emitTokens .chain [e] = .ok (methodCall "chain" [e]) ∧
    emitTokens .findMap [e] = .ok (methodCall "find_map" [e]) ∧
    emitTokens .filterMap [e] = .ok (methodCall "filter_map" [e]) ∧
    emitTokens .partition [e] = .ok (methodCall "partition" [e]) ∧
    emitTokens .find [e] = .ok (methodCall "find" [e]) ∧
    emitTokens .zip [e] = .ok (methodCall "zip" [e]) := by
  refine ⟨?_, ?_, ?_, ?_, ?_, ?_, ?_, ?_, ?_, ?_, ?_, ?_⟩ <;>
    simp [emitTokens, emitRow, Tables.emit, instTmpl, instTmplTok, methodCall]

theorem emit_documented_other (a b t1 t2 t3 t4 : Toks) :
    emitTokens .fold [a, b] = .ok (methodCall "fold" [a, b]) ∧
    emitTokens .tryFold [a, b] = .ok (methodCall "try_fold" [a, b]) ∧
    emitTokens .enumerate [] = .ok (methodCall "enumerate" []) ∧
    emitTokens .flatten [] = .ok (methodCall "flatten" []) ∧
    emitTokens .collect [] = .ok (methodCall "collect" []) ∧
    emitTokens .unzip [] = .ok (methodCall "unzip" []) ∧
    emitTokens .dot [a] = .ok ([.punct '.' false] ++ a) ∧
    emitTokens .collect [t1] = .ok ([.punct '.' false, .ident "collect", .punct ':' true, .punct ':' false, .punct '<' false] ++ t1 ++
        [.punct '>' false, .group .paren []]) ∧
    emitTokens .unzip [t1, t2, t3, t4] = .ok ([.punct '.' false, .ident "unzip", .punct ':' true, .punct ':' false, .punct '<' false] ++ t1 ++
        [.punct ',' false] ++ t2 ++ [.punct ',' false] ++ t3 ++ [.punct ',' false] ++ t4 ++ [.punct '>' false, .group .paren []]) := by
  refine ⟨?_, ?_, ?_, ?_, ?_, ?_, ?_, ?_, ?_⟩ <;> simp [emitTokens, emitRow, Tables.emit, instTmpl, instTmplTok, methodCall]

/-- `->` calls the operand with the value: `({ let __handler = e; __handler }(prev))`;
    `??` passes the value through the inspect helper (sync) / `FutureExt::inspect` (async). -/
theorem then_and_inspect (prev e : Toks) :
    applyCtor false prev .then_ [e] = .ok [paren ([brace ([.ident "let", .ident "__handler", .punct '=' false] ++ e ++
        [.punct ';' false, .ident "__handler"])] ++ [paren prev])] ∧
    applyCtor true prev .then_ [e] = applyCtor false prev .then_ [e] ∧
    applyCtor false prev .inspect [e] = .ok [Var.inspect.tok, paren (e ++ [pu ','] ++ prev)] ∧
    applyCtor true prev .inspect [e] = .ok (prev ++ [pu '.', id' "inspect", paren e]) := by
  refine ⟨?_, rfl, rfl, rfl⟩
  simp [applyCtor, emitTokens, emitRow, Tables.emit, instTmpl, instTmplTok, bind, Except.bind, pure, Except.pure, paren, brace]

/-- every other operator is postfix: the value so far, then the emitted call -/
theorem postfix_application (a : Bool) (prev : Toks) (c : Comb) (ops : List Toks)
    (h : c ≠ .initial ∧ c ≠ .then_ ∧ c ≠ .inspect) :
    applyCtor a prev c ops = (emitTokens c ops).map (prev ++ ·) := by
  obtain ⟨h1, h2, h3⟩ := h
  cases c <;> simp_all [applyCtor, bind, Except.bind, Except.map, pure, Except.pure] <;>
    (cases emitTokens _ ops <;> rfl)

/-- The initial value is a single token tree (parenthesised), so that the postfix calls apply to the whole
    initial expression whatever its precedence (fixed in /repo 2872bae). -/
theorem initial_is_one_tree (a : Bool) (prev e : Toks) : applyCtor a prev .initial [e] = .ok [paren e] := by
  simp [applyCtor, emitTokens, emitRow, Tables.emit, instTmpl, instTmplTok, bind, Except.bind, pure, Except.pure]

/-- A chain without nested combinators is the left-to-right application of its operators: the stack of partial
    chains never grows, the result is the fold of single applications over the initial stream. -/
theorem step_expr_flat (a : Bool) (b : Nat) (acts : List Member) (e0 : Nat) (defs : List CapDef) (start : Toks)
    (hflat : ∀ m ∈ acts, m.mv = .none) :
    processActions a b ⟨defs, [⟨start, none⟩]⟩ acts e0 =
      (acts.zipIdx e0).foldlM (fun (acc : Acc) (me : Member × Nat) =>
        match acc.frames with
        | [f] => (applyCtor a f.toks me.1.ctor (hoist b me.2 me.1).2).map fun t =>
            (⟨acc.defs ++ (hoist b me.2 me.1).1, [⟨t, none⟩]⟩ : Acc)
        | _ => .error .popStepStreams) ⟨defs, [⟨start, none⟩]⟩ := by
  induction acts generalizing e0 defs start with
  | nil => rfl
  | cons m ms ih =>
    have hm : m.mv = .none := hflat m (by simp)
    simp only [processActions, List.zipIdx_cons, List.foldlM_cons, processAction, hm]
    cases hap : applyCtor a start m.ctor (hoist b e0 m).2 with
    | error er => simp [Except.map, bind, Except.bind]
    | ok t =>
      simp only [Except.map, bind, Except.bind]
      exact ih (e0 + 1) _ t (fun m' hm' => hflat m' (by simp [hm']))

/-- Non-vacuity / reading aid: `a |> f => g ..h` is `(a).map(f).and_then(g).h` — one parenthesised initial value and three
    postfix applications, no definitions hoisted (token lists compared with the model's `==`). -/
example :
    (match genBranchStep false 0 (.r 0)
        [⟨.initial, false, .none, [⟨.expr, [.ident "a"]⟩]⟩, ⟨.map, false, .none, [⟨.expr, [.ident "f"]⟩]⟩,
         ⟨.andThen, false, .none, [⟨.expr, [.ident "g"]⟩]⟩, ⟨.dot, false, .none, [⟨.expr, [.ident "h"]⟩]⟩] with
      | .ok (some (ds, t)) => ds.isEmpty && t == ([paren [.ident "a"]] ++ methodCall "map" [[.ident "f"]] ++
          methodCall "and_then" [[.ident "g"]] ++ [.punct '.' false, .ident "h"])
      | _ => false) = true := by
  decide +kernel

end JoinModel.Props.C01
