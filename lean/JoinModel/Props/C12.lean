/-
  C12 — `let` names expose each branch's latest step result to later captures.
-/
import JoinModel.Props.Common
namespace JoinModel.Props.C12
open JoinModel JoinModel.Props

/-- Every block capture of step k sees exactly `visibleSpec names vals`, where `vals` are the branches' values
    at the start of step k. -/
theorem capture_sees_names (sc : SpecCfg) (k : Nat) (vals : List (Option Value)) :
    ∀ e ∈ (specCapsAll sc k (visibleSpec sc.names vals) (sc.active k)).trace,
      ∃ b e' i, e = .ev (.cap b k e' i (visibleSpec sc.names vals)) := by
  intro e he
  obtain ⟨b, _, ei, _, rfl⟩ := specCapsAll_trace sc k _ _ e he
  exact ⟨b, ei.1, ei.2, rfl⟩

/-- What the names are bound to: the name of branch i maps to branch i's most recent step result — in try macros
    still wrapped — also after the branch has finished (a finished branch keeps its value, C04). -/
theorem name_bound_to_latest (names : List (Option String)) (vals : List (Option Value)) (i : Nat) (s : String)
    (v : Value) (hn : names[i]? = some (some s)) (hv : vals[i]? = some (some v)) :
    (s, v) ∈ visibleSpec names vals := by
  simp only [visibleSpec, List.mem_filterMap]
  refine ⟨(some s, some v), ?_, rfl⟩
  have hi1 : i < names.length := by
    rcases Nat.lt_or_ge i names.length with h | h
    · exact h
    · rw [List.getElem?_eq_none h] at hn; cases hn
  have hi2 : i < vals.length := by
    rcases Nat.lt_or_ge i vals.length with h | h
    · exact h
    · rw [List.getElem?_eq_none h] at hv; cases hv
  rw [List.getElem?_eq_getElem hi1] at hn
  rw [List.getElem?_eq_getElem hi2] at hv
  apply List.mem_iff_getElem.mpr
  refine ⟨i, by simp; omega, ?_⟩
  simp only [List.getElem_zip]
  rw [Option.some.inj hn, Option.some.inj hv]

/-- In step 0 no name of a branch is visible yet. -/
theorem nothing_visible_in_step_0 (names : List (Option String)) (n : Nat) :
    visibleSpec names (List.replicate n none) = [] := by
  simp only [visibleSpec, List.filterMap_eq_nil_iff]
  intro nv hnv
  obtain ⟨nm, v⟩ := nv
  have := (List.of_mem_zip hnv).2
  simp only [List.mem_replicate] at this
  rw [this.2]
  cases nm <;> rfl

/-- only names are visible: an unnamed branch contributes nothing -/
theorem unnamed_invisible (names : List (Option String)) (vals : List (Option Value)) :
    ∀ sv ∈ visibleSpec names vals, some sv.1 ∈ names := by
  intro sv hsv
  simp only [visibleSpec, List.mem_filterMap] at hsv
  obtain ⟨nv, hnv, h⟩ := hsv
  obtain ⟨nm, v⟩ := nv
  cases nm with
  | none => simp at h
  | some s =>
    cases v with
    | none => simp at h
    | some v =>
      simp at h
      rw [← h]
      exact (List.of_mem_zip hnv).1

/-- In the generated code the names are visible to user code exactly as in the reference semantics (the invariant
    of the refinement proof: `visible names env = visibleSpec names vals`). -/
theorem generated_visibility {c : Ctx} {names : List (Option String)} (ok : CtxOK c names) {k : Nat} {env : Env}
    {vals : List (Option Value)} (hinv : Inv c names k env vals) : visible names env = visibleSpec names vals :=
  visible_eq ok hinv

/-! ### `let` does not change the result -/

/-- forget which names a block capture saw -/
def eraseVis : MEv → MEv
  | .ev (.cap b k e i _) => .ev (.cap b k e i [])
  | x => x

/-- same outcome, same events up to the names the captures saw -/
def SameUpToNames {α : Type} (m m' : M α) : Prop := m.res = m'.res ∧ m.trace.map eraseVis = m'.trace.map eraseVis

theorem SameUpToNames.refl {α : Type} (m : M α) : SameUpToNames m m := ⟨rfl, rfl⟩

theorem SameUpToNames.andThen {α β : Type} {m m' : M α} {f f' : α → M β} (h : SameUpToNames m m')
    (hf : ∀ a, SameUpToNames (f a) (f' a)) : SameUpToNames (m.andThen f) (m'.andThen f') := by
  obtain ⟨hr, ht⟩ := h
  cases m with
  | mk t r =>
    cases m' with
    | mk t' r' =>
      simp only at hr ht
      subst hr
      cases r with
      | ok a =>
        obtain ⟨h1, h2⟩ := hf a
        exact ⟨by simpa [M.andThen] using h1, by simp [M.andThen, ht, h2]⟩
      | panic s => exact ⟨rfl, by simpa [M.andThen] using ht⟩
      | stuck => exact ⟨rfl, by simpa [M.andThen] using ht⟩

/-- user code that does not read the `let` names -/
def NameBlind (σ : World) : Prop :=
  (∀ b k e i vis, σ.capture b k e i vis = σ.capture b k e i []) ∧
  (∀ b k prev caps vis, σ.chain b k prev caps vis = σ.chain b k prev caps [])

theorem caps_branch_blind (c c' : SpecCfg) (hσ : c'.σ = c.σ) (hb : NameBlind c.σ) (k b : Nat) (vis vis' : List (String × Value))
    (keys : List (Nat × Nat)) : SameUpToNames (specCapsBranch c k b vis keys) (specCapsBranch c' k b vis' keys) := by
  induction keys with
  | nil => exact SameUpToNames.refl _
  | cons ei rest ih =>
    obtain ⟨e, i⟩ := ei
    simp only [specCapsBranch]
    apply SameUpToNames.andThen
    · exact ⟨rfl, by simp [M.tell, eraseVis]⟩
    · intro _
      apply SameUpToNames.andThen
      · rw [hσ, hb.1 b k e i vis, hb.1 b k e i vis']
        exact SameUpToNames.refl _
      · intro v
        exact SameUpToNames.andThen ih (fun _ => SameUpToNames.refl _)

theorem caps_all_blind (c c' : SpecCfg) (hσ : c'.σ = c.σ) (hch : c'.chains = c.chains) (hb : NameBlind c.σ) (k : Nat)
    (vis vis' : List (String × Value)) (bs : List Nat) :
    SameUpToNames (specCapsAll c k vis bs) (specCapsAll c' k vis' bs) := by
  induction bs with
  | nil => exact SameUpToNames.refl _
  | cons b bs ih =>
    simp only [specCapsAll]
    have hacts : c'.acts b k = c.acts b k := by simp [SpecCfg.acts, hch]
    rw [hacts]
    exact SameUpToNames.andThen (caps_branch_blind c c' hσ hb k b vis vis' _)
      (fun _ => SameUpToNames.andThen ih (fun _ => SameUpToNames.refl _))

theorem chains_blind (c c' : SpecCfg) (hσ : c'.σ = c.σ) (hch : c'.chains = c.chains) (hk : c'.kind = c.kind)
    (hp : c'.parent = c.parent) (hb : NameBlind c.σ) (k : Nat) (vals : List (Option Value))
    (vis vis' : List (String × Value)) (act : List Nat) (caps : List (List Value)) :
    specChains c k vals vis act caps = specChains c' k vals vis' act caps := by
  have hprev : ∀ b, specPrev c' vals b k = specPrev c vals b k := by
    intro b; unfold specPrev SpecCfg.acts; rw [hch]
  have hseq : ∀ bcs, specChainsSeq c k vals vis bcs = specChainsSeq c' k vals vis' bcs := by
    intro bcs
    induction bcs with
    | nil => rfl
    | cons bc bcs ih =>
      obtain ⟨b, cs⟩ := bc
      simp only [specChainsSeq, hσ, hprev, ih]
      rw [hb.2 b k _ cs vis, hb.2 b k _ cs vis']
  unfold specChains
  rw [hk, hseq]
  simp only [specChainsFork, hσ, hprev, hp]
  have : ((act.zip caps).map fun (x : Nat × List Value) => (x.1, c.σ.chain x.1 k (specPrev c vals x.1 k) x.2 vis)) =
      ((act.zip caps).map fun (x : Nat × List Value) => (x.1, c.σ.chain x.1 k (specPrev c vals x.1 k) x.2 vis')) := by
    apply List.map_congr_left
    intro x _
    rw [hb.2 x.1 k _ x.2 vis, hb.2 x.1 k _ x.2 vis']
  rw [this]

/-- **`let` does not change the result.**  Two invocations that differ only in which branches carry a `let` name, run
    against user code that does not read those names: same result, same events (up to the record of which names each
    capture saw), from every step on. -/
theorem loop_names_irrelevant (c c' : SpecCfg) (hσ : c'.σ = c.σ) (hch : c'.chains = c.chains) (hk : c'.kind = c.kind)
    (hp : c'.parent = c.parent) (hb : NameBlind c.σ) (rem k : Nat) (vals : List (Option Value)) :
    SameUpToNames (specLoop c rem k vals) (specLoop c' rem k vals) := by
  induction rem generalizing k vals with
  | zero =>
    rw [specLoop, specLoop]
    have hact : c'.active k = c.active k := by unfold SpecCfg.active SpecCfg.n SpecCfg.depth; rw [hch]
    simp only [hact]
    apply SameUpToNames.andThen (caps_all_blind c c' hσ hch hb k _ _ _)
    intro caps
    have := chains_blind c c' hσ hch hk hp hb k vals (visibleSpec c.names vals) (visibleSpec c'.names vals) (c.active k) caps
    unfold specChains at this
    rw [this]
    simp only [hk]
    exact SameUpToNames.refl _
  | succ rem ih =>
    rw [specLoop, specLoop]
    have hact : c'.active k = c.active k := by unfold SpecCfg.active SpecCfg.n SpecCfg.depth; rw [hch]
    simp only [hact]
    apply SameUpToNames.andThen (caps_all_blind c c' hσ hch hb k _ _ _)
    intro caps
    have := chains_blind c c' hσ hch hk hp hb k vals (visibleSpec c.names vals) (visibleSpec c'.names vals) (c.active k) caps
    unfold specChains at this
    rw [this]
    apply SameUpToNames.andThen (SameUpToNames.refl _)
    intro news
    simp only [hk]
    split
    · split
      · exact SameUpToNames.refl _
      · exact ih _ _
    · exact ih _ _

/-- the same for a whole invocation: `p'` is `p` with other (or no) `let` names -/
theorem let_result_invariant (σ : World) (parent : Option String) (p p' : Input) (kind : Kind) (hb : NameBlind σ)
    (hm : p'.branches.map (·.members) = p.branches.map (·.members)) (hh : p'.handler = p.handler) :
    (specRun σ parent p kind).res = (specRun σ parent p' kind).res := by
  have hch : p'.branches.map (fun b => splitSteps b.members) = p.branches.map (fun b => splitSteps b.members) := by
    have := congrArg (List.map splitSteps) hm
    simpa [List.map_map, Function.comp_def] using this
  rw [specRun_eq, specRun_eq]
  have hl := loop_names_irrelevant (cfgFor σ parent p kind) (cfgFor σ parent p' kind) rfl (by simp [cfgFor, hch]) rfl rfl hb
    ((cfgFor σ parent p kind).maxDepth - 1) 0 (List.replicate (cfgFor σ parent p kind).n none)
  have hmd : (cfgFor σ parent p' kind).maxDepth = (cfgFor σ parent p kind).maxDepth := by simp [cfgFor, SpecCfg.maxDepth, hch]
  have hn : (cfgFor σ parent p' kind).n = (cfgFor σ parent p kind).n := by simp [cfgFor, SpecCfg.n, hch]
  have hhd : handlerDefOf σ p' = handlerDefOf σ p := by simp [handlerDefOf, hh]
  simp only [loopOf, hmd, hn, hhd, hh]
  have h2 : SameUpToNames
      ((handlerDefOf σ p).andThen fun _ =>
        (specLoop (cfgFor σ parent p kind) ((cfgFor σ parent p kind).maxDepth - 1) 0
          (List.replicate (cfgFor σ parent p kind).n none)).andThen fun f =>
          specHandle (cfgFor σ parent p kind) (p.handler.map Prod.fst) f)
      ((handlerDefOf σ p).andThen fun _ =>
        (specLoop (cfgFor σ parent p' kind) ((cfgFor σ parent p kind).maxDepth - 1) 0
          (List.replicate (cfgFor σ parent p kind).n none)).andThen fun f =>
          specHandle (cfgFor σ parent p' kind) (p.handler.map Prod.fst) f) := by
    apply SameUpToNames.andThen (SameUpToNames.refl _)
    intro _
    apply SameUpToNames.andThen hl
    intro f
    have : specHandle (cfgFor σ parent p' kind) (p.handler.map Prod.fst) f =
        specHandle (cfgFor σ parent p kind) (p.handler.map Prod.fst) f := rfl
    rw [this]
    exact SameUpToNames.refl _
  exact h2.1


/-- **…and for the code the macro expands to**: two invocations whose branches and handler are the same token for token and
    which differ only in their `let` names (other names, fewer, none), against user code that does not read the names,
    expand to codes with the same outcome — value, failure or panic. -/
theorem generated_let_invariant (σ : World) (parent : Option String) (p p' : Input) (kind : Kind) (code code' : Code)
    (hb : NameBlind σ) (hm : p'.branches.map (·.members) = p.branches.map (·.members)) (hh : p'.handler = p.handler)
    (hs : Supported p kind) (hs' : Supported p' kind) (hgen : gen p kind = .ok code) (hgen' : gen p' kind = .ok code') :
    (evalCode σ parent code).res = (evalCode σ parent code').res := by
  rw [generated_eq_reference σ parent p kind code hs hgen, generated_eq_reference σ parent p' kind code' hs' hgen']
  exact let_result_invariant σ parent p p' kind hb hm hh

/-- Non-vacuity of `NameBlind`: a world whose user code ignores the names satisfies it; one whose chains look at the
    names in scope does not — the hypothesis of `let_result_invariant` separates the two. -/
def blindWorld : World where
  capture b k e i _ := .ok (.atom (b + k + e + i))
  chain b k _ _ _ := ⟨[], .ok (.succ (.atom (b + 10 * k)))⟩
  handlerDef := .ok ()
  handlerCall _ := .ok (.atom 0)
  joiner _ vs := .ok (mkTuple vs)

def readingWorld : World := { blindWorld with chain := fun _ _ _ _ vis => ⟨[], .ok (.succ (.atom vis.length))⟩ }

example : NameBlind blindWorld := ⟨fun _ _ _ _ _ => rfl, fun _ _ _ _ _ => rfl⟩

example : ¬ NameBlind readingWorld := by
  intro h
  have := h.2 0 0 none [] [("x", .atom 0)]
  simp [readingWorld] at this

/-- …and of `name_bound_to_latest`: branch 1 is named `x` and has produced 21. -/
example : ("x", Value.atom 21) ∈ visibleSpec [none, some "x"] [some (.atom 0), some (.atom 21)] :=
  name_bound_to_latest _ _ 1 "x" (.atom 21) rfl rfl

end JoinModel.Props.C12
