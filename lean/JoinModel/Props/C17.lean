/-
  C17 — internal names never clash; macros nest freely.

  `Var.render` (Names.lean) builds the identifier strings from the name-format table regenerated from
  join/name_constructors.rs on every run.  Here: rendering is injective on the internal names for *all* index
  values (two-digit indices included: the separator lemma is what rules out `__ew1_11_0` = `__ew11_1_0`), and every
  internal name starts with `__`.  Size independence of the results is the refinement theorem itself (no bound
  on branches / steps / operands); "nest freely" = every theorem is ∀ user world, an inner expansion being an
  opaque atom of the outer one, + closedness of the generated code (it never gets stuck on an unbound name).
-/
import Std.Data.String.ToNat
import JoinModel.Names
import JoinModel.Refinement
namespace JoinModel.Props.C17
open JoinModel

/-- decimal digits of an index -/
def digits (n : Nat) : List Char := Nat.toDigits 10 n

theorem digits_digit (n : Nat) : ∀ c ∈ digits n, c.isDigit = true :=
  fun _ hc => Nat.isDigit_of_mem_toDigits (by decide) (by decide) hc

theorem digits_inj {m n : Nat} (h : digits m = digits n) : m = n := by
  apply Nat.repr_injective
  apply String.toList_injective
  rw [Nat.toList_repr, Nat.toList_repr]
  exact h

theorem digits_ne_nil (n : Nat) : digits n ≠ [] := by
  intro h
  have : (Nat.repr n).toList = [] := by rw [Nat.toList_repr]; exact h
  have h2 : (Nat.repr n).isNat = true := Nat.isNat_repr n
  rw [String.isNat_iff] at h2
  exact h2.1 (String.toList_injective (by simpa using this))

/-- **Separator lemma.**  Digit strings followed by `_` split uniquely: the historical clash between
    (branch 1, action 11) and (branch 11, action 1) cannot happen. -/
theorem split_at_underscore (d1 d2 r1 r2 : List Char) (h1 : ∀ c ∈ d1, c.isDigit = true) (h2 : ∀ c ∈ d2, c.isDigit = true)
    (h : d1 ++ '_' :: r1 = d2 ++ '_' :: r2) : d1 = d2 ∧ r1 = r2 := by
  induction d1 generalizing d2 with
  | nil =>
    cases d2 with
    | nil => simpa using h
    | cons c cs =>
      simp only [List.nil_append, List.cons_append, List.cons.injEq] at h
      have := h2 c (by simp)
      rw [← h.1] at this
      exact absurd this (by decide)
  | cons c cs ih =>
    cases d2 with
    | nil =>
      simp only [List.nil_append, List.cons_append, List.cons.injEq] at h
      have := h1 c (by simp)
      rw [h.1] at this
      exact absurd this (by decide)
    | cons c' cs' =>
      simp only [List.cons_append, List.cons.injEq] at h
      obtain ⟨hc, ht⟩ := h
      obtain ⟨h3, h4⟩ := ih cs' (fun x hx => h1 x (by simp [hx])) (fun x hx => h2 x (by simp [hx])) ht
      exact ⟨by rw [hc, h3], h4⟩

/-- character form of every internal name -/
theorem render_chars :
    (∀ i, (Var.r i).render.toList = ['_', '_', 'r'] ++ digits i) ∧
    (∀ k, (Var.sr k).render.toList = ['_', '_', 's', 'r'] ++ digits k) ∧
    (∀ b, (Var.j b).render.toList = ['_', '_', 'j'] ++ digits b) ∧
    (∀ b e i, (Var.ew b e i).render.toList = ['_', '_', 'e', 'w'] ++ digits b ++ '_' :: digits e ++ '_' :: digits i) ∧
    Var.rs.render.toList = ['_', '_', 'r', 's'] ∧ Var.h.render.toList = ['_', '_', 'h'] ∧
    Var.v.render.toList = ['_', '_', 'v'] ∧ Var.inspect.render.toList = "__inspect".toList ∧
    Var.tb.render.toList = ['_', '_', 't', 'b'] ∧ Var.spawnTokio.render.toList = "__spawn_tokio".toList := by
  refine ⟨?_, ?_, ?_, ?_, by decide, by decide, by decide, by decide, by decide, by decide⟩
  · intro i; simp [Var.render, fmtName, Tables.fmtResult, String.toList_append, Nat.toList_repr, digits]
  · intro k; simp [Var.render, fmtName, Tables.fmtStepResults, String.toList_append, Nat.toList_repr, digits]
  · intro b; simp [Var.render, fmtName, Tables.fmtThreadBuilder, String.toList_append, Nat.toList_repr, digits]
  · intro b e i; simp [Var.render, fmtName, Tables.fmtExprWrapper, String.toList_append, Nat.toList_repr, digits]

/-- every internal name starts with `__`, so it cannot collide with a user name that does not -/
theorem internal_starts_with_underscores (x : Var) (hx : x.isInternal = true) :
    ∃ rest, x.render.toList = '_' :: '_' :: rest := by
  obtain ⟨h1, h2, h3, h4, h5, h6, h7, h8, h9, h10⟩ := render_chars
  cases x with
  | user s => simp [Var.isInternal] at hx
  | r i => exact ⟨_, by rw [h1]; rfl⟩
  | sr k => exact ⟨_, by rw [h2]; rfl⟩
  | j b => exact ⟨_, by rw [h3]; rfl⟩
  | ew b e i => exact ⟨_, by rw [h4]; rfl⟩
  | rs => exact ⟨_, by rw [h5]⟩
  | h => exact ⟨_, by rw [h6]⟩
  | v => exact ⟨_, by rw [h7]⟩
  | inspect => exact ⟨_, by rw [h8]; rfl⟩
  | tb => exact ⟨_, by rw [h9]⟩
  | spawnTokio => exact ⟨_, by rw [h10]; rfl⟩

private theorem digit_head {n : Nat} {c : Char} {rest : List Char} (h : digits n = c :: rest) : c.isDigit = true :=
  digits_digit n c (by rw [h]; simp)

/-- **Rendering is injective on internal names**, for all indices. -/
theorem name_render_injective (x y : Var) (hx : x.isInternal = true) (hy : y.isInternal = true)
    (h : x.render = y.render) : x = y := by
  obtain ⟨h1, h2, h3, h4, h5, h6, h7, h8, h9, h10⟩ := render_chars
  have hl := congrArg String.toList h
  cases x <;> cases y
  all_goals (try (simp [Var.isInternal] at hx hy; done))
  all_goals (try rfl)
  all_goals (try simp only [h1, h2, h3, h4, h5, h6, h7, h8, h9, h10] at hl)
  all_goals (try (exfalso; revert hl; simp; done))
  case r.r i j => have : i = j := digits_inj (by simpa using hl); rw [this]
  case sr.sr i j => have : i = j := digits_inj (by simpa using hl); rw [this]
  case j.j i j => have : i = j := digits_inj (by simpa using hl); rw [this]
  case r.rs i =>
    exfalso
    have : digits i = ['s'] := by simpa using hl
    exact absurd (digit_head this) (by decide)
  case rs.r i =>
    exfalso
    have : digits i = ['s'] := by simpa using hl.symm
    exact absurd (digit_head this) (by decide)
  case ew.ew b e i b' e' i' =>
    have h0 : digits b ++ '_' :: (digits e ++ '_' :: digits i) = digits b' ++ '_' :: (digits e' ++ '_' :: digits i') := by
      simpa [List.append_assoc] using hl
    obtain ⟨hb, hrest⟩ := split_at_underscore _ _ _ _ (digits_digit b) (digits_digit b') h0
    obtain ⟨he, hi⟩ := split_at_underscore _ _ _ _ (digits_digit e) (digits_digit e') hrest
    rw [digits_inj hb, digits_inj he, digits_inj hi]

/-- the clash that once existed: (branch 1, action 11, operand 0) vs (branch 11, action 1, operand 0) -/
example : (Var.ew 1 11 0).render ≠ (Var.ew 11 1 0).render := by decide

/-- Closedness / "macros nest freely": the generated code never gets stuck on an unbound internal name and needs
    nothing from its environment — its meaning is the reference semantics, in which an inner expansion is just
    part of the opaque user world. -/
theorem generated_closed (σ : World) (parent : Option String) (p : Input) (kind : Kind) (code : Code)
    (hs : Supported p kind) (hgen : gen p kind = .ok code) :
    evalCode σ parent code = specRun σ parent p kind := sync_refines σ parent p kind code hs hgen

end JoinModel.Props.C17
