#!/bin/bash
cd /verif
for r in "$@"; do
  git -C /repo apply /verif/harmless/$r/patch.diff || { echo "$r: patch does not apply"; continue; }
  line="$r:"
  for i in 01 02 03 04 05 06 07 08 09 10 11 12 13 14 15 16 17 18 19 20; do ./check C$i > /tmp/h_${r}_C$i.log 2>&1; rc=$?; line="$line C$i=$rc"; done
  echo "$line"
  git -C /repo checkout -- . && git -C /repo clean -fdq join join_impl
done
python3 tools/extract_tables.py > /dev/null
