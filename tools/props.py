"""Per-property check definitions and the common pipeline (DESIGN.md §6, §7)."""
import collections
import glob
import hashlib
import json
import os
import re
import time

import gen_cases as G
import k1
import runner
from runner import Outcome

TRUSTED_BASE = [
    "Lean 4.33.0 kernel; axioms allowed in property theorems: propext, Classical.choice, Quot.sound (audited with #print axioms on every run)",
    "tools/extract_tables.py (translator of the table-like code) and the harness that runs the real join_impl/join code",
    "hand-written Lean model of parser/generator tied to /repo by K1 (differential, token-for-token) on generated inputs",
    "semantics of the emitted Rust constructs (Sem) and of std/futures/tokio is modelled, validated by K2 against rustc-compiled executions",
    "syn/quote/proc_macro2/rustc are outside the model (syn enters as an oracle; lexing is done by the harness)",
]

CORPUS = os.path.join(runner.ROOT, "corpus")


def corpus_cases():
    out = []
    for p in sorted(glob.glob(os.path.join(CORPUS, "*.case"))):
        with open(p) as f:
            for n, line in enumerate(f):
                line = line.rstrip("\n")
                if not line or line.startswith("#"):
                    continue
                kind, src = line.split("\t", 1)
                out.append(("corpus:%s:%d" % (os.path.basename(p), n), kind, src, "corpus"))
    return out


def struct_shape(structure):
    """Shape of a parsed program with literals and identifiers stripped (for distinctness counting)."""
    s = re.sub(r"[il]:\S+", "x", structure)
    return hashlib.sha1(s.encode()).hexdigest()


class Ctx:
    """What the common pipeline hands to a property's own steps."""

    def __init__(self, pid, tier, seed, out):
        self.pid, self.tier, self.seed, self.out = pid, tier, seed, out
        self.rng = G.Rng(seed * 1000003 + int(pid[1:]))
        self.broken = []          # (what, detail) proof obligations / correspondences that no longer check
        self.k1_reals = []
        self.k1_compared = 0
        self.k1_diffs = []
        self.dist = collections.Counter()
        self.shapes = set()
        self.evals = 0

    def quick(self):
        return self.tier != "thorough"

    def n(self, quick_n, thorough_n):
        """Size of a batch: the quick size, or the thorough size times VERIF_THOROUGH_SCALE (default 3)."""
        if self.quick():
            return quick_n
        return thorough_n * max(1, int(os.environ.get("VERIF_THOROUGH_SCALE", "3")))

    # ---- K1 -----------------------------------------------------------------------------------
    def k1(self, cases, footprint=None):
        """Run real + model on cases; records diffs (restricted to `footprint(diff) -> bool` when given)."""
        cases = corpus_cases() + cases
        reals = k1.run_real(cases)
        n, diffs = k1.compare_gen(reals)
        self.k1_reals += reals
        self.k1_compared += n
        self.evals += len(cases)
        for r in reals:
            self.dist["family:" + r.family] += 1
            self.dist["parse:" + (r.parse if r.parse in ("ok", "lexerr") else r.parse.split(":")[1] if ":" in r.parse else r.parse)] += 1
            if r.parse == "ok":
                self.dist["gen:" + k1.outcome_class(r.gen)] += 1
                if " ,, M " in r.structure.split(" ;; ", 2)[-1].replace("M Initial", "", 1) or r.structure.count(" ;; B") > 1:
                    self.shapes.add(r.kind + struct_shape(r.structure))
        kept = [d for d in diffs if footprint is None or footprint(d)]
        self.out.coverage.setdefault("k1_drift_outside_footprint", 0)
        self.out.coverage["k1_drift_outside_footprint"] += len(diffs) - len(kept)
        self.k1_diffs += kept
        if kept:
            self.broken.append(("K1 generator correspondence", [d.to_json() for d in kept[:5]]))
        return reals, kept


ASSUMPTIONS_COMMON = [
    "Lean 4.33.0 kernel; the theorems depend on no axiom beyond propext, Classical.choice, Quot.sound (audited on this run)",
    "the Lean model of the parser and the generator is hand-written: it is tied to /repo by the translated tables and by the differential "
    "runs of this check (K1 tokens, K1-parse), which sample inputs - they do not prove the model equal to the code",
    "syn is an oracle: its answers for every compared input come from the real syn; theorems quantify over all oracles",
    "Sem (the semantics given to the emitted Rust constructs) is validated against rustc-compiled executions (K2), not derived from rustc",
]
ASSUMPTIONS = {
    "C01": ["rustc's type checker is not modelled: 'a well-typed chain compiles' is decided by compiling generated chains (K2-chains)"],
    "C03": ["OS thread scheduling is the relation Lin (threads run their bodies in order; join returns after the thread finished)",
            "async: rustc's async/.await and futures::join!/try_join! behave like Plan.poll / pollStep (checked per poll by K2-async)"],
    "C05": ["async try macros: which of several failing chains is returned depends on the schedule (stated as such in the theorems)"],
    "C07": ["tokio's task scheduling is outside the model; agreement of the task-spawning kinds is validated on a current-thread runtime"],
    "C08": ["OS thread scheduling is the relation Lin; std::thread::Builder::spawn/join and thread naming are modelled, validated by K2"],
    "C09": ["rustc's async/.await and futures::join!/try_join! behave like Plan.poll / pollStep (checked per poll by K2-async on a deterministic "
            "executor); tokio's scheduler is outside the model (batch-level comparison on a current-thread runtime)"],
    "C10": ["rustc's move semantics are outside Lean: drops / moves are measured by the cost program"],
    "C14": ["operands are characterised by what syn answers about their token prefixes (hypotheses OperandOK / ItemOK of the round-trip theorems)"],
    "C15": ["'valid Rust' = accepted by syn::parse2::<Expr>, not by rustc; syn rejects the empty token stream as an expression (checked on this run)"],
    "C18": ["tokio turns a panicking task into a JoinError (template __spawn_tokio); real unwinding is exercised by K2 panic injection"],
    "C19": ["allocation and Clone freedom are measured by the cost program (counting allocator, drop counters), not proved; rustc's borrow checker is not modelled"],
    "C20": ["purity of the implementation is sampled: in-process histories (reversed, interleaved, fresh threads, 8 threads) plus a source audit for hidden state; "
            "across processes it is not exercised"],
}


def base_pipeline(pid, tier, seed, module, body):
    """Common steps 1, 2, 5 around a property's own K1/K2 body."""
    out = Outcome(pid, tier, seed)
    out.assumptions = ASSUMPTIONS_COMMON + ASSUMPTIONS.get(pid, [])
    ctx = Ctx(pid, tier, seed, out)
    # checks of different properties may run at the same time: the shared preparation (harness build, translator, lake
    # build and axiom audit in the one Lean package) is done by one process at a time
    import fcntl
    os.makedirs(runner.BUILD, exist_ok=True)
    prep_lock = open(os.path.join(runner.BUILD, ".prep.lock"), "w")
    fcntl.flock(prep_lock, fcntl.LOCK_EX)
    ok, log = runner.build_harness()
    if not ok:
        ctx.broken.append(("harness build against /repo", log[-1500:]))
    okx, msg, summary = runner.extract_tables()
    if not okx:
        ctx.broken.append(("translator tools/extract_tables.py", msg))
    out.coverage["table_hashes"] = summary
    fallback = (summary or {}).get("fallback") or {}
    okm, logm = runner.lake_build(["joinmodel"])
    if not okm:
        ctx.broken.append(("lake build joinmodel (model no longer type-checks against the regenerated tables)", errlines(logm)))
    okp, logp = runner.lake_build([module])
    names = runner.theorem_names(module)
    discharged = 0
    axioms = {}
    if okp:
        oka, axioms, alog = runner.audit_axioms(module, names)
        if oka:
            discharged = len(names)
        else:
            discharged = sum(1 for n in names if n in axioms and set(axioms[n]) <= runner.ALLOWED_AXIOMS)
            ctx.broken.append(("axiom audit of " + module, alog[-1500:]))
    else:
        ctx.broken.append(("lake build %s (proof obligations)" % module, errlines(logp)))
    fcntl.flock(prep_lock, fcntl.LOCK_UN)
    prep_lock.close()
    hits = runner.forbidden_scan()
    if hits:
        ctx.broken.append(("forbidden constructs in Lean sources", hits))
    if tier == "thorough" and okp:
        okc, clog = runner.leanchecker([module])
        out.coverage["leanchecker"] = "ok" if okc else clog
        if not okc:
            ctx.broken.append(("leanchecker " + module, clog))
    out.coverage.update({
        "obligations": len(names),
        "discharged": discharged,
        "checker_cmd": "cd lean && lake build %s && lake env lean <#print axioms audit>%s" % (
            module, " && lake env leanchecker " + module if tier == "thorough" else ""),
        "trusted_base": TRUSTED_BASE,
        "theorems": {n.split(".")[-1]: axioms.get(n, None) for n in names},
    })
    if ok and okm and fallback:
        # some table could not be regenerated from the source text (the code was restructured): the last generated table
        # is kept and has to agree with the running code on the whole table battery — the tie by correspondence
        table_battery(ctx, fallback)
    if ok and okm:
        body(ctx)
    # ---- no failing input found for something that no longer checks ------------------------------
    if ctx.broken and not out.violations and not out.known_lines:
        out.violation({"no_longer_checks": [{"what": w, "detail": d} for w, d in ctx.broken],
                       "note": "the property is no longer shown to hold; the search found no concrete failing input"},
                      found_input=False)
    out.coverage["evaluations"] = ctx.evals
    out.coverage["distinct_nontrivial"] = len(ctx.shapes)
    out.coverage["input_distribution"] = dict(ctx.dist)
    out.coverage["k1_compared"] = ctx.k1_compared
    out.coverage["k1_differences"] = len(ctx.k1_diffs)
    if not out.coverage["samples"]:
        out.coverage["samples"] = [{"kind": r.kind, "source": r.src} for r in ctx.k1_reals[:3]] or [names[:3]]
    return out.finish("proof")


def errlines(log):
    ls = [l for l in log.splitlines() if "error" in l.lower()]
    return ls[:12] if ls else log[-1200:]


def sample_kinds(rng, n):
    return [rng.pick(G.KINDS) for _ in range(n)]


def mk_cases(items, start=0):
    """items: (kind, src, family)"""
    return [("k%d" % (start + i), k, s, f) for i, (k, s, f) in enumerate(items)]


def random_items(ctx, n, simple_ratio=(1, 2), mutated=True):
    items = []
    for _ in range(n):
        k = ctx.rng.pick(G.KINDS)
        s = G.random_program(ctx.rng, k, simple=ctx.rng.chance(*simple_ratio))
        items.append((k, s, "random"))
        if mutated and ctx.rng.chance(1, 5):
            items.append((k, G.mutate(ctx.rng, s), "mutated"))
    return items


# ------------------------------------------------------------------------------------------------
# C07


# identifiers of the generated K1 inputs (they reach the output as user tokens, not as names the expansion writes)
HYG_INPUT_WORDS = set("a b c f g h q v x y z p mk foo flag field init inner unwrap iter map conv u8 u16 n0 n1 n2 n3 n4 n5 my fut".split())


def body_C07(ctx):
    # every generated program under the kinds of all twelve names; aliases must give identical real output
    rng = ctx.rng
    n = ctx.n(60, 600)
    progs = [G.random_program(rng, "a1t1s1", simple=True) for _ in range(n)]
    progs += [s for s, _ in G.fam_profiles(3, 3)][:: (ctx.n(4, 1))]
    items = []
    for s in progs:
        for k in G.KINDS:
            items.append((k, s, "all-kinds"))
    ctx.k1(mk_cases(items))
    ctx.out.coverage["rule"] = ("random and depth-profile programs expanded under all 8 configurations (the 12 names map to them "
                                "through the extracted table T10); non-trivial = parsed, with ≥1 operator or ≥2 branches; "
                                "distinct = distinct program shape (literals and identifiers stripped) per configuration")
    # K2: every one of the twelve names on instrumented programs (values, events, thread names / tasks vs the reference
    # semantics of the name's documented configuration) - an alias that is not its macro shows here with a concrete program
    import k2
    import k2async
    kprogs = []
    for kind in SYNC_KINDS:
        for name in k2.NAMES[kind]:
            for _ in range(ctx.n(8, 80)):
                kprogs.append(k2.gen_scaffold(rng, "al%d" % len(kprogs), kind, name=name, max_branches=4, max_depth=3, fail_rate=(1, 8)))
    run_k2(ctx, kprogs)
    k2async.body(ctx, n=ctx.n(32, 320))
    # the task-spawning kinds on programs in which nothing fails: a third of them is executed twice, the second time on a new tokio
    # runtime, and must return what it returned the first time (and what the plain kinds return: the reference semantics)
    k2async.body(ctx, kinds=("a1t0s1", "a1t1s1"), n=ctx.n(18, 180), fail_rate=(0, 1))
    # several failures in one step and no pending point anywhere: the plain async try macro returns the first failing branch's
    # failure (every chain is ready when first polled), so its task-spawning counterpart must return exactly that one too
    k2async.body(ctx, kinds=("a1t1s0", "a1t1s1", "a1t1s1"), n=ctx.n(24, 240), fail_rate=(1, 2), handler_rate=(0, 1), max_branches=4,
                 max_depth=2, no_gates=True)
    # hygiene: user code inside a macro body that refers to a caller's variable whose name is one the expansion itself writes
    # (the spawning variants write more of them: thread builders, task helpers) must see the caller's variable in all twelve macros
    outs = [r.out for r in ctx.k1_reals if r.gen == "ok"]
    cands = k2.bound_name_candidates(outs, input_words=HYG_INPUT_WORDS)
    if ctx.quick():
        cands = [c for c in cands if k2.in_binding_position(c, outs)]
    nh = k2.run_hygiene_programs(ctx, cands)
    ctx.out.coverage["hygiene"] = {"candidate_names": cands, "programs": nh}
    for name in sorted(set(n for ns in k2.NAMES.values() for n in ns)):
        ctx.dist["k2:" + name] += 0


def body_C20(ctx):
    rng = ctx.rng
    n = ctx.n(400, 4000)
    items = random_items(ctx, n)
    items += [(rng.pick(G.KINDS), s, "malformed") for s in G.MALFORMED]
    # large indices in every name position next to small programs that use the small indices: a cache or packing of names
    # that is exact only below some bound shows as history dependence (12/24/130 branches, 104 steps, 104 and 300 actions)
    big = list(G.fam_large()) + ["a " + " ".join("|> { b%d }" % i for i in range(300)),
                                 "x, { b } |> g", "{ a0 }, { a1 } ~|> { c1 }, y |> { d2 }"]
    items += [(k, s, "large") for s in big for k in ("a0t0s0", "a1t1s1")]
    cases = mk_cases(items)
    reals, _ = ctx.k1(cases)
    # implementation-side oracle: repeated / shuffled / interleaved / concurrent expansion
    inp = "".join("%s\t%s\t%s\n" % (c[0], c[1], c[2]) for c in cases)
    rc, out, err = runner.sh([runner.HARNESS, "purity"], input=inp)
    if rc != 0:
        ctx.broken.append(("harness purity mode", err[-800:]))
        return
    by_id = {c[0]: c for c in cases}
    total = 0
    for line in out.splitlines():
        cid, verdict, cnt = line.split("\t")
        total += int(cnt)
        if verdict != "same":
            c = by_id[cid]
            ctx.out.violation({"macro_kind": c[1], "source": c[2],
                               "what": "the same invocation expanded to different outputs within one process",
                               "history": "first; reversed order; each in a brand-new thread; interleaved with two other inputs (2 rounds); 8 threads concurrently",
                               "replay_cmd": "./check C20 --replay <this file>"}, found_input=True,
                              signature="impure:" + hashlib.sha1(c[2].encode()).hexdigest()[:8])
    ctx.evals += total
    ctx.out.coverage["expansions_in_histories"] = total
    audit = source_audit()
    ctx.out.coverage["source_audit"] = audit
    if audit["hits"]:
        ctx.broken.append(("source audit: hidden-state constructs in join_impl/join", audit["hits"]))
    ctx.out.coverage["rule"] = ("random, mutated and malformed inputs; each expanded 14+ times (reversed order, interleaved, "
                                "8 threads) and compared with its first expansion and with the pure model's output")


STATE_PATTERNS = re.compile(
    r"\bstatic\s+(?:mut\s+)?[A-Z_]+\s*:|thread_local!|lazy_static!|\b(?:Ref)?Cell<|\bMutex<|\bRwLock<|\bAtomic[A-Z]\w*|"
    r"\bHash(?:Map|Set)\b|std::env\b|\bSystemTime\b|\bInstant::|\brand::|\bOnceCell\b|\bOnceLock\b|\bLazyLock\b")


def source_audit():
    hits = []
    files = 0
    for base in ("join_impl/src", "join/src"):
        for dp, _, fns in os.walk(os.path.join(runner.REPO, base)):
            for fn in fns:
                if fn.endswith(".rs"):
                    files += 1
                    with open(os.path.join(dp, fn)) as f:
                        text = f.read()
                    text = re.sub(r"//[^\n]*", "", text)
                    for m in STATE_PATTERNS.finditer(text):
                        hits.append("%s: %s" % (os.path.relpath(os.path.join(dp, fn), runner.REPO), m.group(0)))
    return {"files": files, "hits": hits}


def scaffold_batch(ctx, kinds, n, **kw):
    import k2
    progs = [k2.gen_scaffold(ctx.rng, "p%d" % i, ctx.rng.pick(kinds), **kw) for i in range(n)]
    # a few programs far beyond the random sizes (9-14 branches, up to 12 steps): behaviour that changes only from some number of
    # branches / steps / actions on shows here with a program, not only as a token difference
    kwb = {k: v for k, v in kw.items() if k not in ("max_branches", "max_depth", "profile", "fail_rate")}
    fr = kw.get("fail_rate", (1, 6))
    for i in range(ctx.n(2, 10)):
        nb = 9 + ctx.rng.below(6)
        prof = [1 + ctx.rng.below(12 if ctx.rng.chance(1, 3) else 5) for _ in range(nb)]
        progs.append(k2.gen_scaffold(ctx.rng, "big%d" % i, ctx.rng.pick(kinds), profile=prof,
                                     fail_rate=(fr[0], fr[1] * 8) if fr[0] else fr, **kwb))
    # ... and a few with very long steps (11-16 actions in one step of one branch, most of them with block operands): what depends on
    # an action's position in its step (two-digit positions in the generated names)
    kwl = {k: v for k, v in kwb.items() if k not in ("block_rate", "wrap_rate")}
    for i in range(ctx.n(2, 8)):
        progs.append(k2.gen_scaffold(ctx.rng, "long%d" % i, ctx.rng.pick(kinds), profile=[1 + ctx.rng.below(2) for _ in range(1 + ctx.rng.below(2))],
                                     fail_rate=(0, 1), block_rate=(3, 4), step_len=(11, 16), **kwl))
    return progs


def run_k2(ctx, progs, crate="k2sync"):
    import k2
    res = k2.run_programs(ctx, progs, crate=crate)
    n_bad = k2.report(ctx, res)
    for (p, problems, rl, sl) in res[:2]:
        if p is not None:
            ctx.out.coverage["samples"].append({"program": p.invocation(), "observed": rl[:300]})
    for (p, problems, rl, sl) in res:
        if p is not None:
            ctx.shapes.add(p.kind + struct_shape(re.sub(r"\d+", "0", p.macro_input())))
            ctx.dist["k2:" + p.name] += 1
            ctx.dist["k2:depths:" + "-".join(str(p.depth(b)) for b in range(len(p.branches)))] += 0
    ctx.out.coverage["traces_validated_against_impl"] = ctx.out.coverage.get("traces_validated_against_impl", 0) + sum(1 for r in res if r[0] is not None)
    return res


def body_C05(ctx):
    import k2
    n = ctx.n(150, 1500)
    # random try programs with raised failure rate, differing depths (the profile space where D1 lived)
    progs = scaffold_batch(ctx, ["a0t1s0", "a0t1s1"], n, fail_rate=(1, 4), max_depth=4, handler_rate=(1, 3))
    # all placements of one or two failures over small profiles
    profiles = [(1, 2), (2, 1), (1, 3, 3), (2, 1, 3), (3, 2, 1), (1, 1, 2), (2, 3)] if ctx.quick() else \
        [pr for nb in (2, 3) for pr in __import__("itertools").product((1, 2, 3), repeat=nb)]
    i = 0
    for prof in profiles:
        cells = [(b, k) for b in range(len(prof)) for k in range(prof[b])]
        for fc in cells:
            for kind in ("a0t1s0", "a0t1s1"):
                p = k2.gen_scaffold(ctx.rng, "q%d" % i, kind, profile=prof, fail_rate=(0, 1), block_rate=(0, 1), handler_rate=(0, 1))
                i += 1
                # force a failure exactly in cell fc: first op of that (branch, step) that can fail
                st = p.steps(fc[0])[fc[1]]
                st[0].mode = "init" if fc[1] == 0 else "andThen"
                st[0].out = ("fail", 7 + fc[0])
                progs.append(p)
    # two failures in the same step (every pair of branches active in it, the last step and earlier ones): the failure of the
    # lower-numbered branch is the one returned, unchanged
    pair_profiles = [(1, 1), (2, 2), (1, 1, 1), (2, 1, 2), (2, 2, 2), (1, 2, 2), (3, 3, 1)] if ctx.quick() else \
        [pr for nb in (2, 3, 4) for pr in __import__("itertools").product((1, 2, 3), repeat=nb)][::2]
    for prof in pair_profiles:
        for k in range(max(prof)):
            act = [b for b in range(len(prof)) if prof[b] > k]
            for x in range(len(act)):
                for y in range(x + 1, len(act)):
                    kind = ("a0t1s0", "a0t1s1")[i % 2]
                    p = k2.gen_scaffold(ctx.rng, "d%d" % i, kind, profile=prof, fail_rate=(0, 1), block_rate=(0, 1), handler_rate=(1, 3))
                    i += 1
                    for b in (act[x], act[y]):
                        st = p.steps(b)[k]
                        st[0].mode = "init" if k == 0 else "andThen"
                        st[0].out = ("fail", 20 + b)
                    progs.append(p)
    run_k2(ctx, progs)
    ctx.out.coverage["rule"] = ("try macros (sequential and thread-spawning): random instrumented programs with failure rate 1/4 over "
                                "differing depth profiles + every single-failure placement and every pair of failures in one step over the listed profiles; compiled with the "
                                "real macros and compared (value, event order, thread names) with the Lean reference semantics and with "
                                "the semantics of the model's generated code; distinct = program text with numbers erased")


# structurally invalid inputs (property C15) and why; every one must be rejected (parse error or configuration rejection)
INVALID = [
    ("", "no branch"), (",", "empty branch"), ("a,,b", "empty branch"), ("a, ,b", "empty branch"),
    ("map => |a| a", "no branch (handler only)"),
    ("a <<<", "<<< without >>>"), ("a |> f <<<", "<<< without >>>"), ("a |> >>> <<< <<<", "<<< without >>>"),
    ("a |> >>> |> f ~<<< |> g", "<<< without a matching >>> in the same step"),
    ("a => >>> ~<<<", "<<< without a matching >>> in the same step"),
    ("a |> >>> ~|> b <<< |> c", "<<< without a matching >>> in the same step"),
    ("a, b ?? >>> ~=> >>> ..x() ~<<< <<<", "<<< without a matching >>> in the same step"),
    ("a .. >>> b", ">>> after a non-wrapper operator"), ("a -> >>> f", ">>> after a non-wrapper operator"),
    ("a ^@ >>> x, y", ">>> after a non-wrapper operator"), ("a =>[] >>> |> f", ">>> after a non-wrapper operator"),
    ("a |n> >>> |> f", ">>> after a non-wrapper operator"), ("a <| >>> b", ">>> after a non-wrapper operator"),
    ("a <<< >>>", ">>> combined with <<<"), ("a |> >>> <<< >>> |> f", ">>> combined with <<<"),
    # an operator between an operand of a multi-operand operator and the comma that separates it from the next operand
    ("a ^@ x <<< , f", "<<< without >>> (between the operands of `^@`)"), ("a ^@ x |> , f", "operator without operand in front of `,`"),
    ("a ^@ x ~=> >>> , f", "operator in front of the `,` between two operands"), ("a ?^@ x <| , f", "operator in front of the `,` between two operands"),
    ("a <-> A, B |> , C, D", "operator in front of the `,` between two operands"), ("a |> >>> ^@ x <<< , f <<<", "<<< between the operands of `^@`"),
    ("let (a, b) = x", "non-identifier let pattern"), ("let Some(a) = x |> f", "non-identifier let pattern"),
    ("let _ = x, y", "non-identifier let pattern"), ("a, let (p, q) = b ~|> f", "non-identifier let pattern"),
    # …also when the `let` is not the branch's first token: behind a stray `~` (dropped by the scan) or an outer attribute
    ("~ let (a, b) = x |> f", "non-identifier let pattern behind a stray ~"), ("a, ~ let _ = y", "non-identifier let pattern behind a stray ~"),
    ("~ let Some(v) = p", "non-identifier let pattern behind a stray ~"), ("a |> f, ~ ~ let (p, q) = b ~|> f", "non-identifier let pattern behind ~ ~"),
    ("#[allow(unused)] let (a, b) = x", "non-identifier let pattern behind an attribute"),
    ("a, #[cfg(all())] let _ = y |> f", "non-identifier let pattern behind an attribute"),
]


def dup_option_inputs():
    import itertools
    names = ["fcp", "joiner", "transpose", "lazy"]
    out = []
    for r in (1, 2, 3, 4):
        for sub in itertools.permutations(names, r):
            for n in sub:
                for pos in range(r + 1):
                    opts = [G.OPTION_SRC[x][0] for x in sub]
                    opts.insert(pos, G.OPTION_SRC[n][-1])
                    out.append((" ".join(opts) + " a ~|> f, b", "option %s given twice" % n))
                    if r == 4:
                        out.append((" ".join(opts) + ", a ~|> f, b", "option %s given twice" % n))
                        out.append((" ".join(opts) + " |> g, a", "option %s given twice" % n))
    return out


RUST_KEYWORDS = set("""as break const continue crate else enum extern false fn for if impl in let loop match mod move mut pub
ref return self Self static struct super trait true type unsafe use where while async await dyn abstract become box do final
macro override priv typeof unsized virtual yield try""".split())


def keyword_pattern(structure):
    """syn 1.x parses `let mut <keyword> = …` as an identifier pattern; such input is outside the DSL vocabulary."""
    return any(m in RUST_KEYWORDS for m in re.findall(r"pat :: [^;]*? :: i:(\S+)", structure))


def judge_total(ctx, r, must_reject=None):
    """C15 oracle on one real expansion.  Returns a violation description or None."""
    if r.parse.startswith("panic:") and "CfgReject" not in r.parse:
        return "the parser panicked: " + r.parse
    if r.parse == "ok" and r.dot_ok == "0":
        return None     # outside the property's quantifier: a member-access operand that is not a member access
    if r.parse == "ok" and k1.outcome_class(r.gen) == "internal":
        return "the generator died with an internal panic: " + r.gen
    if r.parse == "ok" and r.gen == "ok" and r.valid == "0" and not keyword_pattern(r.structure):
        return "the emitted tokens are not a syntactically valid Rust expression (syn::parse2::<Expr> rejects them)"
    if must_reject and r.parse == "ok" and r.gen == "ok":
        return "structurally invalid input (%s) was accepted silently" % must_reject
    if must_reject and r.parse == "ok":
        # the parser has a diagnostic for each of these; getting past it means the user sees the generator's `unwrap()`
        # panic (or nothing) instead of the message
        return ("structurally invalid input (%s) got past the parser's diagnostic; the generator then ended with: %s"
                % (must_reject, r.gen[:120]))
    return None


def body_C15(ctx):
    rng = ctx.rng
    n = ctx.n(1500, 20000)
    items = []
    must = {}
    for src, why in INVALID + dup_option_inputs():
        for k in (G.KINDS if not ctx.quick() else ["a1t1s1", "a1t0s0", rng.pick(G.KINDS)]):
            must[(k, src)] = why
            items.append((k, src, "invalid"))
    for s in G.MALFORMED:
        items.append((rng.pick(G.KINDS), s, "malformed"))
    for _ in range(n):
        k = rng.pick(G.KINDS)
        s = G.random_program(rng, k, simple=rng.chance(1, 2))
        items.append((k, s, "random"))
        for _ in range(2):
            items.append((k, G.mutate(rng, s), "mutated"))
            s = G.mutate(rng, s)
    cases = mk_cases(items)
    reals, _ = ctx.k1(cases)
    seen = set()
    for r in reals:
        why = judge_total(ctx, r, must.get((r.kind, r.src)))
        if why:
            sig = re.sub(r"[^a-z]+", "-", why.lower())[:60]
            if sig in seen and len(seen) > 0:
                continue
            seen.add(sig)
            ctx.out.violation({"macro_kind": r.kind, "source": r.src, "what": why, "real_parse": r.parse, "real_gen": r.gen,
                               "replay_cmd": "./check C15 --replay <this file>"}, found_input=True, signature=None)
    # the parser model behind `expansion_total` / `expansion_terminates` (Props/C15) vs the real parser, with syn's answers:
    # the invalid list, the malformed list and mutated programs (outcome class and structure)
    sub = [c for c in cases if c[3] in ("invalid", "malformed")] + [c for c in cases if c[3] == "mutated"][:ctx.n(600, 6000)]
    preals = k1.run_real(sub, with_oracle=True)
    np_, pdiffs = k1.compare_parse(preals)
    ctx.out.coverage["k1_parse_compared"] = np_
    for r in preals:
        ctx.dist["parse:" + k1.parse_class(r.parse)] += 1
    if pdiffs:
        ctx.broken.append(("K1-parse: parser model (Parse.lean) vs real parser", [dict(d.to_json(), model=(d.model_out or "")[:600]) for d in pdiffs[:3]]))
    # premise of `expansion_terminates`: syn does not accept the empty token stream as an expression
    rc, outp, err = runner.sh([runner.HARNESS, "synfacts"])
    facts = dict(l.split("\t") for l in outp.splitlines() if "\t" in l)
    ctx.out.coverage["syn_facts"] = facts
    if rc != 0 or facts.get("empty_expr_valid") != "false":
        ctx.broken.append(("premise of expansion_terminates: syn::parse2::<Expr>(empty) must fail", outp + err[-300:]))
    ctx.out.coverage["rule"] = ("structurally invalid inputs of the property's list (all must be rejected), duplicated options at every "
                                "position of every option permutation, hand-written malformed inputs, random programs and 2 rounds of token "
                                "mutations; oracle on the real expander: no panic other than the 4 whitelisted configuration rejections, "
                                "accepted output parses as syn::Expr; every case also compared with the model's outcome class and tokens; "
                                "K1-parse: the parser model, given syn's answers, vs the real parser on the invalid / malformed / mutated inputs")


SYNC_KINDS = ["a0t0s0", "a0t1s0", "a0t0s1", "a0t1s1"]


def body_C03(ctx):
    n = ctx.n(160, 1600)
    progs = scaffold_batch(ctx, SYNC_KINDS, n, max_depth=4, max_branches=4, fail_rate=(1, 12), handler_rate=(1, 4), wrap_rate=(1, 4))
    import k2
    i = 0
    for prof in ([(1, 2), (2, 2), (3, 1, 2), (1, 3, 3), (2, 3, 1, 4)] if ctx.quick() else
                 [pr for nb in (1, 2, 3) for pr in __import__("itertools").product((1, 2, 3, 4), repeat=nb)]):
        for kind in SYNC_KINDS:
            progs.append(k2.gen_scaffold(ctx.rng, "q%d" % i, kind, profile=prof, fail_rate=(0, 1), block_rate=(1, 2), wrap_rate=(1, 3)))
            i += 1
    run_k2(ctx, progs)
    # every `~` starts a step: `~` in front of every operator (operand-less ones included) and every wrapper, through the
    # real parser — the member must come back deferred (the generator's step split is tied to the structure by K1)
    import roundtrip as R
    tprogs = R.tilde_progs()
    treals, tbad = R.run(ctx, tprogs, kinds=G.KINDS)
    for (p, r, exp) in tbad:
        want = len(re.findall(r" M \w+ D ", exp))
        got = len(re.findall(r" M \w+ D ", k1.unspace(r.structure))) if r.parse == "ok" else -1
        ctx.out.violation({"macro_kind": r.kind, "source": p.render(), "real_parse": r.parse, "deferred_members_written": want,
                           "deferred_members_parsed": got,
                           "what": ("a `~` did not start a new step: the operator it stands in front of was parsed as an instant action"
                                    if 0 <= got < want else "a program with `~` in front of an operator was not parsed as written")},
                          found_input=True, signature="tilde-lost")
        break
    n_k1, tdiffs = k1.compare_gen(treals)
    ctx.k1_compared += n_k1
    if tdiffs:
        ctx.k1_diffs += tdiffs
        ctx.broken.append(("K1 generator correspondence (`~` in front of every operator)", [d.to_json() for d in tdiffs[:3]]))
    ctx.out.coverage["rule"] = ("sequential and thread-spawning macros over random and enumerated depth profiles, a quarter of the operators in "
                                "wrapper spelling (`[~]op >>> ..pipe(f) [<<<]`, incl. deferred wrappers and implicit closes); the real execution's "
                                "global event log (callbacks, block captures, with thread names) must contain no event of step k+1 before "
                                "the last event of step k, each chain must continue from its own previous value (values are mixed from "
                                "the branch's own history), and value + per-thread events must equal the reference semantics; "
                                "`~` in front of every operator and wrapper through the real parser: the member comes back deferred")


def body_C08(ctx):
    import k2
    n = ctx.n(120, 1200)
    spawn = ["a0t0s1", "a0t1s1"]
    progs = scaffold_batch(ctx, spawn, n, max_depth=4, max_branches=5, fail_rate=(1, 10), handler_rate=(1, 4))
    # liveness: all n sibling threads alive at once (a serialised expansion deadlocks at the gate -> watchdog)
    ids = k2.Ids()
    gated = []
    profs = [(1, 1), (2, 2), (1, 3, 3), (2, 1, 3), (3, 3, 3), (1, 2, 1, 2), (2, 2, 1, 3, 2)]
    if not ctx.quick():
        profs += [pr for nb in (2, 3) for pr in __import__("itertools").product((1, 2, 3), repeat=nb)]
    for i, prof in enumerate(profs):
        for kind in spawn:
            p = k2.gen_scaffold(ctx.rng, "g%d_%s" % (i, kind), kind, profile=prof, fail_rate=(0, 1), panic_rate=(0, 1), handler_rate=(0, 1))
            gated.append(k2.add_gates(p, ids))
    # a failure in the last step next to a sibling that is still busy: the caller goes on only after every thread has finished
    late = [k2.gen_late_failure(ctx.rng, "late%d_%s" % (i, kind), kind, prof)
            for i, prof in enumerate([(1, 1), (2, 2), (1, 2, 2), (3, 3, 3), (2, 1, 2, 2)]) for kind in spawn]
    run_k2(ctx, progs + gated + late)
    k2.run_nested_names(ctx)
    ctx.out.coverage["rule"] = ("thread-spawning macros: random programs (thread name and id of every callback, one distinct thread per "
                                "(branch, step), callbacks of a step with one active branch on the caller); gated programs where every "
                                "chain of a multi-branch step waits at a Barrier(n) for all its siblings (deadlock -> 20 s watchdog -> "
                                "violation); nested spawn macros to depth 3 with expected names <caller>_join_<branch>")


def body_C14(ctx):
    import roundtrip as R
    rng = ctx.rng
    progs = R.triple_progs(ctx.n(8, 1)) + R.keyword_progs() + [R.random_prog(rng) for _ in range(ctx.n(1000, 8000))]
    reals, bad = R.run(ctx, progs, kinds=G.KINDS)
    ctx.k1_reals += reals[:3]
    for r in reals:
        ctx.dist["roundtrip:" + (r.parse if r.parse == "ok" else "rejected")] += 1
        if r.parse == "ok":
            ctx.shapes.add(struct_shape(r.structure))
    seen = set()
    for (p, r, exp) in sorted(bad, key=lambda x: len(x[0].render())):
        sig = "reject" if r.parse != "ok" else "missplit"
        if sig in seen:
            continue
        seen.add(sig)
        ctx.out.violation({"macro_kind": r.kind, "source": p.render(), "real_parse": r.parse,
                           "real_structure": r.structure[:1500], "intended_structure": exp[:1500],
                           "what": ("a program whose operands have no top-level split point was rejected" if r.parse != "ok" else
                                    "the parser split the program differently from how it was written (operators / operands reordered)")},
                          found_input=True, signature=None)
    # the model's generator on these programs as well
    n, diffs = k1.compare_gen(reals)
    ctx.k1_compared += n
    if diffs:
        ctx.k1_diffs += diffs
        ctx.broken.append(("K1 generator correspondence (round-trip programs)", [d.to_json() for d in diffs[:3]]))
    # K1-parse: the parser model (Parse.lean, with syn's answers for each input) vs the real parser, on the round-trip
    # programs, the operator/wrapper/option/handler/let families, the malformed list and mutated programs
    items = [(rng.pick(G.KINDS), s, "operators") for s in G.fam_operators()[:: (ctx.n(4, 1))]]
    items += [(rng.pick(G.KINDS), s, "pairs") for s in G.fam_pairs()[:: (ctx.n(4, 1))]]
    items += [(rng.pick(G.KINDS), s, "wrappers") for s in G.fam_wrappers()]
    items += [(k, s, "options") for k in ("a0t0s0", "a1t1s0") for s in G.fam_options(k)[:: (ctx.n(3, 1))]]
    items += [(rng.pick(G.KINDS), s, "handlers") for s in G.fam_handlers()]
    items += [(rng.pick(G.KINDS), s, "lets") for s in G.fam_lets()]
    items += [(rng.pick(G.KINDS), s, "malformed") for s in G.MALFORMED]
    for _ in range(ctx.n(300, 6000)):
        kind = rng.pick(G.KINDS)
        src = G.random_program(rng, kind)
        items.append((kind, src, "random"))
        items.append((kind, G.mutate(rng, src), "mutated"))
        items.append((kind, G.mutate(rng, G.mutate(rng, src)), "mutated"))
        items.append((kind, G.mutate(rng, R.random_prog(rng).render()), "mutated"))
    extra = k1.run_real(corpus_cases() + mk_cases(items), with_oracle=True)
    ctx.evals += len(extra)
    for r in extra:
        ctx.dist["family:" + r.family] += 1
        ctx.dist["parse:" + k1.parse_class(r.parse)] += 1
    np_, pdiffs = k1.compare_parse(list(reals) + extra)
    ctx.out.coverage["k1_parse_compared"] = np_
    if pdiffs:
        ctx.broken.append(("K1-parse: parser model (Parse.lean) vs real parser", [dict(d.to_json(), model=(d.model_out or "")[:600]) for d in pdiffs[:3]]))
    # the determiner table model vs the real check_input (longest documented operator wins)
    table_probes(ctx)
    ctx.out.coverage["rule"] = ("structured programs (22 operators, ~, >>>/<<<, let, handlers at any position) over 39 adversarial operand "
                                "shapes (closure return types, turbofish, generic `>>`, look-alikes inside parentheses/brackets/braces/macro "
                                "calls/literals, Rust's own shift/comparison/logic operators), rendered to source and parsed by the real parser: "
                                "the dumped structure must equal the one rendered from; every (operator, operand, following operator) triple; "
                                "K1-parse: the Lean parser model, given syn's answers, vs the real parser (outcome class and structure) on those "
                                "programs plus operator/wrapper/option/handler/let families, the malformed list and mutated programs; "
                                "determiner probes (17k) model vs real")


def body_C04(ctx):
    import itertools
    import k2
    n = ctx.n(120, 1200)
    progs = scaffold_batch(ctx, SYNC_KINDS, n, max_depth=4, max_branches=6, fail_rate=(0, 1), handler_rate=(1, 2), name_rate=(1, 3))
    profs = [(1,), (3,), (1, 2), (2, 1), (1, 3, 2), (3, 1, 3), (2, 2, 2), (1, 4, 2, 3), (4, 1, 1, 2), (1, 1, 3, 1, 2), (2, 1, 2, 1, 2, 1, 3)] if ctx.quick() \
        else [pr for nb in (1, 2, 3, 4) for pr in itertools.product((1, 2, 3), repeat=nb)]
    i = 0
    for prof in profs:
        for kind in SYNC_KINDS:
            progs.append(k2.gen_scaffold(ctx.rng, "q%d" % i, kind, profile=prof, fail_rate=(0, 1), block_rate=(0, 1)))
            i += 1
    run_k2(ctx, progs)
    # the async kinds on uneven depth profiles (steps with exactly one active branch before the last step)
    import k2async
    aprofs = [(1, 3), (3, 1), (4, 1, 2), (1, 4, 2), (2, 1, 4), (1, 1, 3)] if ctx.quick() else \
        [pr for nb in (2, 3) for pr in itertools.product((1, 2, 3, 4), repeat=nb)]
    k2async.body(ctx, n=0, profiles=aprofs, fail_rate=(0, 1), handler_rate=(1, 2), name_rate=(1, 3), block_rate=(0, 1))
    items = [(k, s, "profiles") for s, _ in G.fam_profiles(4, 3)[:: (ctx.n(3, 1))] for k in G.KINDS]
    items += [(k, s, "large") for s in G.fam_large() for k in G.KINDS]
    ctx.k1(mk_cases(items))
    ctx.out.coverage["rule"] = ("all-success programs over enumerated and random depth profiles (1–7 branches), with/without handler and "
                                "let names: every branch's value is mixed from (branch, steps taken), so a value at a wrong position or a "
                                "touched finished branch changes the result tuple / handler arguments; K1 on every profile ≤4×3 and the "
                                "24-branch band under all 8 configurations")


def body_C06(ctx):
    n = ctx.n(200, 2000)
    progs = scaffold_batch(ctx, ["a0t1s0", "a0t1s1"], n, fail_rate=(1, 3), max_depth=4, handler_rate=(2, 3), block_rate=(1, 3))
    run_k2(ctx, progs)
    ctx.out.coverage["rule"] = ("try macros with failure rate 1/3 per fallible operator, handlers in 2/3 of the programs, block captures: "
                                "the executed event log (callbacks, captures, handler calls) must equal the reference semantics', i.e. "
                                "nothing of a later step and no handler call after a failing step, every chain of the failing step present")


def body_C11(ctx):
    n = ctx.n(160, 1600)
    progs = scaffold_batch(ctx, SYNC_KINDS, n, block_rate=(2, 3), max_depth=3, fail_rate=(1, 10), name_rate=(1, 3))
    run_k2(ctx, progs)
    items = [(ctx.rng.pick(G.KINDS), s, "operators") for s in G.fam_operators() if "{" in s]
    items += [(ctx.rng.pick(G.KINDS), s, "wrappers") for s in G.fam_wrappers() if "{" in s]
    # long steps: block operands at one- and two-digit positions of the same step (first step, later step, inside a wrapper)
    for n_act in (11, 12, 21, 101):
        chain = " ".join("|> { f%d }" % j for j in range(1, n_act))
        items += [(k, src, "long-step-blocks") for k in (G.KINDS if n_act < 21 else [ctx.rng.pick(G.KINDS)])
                  for src in ("{ b } " + chain, "a ~" + chain[:2] + chain[2:] + " ^@ { i }, { g }", "a, { b } => >>> " + chain + " <<< |> { z }")]
    ctx.k1(mk_cases(items))
    # hoisted definitions and `lazy_branches(true)` / `custom_joiner`: the block operands of a step are evaluated before the step's
    # expressions whatever the joiner does with the branches - no `let __ew… = {…}` inside what is handed to the joiner
    litems = [(k, "custom_joiner(jn!) lazy_branches(%s) %s" % (lz, src), "lazy-blocks")
              for k in G.KINDS for lz in ("true", "false")
              for src in ("{ b0 } |> { f0 }, { b1 } ~|> { f1 } ^@ { i1 }, { g1 }, c ~<| { h2 }",
                          "a |> { f0 } => >>> |> { g0 } <<<, b ~=> { f1 }, { c0 } ~|> { f2 }",
                          "{ b0 }, { b1 }", "a ~|> { f0 }, b ~|> { f1 } ~|> { f2 }, c")]
    lreals, _ = ctx.k1(mk_cases(litems, start=400000))
    for r in lreals:
        if r.parse != "ok" or r.gen != "ok":
            continue
        w = k1.unspace(r.out).split(" ")
        bad = False
        for i in range(len(w) - 2):
            if w[i] == "i:jn" and w[i + 1].startswith("p:!") and w[i + 2] == "(":
                depth, j = 0, i + 2
                while j < len(w):
                    if w[j] in ("(", "{", "[", "N("):
                        depth += 1
                    elif w[j] in (")", "}", "]", ")N"):
                        depth -= 1
                        if depth == 0:
                            break
                    elif w[j] == "i:let" and j + 1 < len(w) and re.fullmatch(r"i:__ew\d+_\d+_\d+", w[j + 1]):
                        bad = True
                    j += 1
        if bad:
            ctx.out.violation({"macro_kind": r.kind, "source": r.src,
                               "what": "a hoisted block operand is defined inside what is handed to the joiner (evaluated when, where and as "
                                       "often as the joiner calls the branch) instead of before the step's expressions"},
                              found_input=True, signature="defs-inside-joiner")
            break
    # typed chains against the plain method chain with the blocks bound first, in operand order: every operator with a block
    # operand, both operands of fold / try_fold as blocks (each alone and together, in a later step, inside a wrapper)
    run_chains(ctx, ctx.n(40, 600), (1, 6), "C11")
    ctx.out.coverage["rule"] = ("programs with block operands on 2/3 of all operators (initial values included): capture events must come in "
                                "branch-then-position order, once each, after the previous step's events and before the step's chain events, "
                                "on the calling thread; K1 on every operator with block operands (both operands of fold/try_fold, in wrappers); "
                                "K2-chains: typed chains with block operands (fold / try_fold with one and with two block operands) against the "
                                "plain method chain with the blocks evaluated first, in operand order")


def body_C12(ctx):
    n = ctx.n(160, 1600)
    progs = scaffold_batch(ctx, SYNC_KINDS, n, block_rate=(1, 2), name_rate=(2, 3), max_depth=4, fail_rate=(1, 10))
    run_k2(ctx, progs)
    items = [(ctx.rng.pick(G.KINDS), s, "lets") for s in G.fam_lets()]
    reals, _ = ctx.k1(mk_cases(items))
    # implementation-side oracle: every branch written `let [mut] x = …` (also behind a stray `~` or an attribute) binds a name
    n_let = 0
    for r in reals:
        if r.family != "lets" or r.parse != "ok":
            continue
        want = sum(1 for b in r.src.split(", ") if re.match(r"^(?:~ |#\[[^\]]*\] )*let ", b))
        got = r.structure.count("pat :: ")
        n_let += 1
        if want != got:
            ctx.out.violation({"macro_kind": r.kind, "source": r.src, "branches_written_with_let": want, "names_bound": got,
                               "what": "a branch written with `let` does not bind its name (the `let` stays inside the initial expression)"},
                              found_input=True, signature="let-not-bound")
    ctx.out.coverage["let_oracle_cases"] = n_let
    ctx.out.coverage["rule"] = ("2/3 of the branches named (some `mut`), block captures in later steps snapshot every name in scope: the logged "
                                "snapshots must equal the reference semantics' visible names (latest step result per named branch, wrapped in "
                                "try macros, also for finished branches; nothing in step 0); results compared with the reference semantics")


def body_C13(ctx):
    n = ctx.n(160, 1600)
    progs = scaffold_batch(ctx, SYNC_KINDS, n, handler_rate=(1, 1), fail_rate=(1, 5), max_depth=3)
    run_k2(ctx, progs)
    items = [(k, s, "handlers") for s in G.fam_handlers() for k in G.KINDS]
    reals, _ = ctx.k1(mk_cases(items))
    # implementation-side oracle for the rejections
    for r in reals:
        if r.family != "handlers":
            continue
        n_handlers = len(re.findall(r"(?:^|, )(?:map|and_then|then) =>", r.src))
        is_try = r.kind[3] == "1"
        if n_handlers >= 2 and r.parse == "ok":
            ctx.out.violation({"macro_kind": r.kind, "source": r.src, "what": "a second handler was accepted"}, True, "second-handler")
        if n_handlers == 1 and r.parse == "ok":
            kind_kw = re.search(r"(?:^|, )(map|and_then|then) =>", r.src).group(1)
            wrong = (kind_kw == "then") == is_try
            rejected = r.gen.startswith("panic:CfgReject")
            if wrong != rejected:
                ctx.out.violation({"macro_kind": r.kind, "source": r.src, "real_gen": r.gen,
                                   "what": "handler `%s` in a %s macro: %s" % (kind_kw, "try" if is_try else "non-try",
                                                                               "accepted" if wrong else "rejected")}, True, "handler-kind")
    ctx.out.coverage["rule"] = ("every program has a handler (kind fitting the macro, any position, half of them defined by a block): handler "
                                "definition/call events, arguments and result compared with the reference semantics; K1 family kind × "
                                "handler kind × position with an implementation-side oracle for wrong-kind and second-handler rejection")


def body_C18(ctx):
    n = ctx.n(200, 2000)
    progs = scaffold_batch(ctx, SYNC_KINDS, n, panic_rate=(1, 8), max_depth=3, handler_rate=(1, 2), block_rate=(1, 3))
    # thread-spawning kinds: a branch panics while a later sibling of the step does not return before the program is over:
    # the caller must get the panic and not be left blocked behind the sibling
    import k2
    progs += [k2.gen_panic_beside_waiter(ctx.rng, "pw%d_%s" % (i, kind), kind, prof)
              for i, prof in enumerate([(1, 1), (2, 2), (1, 2, 2), (3, 1, 3)]) for kind in ("a0t0s1", "a0t1s1")]
    run_k2(ctx, progs)
    # async variants (incl. the tokio task-spawning ones): one panicking callback, the driven future must panic
    import k2async
    k2async.body_panics(ctx)
    # the helper functions the expansion defines (`__spawn_tokio`: a JoinError is turned into a panic) under all configurations
    ctx.k1(mk_cases([(k, s, "profiles") for s, _ in G.fam_profiles(3, 2) for k in G.KINDS]))
    ctx.out.coverage["rule"] = ("async variants: exactly one panicking callback per program, the future driven by the deterministic executor / "
                                "a tokio runtime must panic (not complete, not stay pending: 10 s bound); K1 under all 8 configurations; "
                                "a panic injected with probability 1/8 at every callback / initial value / handler and at block captures: the "
                                "macro expression must panic (caught by catch_unwind around the invocation, 20 s watchdog against a blocked "
                                "caller), with exactly the reference semantics' events before it and none of a later step")


def run_chains(ctx, n, wrappers, tag):
    import k2
    progs = k2.regression_chain_programs() + k2.matrix_chain_programs() + k2.gen_chain_programs(ctx.rng, n)
    # re-draw with the requested wrapper rate
    ids = k2.Ids()
    res, log = k2.run_chain_programs(ctx, progs)
    if res is None:
        ctx.broken.append(("K2-chains programs do not compile against the current macros (a well-typed chain must compile)", log[-3000:]))
        src = k2.LAST_CHAIN_SRC
        pid, excerpt = k2.blame_compile_error(src, log)
        culprit = next((p for p in progs if p.pid == pid), None)
        if culprit is not None:
            ctx.out.violation({"macro": culprit.name, "source": culprit.macro_input(), "program": "%s! { %s }" % (culprit.name, culprit.macro_input()),
                               "plain_method_chain": getattr(culprit.chains[0], "plain", "") if culprit.chains else "", "compiler": excerpt,
                               "what": "a chain that is well-typed as the documented plain method chain does not compile through the macro"},
                              found_input=True, signature=None)
        return
    for (p, verdict) in res:
        ctx.dist["k2chains:" + p.name] += 1
        ctx.shapes.add(p.name + struct_shape(re.sub(r"\d+", "0", p.macro_input())))
        if not verdict.startswith("same"):
            ctx.out.violation({"macro": p.name, "source": p.macro_input(), "program": p.invocation(),
                               "observed": verdict[:1500],
                               "what": "the macro chain and the documented plain method chain differ (value or callback trace)"},
                              found_input=True, signature=None)
    ctx.out.coverage["samples"] += [{"program": p.invocation(), "verdict": v[:120]} for p, v in res[-3:]]
    ctx.out.coverage["traces_validated_against_impl"] = ctx.out.coverage.get("traces_validated_against_impl", 0) + len(res)


def body_C01(ctx):
    items = [(ctx.rng.pick(G.KINDS), s, "operators") for s in G.fam_operators()]
    items += [(ctx.rng.pick(G.KINDS), s, "pairs") for s in G.fam_pairs()[:: (ctx.n(3, 1))]]
    items += random_items(ctx, ctx.n(300, 5000), mutated=False)
    ctx.k1(mk_cases(items))
    table_probes(ctx)
    run_chains(ctx, ctx.n(250, 3000), (1, 6), "C01")
    ctx.out.coverage["rule"] = ("K1: every operator × {plain, ~} × operand shapes, adjacent operator pairs, random programs; determiner "
                                "probes: all token sequences of length ≤3 (+4 after `?`) over the operator alphabet in joint and alone spacing "
                                "against the real check_input; K2-chains: type-directed chains over Option / Result / iterators / integers "
                                "(22 operators, ~, wrappers, block operands) in join!/try_join!/join_spawn!/spawn!/try_join_spawn!, each compiled "
                                "through the macro and as the documented plain method chain, value and callback trace compared")


def body_C02(ctx):
    items = [(k, s, "wrappers") for s in G.fam_wrappers() for k in ([ctx.rng.pick(G.KINDS)] if ctx.quick() else G.KINDS)]
    ctx.k1(mk_cases(items))
    run_chains(ctx, ctx.n(250, 3000), (1, 2), "C02")
    ctx.out.coverage["rule"] = ("K1: ten wrapper operators × depth ≤3 × inner chains (empty, plain, with block captures, fold) × explicit / "
                                "implicit (branch end, step end) / partial closing; K2-chains with wrappers (nested, implicit close, after-`<<<` "
                                "continuation) against hand-nested plain closures")


DSL_WORDS = set("let mut map then and_then futures_crate_path custom_joiner transpose_results lazy_branches n true false".split())


# identifiers the case generator uses as operand markers (never written by the scaffold)
MARKER_RE = re.compile(r"^(?:[fg]|[ifcezyb]\d+(?:_\d+)?|init|first|last|inner|after|insp|fa|fb|ia|ib|da|db|mid|next|second|blk|ff|hh|"
                       r"cap\d+|conv|mk|flag|foo)$")


def marker_oracle(ctx, reals, pid):
    """C10 (token level): every identifier / literal that occurs exactly once in the macro input (and is not a DSL
    keyword) must occur exactly once in the real output: nothing dropped, nothing duplicated."""
    n_checked = 0
    # identifiers the scaffold itself writes, per configuration: taken from the real expansion of marker-only programs
    vocab = {}
    probes = ["qq0", "qq0, qq1 ~|> qq2 ~=> qq3, qq4 ~?? qq5", "qq0 ~-> qq1, qq2, map => qq3", "qq0 ~|> qq1, qq2, then => qq3",
              "custom_joiner(qq9) qq0, qq1 ~|> qq2"]
    pr = k1.run_real([("v%d_%s" % (i, k), k, s, "vocab") for k in G.KINDS for i, s in enumerate(probes)])
    for x in pr:
        if x.gen == "ok":
            vocab.setdefault(x.kind, set()).update(w for w in x.out.split(" ") if w[:2] in ("i:", "l:") and not w.startswith("i:qq"))
    for r in reals:
        if r.parse != "ok" or r.gen != "ok":
            continue
        inw = collections.Counter(w for w in r.in_toks.split(" ") if w[:2] == "i:")
        outw = collections.Counter(w for w in r.out.split(" ") if w[:2] == "i:")
        # the bracket content of `=>[…]` is documented as ignored
        ignored = set(re.findall(r"[il]:\S+", " ".join(re.findall(r"p:=j p:>j? \[ ([^\]]*) \]", r.in_toks))))
        ignored |= set("i:" + m for m in re.findall(r"pat :: [^;]*? :: i:(\S+)", r.structure))   # `let` names are bound and used
        ignored |= set(re.findall(r"i:\S+", r.structure.split(" ;; ")[0]))   # option arguments: once per use site / step
        for w, c in inw.items():
            if c != 1 or w in ignored or not MARKER_RE.match(w[2:]) or w in vocab.get(r.kind, ()):
                continue
            n_checked += 1
            if outw.get(w, 0) != 1:
                ctx.out.violation({"macro_kind": r.kind, "source": r.src, "token": w, "occurrences_in_output": outw.get(w, 0),
                                   "what": "a user token that occurs once in the input occurs %d times in the expansion" % outw.get(w, 0)},
                                  found_input=True, signature="marker-" + ("dropped" if outw.get(w, 0) == 0 else "duplicated"))
                break
    ctx.out.coverage["unique_markers_checked"] = ctx.out.coverage.get("unique_markers_checked", 0) + n_checked


def body_C10(ctx):
    items = [(k, s, "profiles") for s, _ in G.fam_profiles(4, 3)[:: (ctx.n(5, 1))] for k in G.KINDS]
    items += [(ctx.rng.pick(G.KINDS), s, "operators") for s in G.fam_operators()]
    items += [(ctx.rng.pick(G.KINDS), s, "wrappers") for s in G.fam_wrappers()]
    items += [(ctx.rng.pick(G.KINDS), s, "handlers") for s in G.fam_handlers()]
    items += random_items(ctx, ctx.n(400, 6000), mutated=False)
    reals, _ = ctx.k1(mk_cases(items))
    marker_oracle(ctx, reals, "C10")
    n = ctx.n(150, 1500)
    progs = scaffold_batch(ctx, SYNC_KINDS, n, block_rate=(1, 3), handler_rate=(1, 2), fail_rate=(1, 8), max_depth=4)
    run_k2(ctx, progs)
    ctx.out.coverage["rule"] = ("K1 on programs whose operands are unique markers, with the oracle: every user token occurring once in the "
                                "input occurs exactly once in the real expansion (not dropped, not duplicated); K2: the executed event "
                                "list (every callback, capture, handler definition and call) equals the reference semantics' exactly — "
                                "each reached user expression exactly once")


def body_C09(ctx):
    akinds = [k for k in G.KINDS if k[1] == "1"]
    items = [(k, s, "profiles") for s, _ in G.fam_profiles(3, 3) for k in akinds]
    items += [(ctx.rng.pick(akinds), s, "operators") for s in G.fam_operators()]
    items += [(k, s, "random") for (k0, s, f) in random_items(ctx, ctx.n(300, 4000), mutated=False) for k in [ctx.rng.pick(akinds)]]
    reals, _ = ctx.k1(mk_cases(items))
    for r in reals:
        if r.parse == "ok" and r.gen == "ok":
            w = r.out.split(" ")
            ok = w[:8] == ["i:Box", "p::j", "p::", "i:pin", "(", "i:async", "i:move", "{"] and w[-2:] == ["}", ")"]
            depth = 0
            # the first top-level group must close only at the very end: everything is inside Box::pin( async move { .. } )
            for i, x in enumerate(w[4:], 4):
                if x in ("(", "{", "[", "N("):
                    depth += 1
                elif x in (")", "}", "]", ")N"):
                    depth -= 1
                    if depth == 0 and i != len(w) - 1:
                        ok = False
                        break
            forbidden = [x for x in ("i:Waker", "i:Context", "i:block_on", "i:channel", "i:poll", "i:Poll") if x in w and x not in r.in_toks.split(" ")]
            if not ok or forbidden:
                ctx.out.violation({"macro_kind": r.kind, "source": r.src, "what": "async expansion is not a single Box::pin(async move {…}) "
                                   "containing everything" if not ok else "executor-level construct in the expansion: %r" % forbidden},
                                  found_input=True, signature="async-shape")
    import k2async
    k2async.body(ctx)
    # task-spawning kinds on tokio, programs in which nothing fails, 2-3 branches: between two batches of gate openings every
    # chain must have run exactly as far as the poll-level model says (a pending branch blocks no ready sibling, spawned or not)
    k2async.body(ctx, kinds=("a1t0s1", "a1t1s1"), n=ctx.n(24, 240), fail_rate=(0, 1), max_branches=3, max_depth=3, handler_rate=(1, 4))
    ctx.out.coverage["rule"] = ("K1 on the four async configurations (every profile ≤3×3, every operator, random programs) with a shape oracle "
                                "on the real output (single Box::pin(async move{…}), no waker/context/executor constructs); K2-async: "
                                "instrumented futures with manually opened gates on a deterministic executor with a counting root waker: "
                                "nothing runs before the first poll, ready siblings progress past pending ones, every opening wakes the "
                                "root, completion under every opening order / batches / spurious polls")


def body_C16(ctx):
    items = []
    for k in (["a1t1s0", "a0t1s1", "a1t0s1"] if ctx.quick() else G.KINDS):
        items += [(k, s, "options") for s in G.fam_options(k)]
    reals, _ = ctx.k1(mk_cases(items))
    # implementation-side oracle: any subset in any order parses to exactly that assignment; any duplicate is rejected
    names = {"futures_crate_path": "fcp", "custom_joiner": "joiner", "transpose_results": "transpose", "lazy_branches": "lazy"}
    for r in reals:
        if r.family != "options":
            continue
        prefix = r.src.split(" a ")[0] if " a " in r.src else r.src.split(" a,")[0]
        opts = re.findall(r"(futures_crate_path|custom_joiner|transpose_results|lazy_branches)\(", prefix)
        dup = len(set(opts)) != len(opts)
        if dup:
            if r.parse == "ok":
                ctx.out.violation({"macro_kind": r.kind, "source": r.src, "what": "a duplicated option was accepted"}, True, "dup-option")
            continue
        if r.parse != "ok":
            ctx.out.violation({"macro_kind": r.kind, "source": r.src, "real_parse": r.parse,
                               "what": "a valid option list (subset %r in this order) was rejected" % opts}, True, "option-order")
            continue
        got = set(re.findall(r",, (fcp|joiner|transpose|lazy) ::", r.structure.split(" ;; ")[0]))
        if got != set(names[o] for o in opts):
            ctx.out.violation({"macro_kind": r.kind, "source": r.src, "parsed_options": sorted(got),
                               "what": "parsed option assignment differs from the written subset"}, True, "option-assignment")
    items2 = [(k, "custom_joiner(jn!) lazy_branches(%s) %s" % (lz, s), "joiner") for s, _ in G.fam_profiles(3, 3)[::2]
              for k in G.KINDS for lz in ("true", "false")]
    # the joiner next to the other options (both orders): a configured futures path must not displace it
    items2 += [(k, o % s, "joiner") for s, _ in G.fam_profiles(3, 3)[::3] for k in ("a1t0s0", "a1t1s0", "a1t0s1", "a1t1s1")
               for o in ("futures_crate_path(my::fut) custom_joiner(jn!) %s", "custom_joiner(jn!) futures_crate_path(::futures) %s",
                         "lazy_branches(true) futures_crate_path(::futures) custom_joiner(jn!) %s")]
    items2 += [(k, "transpose_results(false) custom_joiner(tj) %s" % s, "transpose") for s, _ in G.fam_profiles(3, 3)[::2]
               for k in ("a0t1s0", "a1t1s0", "a0t1s1", "a1t1s1")]
    items2 += [(k, "futures_crate_path(my::fut) %s" % s, "fcp") for s, _ in G.fam_profiles(3, 2) for k in ("a1t0s0", "a1t1s0", "a1t0s1", "a1t1s1")]
    reals2, _ = ctx.k1(mk_cases(items2, start=100000))
    for r in reals2:
        if r.parse == "ok" and r.gen == "ok" and r.family == "fcp":
            if "i:futures" in r.out.split(" "):
                ctx.out.violation({"macro_kind": r.kind, "source": r.src,
                                   "what": "a futures item does not come from the configured futures_crate_path"}, True, "fcp")
        if r.parse == "ok" and r.gen == "ok" and r.family == "joiner":
            # one joiner application per step with >1 active branches
            body_src = re.sub(r"^((futures_crate_path|custom_joiner|transpose_results|lazy_branches)\([^)]*\)\s*)+", "", r.src)
            depths = [len(b.split(" ~")) for b in body_src.split(", ")]
            expect = sum(1 for k in range(max(depths)) if sum(1 for d in depths if d > k) > 1)
            got = len(re.findall(r"i:jn p:! \(", r.out))
            if got != expect:
                ctx.out.violation({"macro_kind": r.kind, "source": r.src, "joiner_applications": got, "expected": expect,
                                   "what": "the custom joiner is not applied exactly once per step with more than one active branch"},
                                  True, "joiner-count")
            # lazy_branches(true): every branch handed to the joiner is a zero-argument `move ||` closure, in every macro kind
            if "lazy_branches(true)" in r.src:
                operands = sum(n for n in (sum(1 for d in depths if d > k) for k in range(max(depths))) if n > 1)
                closures = len(re.findall(r"i:move p:\| p:\|", k1.unspace(r.out)))
                if closures < operands:
                    ctx.out.violation({"macro_kind": r.kind, "source": r.src, "move_closures_in_expansion": closures,
                                       "operands_handed_to_the_joiner": operands,
                                       "what": "lazy_branches(true): a branch is handed to the joiner as it is, not as a zero-argument closure"},
                                      True, "lazy-closures")
    import k2
    k2.run_joiner_programs(ctx)
    ctx.out.coverage["rule"] = ("every subset and permutation of the four options, one duplicate at every position (implementation-side oracle "
                                "on the real parser: accepted iff no duplicate, parsed assignment = written subset); custom joiner × laziness × "
                                "all 8 configurations × depth profiles with a per-step joiner-application count oracle on the real output; "
                                "transpose_results(false) and futures_crate_path families against the model; K2: logging joiner macro in compiled programs")


def distinct_names_oracle(ctx, reals):
    """Internal names of different things are different identifiers: the real expansion of a program has as many distinct
    internal identifiers (`__…`) as the model's expansion of it, whose names are injective in their indices (Props/C17).
    Fewer distinct names = two different things share a name (e.g. branch 100 named like branch 0)."""
    todo = [r for r in reals if r.parse == "ok" and r.gen == "ok"]
    outs = k1.run_driver(["GEN\t%s\t%s\t%s" % (r.id, r.kind, r.structure) for r in todo]) if todo else []
    for r, o in zip(todo, outs):
        f = o.split("\t")
        if len(f) < 3 or f[1] != "ok":
            continue
        real = set(w for w in k1.unspace(r.out).split(" ") if w.startswith("i:__"))
        model = set(w for w in k1.unspace(f[2]).split(" ") if w.startswith("i:__"))
        ctx.evals += 1
        if len(real) < len(model):
            ctx.out.violation({"macro_kind": r.kind, "source": r.src[:3000],
                               "distinct_internal_names": {"real_expansion": len(real), "expected": len(model)},
                               "missing": sorted(w[2:] for w in model - real)[:8],
                               "what": "two different things of one expansion share an internal name (fewer distinct internal "
                                       "identifiers than things to name)"},
                              found_input=True, signature="name-clash")
            return


def body_C17(ctx):
    items = [(k, s, "large") for s in G.fam_large() for k in G.KINDS]
    items += [(k, s, "profiles") for s, _ in G.fam_profiles(4, 3)[:: (ctx.n(7, 1))] for k in G.KINDS]
    reals, _ = ctx.k1(mk_cases(items))
    distinct_names_oracle(ctx, [r for r in reals if r.family == "large"])
    name_probes(ctx)
    import k2
    k2.run_nesting_programs(ctx)
    # hoisted-operand names in use: programs in which most operands (of every operator kind, incl. the error combinators and
    # initial values) are blocks, several branches and positions -> a clash makes a branch run another branch's callback
    progs = scaffold_batch(ctx, SYNC_KINDS, ctx.n(100, 1000), max_depth=3, max_branches=5, block_rate=(3, 4),
                           fail_rate=(1, 4), handler_rate=(1, 4), name_rate=(1, 4))
    run_k2(ctx, progs)
    ctx.k1(mk_cases([(p.kind, p.macro_input(), "k2-blocks") for p in progs], start=300000))
    # the other direction of "no clash": a name the expansion binds must not capture a caller's variable used in the macro body
    outs = [r.out for r in ctx.k1_reals if r.gen == "ok"]
    cands = [c for c in k2.bound_name_candidates(outs, input_words=HYG_INPUT_WORDS) if k2.in_binding_position(c, outs)]
    nh = k2.run_hygiene_programs(ctx, cands)
    ctx.out.coverage["hygiene"] = {"candidate_names": cands, "programs": nh}
    ctx.out.coverage["rule"] = ("K2 + K1 on programs with block operands on 3/4 of all operators (every operator kind, up to 5 branches); "
                                "K1 on 12/24-branch and 24-action programs (two-digit indices in every name position) under all 8 configurations; "
                                "name constructors of the running code vs the model's rendering on indices up to 1234 incl. the historical "
                                "(1,11,0)/(11,1,0) pair; K2: macros nested inside operands, block captures and handlers to depth 3, sync kinds")


def body_C19(ctx):
    items = [(k, s, "profiles") for s, _ in G.fam_profiles(3, 3) for k in ("a0t0s0", "a0t1s0")]
    items += [(ctx.rng.pick(["a0t0s0", "a0t1s0"]), s, f) for (k, s, f) in random_items(ctx, ctx.n(400, 5000), mutated=False)]
    reals, _ = ctx.k1(mk_cases(items))
    bad_words = ["i:Box", "i:clone", "i:Clone", "i:Send", "i:Sync", "i:static", "i:format", "i:spawn", "i:Arc", "i:Rc", "i:Vec", "i:String",
                 "i:to_owned", "i:to_string", "i:async", "i:thread"]
    for r in reals:
        if r.parse == "ok" and r.gen == "ok":
            inw = set(r.in_toks.split(" "))
            hit = [w for w in bad_words if w in r.out.split(" ") and w not in inw]
            if hit:
                ctx.out.violation({"macro_kind": r.kind, "source": r.src, "tokens": hit,
                                   "what": "the sequential expansion contains allocation / Clone / Send / 'static / spawn constructs of its own"},
                                  True, "hidden-cost")
    akinds = [(k, s, "async-nonspawn") for s, _ in G.fam_profiles(2, 2) for k in ("a1t0s0", "a1t1s0")]
    # long chains and many branches too: a cost that only appears from some size on
    akinds += [(ctx.rng.pick(["a1t0s0", "a1t1s0"]), s, "async-nonspawn-large") for s in G.fam_large()[:4]]
    akinds += [(k, "a " + " ".join("|> f%d" % i for i in range(n)) + ", b ~|> g", "async-nonspawn-long") for n in (7, 8, 9, 16, 33, 65)
               for k in ("a1t0s0", "a1t1s0")]
    akinds += [(ctx.rng.pick(["a1t0s0", "a1t1s0"]), s, "async-nonspawn-random") for (k, s, f) in random_items(ctx, ctx.n(150, 2000), mutated=False)]
    reals2, _ = ctx.k1(mk_cases(akinds, start=200000))
    async_bad = ("i:Send", "i:Sync", "i:static", "i:spawn", "i:boxed", "i:boxed_local", "i:Arc", "i:Rc", "i:clone", "i:Clone", "i:Vec", "i:to_owned")
    for r in reals2:
        if r.parse != "ok" or r.gen != "ok":
            continue
        outw, inw = r.out.split(" "), set(r.in_toks.split(" "))
        hit = [w for w in async_bad if w in outw and w not in inw]
        n_box = outw.count("i:Box") - r.in_toks.split(" ").count("i:Box")
        if hit or n_box != 1:
            ctx.out.violation({"macro_kind": r.kind, "source": r.src[:1500], "tokens": hit, "boxes_written_by_the_expansion": n_box,
                               "what": "a non-spawning async macro requires Send/'static, spawns, or boxes / clones something besides its one outer "
                                       "Box::pin"}, True, "async-bounds")
    import k2
    k2.run_cost_programs(ctx)
    ctx.out.coverage["rule"] = ("K1 on sequential configurations with a token oracle on the real output (no Box/clone/Send/'static/format!/"
                                "spawn/collection identifiers other than the user's own); non-spawning async: no Send/'static/spawn; K2: "
                                "move-only values, Rc (not Send), shared and mutable borrows of the caller's stack through the non-spawning "
                                "macros must compile and run; allocation counter around sequential evaluations must stay 0")


def name_probes(ctx):
    """names: the model's rendering (from the format table) vs the running name constructors"""
    path = os.path.join(runner.BUILD, "harness_tables.txt")
    rows = [l.rstrip("\n").split("\t") for l in open(path) if l.startswith("NAME")]
    reqs = []
    for r in rows:
        reqs.append("NAME\t" + r[1] if r[0] == "NAME" else ("NAMEEW\t%s\t%s\t%s" % (r[1], r[2], r[3]) if r[0] == "NAMEEW" else "NAMEFIXED"))
    outs = k1.run_driver(reqs)
    for r, o in zip(rows, outs):
        ctx.evals += 1
        if o.split("\t") != r:
            ctx.broken.append(("name table: model rendering vs construct_*_name of the running code", {"real": r, "model": o}))
            break


def table_battery(ctx, fallback):
    """The tables the translator could not regenerate, validated against the running code: determiner probes (every
    token sequence up to the longest operator over the operator alphabet), every operator / wrapper / option subset,
    order and duplicate / handler / let family through the real parser and generator vs the model (K1, K1-parse), the
    name constructors, and — for the macro-kind table — instrumented programs compiled under all twelve macro names."""
    ctx.out.coverage["translator_fallback"] = fallback
    ctx.out.notes.append("translator fallback for %s: the text pattern is gone (restructured code); the last generated table was "
                         "validated against the running code by the table battery" % ", ".join(sorted(fallback)))
    n_broken = len(ctx.broken)
    table_probes(ctx)
    name_probes(ctx)
    items = [(k, s, "operators") for s in G.fam_operators() for k in ("a0t0s0", "a1t1s1")]
    items += [(ctx.rng.pick(G.KINDS), s, "pairs") for s in G.fam_pairs()[::3]]
    items += [(ctx.rng.pick(G.KINDS), s, "wrappers") for s in G.fam_wrappers()]
    items += [(k, s, "options") for k in ("a0t0s0", "a1t1s0") for s in G.fam_options(k)]
    items += [(ctx.rng.pick(G.KINDS), s, "handlers") for s in G.fam_handlers()]
    items += [(ctx.rng.pick(G.KINDS), s, "lets") for s in G.fam_lets()]
    items += [(ctx.rng.pick(G.KINDS), s, "malformed") for s in G.MALFORMED]
    items += [(k, src, "invalid") for src, _ in INVALID + dup_option_inputs() for k in ("a1t1s1", "a0t0s0")]
    cases = mk_cases(items, start=700000)
    reals = k1.run_real(cases, with_oracle=True)
    n, diffs = k1.compare_gen(reals)
    ctx.k1_compared += n
    if diffs:
        ctx.broken.append(("table battery: K1 generator correspondence", [d.to_json() for d in diffs[:3]]))
    np_, pdiffs = k1.compare_parse(reals)
    if pdiffs:
        ctx.broken.append(("table battery: K1-parse (parser model vs real parser)", [dict(d.to_json(), model=(d.model_out or "")[:400]) for d in pdiffs[:3]]))
    ctx.evals += len(cases)
    if "macroKinds" in fallback:
        import k2
        kprogs = []
        for kind in SYNC_KINDS:
            for name in k2.NAMES[kind]:
                for _ in range(4):
                    kprogs.append(k2.gen_scaffold(ctx.rng, "tk%d" % len(kprogs), kind, name=name, max_branches=3, max_depth=3, fail_rate=(1, 6)))
        run_k2(ctx, kprogs, crate="k2kinds")
        import k2async
        k2async.body(ctx, n=24)
    ctx.out.coverage["table_battery"] = {"cases": len(cases), "k1_parse_compared": np_, "ok": len(ctx.broken) == n_broken}


def table_probes(ctx):
    """Model of GroupDeterminer::check_input (over the extracted table) vs the real check_input on every probe."""
    path = os.path.join(runner.BUILD, "harness_tables.txt")
    with open(path) as f:
        probes = [l.rstrip("\n").split("\t") for l in f if l.startswith("PROBE")]
    outs = k1.run_driver(["PROBE\t" + p[1] for p in probes])
    bad = []
    for p, o in zip(probes, outs):
        f = o.split("\t")
        if len(f) < 3 or f[2] != p[2]:
            bad.append({"tokens": p[1], "real": p[2], "model": f[2] if len(f) > 2 else o})
    ctx.evals += len(probes)
    ctx.out.coverage["determiner_probes"] = len(probes)
    if bad:
        ctx.broken.append(("determiner table / check_input model vs the real check_input", bad[:5]))


PROPS = {
    "C01": ("JoinModel.Props.C01", body_C01),
    "C02": ("JoinModel.Props.C02", body_C02),
    "C03": ("JoinModel.Props.C03", body_C03),
    "C04": ("JoinModel.Props.C04", body_C04),
    "C06": ("JoinModel.Props.C06", body_C06),
    "C08": ("JoinModel.Props.C08", body_C08),
    "C09": ("JoinModel.Props.C09", body_C09),
    "C10": ("JoinModel.Props.C10", body_C10),
    "C11": ("JoinModel.Props.C11", body_C11),
    "C16": ("JoinModel.Props.C16", body_C16),
    "C17": ("JoinModel.Props.C17", body_C17),
    "C19": ("JoinModel.Props.C19", body_C19),
    "C12": ("JoinModel.Props.C12", body_C12),
    "C13": ("JoinModel.Props.C13", body_C13),
    "C18": ("JoinModel.Props.C18", body_C18),
    "C14": ("JoinModel.Props.C14", body_C14),
    "C15": ("JoinModel.Props.C15", body_C15),
    "C05": ("JoinModel.Props.C05", body_C05),
    "C07": ("JoinModel.Props.C07", body_C07),
    "C20": ("JoinModel.Props.C20", body_C20),
}


def run(pid, tier, seed):
    module, body = PROPS[pid]
    return base_pipeline(pid, tier, seed, module, body)


def replay(pid, path):
    with open(path) as f:
        obj = json.load(f)
    if "source" in obj and "macro_kind" in obj:
        rs = k1.run_real([("replay", obj["macro_kind"], obj["source"], "replay")])
        n, diffs = k1.compare_gen(rs)
        print(json.dumps({"real_parse": rs[0].parse, "real_gen": rs[0].gen, "valid_expr": rs[0].valid,
                          "model_differs": [d.to_json() for d in diffs]}, indent=1))
        import k2
        if "program" in obj:
            return k2.replay(obj)
        return 0
    print(json.dumps(obj, indent=1))
    return 0
