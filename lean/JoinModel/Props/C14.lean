/-
  C14 — branches split only at top-level operators that follow a complete operand.

  Theorems about the parser model (`Parse.lean`: `scan` = the loop of `parse_until`, `parseUntil`), for *every*
  syn oracle, over the determiner table regenerated from /repo on every run:

  * look-alikes inside groups or literals are invisible to every determiner (`firstMatch_shape` …);
  * a scan stops only where a determiner matches at top level and the collected tokens are a complete operand
    (`scan_sound`), never inside a not yet complete operand (`scan_continue`), and never reorders or loses a token
    (`scan_order`);
  * an operand without a top-level split point, followed by `[~] operator`, is returned exactly, with the `~` flag of
    exactly that operator (`scan_roundtrip`); `>>>` attaches to the operator it follows (`parseUntil_roundtrip`);
  * overlapping operators resolve to the longest documented one (`longest_*`), for all continuations and spacings;
  * Rust's own binary/compound operators are never taken for DSL operators (`rust_operator_*`).

  The correspondence of `Parse.lean` with the real parser (and of syn with the oracle) is K1-parse; the round trip
  on the real parser is the oracle of tools/roundtrip.py.
-/
import JoinModel.Parse
import JoinModel.SpecTables
import JoinModel.Lemmas.ScanStep
import JoinModel.Lemmas.OptionParse
namespace JoinModel.Props.C14
open JoinModel

local macro "det_simp" : tactic =>
  `(tactic| simp [firstMatch, Tables.determiners, List.find?_cons, DetRow.check, checkSeq, peekPat, peekPunct, skip1])

/-! ### 1. Groups and literals are atomic -/

/-- what a determiner can see of a token: delimiters but not the contents of a group, not the text of a literal -/
def shape : TT → TT
  | .group d _ => .group d []
  | .lit _ => .lit ""
  | t => t

theorem peekPunct_shape (cs : List Char) (ts : Toks) : peekPunct cs (ts.map shape) = peekPunct cs ts := by
  induction cs generalizing ts with
  | nil => cases ts <;> simp [peekPunct]
  | cons c cs ih =>
    cases ts with
    | nil => cases cs <;> simp [peekPunct]
    | cons t ts =>
      cases cs with
      | nil => cases t <;> simp [peekPunct, shape]
      | cons c2 cs2 =>
        have := ih ts
        cases t <;> simp [peekPunct, shape, this]

theorem peekPat_shape (p : TokPat) (ts : Toks) : peekPat p (ts.map shape) = peekPat p ts := by
  cases p with
  | punct cs => simp [peekPat, peekPunct_shape]
  | kw s => cases ts with
    | nil => simp [peekPat]
    | cons t ts => cases t <;> simp [peekPat, shape]
  | bracket => cases ts with
    | nil => simp [peekPat]
    | cons t ts =>
      cases t with
      | group d g => cases d <;> simp [peekPat, shape]
      | _ => simp [peekPat, shape]

theorem skip1_shape (ts : Toks) : skip1 (ts.map shape) = (skip1 ts).map (·.map shape) := by
  cases ts with
  | nil => simp [skip1]
  | cons t ts =>
    cases t with
    | punct c j =>
      cases ts with
      | nil => simp [skip1, shape]
      | cons u us =>
        cases u <;> by_cases hc : c = '\'' <;> cases j <;> simp [skip1, shape, hc]
    | _ => simp [skip1, shape]

theorem checkSeq_shape (ps : List TokPat) (ts : Toks) : checkSeq ps (ts.map shape) = checkSeq ps ts := by
  induction ps generalizing ts with
  | nil => simp [checkSeq]
  | cons p ps ih =>
    cases ps with
    | nil => simp [checkSeq, peekPat_shape]
    | cons q qs =>
      simp only [checkSeq, peekPat_shape, skip1_shape]
      cases skip1 ts with
      | none => simp
      | some r => simp [ih r]

theorem check_shape (d : DetRow) (ts : Toks) : d.check (ts.map shape) = d.check ts := by
  simp [DetRow.check, checkSeq_shape]

/-- **Look-alikes inside parentheses, brackets, braces, macro calls or literals are invisible**: which determiner
    matches at a position is a function of the top-level token shapes alone. -/
theorem firstMatch_shape (ts : Toks) : firstMatch (ts.map shape) = firstMatch ts := by
  simp [firstMatch, check_shape]

theorem deferred_shape (ts : Toks) : Tables.deferredDet.check (ts.map shape) = Tables.deferredDet.check ts := check_shape _ _
theorem wrapper_shape (ts : Toks) : Tables.wrapperDet.check (ts.map shape) = Tables.wrapperDet.check ts := check_shape _ _

/-- in particular the contents of a group never matter, wherever the group stands -/
theorem group_contents_invisible (pre post g g' : Toks) (d : Delim) :
    firstMatch (pre ++ .group d g :: post) = firstMatch (pre ++ .group d g' :: post) := by
  rw [← firstMatch_shape, ← firstMatch_shape (pre ++ .group d g' :: post)]
  simp [shape]

example : firstMatch [.group .paren [.punct '|' true, .punct '>' false], .ident "x"] = none := by det_simp

/-! ### 2. The scan: where a unit ends -/

def isTilde : TT → Bool
  | .punct '~' _ => true
  | _ => false

theorem deferred_iff (ts : Toks) : Tables.deferredDet.check ts = true ↔ ∃ j r, ts = .punct '~' j :: r := by
  cases ts with
  | nil => simp [Tables.deferredDet, DetRow.check, checkSeq, peekPat, peekPunct]
  | cons t r =>
    cases t with
    | punct c j =>
      by_cases hc : c = '~'
      · subst hc; simp [Tables.deferredDet, DetRow.check, checkSeq, peekPat, peekPunct]
      · simp [Tables.deferredDet, DetRow.check, checkSeq, peekPat, peekPunct, hc]
    | _ => simp [Tables.deferredDet, DetRow.check, checkSeq, peekPat, peekPunct]

theorem deferred_len : Tables.deferredDet.len = 1 := rfl

-- `stripTilde`, `stopHere` and the one-iteration lemmas `scan_stop` / `scan_continue` / `scan_eof` are in Lemmas/ScanStep.lean

/-- `b` is `a` with some top-level `~` tokens removed, everything else in place -/
inductive DropT : Toks → Toks → Prop
  | nil : DropT [] []
  | keep (t : TT) {a b : Toks} : DropT a b → DropT (t :: a) (t :: b)
  | drop (j : Bool) {a b : Toks} : DropT a b → DropT (.punct '~' j :: a) b

theorem DropT.refl (a : Toks) : DropT a a := by
  induction a with
  | nil => exact .nil
  | cons t a ih => exact .keep t ih

theorem DropT.append_left (p : Toks) {a b : Toks} (h : DropT a b) : DropT (p ++ a) (p ++ b) := by
  induction p with
  | nil => exact h
  | cons t p ih => exact .keep t ih

theorem dropT_strip (input : Toks) : DropT input (stripTilde input) := by
  unfold stripTilde
  split
  next h =>
    obtain ⟨j, r, rfl⟩ := (deferred_iff input).1 h
    simp only [deferred_len, List.drop_succ_cons, List.drop_zero]
    exact .drop j (DropT.refl r)
  next => exact DropT.refl _

theorem DropT.trans {a b c : Toks} (h1 : DropT a b) (h2 : DropT b c) : DropT a c := by
  induction h1 generalizing c with
  | nil => exact h2
  | keep t _ ih =>
    cases h2 with
    | keep _ h => exact .keep t (ih h)
    | drop j h => exact .drop j (ih h)
  | drop j _ ih => exact .drop j (ih h2)

/-- **Nothing is split off wrongly, reordered or lost, and a stop is a top-level operator after a complete
    operand.**  Whenever a scan returns, the collected tokens followed by the remaining input are the original
    tokens minus dropped `~`s; and if it stopped at a determiner, that determiner is the first match at the stop
    position, the collected tokens are a complete operand (or empty where that is allowed), and the `deferred` flag
    says whether a `~` stood immediately in front of exactly that operator. -/
theorem scan_sound (o : Oracle) (syn : Syn) (ae : Bool) (fuel : Nat) (acc input : Toks) (d0 : Bool)
    (toks : Toks) (nx : Option DetRow) (d : Bool) (input' : Toks)
    (h : scan o syn ae fuel acc input d0 = .ok (toks, nx, d, input')) :
    DropT (acc ++ input) (toks ++ input') ∧
    (nx = none → input' = []) ∧
    (∀ g, nx = some g →
      firstMatch input' = some g ∧ ((toks.isEmpty && ae) || o.valid syn toks) = true ∧
      ∃ p, p <:+ input ∧ d = Tables.deferredDet.check p ∧ input' = stripTilde p) := by
  induction fuel generalizing acc input d0 with
  | zero => simp [scan] at h
  | succ fuel ih =>
    by_cases hne : input = []
    · subst hne
      simp only [scan, Except.ok.injEq, Prod.mk.injEq] at h
      obtain ⟨rfl, rfl, rfl, rfl⟩ := h
      exact ⟨DropT.refl _, fun _ => rfl, fun g hg => by cases hg⟩
    · cases hst : stopHere o syn ae acc input with
      | true =>
        rw [scan_stop o syn ae fuel acc input d0 hne hst] at h
        simp only [Except.ok.injEq, Prod.mk.injEq] at h
        obtain ⟨rfl, rfl, rfl, rfl⟩ := h
        simp only [stopHere, Bool.and_eq_true] at hst
        refine ⟨DropT.append_left _ (dropT_strip input), ?_, ?_⟩
        · intro hn; rw [hn] at hst; simp at hst
        · intro g hg
          exact ⟨hg, hst.2, input, List.suffix_refl _, rfl, rfl⟩
      | false =>
        cases hs : stripTilde input with
        | nil =>
          rw [scan_eof o syn ae fuel acc input d0 hne hst hs] at h
          cases h
        | cons t rest =>
          rw [scan_continue o syn ae fuel acc input d0 t rest hne hst hs] at h
          obtain ⟨h1, h2, h3⟩ := ih _ _ _ h
          refine ⟨?_, h2, ?_⟩
          · have : DropT (acc ++ input) (acc ++ (t :: rest)) := DropT.append_left _ (hs ▸ dropT_strip input)
            refine this.trans ?_
            simpa [List.append_assoc] using h1
          · intro g hg
            obtain ⟨a, b, p, hp, c1, c2⟩ := h3 g hg
            refine ⟨a, b, p, ?_, c1, c2⟩
            have hsuf : rest <:+ input := by
              have : (t :: rest) <:+ input := by
                rw [← hs]; unfold stripTilde; split
                · exact List.drop_suffix _ _
                · exact List.suffix_refl _
              exact (List.suffix_cons t rest).trans this
            exact hp.trans hsuf

/-- **Round trip of one operand.**  An operand `x` (no top-level `~`) that is complete, has no top-level split
    point — no place strictly inside it where a determiner matches *and* the part before it is itself complete —
    and is followed by an optional `~` and a determiner match, is returned exactly, up to exactly that operator,
    with the `~` flag of exactly that operator. -/
theorem scan_roundtrip (o : Oracle) (syn : Syn) (ae : Bool) (x after' : Toks) (g : DetRow) (d j : Bool)
    (hx : ∀ t ∈ x, isTilde t = false)
    (hnt : Tables.deferredDet.check after' = false)
    (hg : firstMatch after' = some g)
    (hvalid : ((x.isEmpty && ae) || o.valid syn x) = true)
    (hnosplit : ∀ p s, x = p ++ s → s ≠ [] →
      stopHere o syn ae p (s ++ ((if d then [TT.punct '~' j] else []) ++ after')) = false)
    (fuel : Nat) (hfuel : x.length + 1 ≤ fuel) :
    scan o syn ae fuel [] (x ++ ((if d then [TT.punct '~' j] else []) ++ after')) false = .ok (x, some g, d, after') := by
  have hafter'ne : after' ≠ [] := by intro h; rw [h, firstMatch_nil] at hg; cases hg
  suffices H : ∀ (s acc : Toks) (d0 : Bool) (fuel : Nat), acc ++ s = x → s.length + 1 ≤ fuel →
      scan o syn ae fuel acc (s ++ ((if d then [TT.punct '~' j] else []) ++ after')) d0 = .ok (x, some g, d, after') from
    H x [] false fuel (by simp) hfuel
  intro s
  induction s with
  | nil =>
    intro acc d0 fuel hacc hf
    simp only [List.append_nil] at hacc
    subst hacc
    obtain ⟨fuel, rfl⟩ : ∃ f, fuel = f + 1 := ⟨fuel - 1, by simp at hf; omega⟩
    simp only [List.nil_append]
    have hne : ((if d then [TT.punct '~' j] else []) ++ after') ≠ [] := by cases d <;> simp [hafter'ne]
    have hdef : Tables.deferredDet.check ((if d then [TT.punct '~' j] else []) ++ after') = d := by
      cases d
      · simpa using hnt
      · exact (deferred_iff _).2 ⟨j, after', by simp⟩
    have hstrip : stripTilde ((if d then [TT.punct '~' j] else []) ++ after') = after' := by
      unfold stripTilde; rw [hdef]; cases d <;> simp [deferred_len]
    have hstop : stopHere o syn ae acc ((if d then [TT.punct '~' j] else []) ++ after') = true := by
      simp only [stopHere, hstrip, hg, Option.isSome_some, Bool.true_and]; exact hvalid
    rw [scan_stop o syn ae fuel acc _ d0 hne hstop, hstrip, hdef, hg]
  | cons t s ih =>
    intro acc d0 fuel hacc hf
    obtain ⟨fuel, rfl⟩ : ∃ f, fuel = f + 1 := ⟨fuel - 1, by simp at hf; omega⟩
    have htx : isTilde t = false := hx t (by rw [← hacc]; simp)
    have hdef : Tables.deferredDet.check (t :: s ++ ((if d then [TT.punct '~' j] else []) ++ after')) = false := by
      cases hc : Tables.deferredDet.check (t :: s ++ ((if d then [TT.punct '~' j] else []) ++ after')) with
      | false => rfl
      | true =>
        obtain ⟨j', r, hr⟩ := (deferred_iff _).1 hc
        simp only [List.cons_append, List.cons.injEq] at hr
        rw [hr.1] at htx; simp [isTilde] at htx
    have hstrip : stripTilde (t :: s ++ ((if d then [TT.punct '~' j] else []) ++ after')) =
        t :: (s ++ ((if d then [TT.punct '~' j] else []) ++ after')) := by
      unfold stripTilde; rw [hdef]; simp
    have hns := hnosplit acc (t :: s) hacc.symm (by simp)
    rw [scan_continue o syn ae fuel acc _ d0 t _ (by simp) hns hstrip, hdef]
    exact ih (acc ++ [t]) false fuel (by simpa using hacc) (by simp at hf ⊢; omega)

/-- the hypotheses of `scan_roundtrip` are satisfiable: `|v| -> u8 { v } |> f` with an oracle that accepts the whole
    closure only — the `->` inside the incomplete closure does not split it -/
example :
    let o : Oracle := { validExpr := fun ts => ts.length == 6, validType := fun _ => false, isBlock := fun _ => false,
                        letSplit := fun _ => .notLet, reprintExpr := id, reprintType := id, exprPrefix := fun _ => none,
                        pathPrefix := fun _ => none, litBool := fun _ => none }
    let x : Toks := [.punct '|' false, .ident "v", .punct '|' false, .punct '-' true, .punct '>' false, .ident "u8"]
    (scan o .expr false 20 [] (x ++ [.punct '|' true, .punct '>' false, .ident "f"]) false).toOption.map
      (fun r => (r.1.length, r.2.1.map (·.comb), r.2.2.1)) = some (6, some (some .map), false) := by
  decide

/-! ### 3. `>>>` attaches to the operator it follows -/

/-- After a complete operand, `[~] op [>>>]`: the unit's `next` is exactly that operator, deferred iff the `~` is
    there, wrapping iff `>>>` follows it directly. -/
theorem parseUntil_roundtrip (o : Oracle) (syn : Syn) (ae : Bool) (x after' rest : Toks) (g : DetRow) (c : Comb) (d j w : Bool)
    (hx : ∀ t ∈ x, isTilde t = false)
    (hnt : Tables.deferredDet.check after' = false)
    (hg : firstMatch after' = some g) (hc : g.comb = some c)
    (hvalid : o.valid syn x = true)
    (hnosplit : ∀ p s, x = p ++ s → s ≠ [] →
      stopHere o syn ae p (s ++ ((if d then [TT.punct '~' j] else []) ++ after')) = false)
    (herase : eraseN g.len after' = some rest)
    (hw : Tables.wrapperDet.check rest = w)
    (hwok : w = true → c ≠ .unwrap ∧ canBeWrapper c = true) :
    parseUntil o syn ae (x ++ ((if d then [TT.punct '~' j] else []) ++ after')) =
      .ok ⟨x, some ⟨c, d, if w then .wrap else if c == .unwrap then .unwrap else .none⟩,
           if w then rest.drop Tables.wrapperDet.len else rest⟩ := by
  unfold parseUntil
  rw [scan_roundtrip o syn ae x after' g d j hx hnt hg (by simp [hvalid]) hnosplit _ (by simp)]
  simp only [hc, herase, hw]
  cases w with
  | false => simp [hvalid, hc]
  | true =>
    obtain ⟨h1, h2⟩ := hwok rfl
    simp [hvalid, h1, h2, hc]

/-! ### 4. Overlapping operators: the longest documented one wins (all continuations, all spacings) -/

theorem longest_findMap (j : Bool) (r : Toks) :
    (firstMatch ([.punct '?' true, .punct '|' true, .punct '>' true, .punct '@' j] ++ r)).map (·.comb) = some (some .findMap) := by det_simp

theorem longest_filterMap (j : Bool) (r : Toks) (h : ∀ j' r', r ≠ .punct '@' j' :: r') :
    (firstMatch ([.punct '?' true, .punct '|' true, .punct '>' j] ++ r)).map (·.comb) = some (some .filterMap) := by
  cases r with
  | nil => det_simp
  | cons t r' =>
    cases t with
    | punct c j' =>
      have : c ≠ '@' := by intro hc; subst hc; exact h j' r' rfl
      simp [firstMatch, Tables.determiners, List.find?_cons, DetRow.check, checkSeq, peekPat, peekPunct, skip1, this]
    | _ => det_simp

theorem longest_collect (j : Bool) (g r : Toks) :
    (firstMatch ([.punct '=' true, .punct '>' j, .group .bracket g] ++ r)).map (·.comb) = some (some .collect) := by det_simp

theorem longest_andThen (j : Bool) (r : Toks) (h : ∀ g r', r ≠ .group .bracket g :: r') :
    (firstMatch ([.punct '=' true, .punct '>' j] ++ r)).map (·.comb) = some (some .andThen) := by
  cases r with
  | nil => det_simp
  | cons t r' =>
    cases t with
    | group d g =>
      cases d with
      | bracket => exact absurd rfl (h g r')
      | _ => det_simp
    | _ => det_simp

theorem longest_unwrap (j : Bool) (r : Toks) :
    (firstMatch ([.punct '<' true, .punct '<' true, .punct '<' j] ++ r)).map (·.comb) = some (some .unwrap) := by det_simp
theorem longest_or (j : Bool) (r : Toks) :
    (firstMatch ([.punct '<' true, .punct '|' j] ++ r)).map (·.comb) = some (some .or_) := by det_simp
theorem longest_orElse (j : Bool) (r : Toks) :
    (firstMatch ([.punct '<' true, .punct '=' j] ++ r)).map (·.comb) = some (some .orElse) := by det_simp
theorem longest_unzip (j : Bool) (r : Toks) :
    (firstMatch ([.punct '<' true, .punct '-' true, .punct '>' j] ++ r)).map (·.comb) = some (some .unzip) := by det_simp
theorem longest_map (j : Bool) (r : Toks) :
    (firstMatch ([.punct '|' true, .punct '>' j] ++ r)).map (·.comb) = some (some .map) := by det_simp
theorem longest_enumerate (j : Bool) (r : Toks) :
    (firstMatch ([.punct '|' false, .ident "n", .punct '>' j] ++ r)).map (·.comb) = some (some .enumerate) := by det_simp

/-- the consumed length of every row is the number of token trees of its pattern (so erasing the operator leaves
    exactly what follows it) -/
theorem row_len_is_pattern_len :
    ∀ d ∈ Tables.determiners, d.comb.isSome → ∀ a ∈ d.alts,
      d.len = (a.map fun p => match p with | .punct cs => cs.length | _ => 1).sum := by
  decide

/-! ### 5. Rust's own operators are not DSL operators -/

def notPunct : TT → Bool
  | .punct _ _ => false
  | _ => true

/-- one punctuation character followed by something that is not punctuation is never an operator — except the
    branch separator `,` and `|n>`'s own `| n` -/
theorem skip1_of_ne (c : Char) (j : Bool) (r : Toks) (hq : c ≠ '\'') : skip1 (.punct c j :: r) = some r := by
  unfold skip1
  split
  · next h => cases h
  · next h => simp only [List.cons.injEq, TT.punct.injEq] at h; exact absurd h.1.1 hq
  · next h => simp only [List.cons.injEq] at h; rw [h.2]

theorem rust_operator_1 (c : Char) (j : Bool) (x : TT) (r : Toks) (hc : c ≠ ',') (hx : notPunct x = true)
    (hn : x ≠ .ident "n") : firstMatch (.punct c j :: x :: r) = none := by
  by_cases hq : c = '\''
  · subst hq
    cases x <;> simp [firstMatch, Tables.determiners, List.find?_cons, DetRow.check, checkSeq, peekPat, peekPunct]
  · simp only [firstMatch, Tables.determiners, List.find?_cons, DetRow.check, List.any_cons, List.any_nil, checkSeq,
      skip1_of_ne c j _ hq]
    have hc' : (c == ',') = false := by simp [hc]
    cases x with
    | punct _ _ => simp [notPunct] at hx
    | ident s =>
      have : (s == "n") = false := by
        simp only [beq_eq_false_iff_ne, ne_eq]; intro h; subst h; exact hn rfl
      simp [peekPat, peekPunct, skip1, hc', this]
    | lit s => simp [peekPat, peekPunct, skip1, hc']
    | group d g => simp [peekPat, peekPunct, skip1, hc']

/-- one punctuation character at the end of the input -/
theorem rust_operator_1_end (c : Char) (j : Bool) (hc : c ≠ ',') : firstMatch [.punct c j] = none := by
  simp [firstMatch, Tables.determiners, List.find?_cons, DetRow.check, checkSeq, peekPat, peekPunct, skip1, hc]

/-- Rust's two-character operators (shifts, comparisons, logic, compound assignment, paths) -/
def rustOps2 : List (Char × Char) :=
  [('<', '<'), ('>', '>'), ('&', '&'), ('|', '|'), ('=', '='), ('!', '='), ('>', '='), ('+', '='), ('-', '='),
   ('*', '='), ('/', '='), ('%', '='), ('^', '='), ('&', '='), ('|', '='), (':', ':')]

theorem peekPunct_np (cs : List Char) (x : TT) (r : Toks) (hx : notPunct x = true) : peekPunct cs (x :: r) = false := by
  cases x with
  | punct _ _ => simp [notPunct] at hx
  | ident _ => cases cs with
    | nil => simp [peekPunct]
    | cons c cs => cases cs <;> simp [peekPunct]
  | lit _ => cases cs with
    | nil => simp [peekPunct]
    | cons c cs => cases cs <;> simp [peekPunct]
  | group _ _ => cases cs with
    | nil => simp [peekPunct]
    | cons c cs => cases cs <;> simp [peekPunct]

local macro "rust2" x:term "," r:term "," hx:term : tactic =>
  `(tactic| (simp only [firstMatch, Tables.determiners, List.find?_cons, DetRow.check, List.any_cons, List.any_nil,
               Bool.or_false, checkSeq, peekPat]
             simp [↓peekPunct_np _ $x $r $hx, peekPunct, skip1]))

theorem rust_operator_2 (c1 c2 : Char) (j1 j2 : Bool) (x : TT) (r : Toks) (hc : (c1, c2) ∈ rustOps2)
    (hx : notPunct x = true) (hn : x ≠ .ident "n") :
    firstMatch (.punct c1 j1 :: .punct c2 j2 :: x :: r) = none ∧ firstMatch (.punct c2 j2 :: x :: r) = none := by
  simp only [rustOps2, List.mem_cons, Prod.mk.injEq, List.not_mem_nil, or_false] at hc
  refine ⟨?_, ?_⟩
  · rcases hc with h | h | h | h | h | h | h | h | h | h | h | h | h | h | h | h <;> obtain ⟨rfl, rfl⟩ := h <;>
      rust2 x, r, hx
  · apply rust_operator_1 c2 j2 x r _ hx hn
    rcases hc with h | h | h | h | h | h | h | h | h | h | h | h | h | h | h | h <;> rw [h.2] <;> decide

/-- `<<=` and `>>=` (at their second character `<=` *is* an operator, but what precedes it there — `a <` — is
    not a complete operand: `scan_continue`) -/
theorem rust_operator_3 (c : Char) (j1 j2 j3 : Bool) (x : TT) (r : Toks) (hc : c = '<' ∨ c = '>') (hx : notPunct x = true) :
    firstMatch (.punct c j1 :: .punct c j2 :: .punct '=' j3 :: x :: r) = none := by
  rcases hc with rfl | rfl <;> rust2 x, r, hx

/-- the closing `>>` of nested generics followed by an operator: nothing matches at either `>`, the operator is
    found right after them (here: `Vec<Vec<u8>> |> f`) -/
theorem generic_close_then_operator (j : Bool) (r : Toks) :
    firstMatch (.punct '>' true :: .punct '>' false :: .punct '|' true :: .punct '>' j :: r) = none ∧
    firstMatch (.punct '>' false :: .punct '|' true :: .punct '>' j :: r) = none ∧
    (firstMatch (.punct '|' true :: .punct '>' j :: r)).map (·.comb) = some (some .map) := by
  refine ⟨by det_simp, by det_simp, by det_simp⟩

/-! ### 6. Whole chains of unary operators: parse ∘ render = id -/

/-- a scan over an operand that is followed by nothing runs to the end of the input -/
theorem scan_to_end (o : Oracle) (syn : Syn) (ae : Bool) (x : Toks)
    (hx : ∀ t ∈ x, isTilde t = false)
    (hnosplit : ∀ p s, x = p ++ s → s ≠ [] → stopHere o syn ae p s = false)
    (fuel : Nat) (hfuel : x.length + 1 ≤ fuel) :
    scan o syn ae fuel [] x false = .ok (x, none, false, []) := by
  suffices H : ∀ (s acc : Toks) (fuel : Nat), acc ++ s = x → s.length + 1 ≤ fuel →
      scan o syn ae fuel acc s false = .ok (x, none, false, []) from H x [] fuel (by simp) hfuel
  intro s
  induction s with
  | nil =>
    intro acc fuel hacc hf
    obtain ⟨fuel, rfl⟩ : ∃ f, fuel = f + 1 := ⟨fuel - 1, by simp at hf; omega⟩
    simp only [List.append_nil] at hacc
    subst hacc
    simp [scan]
  | cons t s ih =>
    intro acc fuel hacc hf
    obtain ⟨fuel, rfl⟩ : ∃ f, fuel = f + 1 := ⟨fuel - 1, by simp at hf; omega⟩
    have htx : isTilde t = false := hx t (by rw [← hacc]; simp)
    have hdef : Tables.deferredDet.check (t :: s) = false := by
      cases hc : Tables.deferredDet.check (t :: s) with
      | false => rfl
      | true =>
        obtain ⟨j', r, hr⟩ := (deferred_iff _).1 hc
        simp only [List.cons.injEq] at hr
        rw [hr.1] at htx; simp [isTilde] at htx
    have hstrip : stripTilde (t :: s) = t :: s := by unfold stripTilde; rw [hdef]; simp
    have hns := hnosplit acc (t :: s) hacc.symm (by simp)
    rw [scan_continue o syn ae fuel acc _ false t _ (by simp) hns hstrip, hdef]
    exact ih (acc ++ [t]) fuel (by simpa using hacc) (by simp at hf ⊢; omega)

theorem parseUntil_end (o : Oracle) (syn : Syn) (ae : Bool) (x : Toks)
    (hx : ∀ t ∈ x, isTilde t = false) (hvalid : o.valid syn x = true)
    (hnosplit : ∀ p s, x = p ++ s → s ≠ [] → stopHere o syn ae p s = false) :
    parseUntil o syn ae x = .ok ⟨x, none, []⟩ := by
  unfold parseUntil
  rw [scan_to_end o syn ae x hx hnosplit _ (by simp)]
  simp [hvalid]

theorem eraseN_append (a b : Toks) : eraseN a.length (a ++ b) = some b := by
  induction a with
  | nil => rfl
  | cons t a ih => simpa [eraseN] using ih

/-- what is written behind an operator -/
inductive ActKind
  | unary (x : Toks)        -- one expression operand
  | nullary                 -- nothing (`^^>`, `|n>`, `<<<`, `=>[]` / `<->` without types)
  | wrapper (w : Toks)      -- `>>>` (as the three tokens `w`)
  /-- several operands separated by `,`, or type operands (`^@ a, f`, `=>[] T`, `<-> A, B, C, D`) -/
  | ops (k : OperandKind) (x : Toks) (xs : List Toks)

/-- a written action: `[~] op` followed by an operand, by nothing, or by `>>>` -/
structure SrcAct where
  row : DetRow
  comb : Comb
  ctor : Comb               -- the constructor the member gets
  op : Toks
  deferred : Bool
  tildeJoint : Bool
  kind : ActKind

/-- operands separated by commas -/
def commaSepToks : Toks → List Toks → Toks
  | x, [] => x
  | x, y :: ys => x ++ (TT.punct ',' false :: commaSepToks y ys)

def SrcAct.body (a : SrcAct) : Toks :=
  match a.kind with
  | .unary x => x
  | .nullary => []
  | .wrapper w => w
  | .ops _ x xs => commaSepToks x xs

def SrcAct.isWrapper (a : SrcAct) : Bool :=
  match a.kind with
  | .wrapper _ => true
  | _ => false

/-- the actions as written, followed by `term`: nothing, or the `,` that separates the branch from what follows -/
def renderActs (term : Toks) : List SrcAct → Toks
  | [] => term
  | a :: as => (if a.deferred then [TT.punct '~' a.tildeJoint] else []) ++ (a.op ++ (a.body ++ renderActs term as))

/-- what may stand behind a branch: the end of the input, or `,` and more input -/
def TermOK (term : Toks) : Prop := term = [] ∨ ∃ j more, term = TT.punct ',' j :: more

def SrcAct.mv (a : SrcAct) : Move := if a.isWrapper then .wrap else if a.comb == .unwrap then .unwrap else .none

def SrcAct.grp (a : SrcAct) : NextGroup := ⟨a.comb, a.deferred, a.mv⟩

/-- what is left for the member of `a` itself once the previous unit has consumed `[~] op [>>>]` -/
def SrcAct.tail (a : SrcAct) (rest : Toks) : Toks :=
  match a.kind with
  | .unary x => x ++ rest
  | .nullary => rest
  | .wrapper _ => rest
  | .ops _ x xs => commaSepToks x xs ++ rest

/-- the unit in front of `acts` ends with: which action follows, and what is left for it -/
def nextOf (term : Toks) : List SrcAct → Option NextGroup × Toks
  | [] => (none, term)
  | a :: as => (some a.grp, a.tail (renderActs term as))

/-- an operand followed by `after`: no `~`, complete, no top-level split point -/
def OperandOK (o : Oracle) (x after : Toks) : Prop :=
  (∀ t ∈ x, isTilde t = false) ∧ o.valid .expr x = true ∧
  ∀ p s, x = p ++ s → s ≠ [] → stopHere o .expr false p (s ++ after) = false

/-- what an operand of kind `k` is parsed as -/
def synOfKind : OperandKind → Syn
  | .expr => .expr
  | .type => .type

/-- an operand parsed as `syn` in front of `after` -/
def OperandOKs (o : Oracle) (syn : Syn) (x after : Toks) : Prop :=
  (∀ t ∈ x, isTilde t = false) ∧ o.valid syn x = true ∧
  ∀ p s, x = p ++ s → s ≠ [] → stopHere o syn false p (s ++ after) = false

/-- comma-separated operands, each complete and without a split point in front of what follows it -/
def OperandsOK (o : Oracle) (syn : Syn) : Toks → List Toks → Toks → Prop
  | x, [], after => OperandOKs o syn x after
  | x, y :: ys, after => OperandOKs o syn x (TT.punct ',' false :: (commaSepToks y ys ++ after)) ∧ OperandsOK o syn y ys after

/-- the operator of the first action is recognised where it stands, and `>>>` follows it exactly when written -/
def HeadOK (term : Toks) : List SrcAct → Prop
  | [] => TermOK term
  | a :: as =>
    a.row.comb = some a.comb ∧ a.op.length = a.row.len ∧
    Tables.deferredDet.check (a.op ++ (a.body ++ renderActs term as)) = false ∧
    firstMatch (a.op ++ (a.body ++ renderActs term as)) = some a.row ∧
    Tables.wrapperDet.check (a.body ++ renderActs term as) = a.isWrapper ∧
    (a.isWrapper = true → a.comb ≠ .unwrap ∧ canBeWrapper a.comb = true ∧ a.body.length = Tables.wrapperDet.len)

/-- every action is well-formed: arity and operand match the operator -/
def ActsOK (o : Oracle) (term : Toks) : List SrcAct → Prop
  | [] => TermOK term
  | a :: as =>
    HeadOK term (a :: as) ∧
    (match a.kind with
      | .unary x => arityOf a.comb = some ⟨a.ctor, 1, false, .expr⟩ ∧ OperandOK o x (renderActs term as)
      | .nullary => ∃ n k, arityOf a.comb = some ⟨a.ctor, n, true, k⟩
      | .wrapper _ => wrapperCtorOf a.comb = some a.ctor
      | .ops k x xs =>
        ∃ ae, arityOf a.comb = some ⟨a.ctor, xs.length + 1, ae, k⟩ ∧ a.comb ≠ .unwrap ∧
          (ae = true → x ≠ [] ∧ firstMatch (commaSepToks x xs ++ renderActs term as) = none) ∧
          OperandsOK o (synOfKind k) x xs (renderActs term as)) ∧
    ActsOK o term as

/-- the `>>>`/`<<<` balance never goes below zero (it restarts at every `~`) -/
def BalanceOK : Int → List SrcAct → Prop
  | _, [] => True
  | w, a :: as =>
    0 ≤ (if a.deferred then 0 else w) + mvDelta a.mv ∧
    BalanceOK ((if a.deferred then 0 else w) + mvDelta a.mv) as

def expMember (o : Oracle) (a : SrcAct) : Member :=
  match a.kind with
  | .unary x => ⟨a.ctor, a.deferred, a.mv, [mkOperand o .expr x]⟩
  | .nullary => ⟨a.ctor, a.deferred, a.mv, []⟩
  | .wrapper _ => ⟨a.ctor, a.deferred, .wrap, [⟨.expr, Tables.wrapperPlaceholder⟩]⟩
  | .ops k x xs => ⟨a.ctor, a.deferred, a.mv, (x :: xs).map (mkOperand o k)⟩

theorem ActsOK.head {o : Oracle} {term : Toks} {acts : List SrcAct} (h : ActsOK o term acts) : HeadOK term acts := by
  cases acts with
  | nil => exact h
  | cons a as => exact h.1

/-- the `,` between branches is the first determiner, consumes nothing and names no combinator -/
theorem comma_row (j : Bool) (more : Toks) :
    firstMatch (TT.punct ',' j :: more) = some ⟨none, [[.punct [',']]], 0⟩ := by det_simp

/-- a complete operand in front of the `,` that ends the branch: returned exactly, nothing follows in this chain, the
    comma is left for the chain builder -/
theorem parseUntil_sep (o : Oracle) (syn : Syn) (ae : Bool) (x : Toks) (j : Bool) (more : Toks)
    (hx : ∀ t ∈ x, isTilde t = false) (hvalid : o.valid syn x = true)
    (hnosplit : ∀ p s, x = p ++ s → s ≠ [] → stopHere o syn ae p (s ++ TT.punct ',' j :: more) = false) :
    parseUntil o syn ae (x ++ TT.punct ',' j :: more) = .ok ⟨x, none, TT.punct ',' j :: more⟩ := by
  have hnt : Tables.deferredDet.check (TT.punct ',' j :: more) = false := by
    cases hc : Tables.deferredDet.check (TT.punct ',' j :: more) with
    | false => rfl
    | true =>
      obtain ⟨j', r, hr⟩ := (deferred_iff _).1 hc
      simp at hr
  have hsc := scan_roundtrip o syn ae x (TT.punct ',' j :: more) ⟨none, [[.punct [',']]], 0⟩ false false hx hnt
    (comma_row j more) (by simp [hvalid]) (by simpa using hnosplit) (x.length + (TT.punct ',' j :: more).length + 1) (by simp)
  unfold parseUntil
  simp only [Bool.false_eq_true, if_false, List.nil_append] at hsc
  have hlen : (x ++ TT.punct ',' j :: more).length + 1 = x.length + (TT.punct ',' j :: more).length + 1 := by simp
  rw [hlen, hsc]
  simp [eraseN, hvalid]

/-- a unit (operand `x`, or nothing) followed by the actions `acts` and the terminator: `parse_until` returns exactly it,
    the first action as what follows — with its `~` and `>>>` flags — and leaves what belongs to that action -/
theorem parseUntil_acts (o : Oracle) (syn : Syn) (ae : Bool) (term x : Toks) (acts : List SrcAct)
    (hx : ∀ t ∈ x, isTilde t = false) (hvalid : o.valid syn x = true)
    (hnosplit : ∀ p s, x = p ++ s → s ≠ [] → stopHere o syn ae p (s ++ renderActs term acts) = false)
    (hhead : HeadOK term acts) :
    parseUntil o syn ae (x ++ renderActs term acts) = .ok ⟨x, (nextOf term acts).1, (nextOf term acts).2⟩ := by
  cases acts with
  | nil =>
    simp only [renderActs, nextOf]
    rcases hhead with rfl | ⟨j, more, rfl⟩
    · simp only [List.append_nil]
      exact parseUntil_end o syn ae x hx hvalid (fun p s h1 h2 => by simpa [renderActs] using hnosplit p s h1 h2)
    · exact parseUntil_sep o syn ae x j more hx hvalid (fun p s h1 h2 => by simpa [renderActs] using hnosplit p s h1 h2)
  | cons a as =>
    obtain ⟨h1, h2, h3, h4, h5, h6⟩ := hhead
    have herase : eraseN a.row.len (a.op ++ (a.body ++ renderActs term as)) = some (a.body ++ renderActs term as) := by
      rw [← h2]; exact eraseN_append _ _
    have hpu := parseUntil_roundtrip o syn ae x (a.op ++ (a.body ++ renderActs term as)) (a.body ++ renderActs term as) a.row a.comb
      a.deferred a.tildeJoint a.isWrapper hx h3 h4 h1 hvalid
      (fun p s e1 e2 => by simpa [renderActs] using hnosplit p s e1 e2) herase h5
      (fun hw => ⟨(h6 hw).1, (h6 hw).2.1⟩)
    have hin : x ++ renderActs term (a :: as) =
        x ++ ((if a.deferred then [TT.punct '~' a.tildeJoint] else []) ++ (a.op ++ (a.body ++ renderActs term as))) := rfl
    rw [hin, hpu]
    simp only [nextOf, SrcAct.grp, SrcAct.mv]
    congr 2
    cases hk : a.kind with
    | unary y => simp [SrcAct.isWrapper, SrcAct.tail, SrcAct.body, hk]
    | nullary => simp [SrcAct.isWrapper, SrcAct.tail, SrcAct.body, hk]
    | wrapper w =>
      have hw : a.isWrapper = true := by simp [SrcAct.isWrapper, hk]
      have hlen := (h6 hw).2.2
      simp only [SrcAct.body, hk] at hlen
      simp [SrcAct.isWrapper, SrcAct.tail, SrcAct.body, hk, ← hlen]
    | ops k x xs => simp [SrcAct.isWrapper, SrcAct.tail, SrcAct.body, hk]

/-- once something has been collected, a scan for an *empty* unit never stops at a determiner: it runs to the end -/
theorem scan_empty_nonempty (o : Oracle) (fuel : Nat) :
    ∀ (acc input : Toks) (d : Bool), acc ≠ [] → ∀ r, scan o .empty true fuel acc input d = .ok r → r.2.1 = none ∧ r.1 ≠ [] := by
  induction fuel with
  | zero => intro acc input d _ r h; simp [scan] at h
  | succ fuel ih =>
    intro acc input d hacc r h
    by_cases hin : input = []
    · subst hin; simp [scan] at h; subst h; exact ⟨rfl, hacc⟩
    · have hne : acc.isEmpty = false := by cases acc <;> simp_all
      have hst : stopHere o .empty true acc input = false := by simp [stopHere, Oracle.valid, hne]
      cases hs : stripTilde input with
      | nil => rw [scan_eof o _ _ _ _ _ _ hin hst hs] at h; cases h
      | cons t rest =>
        rw [scan_continue o _ _ _ _ _ _ t rest hin hst hs] at h
        exact ih _ _ _ (by simp) r h

/-- the attempt to read an *empty* unit fails when an operand stands there: something that is not the start of an operator -/
theorem parseUntil_empty_fails (o : Oracle) (input : Toks) (hne : input ≠ [])
    (hnt : Tables.deferredDet.check input = false) (hfm : firstMatch input = none) :
    ∃ e, parseUntil o .empty true input = .error e := by
  unfold parseUntil
  cases input with
  | nil => exact absurd rfl hne
  | cons t rest =>
    have hstrip : stripTilde (t :: rest) = t :: rest := by unfold stripTilde; rw [hnt]; simp
    have hst : stopHere o .empty true [] (t :: rest) = false := by simp [stopHere, hstrip, hfm]
    rw [show (t :: rest).length + 1 = (rest.length + 1) + 1 from rfl,
      scan_continue o .empty true (rest.length + 1) [] (t :: rest) false t rest (by simp) hst hstrip]
    cases hsc : scan o .empty true (rest.length + 1) ([] ++ [t]) rest (Tables.deferredDet.check (t :: rest)) with
    | error e => exact ⟨e, rfl⟩
    | ok r =>
      obtain ⟨h1, h2⟩ := scan_empty_nonempty o _ _ _ _ (by simp) r hsc
      obtain ⟨toks, nx, d, inp⟩ := r
      simp only at h1 h2
      subst h1
      have hv : o.valid .empty toks = false := by cases toks <;> simp_all [Oracle.valid]
      exact ⟨.unexpectedTokens, by simp [hv]⟩

/-- the operands of an action with several (or type) operands, separated by commas, the last one followed by the next
    action or the terminator -/
theorem parseUnits_ops (o : Oracle) (syn : Syn) (term : Toks) (as : List SrcAct) (hhead : HeadOK term as) (xs : List Toks) :
    ∀ (x : Toks) (acc : List Toks), OperandsOK o syn x xs (renderActs term as) →
      parseUnits o syn (xs.length + 1) (commaSepToks x xs ++ renderActs term as) acc =
        .ok (acc ++ (x :: xs), (nextOf term as).1, (nextOf term as).2) := by
  induction xs with
  | nil =>
    intro x acc hx
    obtain ⟨h1, h2, h3⟩ := hx
    have hpu := parseUntil_acts o syn false term x as h1 h2 h3 hhead
    simp [parseUnits, commaSepToks, hpu]
  | cons y ys ih =>
    intro x acc hx
    obtain ⟨⟨h1, h2, h3⟩, hrest⟩ := hx
    have hpu := parseUntil_sep o syn false x false (commaSepToks y ys ++ renderActs term as) h1 h2 h3
    have hin : commaSepToks x (y :: ys) ++ renderActs term as =
        x ++ TT.punct ',' false :: (commaSepToks y ys ++ renderActs term as) := by
      simp [commaSepToks, List.append_assoc]
    rw [hin]
    show parseUnits o syn ((ys.length + 1) + 1) _ acc = _
    conv => lhs; unfold parseUnits
    simp only [hpu, Nat.add_one_ne_zero, if_false, eatComma, Option.isSome_none, Bool.false_eq_true]
    rw [ih y (acc ++ [x]) hrest]
    simp [List.append_assoc]

theorem unary_not_unwrap (c ctor : Comb) (h : arityOf c = some ⟨ctor, 1, false, .expr⟩) : (c == Comb.unwrap) = false := by
  cases c <;> try rfl
  have : arityOf Comb.unwrap = some ⟨.unwrap, 0, true, .expr⟩ := by decide
  rw [this] at h
  cases h

/-- the member of the action whose group is `g`, parsed from what `nextOf` left for it -/
theorem parseGroup_act (o : Oracle) (term : Toks) (a : SrcAct) (as : List SrcAct) (hok : ActsOK o term (a :: as)) :
    ∃ raws, parseGroup o a.grp (a.tail (renderActs term as)) =
      .ok ((expMember o a, raws), (nextOf term as).1, (nextOf term as).2) := by
  obtain ⟨hhead, hkind, hrest⟩ := hok
  have hnext := ActsOK.head hrest
  cases hk : a.kind with
  | unary x =>
    rw [hk] at hkind
    obtain ⟨har, hx1, hx2, hx3⟩ := hkind
    have hpu := parseUntil_acts o .expr false term x as hx1 hx2 hx3 hnext
    have hnw : a.isWrapper = false := by simp [SrcAct.isWrapper, hk]
    refine ⟨[x], ?_⟩
    simp [parseGroup, SrcAct.grp, SrcAct.mv, hnw, unary_not_unwrap a.comb a.ctor har, har, parseNOrEmpty, parseUnits,
      SrcAct.tail, hk, hpu, expMember]
  | nullary =>
    rw [hk] at hkind
    obtain ⟨n, k, har⟩ := hkind
    have hpu := parseUntil_acts o .empty true term [] as (by simp) rfl (fun p s h1 h2 => by
      have : p = [] ∧ s = [] := by simpa using h1.symm
      exact absurd this.2 h2) hnext
    simp only [List.nil_append] at hpu
    have hnw : a.isWrapper = false := by simp [SrcAct.isWrapper, hk]
    refine ⟨[], ?_⟩
    by_cases hu : (a.comb == Comb.unwrap) = true
    · simp [parseGroup, SrcAct.grp, SrcAct.mv, hnw, hu, har, parseNOrEmpty, SrcAct.tail, hk, hpu, expMember]
    · simp only [Bool.not_eq_true] at hu
      simp [parseGroup, SrcAct.grp, SrcAct.mv, hnw, hu, har, parseNOrEmpty, SrcAct.tail, hk, hpu, expMember]
  | wrapper w =>
    rw [hk] at hkind
    have hpu := parseUntil_acts o .empty true term [] as (by simp) rfl (fun p s h1 h2 => by
      have : p = [] ∧ s = [] := by simpa using h1.symm
      exact absurd this.2 h2) hnext
    simp only [List.nil_append] at hpu
    have hw : a.isWrapper = true := by simp [SrcAct.isWrapper, hk]
    refine ⟨[], ?_⟩
    simp [parseGroup, SrcAct.grp, SrcAct.mv, hw, hkind, SrcAct.tail, hk, hpu, expMember]
  | ops k x xs =>
    rw [hk] at hkind
    obtain ⟨ae, har, hnu, hae, hops⟩ := hkind
    have hnw : a.isWrapper = false := by simp [SrcAct.isWrapper, hk]
    have hnu' : (a.comb == Comb.unwrap) = false := by simpa using hnu
    refine ⟨x :: xs, ?_⟩
    have hfirst : ae = true → ∃ e, parseUntil o .empty true (commaSepToks x xs ++ renderActs term as) = .error e := by
      intro hae'
      obtain ⟨hxne, hfm⟩ := hae hae'
      have hx1 : ∀ t ∈ x, isTilde t = false := by
        cases xs with
        | nil => exact hops.1
        | cons y ys => exact hops.1.1
      have hne : commaSepToks x xs ++ renderActs term as ≠ [] := by
        cases x with
        | nil => exact absurd rfl hxne
        | cons t r => cases xs <;> simp [commaSepToks]
      have hnt : Tables.deferredDet.check (commaSepToks x xs ++ renderActs term as) = false := by
        cases hc : Tables.deferredDet.check (commaSepToks x xs ++ renderActs term as) with
        | false => rfl
        | true =>
          obtain ⟨j', r, hr⟩ := (deferred_iff _).1 hc
          cases x with
          | nil => exact absurd rfl hxne
          | cons t rx =>
            have ht := hx1 t (by simp)
            have : t = TT.punct '~' j' := by
              cases xs <;> simp [commaSepToks] at hr <;> exact hr.1
            rw [this] at ht
            simp [isTilde] at ht
      exact parseUntil_empty_fails o _ hne hnt hfm
    simp only [parseGroup, SrcAct.grp, SrcAct.mv, hnw, hnu', Bool.false_eq_true, if_false, har, parseNOrEmpty,
      SrcAct.tail, hk]
    cases k <;>
      (have hunits := parseUnits_ops o _ term as hnext xs x [] hops
       simp only [synOfKind] at hunits
       cases hae' : ae with
       | false => simp [hunits, expMember, SrcAct.mv, hnw, hnu', hk]
       | true =>
         obtain ⟨e, he⟩ := hfirst hae'
         simp [he, hunits, expMember, SrcAct.mv, hnw, hnu', hk])

/-- what the chain builder leaves of the terminator: the separating comma is consumed -/
def afterTerm (term : Toks) : Toks := (eatComma term).getD term

theorem finish_chain (term : Toks) (hterm : TermOK term) (pat : Option BranchPat) (ms : List Member) (lastBlock : Bool) :
    (if lastBlock then (.ok (⟨pat, ms⟩, (eatComma term).getD term) : Except ParseErr (Branch × Toks))
     else if term.isEmpty then .ok (⟨pat, ms⟩, term)
     else match eatComma term with
       | some r => .ok (⟨pat, ms⟩, r)
       | none => .error (.syn "expected `,`")) = .ok (⟨pat, ms⟩, afterTerm term) := by
  rcases hterm with rfl | ⟨j, more, rfl⟩
  · cases lastBlock <;> simp [afterTerm, eatComma]
  · cases lastBlock <;> simp [afterTerm, eatComma]

/-- **Parse ∘ render = id for chains.**  Any number of actions `[~] op operand`, `[~] op` (operand-less operators and
    `<<<`) and `[~] op >>>`, each operator recognised where it stands, every operand complete and without a top-level
    split point, `>>>`/`<<<` balanced within each step, followed by the end of the input or by the `,` that separates the
    branch from the next one: the chain builder returns exactly these members, in order, each with the `~` flag and the
    `>>>`/`<<<` role it was written with, and consumes exactly the chain and its separating comma.  Operators with
    several operands (`^@ init, f`, `?^@ init, f`) and with type operands (`=>[] T`, `<-> A, B, C, D`) are the action
    kind `ops`: each operand becomes one operand of the member, in order, of the operator's kind; where the operator
    allows its operand list to be left out (`=>[]`, `<->`) that is the kind `nullary`.  (Partial: the initial expression
    is not a `let`, and the input has no handler or option items — see `input_roundtrip_partial`.) -/
theorem chain_roundtrip_partial (o : Oracle) (term : Toks) (acts : List SrcAct) :
    ∀ (a : SrcAct) (members : List Member) (pat : Option BranchPat) (w : Int) (fuel : Nat),
      ActsOK o term (a :: acts) → BalanceOK w acts → acts.length + 1 ≤ fuel →
      buildChain o fuel a.grp (a.tail (renderActs term acts)) members pat w false =
        .ok (⟨pat, members ++ (expMember o a :: acts.map (expMember o))⟩, afterTerm term) := by
  induction acts with
  | nil =>
    intro a members pat w fuel hok _ hf
    obtain ⟨fuel, rfl⟩ : ∃ f, fuel = f + 1 := ⟨fuel - 1, by simp at hf; omega⟩
    obtain ⟨raws, hpg⟩ := parseGroup_act o term a [] hok
    have hterm : TermOK term := hok.2.2
    unfold buildChain
    rw [hpg]
    simp only [nextOf, Bool.false_eq_true, if_false, List.map_nil]
    exact finish_chain term hterm pat _ _
  | cons b bs ih =>
    intro a members pat w fuel hok hbal hf
    obtain ⟨fuel, rfl⟩ : ∃ f, fuel = f + 1 := ⟨fuel - 1, by simp at hf; omega⟩
    obtain ⟨raws, hpg⟩ := parseGroup_act o term a (b :: bs) hok
    obtain ⟨hb1, hb2⟩ := hbal
    have hrec := ih b (members ++ [expMember o a]) pat _ fuel hok.2.2 hb2 (by simp at hf ⊢; omega)
    unfold buildChain
    rw [hpg]
    simp only [nextOf, Bool.false_eq_true, if_false]
    have hgd : b.grp.deferred = b.deferred := rfl
    have hgm : b.grp.mv = b.mv := rfl
    have hnot : ¬ ((if b.deferred = true then (0 : Int) else w) + mvDelta b.mv < 0) := by omega
    simp only [hgd, hgm, hnot, if_false]
    rw [hrec]
    simp [List.append_assoc]

/-- the whole branch: an initial value without `let`, then the actions, then the end of the input or `,` -/
theorem branch_roundtrip_partial (o : Oracle) (term x0 : Toks) (acts : List SrcAct)
    (hx0 : OperandOK o x0 (renderActs term acts)) (hlet : o.letSplit x0 = .notLet) (hacts : ActsOK o term acts)
    (hbal : BalanceOK 0 acts) (fuel : Nat) (hfuel : acts.length + 2 ≤ fuel) :
    buildChain o fuel ⟨.initial, false, .none⟩ (x0 ++ renderActs term acts) [] none 0 true =
      .ok (⟨none, ⟨.initial, false, .none, [mkOperand o .expr x0]⟩ :: acts.map (expMember o)⟩, afterTerm term) := by
  obtain ⟨fuel, rfl⟩ : ∃ f, fuel = f + 1 := ⟨fuel - 1, by omega⟩
  obtain ⟨hx1, hx2, hx3⟩ := hx0
  have hpu := parseUntil_acts o .expr false term x0 acts hx1 hx2 hx3 (ActsOK.head hacts)
  have hpg : parseGroup o ⟨.initial, false, .none⟩ (x0 ++ renderActs term acts) =
      .ok ((⟨.initial, false, .none, [mkOperand o .expr x0]⟩, [x0]), (nextOf term acts).1, (nextOf term acts).2) := by
    have har : arityOf Comb.initial = some ⟨.initial, 1, false, .expr⟩ := by decide
    simp [parseGroup, har, parseNOrEmpty, parseUnits, hpu]
  unfold buildChain
  rw [hpg]
  simp only [if_true, hlet]
  cases acts with
  | nil =>
    simp only [nextOf, List.map_nil, List.nil_append]
    exact finish_chain term hacts none _ _
  | cons a as =>
    obtain ⟨hb1, hb2⟩ := hbal
    have hrec := chain_roundtrip_partial o term as a [⟨.initial, false, .none, [mkOperand o .expr x0]⟩] none _ fuel
      hacts hb2 (by simp at hfuel; omega)
    simp only [nextOf, List.nil_append]
    have hgd : a.grp.deferred = a.deferred := rfl
    have hgm : a.grp.mv = a.mv := rfl
    have hnot : ¬ ((if a.deferred = true then (0 : Int) else 0) + mvDelta a.mv < 0) := by omega
    simp only [hgd, hgm, hnot, if_false]
    rw [hrec]
    simp

/-- … and with `let`: when syn reads the initial unit as `let <ident pattern> = rhs`, the branch carries the pattern and
    its identifier, and its initial value is `rhs` (a block or an expression, as syn classifies it); everything after
    it is parsed as before. -/
theorem branch_roundtrip_let_partial (o : Oracle) (term x0 : Toks) (acts : List SrcAct) (p : Toks) (i : String) (rhs : Toks)
    (blk : Bool) (hx0 : OperandOK o x0 (renderActs term acts)) (hlet : o.letSplit x0 = .identPat p i rhs blk)
    (hacts : ActsOK o term acts) (hbal : BalanceOK 0 acts) (fuel : Nat) (hfuel : acts.length + 2 ≤ fuel) :
    buildChain o fuel ⟨.initial, false, .none⟩ (x0 ++ renderActs term acts) [] none 0 true =
      .ok (⟨some ⟨p, i⟩, ⟨.initial, false, .none, [⟨if blk then .block else .expr, rhs⟩]⟩ :: acts.map (expMember o)⟩,
        afterTerm term) := by
  obtain ⟨fuel, rfl⟩ : ∃ f, fuel = f + 1 := ⟨fuel - 1, by omega⟩
  obtain ⟨hx1, hx2, hx3⟩ := hx0
  have hpu := parseUntil_acts o .expr false term x0 acts hx1 hx2 hx3 (ActsOK.head hacts)
  have hpg : parseGroup o ⟨.initial, false, .none⟩ (x0 ++ renderActs term acts) =
      .ok ((⟨.initial, false, .none, [mkOperand o .expr x0]⟩, [x0]), (nextOf term acts).1, (nextOf term acts).2) := by
    have har : arityOf Comb.initial = some ⟨.initial, 1, false, .expr⟩ := by decide
    simp [parseGroup, har, parseNOrEmpty, parseUnits, hpu]
  unfold buildChain
  rw [hpg]
  simp only [if_true, hlet]
  cases acts with
  | nil =>
    simp only [nextOf, List.map_nil, List.nil_append]
    exact finish_chain term hacts _ _ _
  | cons a as =>
    obtain ⟨hb1, hb2⟩ := hbal
    have hrec := chain_roundtrip_partial o term as a [⟨.initial, false, .none, [⟨if blk then .block else .expr, rhs⟩]⟩]
      (some ⟨p, i⟩) _ fuel hacts hb2 (by simp at hfuel; omega)
    simp only [nextOf, List.nil_append]
    have hgd : a.grp.deferred = a.deferred := rfl
    have hgm : a.grp.mv = a.mv := rfl
    have hnot : ¬ ((if a.deferred = true then (0 : Int) else 0) + mvDelta a.mv < 0) := by omega
    simp only [hgd, hgm, hnot, if_false]
    rw [hrec]
    simp

/-- a `let` whose pattern is not an identifier pattern is rejected with the `IncorrectLet` error -/
theorem branch_other_let_rejected (o : Oracle) (term x0 : Toks) (acts : List SrcAct)
    (hx0 : OperandOK o x0 (renderActs term acts)) (hlet : o.letSplit x0 = .otherPat)
    (hacts : ActsOK o term acts) (fuel : Nat) (hfuel : 1 ≤ fuel) :
    buildChain o fuel ⟨.initial, false, .none⟩ (x0 ++ renderActs term acts) [] none 0 true = .error .incorrectLet := by
  obtain ⟨fuel, rfl⟩ : ∃ f, fuel = f + 1 := ⟨fuel - 1, by omega⟩
  obtain ⟨hx1, hx2, hx3⟩ := hx0
  have hpu := parseUntil_acts o .expr false term x0 acts hx1 hx2 hx3 (ActsOK.head hacts)
  have hpg : parseGroup o ⟨.initial, false, .none⟩ (x0 ++ renderActs term acts) =
      .ok ((⟨.initial, false, .none, [mkOperand o .expr x0]⟩, [x0]), (nextOf term acts).1, (nextOf term acts).2) := by
    have har : arityOf Comb.initial = some ⟨.initial, 1, false, .expr⟩ := by decide
    simp [parseGroup, har, parseNOrEmpty, parseUnits, hpu]
  unfold buildChain
  rw [hpg]
  simp only [if_true, hlet]

/-! ### 7. Several branches -/

structure SrcBranch where
  x0 : Toks
  acts : List SrcAct

/-- branches separated by `,` -/
def renderBranches : List SrcBranch → Toks
  | [] => []
  | [b] => b.x0 ++ renderActs [] b.acts
  | b :: b' :: bs => b.x0 ++ renderActs (TT.punct ',' false :: renderBranches (b' :: bs)) b.acts

def expBranch (o : Oracle) (b : SrcBranch) : Branch :=
  ⟨none, ⟨.initial, false, .none, [mkOperand o .expr b.x0]⟩ :: b.acts.map (expMember o)⟩

/-- every branch is well-formed in front of what follows it, does not start like a handler, and is not longer than
    its text (every operator has at least one token) -/
def BranchesOK (o : Oracle) : List SrcBranch → Prop
  | [] => True
  | [b] =>
    OperandOK o b.x0 (renderActs [] b.acts) ∧ o.letSplit b.x0 = .notLet ∧ ActsOK o [] b.acts ∧ BalanceOK 0 b.acts ∧
    handlerKw (renderBranches [b]) = none ∧ b.acts.length ≤ (renderBranches [b]).length ∧ renderBranches [b] ≠ []
  | b :: b' :: bs =>
    OperandOK o b.x0 (renderActs (TT.punct ',' false :: renderBranches (b' :: bs)) b.acts) ∧ o.letSplit b.x0 = .notLet ∧
    ActsOK o (TT.punct ',' false :: renderBranches (b' :: bs)) b.acts ∧ BalanceOK 0 b.acts ∧
    handlerKw (renderBranches (b :: b' :: bs)) = none ∧ b.acts.length ≤ (renderBranches (b :: b' :: bs)).length ∧
    renderBranches (b :: b' :: bs) ≠ [] ∧ BranchesOK o (b' :: bs)

/-- **Commas separate branches.**  Branches written one after the other with `,` between them: the item loop of
    `JoinInputDefault::parse` returns exactly these branches, in order, and no handler. -/
theorem branches_roundtrip_partial (o : Oracle) (bs : List SrcBranch) :
    ∀ (acc : List Branch) (fuel : Nat), BranchesOK o bs → bs.length + 1 ≤ fuel →
      parseItems o fuel (renderBranches bs) acc none = .ok (acc ++ bs.map (expBranch o), none) := by
  induction bs with
  | nil =>
    intro acc fuel _ hf
    obtain ⟨fuel, rfl⟩ : ∃ f, fuel = f + 1 := ⟨fuel - 1, by simp at hf; omega⟩
    simp [renderBranches, parseItems]
  | cons b rest ih =>
    intro acc fuel hok hf
    obtain ⟨fuel, rfl⟩ : ∃ f, fuel = f + 1 := ⟨fuel - 1, by simp at hf; omega⟩
    cases rest with
    | nil =>
      obtain ⟨h1, h2, h3, h4, h5, h6, h7⟩ := hok
      have hb := branch_roundtrip_partial o [] b.x0 b.acts h1 h2 h3 h4 ((renderBranches [b]).length + 2) (by omega)
      have hin : renderBranches [b] = b.x0 ++ renderActs [] b.acts := rfl
      obtain ⟨t, ts, hts⟩ : ∃ t ts, renderBranches [b] = t :: ts := by
        cases hr : renderBranches [b] with
        | nil => exact absurd hr h7
        | cons t ts => exact ⟨t, ts, rfl⟩
      have hpi : parseItems o (fuel + 1) (renderBranches [b]) acc none =
          parseItems o fuel (afterTerm []) (acc ++ [expBranch o b]) none := by
        rw [hts]
        simp only [parseItems]
        rw [← hts, h5]
        simp only [Option.isSome_none, Bool.false_eq_true, if_false]
        rw [hin] at hb ⊢
        rw [hb]
        rfl
      rw [hpi]
      obtain ⟨fuel, rfl⟩ : ∃ f, fuel = f + 1 := ⟨fuel - 1, by simp at hf; omega⟩
      simp [afterTerm, eatComma, parseItems]
    | cons b' bs' =>
      obtain ⟨h1, h2, h3, h4, h5, h6, h7, h8⟩ := hok
      have hb := branch_roundtrip_partial o (TT.punct ',' false :: renderBranches (b' :: bs')) b.x0 b.acts h1 h2 h3 h4
        ((renderBranches (b :: b' :: bs')).length + 2) (by omega)
      have hin : renderBranches (b :: b' :: bs') =
          b.x0 ++ renderActs (TT.punct ',' false :: renderBranches (b' :: bs')) b.acts := rfl
      obtain ⟨t, ts, hts⟩ : ∃ t ts, renderBranches (b :: b' :: bs') = t :: ts := by
        cases hr : renderBranches (b :: b' :: bs') with
        | nil => exact absurd hr h7
        | cons t ts => exact ⟨t, ts, rfl⟩
      have hpi : parseItems o (fuel + 1) (renderBranches (b :: b' :: bs')) acc none =
          parseItems o fuel (renderBranches (b' :: bs')) (acc ++ [expBranch o b]) none := by
        rw [hts]
        simp only [parseItems]
        rw [← hts, h5]
        simp only [Option.isSome_none, Bool.false_eq_true, if_false]
        rw [hin] at hb ⊢
        rw [hb]
        simp [afterTerm, eatComma, expBranch]
      rw [hpi, ih (acc ++ [expBranch o b]) fuel h8 (by simp at hf ⊢; omega)]
      simp [List.append_assoc]


/-- **The whole macro input**, without options and handler: branches separated by commas parse to exactly these
    branches, in order. -/
theorem input_roundtrip_partial (o : Oracle) (bs : List SrcBranch) (hne : bs ≠ []) (hok : BranchesOK o bs)
    (hopt : optionKw (renderBranches bs) = none) :
    parseMacroInput o (renderBranches bs) = .ok { branches := bs.map (expBranch o) } := by
  have hrounds : Tables.optionRounds = none := rfl
  have hlen : bs.length + 1 ≤ (renderBranches bs).length + 2 := by
    -- every branch has at least one token
    suffices h : ∀ l : List SrcBranch, BranchesOK o l → l.length ≤ (renderBranches l).length + 1 by
      have := h bs hok; omega
    intro l
    induction l with
    | nil => intro _; simp
    | cons b rest ih =>
      intro hl
      cases rest with
      | nil => simp
      | cons b' bs' =>
        obtain ⟨_, _, _, _, _, _, _, h8⟩ := hl
        have := ih h8
        have hin : renderBranches (b :: b' :: bs') =
            b.x0 ++ renderActs (TT.punct ',' false :: renderBranches (b' :: bs')) b.acts := rfl
        have hge : (renderBranches (b' :: bs')).length + 1 ≤
            (renderActs (TT.punct ',' false :: renderBranches (b' :: bs')) b.acts).length := by
          generalize b.acts = acts
          induction acts with
          | nil => simp [renderActs]
          | cons a as iha => simp only [renderActs, List.length_append]; omega
        rw [hin, List.length_append]
        simp only [List.length_cons] at this ⊢
        omega
  unfold parseMacroInput
  simp only [hrounds]
  have hpo : parseOptions o ((renderBranches bs).length + 1) ((renderBranches bs).length + 1) (renderBranches bs) {} =
      .ok ({}, renderBranches bs) := by
    simp [parseOptions, hrounds, hopt]
  rw [hpo]
  simp only
  rw [branches_roundtrip_partial o bs [] _ hok hlen]
  have hne' : (bs.map (expBranch o)).isEmpty = false := by
    cases bs with
    | nil => exact absurd rfl hne
    | cons b rest => rfl
  simp [hne']

/-- … and with options in front: any subset of the four options, in any order, each with an argument that parses,
    followed by the branches.  The options set their fields (`applyItem`, Lemmas/OptionParse.lean), the branches are
    parsed as in `input_roundtrip_partial`; an option argument with tokens left over is the "unexpected token" error. -/
theorem input_roundtrip_options_partial (o : Oracle) (its : List OptItem) (bs : List SrcBranch) (hne : bs ≠ [])
    (hok : BranchesOK o bs) (hits : ∀ it ∈ its, ItemOK o it) (hnd : (its.map (·.kw)).Nodup)
    (hopt : optionKw (renderBranches bs) = none) :
    parseMacroInput o (renderOpts its ++ renderBranches bs) =
      (if (its.foldl (applyItem o) {}).unexpected then .error (.syn "unexpected token")
       else .ok { fcp := (its.foldl (applyItem o) {}).fcp, joiner := (its.foldl (applyItem o) {}).joiner,
                  transpose := (its.foldl (applyItem o) {}).transpose, lazy := (its.foldl (applyItem o) {}).lazy,
                  handler := none, branches := bs.map (expBranch o) }) := by
  have hrounds : Tables.optionRounds = none := rfl
  have hnoopt := input_roundtrip_partial o bs hne hok hopt
  -- the branch part, as the option-less theorem uses it
  unfold parseMacroInput at hnoopt ⊢
  simp only [hrounds] at hnoopt ⊢
  have hpo0 : parseOptions o ((renderBranches bs).length + 1) ((renderBranches bs).length + 1) (renderBranches bs) {} =
      .ok ({}, renderBranches bs) := by
    simp [parseOptions, hrounds, hopt]
  rw [hpo0] at hnoopt
  simp only at hnoopt
  have hl : its.length < (renderOpts its ++ renderBranches bs).length + 1 := by
    simp only [List.length_append, renderOpts_length]; omega
  have hpo : parseOptions o ((renderOpts its ++ renderBranches bs).length + 1) ((renderOpts its ++ renderBranches bs).length + 1)
      (renderOpts its ++ renderBranches bs) {} = .ok (its.foldl (applyItem o) {}, renderBranches bs) := by
    rw [parseOptions_seq o _ hopt _ _ its {} hits hl hl,
      seqSpec_ok o its {} hits hnd (fun it hit => by
        rcases mem_optionOrder _ (hits it hit).1 with h | h | h | h <;> simp [isSet, h])]
  rw [hpo]
  simp only
  cases hpi : parseItems o ((renderBranches bs).length + 2) (renderBranches bs) [] none with
  | error e => rw [hpi] at hnoopt; simp at hnoopt
  | ok r =>
    obtain ⟨bs', h'⟩ := r
    rw [hpi] at hnoopt
    simp only at hnoopt ⊢
    by_cases hemp : bs'.isEmpty = true
    · simp [hemp] at hnoopt
    · simp only [hemp, Bool.false_eq_true, if_false, Opts.unexpected] at hnoopt ⊢
      have hb : bs' = bs.map (expBranch o) ∧ h' = none := by
        have := hnoopt
        simp only [Except.ok.injEq] at this
        have h1 := congrArg Input.branches this
        have h2 := congrArg Input.handler this
        exact ⟨h1, h2⟩
      rw [hb.1, hb.2]

/-- the model on a concrete chain with `~`, `>>>` and `<<<` (an oracle that accepts single tokens as expressions):
    `a |> f ~=> >>> <<<` -/
example :
    let o : Oracle := { validExpr := fun ts => ts.length == 1, validType := fun _ => false, isBlock := fun _ => false,
                        letSplit := fun _ => .notLet, reprintExpr := id, reprintType := id, exprPrefix := fun _ => none,
                        pathPrefix := fun _ => none, litBool := fun _ => none }
    let toks : Toks := [.ident "a", .punct '|' true, .punct '>' false, .ident "f", .punct '~' true, .punct '=' true,
                        .punct '>' false, .punct '>' true, .punct '>' true, .punct '>' false,
                        .punct '<' true, .punct '<' true, .punct '<' false]
    (buildChain o 10 ⟨.initial, false, .none⟩ toks [] none 0 true).toOption.map
        (fun r => (r.1.members.map (fun m => (m.ctor.name, m.deferred, m.mv == .wrap, m.mv == .unwrap, m.ops.length)), r.2.length)) =
      some ([("Initial", false, false, false, 1), ("Map", false, false, false, 1), ("AndThen", true, true, false, 1),
             ("UNWRAP", false, false, true, 0)], 0) := by
  intro o toks
  rfl

/-- … and on operators with two operands and with a type operand: `a ^@ i, f =>[] T <->` -/
example :
    let o : Oracle := { validExpr := fun ts => ts.length == 1, validType := fun ts => ts.length == 1, isBlock := fun _ => false,
                        letSplit := fun _ => .notLet, reprintExpr := id, reprintType := id, exprPrefix := fun _ => none,
                        pathPrefix := fun _ => none, litBool := fun _ => none }
    let toks : Toks := [.ident "a", .punct '^' true, .punct '@' false, .ident "i", .punct ',' false, .ident "f",
                        .punct '=' true, .punct '>' false, .group .bracket [], .ident "T",
                        .punct '<' true, .punct '-' true, .punct '>' false]
    (buildChain o 10 ⟨.initial, false, .none⟩ toks [] none 0 true).toOption.map
        (fun r => (r.1.members.map (fun m => (m.ctor.name, m.ops.map (fun op => (op.kind == .type, op.toks)))), r.2.length)) =
      some ([("Initial", [(false, [.ident "a"])]), ("Fold", [(false, [.ident "i"]), (false, [.ident "f"])]),
             ("Collect", [(true, [.ident "T"])]), ("Unzip", [])], 0) := by
  intro o toks
  rfl

end JoinModel.Props.C14
