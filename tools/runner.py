"""Check driver: builds, proof audit, K1/K2 correspondence, violation search, evidence (DESIGN.md §6)."""
import fcntl
import hashlib
import json
import os
import re
import subprocess
import sys
import time

ROOT = os.path.dirname(os.path.dirname(os.path.abspath(__file__)))
REPO = os.environ.get("VERIF_REPO", "/repo")
BUILD = os.path.join(ROOT, ".build")
LEAN = os.path.join(ROOT, "lean")
HARNESS_DIR = os.path.join(ROOT, "harness")
HARNESS = os.path.join(BUILD, "harness", "release", "jharness")
DRIVER = os.path.join(LEAN, ".lake", "build", "bin", "joinmodel")
EVIDENCE = os.path.join(ROOT, "evidence")
REPLAYS = os.path.join(ROOT, "replays")
KNOWN = os.path.join(ROOT, "known_findings.txt")

ALLOWED_AXIOMS = {"propext", "Classical.choice", "Quot.sound"}
FORBIDDEN = re.compile(r"\b(sorry|admit|native_decide|bv_decide|implemented_by|unsafe)\b|^axiom\s|maxHeartbeats\s+0\b", re.M)

ENV = dict(os.environ, CARGO_NET_OFFLINE="true", CARGO_TARGET_DIR=os.path.join(BUILD, "harness"))


def sh(cmd, cwd=None, timeout=3600, env=None, input=None):
    p = subprocess.run(cmd, cwd=cwd, env=env or ENV, capture_output=True, text=True, timeout=timeout, input=input)
    return p.returncode, p.stdout, p.stderr


class Lock:
    def __enter__(self):
        os.makedirs(BUILD, exist_ok=True)
        self.f = open(os.path.join(BUILD, "lock"), "w")
        fcntl.flock(self.f, fcntl.LOCK_EX)
        return self

    def __exit__(self, *a):
        fcntl.flock(self.f, fcntl.LOCK_UN)
        self.f.close()


def build_harness():
    rc, out, err = sh(["cargo", "build", "--release", "--offline"], cwd=HARNESS_DIR)
    return rc == 0, (out + err)[-4000:]


def extract_tables():
    rc, out, err = sh([sys.executable, os.path.join(ROOT, "tools", "extract_tables.py")])
    if rc != 0:
        return False, err.strip()[-2000:], {}
    try:
        return True, "", json.loads(out.strip().splitlines()[-1])
    except Exception as e:  # noqa
        return False, "extractor output unreadable: %s" % e, {}


def lake_build(targets):
    rc, out, err = sh(["lake", "build"] + targets, cwd=LEAN, timeout=3600)
    return rc == 0, (out + err)


def strip_lean_comments(s):
    # block comments (non-nested is enough for our files) and line comments
    s = re.sub(r"/-.*?-/", "", s, flags=re.S)
    s = re.sub(r"--[^\n]*", "", s)
    return s


def forbidden_scan():
    hits = []
    for dp, _, fns in os.walk(os.path.join(LEAN, "JoinModel")):
        for fn in fns:
            if fn.endswith(".lean"):
                p = os.path.join(dp, fn)
                with open(p) as f:
                    body = strip_lean_comments(f.read())
                for m in FORBIDDEN.finditer(body):
                    hits.append("%s: %s" % (os.path.relpath(p, LEAN), m.group(0).strip()))
    with open(os.path.join(LEAN, "Main.lean")) as f:
        body = strip_lean_comments(f.read())
    # the driver's read loop is a `partial def`; that is not a proof construct
    for m in FORBIDDEN.finditer(body):
        hits.append("Main.lean: %s" % m.group(0).strip())
    return hits


def theorem_names(module):
    path = os.path.join(LEAN, module.replace(".", "/") + ".lean")
    with open(path) as f:
        body = strip_lean_comments(f.read())
    ns = re.search(r"^namespace\s+(\S+)", body, re.M)
    prefix = ns.group(1) + "." if ns else ""
    return [prefix + n for n in re.findall(r"^(?:protected\s+)?theorem\s+(\S+)", body, re.M)]


def audit_axioms(module, names):
    """Returns (ok, {theorem: [axioms]}, log)."""
    os.makedirs(os.path.join(BUILD, "audit"), exist_ok=True)
    path = os.path.join(BUILD, "audit", module.replace(".", "_") + ".lean")
    with open(path, "w") as f:
        f.write("import %s\n" % module)
        for n in names:
            f.write("#print axioms %s\n" % n)
    rc, out, err = sh(["lake", "env", "lean", path], cwd=LEAN)
    text = out + err
    res = {}
    for m in re.finditer(r"'([^']+)' depends on axioms: \[([^\]]*)\]", text, re.S):
        res[m.group(1)] = [a.strip() for a in m.group(2).replace("\n", " ").split(",") if a.strip()]
    for m in re.finditer(r"'([^']+)' does not depend on any axioms", text):
        res[m.group(1)] = []
    ok = rc == 0 and all(n in res for n in names) and all(set(v) <= ALLOWED_AXIOMS for v in res.values())
    return ok, res, text[-3000:]


def leanchecker(modules):
    rc, out, err = sh(["lake", "env", "leanchecker"] + modules, cwd=LEAN, timeout=3600)
    return rc == 0, (out + err)[-2000:]


# ------------------------------------------------------------------------------------------------
# known findings


def load_known():
    known, fixed = [], []
    if os.path.exists(KNOWN):
        with open(KNOWN) as f:
            for line in f:
                line = line.strip()
                if line.startswith("known:"):
                    m = re.match(r"known:\s+property=(\S+)\s+signature=(\S+)\s+(.*)", line)
                    if m:
                        known.append({"property": m.group(1), "signature": m.group(2), "what": m.group(3)})
                elif line.startswith("fixed:"):
                    fixed.append(line)
    return known, fixed


# ------------------------------------------------------------------------------------------------


class Outcome:
    """Accumulates what a check did; turns into evidence + exit status."""

    def __init__(self, pid, tier, seed):
        self.pid, self.tier, self.seed = pid, tier, seed
        self.t0 = time.time()
        self.violations = []      # (replay_path, found_input)
        self.known_lines = []
        self.coverage = {"samples": []}
        self.assumptions = []
        self.notes = []

    def violation(self, replay_obj, found_input, signature=None):
        """Report one violation unless known_findings.txt lists its signature."""
        known, _ = load_known()
        if signature:
            for k in known:
                if k["property"] == self.pid and k["signature"] == signature:
                    line = "KNOWN-FINDING: property=%s %s" % (self.pid, k["what"])
                    if line not in self.known_lines:
                        self.known_lines.append(line)
                        print(line)
                    return
        if len(self.violations) >= 5:
            self.suppressed = getattr(self, "suppressed", 0) + 1
            return
        os.makedirs(REPLAYS, exist_ok=True)
        blob = json.dumps(replay_obj, indent=1, sort_keys=True, default=str)
        h = hashlib.sha256(blob.encode()).hexdigest()[:12]
        path = os.path.join(REPLAYS, "%s-%s.json" % (self.pid, h))
        replay_obj = dict(replay_obj, property=self.pid, signature=signature)
        with open(path, "w") as f:
            json.dump(replay_obj, f, indent=1, sort_keys=True, default=str)
        self.violations.append((path, found_input))
        print("VIOLATION property=%s replay=%s%s" % (self.pid, path, "" if found_input else " no-failing-input-found"))
        sys.stdout.flush()

    def finish(self, level="proof"):
        os.makedirs(EVIDENCE, exist_ok=True)
        ev = {
            "property_id": self.pid,
            "tier": self.tier,
            "seed": self.seed,
            "level": level,
            "coverage": self.coverage,
            "assumptions": self.assumptions,
            "wall_s": round(time.time() - self.t0, 2),
            "violations": len(self.violations),
            "known_findings": self.known_lines,
            "notes": self.notes,
        }
        with open(os.path.join(EVIDENCE, self.pid + ".json"), "w") as f:
            json.dump(ev, f, indent=1, sort_keys=True, default=str)
        return 1 if self.violations else 0


def setup():
    with Lock():
        ok, log = build_harness()
        if not ok:
            sys.stderr.write(log)
            return 1
        ok, msg, _ = extract_tables()
        if not ok:
            sys.stderr.write("extract_tables: %s\n" % msg)
            return 1
        ok, log = lake_build([])
        if not ok:
            sys.stderr.write(log[-6000:])
            return 1
    import k2
    k2.setup()
    print("setup ok")
    return 0


def run_check(pid, tier, seed):
    import props
    if pid not in props.PROPS:
        sys.stderr.write("unknown property %s\n" % pid)
        return 2
    with Lock():
        return props.run(pid, tier, seed)


def replay(pid, path):
    import props
    with Lock():
        return props.replay(pid, path)
