/-
  C09 — async macros are lazy, concurrent within a step, and always complete.

  Three layers:
  1. the *shape* of the async expansion, for every program: one pinned boxed `async move` block containing everything,
     steps joined by `futures::join!/try_join!` or awaited directly, task-spawning through `__spawn_tokio`;
  2. `sync_refines` covers `join_async!` / `join_async_spawn!`: under the canonical schedule (every operand polled to
     completion in turn) the generated code is the reference step loop (`async_canonical`);
  3. the poll-level model (`Async.lean`: tasks with gated pending points, `join!` = poll every unfinished operand once,
     the `async` block = steps in sequence) built from the parsed program (`AsyncSpec.lean`), for *every* schedule of
     gate openings — any order, batches, spurious polls: nothing runs before the first poll, a pending branch never
     blocks a ready sibling, a pending future waits exactly on closed gates (no lost wake-up), and as soon as it is
     polled with all gates open it completes with the reference result, having emitted the reference events exactly
     once each (`join_async_every_schedule`).
  Trusted: that rustc's `async`/`.await` and futures' `join!`/`try_join!` behave like `Plan.poll`/`pollStep`; K2-async
  compares real futures on a deterministic executor (gates, counting root waker) and on tokio with the reference.
  Partial: the schedule theorem is for the non-try async macros without handler; `try_join!` plans are covered by the
  per-poll theorems (`pollStep_prefix`, `Plan.pending_blocked`, `Plan.poll_allOpen`) but not by schedule independence
  (which failing branch wins is schedule dependent, as C05 says).
-/
import JoinModel.Lemmas.GenFacts
import JoinModel.Print
import JoinModel.AsyncSpec
import JoinModel.Props.Common
import JoinModel.AsyncTry
namespace JoinModel.Props.C09
open JoinModel

/-- Laziness, syntactically: the whole async expansion is `Box::pin(async move { … })` — a single expression whose
    evaluation creates a future and runs nothing; every user token (handler definition, block captures, chains,
    handler call) is inside the `async move` block. -/
theorem all_user_tokens_inside_async (c : Code) (ha : c.kind.isAsync = true) :
    ∃ body, printCode c = [kw "Box"] ++ pathSep ++ [kw "pin", paren [kw "async", kw "move", brace body]] := by
  simp only [printCode, ha, if_true]
  exact ⟨_, rfl⟩

/-- Within a step the active branches are joined by one `P::join!(…)` / `P::try_join!(…)` (or the custom joiner) when
    there are several, and awaited directly (`chain.await`) when there is one: the macro adds no polling logic. -/
theorem async_step_join (c : Ctx) (k : Nat) (s : StepCode) (h : genStep c k = .ok s) (ha : c.kind.isAsync = true)
    (hj : c.joiner = none) :
    s.form = (if c.activeCount k > 1 then
        JoinForm.futJoin ((c.fcp.getD []) ++ [pj ':', pu ':', id' (if c.kind.isTry then "try_join" else "join"), pu '!'])
          c.kind.isTry
      else JoinForm.awaitCat) ∧ s.tbs = [] ∧ s.spawnJoin = none := by
  unfold genStep at h
  split at h
  · cases h
  · cases h
    refine ⟨?_, by simp [ha], by simp [ha]⟩
    by_cases hm : c.activeCount k > 1 <;> simp [hm, hj, ha]

/-- Task-spawning: every operand of a multi-branch step is `{ __spawn_tokio(Box::pin(chain)) }`; a single active
    branch is awaited in place. -/
theorem async_spawn_wrap (c : Ctx) (k : Nat) (s : StepCode) (h : genStep c k = .ok s) (ha : c.kind.isAsync = true)
    (hs : c.kind.isSpawn = true) :
    ∀ e ∈ s.elems, e.wrap = (if c.activeCount k > 1 then ElemWrap.tokio else ElemWrap.plain) := by
  unfold genStep at h
  split at h
  · cases h
  · rename_i defs elems hel
    cases h
    obtain ⟨_, he⟩ := genElems_spec c k (c.stepActs k) 0 defs elems hel
    intro e hmem
    have : e.sem ∈ elems.map Elem.sem := List.mem_map.mpr ⟨e, hmem, rfl⟩
    rw [he] at this
    obtain ⟨ab, _, hab⟩ := List.mem_map.mp this
    have hw : e.wrap = c.wrapOf k ab.2 := by
      have := congrArg (fun (t : Nat × Bool × ElemWrap × Var × List Member) => t.2.2.1) hab
      simpa [Elem.sem] using this.symm
    rw [hw]
    by_cases hm : c.activeCount k > 1 <;> simp [Ctx.wrapOf, Ctx.multi, hm, hs, ha]

/-- the spawn wrapper prints as `{ __spawn_tokio(Box::pin(chain)) }` -/
theorem tokio_elem_printed (e : Elem) (hw : e.wrap = .tokio) (hl : e.lazy = false) :
    printElem e = [brace [Var.spawnTokio.tok, paren ([kw "Box"] ++ pathSep ++ [kw "pin", paren e.chain])]] := by
  simp [printElem, hw, hl]

/-- later steps start from the previous result wrapped into a future: `async move { r }` -/
theorem async_step_start (t : Toks) : wrapIntoBlock true t = [id' "async", id' "move", brace t] := rfl

/-! ### 2. canonical schedule -/

/-- `join_async!` / `join_async_spawn!` (and alias): the meaning of the generated code under the canonical schedule is
    the reference semantics — events and result, for every program, world and size. -/
theorem async_canonical (σ : World) (parent : Option String) (p : Input) (kind : Kind) (code : Code)
    (hs : Supported p kind) (_ha : kind.isAsync = true) (hgen : gen p kind = .ok code) :
    evalCode σ parent code = specRun σ parent p kind := sync_refines σ parent p kind code hs hgen

/-- the theorem is not vacuous: a two-branch, two-step program under `join_async!` is supported and generates code -/
example :
    let p : Input := { branches := [⟨none, [⟨.initial, false, .none, [⟨.expr, [.ident "a"]⟩]⟩,
                                              ⟨.map, true, .none, [⟨.expr, [.ident "f"]⟩]⟩]⟩,
                                     ⟨none, [⟨.initial, false, .none, [⟨.expr, [.ident "b"]⟩]⟩]⟩] }
    (gen p ⟨true, false, false⟩).toOption.isSome = true := by decide

/-- `try_join_async!` / `try_join_async_spawn!` (and aliases): under the canonical schedule the generated code is the
    async-try reference semantics (`specRunAT`: a step stops at its first failing chain). -/
theorem async_try_canonical (σ : World) (parent : Option String) (p : Input) (kind : Kind) (code : Code)
    (hs : SupportedAT p kind) (hgen : gen p kind = .ok code) :
    evalCode σ parent code = specRunAT σ parent p kind := async_try_refines σ parent p kind code hs hgen

/-! ### 3. every schedule -/

/-- no chain of the world panics (a panic ends the future at the poll in which it happens; which one that is, is
    schedule dependent) -/
def NoChainPanic (σ : World) : Prop := ∀ b k prev caps vis, isPanicUR (σ.chain b k prev caps vis).res = false

theorem planLoop_nostop (c : SpecCfg) (pend : Pend) (hnp : NoChainPanic c.σ) (htry : c.kind.isTry = false) (rem k : Nat)
    (vals : List (Option Value)) :
    (planLoop c pend rem k vals).2.NoStop := by
  induction rem generalizing k vals with
  | zero =>
    unfold planLoop
    simp only
    split
    · exact .done _
    · exact .done _
    · refine .step _ _ _ _ _ ?_ (fun _ => .done _)
      intro t ht
      obtain ⟨bc, _, rfl⟩ := List.mem_map.mp ht
      simp only [stopOf, htry, Bool.false_and, Bool.or_false]
      exact hnp _ _ _ _ _
  | succ rem ih =>
    unfold planLoop
    simp only
    split
    · exact .done _
    · exact .done _
    · refine .step _ _ _ _ _ ?_ (fun _ => ih _ _)
      intro t ht
      obtain ⟨bc, _, rfl⟩ := List.mem_map.mp ht
      simp only [stopOf, htry, Bool.false_and, Bool.or_false]
      exact hnp _ _ _ _ _

/-- **Every schedule.**  `join_async!{ p }` without a handler, in a world whose chains do not panic, with arbitrary
    pending points `pend` inside the chains: whatever gates are open at the successive polls `gs` (any order, any
    batches, spurious polls), once the future is polled with every gate open it is complete; its result is the result of
    the generated code, and the events it has emitted over all polls are the generated code's events, each exactly once. -/
theorem join_async_every_schedule (σ : World) (parent : Option String) (p : Input) (kind : Kind) (code : Code)
    (hs : Supported p kind) (ha : kind.isAsync = true) (hh : p.handler = none) (hgen : gen p kind = .ok code)
    (hnp : NoChainPanic σ) (pend : Pend) (gs : List Gates) :
    let c := cfgFor σ parent p kind
    let pl := planLoop c pend (c.maxDepth - 1) 0 (List.replicate c.n none)
    (pl.2.run (gs ++ [allOpen])).2 = .done (loopOf σ parent p kind).res ∧
    (pl.1 ++ (pl.2.run (gs ++ [allOpen])).1).Perm (evalCode σ parent code).trace := by
  intro c pl
  have htry : kind.isTry = false := hs.asyncNotTry ha
  have hth : c.kind.threads = false := by
    show kind.threads = false
    simp [Kind.threads, ha]
  obtain ⟨c1, c2⟩ := planLoop_canon c pend hth htry (c.maxDepth - 1) 0 (List.replicate c.n none)
  obtain ⟨r1, r2⟩ := Plan.run_complete gs pl.2 (planLoop_nostop c pend hnp htry _ _ _)
  refine ⟨by rw [r1, c2]; rfl, ?_⟩
  rw [sync_refines σ parent p kind code hs hgen, (run_trace_no_handler σ parent p kind hh).1]
  show (pl.1 ++ (pl.2.run (gs ++ [allOpen])).1).Perm (specLoop c (c.maxDepth - 1) 0 (List.replicate c.n none)).trace
  rw [← c1]
  exact List.Perm.append_left _ r2

/-- **Laziness** (model): before the first poll nothing has been emitted; in particular the block captures of step 0
    (`pl.1`) belong to the first poll, not to the creation of the future. -/
theorem nothing_before_first_poll (c : SpecCfg) (pend : Pend) (rem : Nat) (vals : List (Option Value)) :
    ((planLoop c pend rem 0 vals).2.run []).1 = [] := rfl

/-- **A pending branch never blocks a ready sibling**: in one poll of a step of a `join!` plan every operand advances
    exactly as far as its own gates allow. -/
theorem siblings_independent (op : Gates) (ts : List (Task MEv (UR Value))) :
    (pollStep op (fun _ => false) ts).2.1 = ts.map (fun t => (t.poll op).2) := (pollStep_join op ts).1

/-- **No lost wake-up**: a future left pending by a poll waits on at least one gate, and every gate it waits on is
    closed — for `join!` and `try_join!` plans alike. -/
theorem pending_only_on_closed_gates (op : Gates) (pl : Plan MEv (UR Value) (Res Fin)) (h : (pl.poll op).2.isDone = false) :
    (pl.poll op).2.wakeSet ≠ [] ∧ ∀ g ∈ (pl.poll op).2.wakeSet, op g = false := Plan.pending_blocked op pl h

/-! ### 4. the async try macros: canonical plan = `specLoopAT`; every schedule when nothing fails -/

/-- payloads of outputs that are all successes -/
def urPayloads : List (UR Value) → List Value
  | [] => []
  | .ok (.succ p) :: r => p :: urPayloads r
  | _ :: r => urPayloads r

/-- the operands of a `try_join!` step, run in order up to the first one that fails or panics, are `specChainsTry` -/
theorem firstStop_chains_try (c : SpecCfg) (htry : c.kind.isTry = true) (pend : Pend) (k : Nat) (vals : List (Option Value))
    (vis : List (String × Value)) (bcs : List (Nat × List Value)) :
    (firstStop (stopOf c) (bcs.map (taskOf c pend k vals vis))).1 = (specChainsTry c k vals vis bcs).trace ∧
    (match (firstStop (stopOf c) (bcs.map (taskOf c pend k vals vis))).2 with
      | some (.panic n) => (specChainsTry c k vals vis bcs).res = .panic (.user n)
      | some (.ok v) => (specChainsTry c k vals vis bcs).res = .ok (.error v)
      | none => (specChainsTry c k vals vis bcs).res = .ok (.ok (urPayloads ((bcs.map (taskOf c pend k vals vis)).map (·.out)))) ∧
          urVals ((bcs.map (taskOf c pend k vals vis)).map (·.out)) =
            (urPayloads ((bcs.map (taskOf c pend k vals vis)).map (·.out))).map .succ) := by
  induction bcs with
  | nil => exact ⟨rfl, rfl, rfl⟩
  | cons bc bcs ih =>
    obtain ⟨b, caps⟩ := bc
    obtain ⟨ih1, ih2⟩ := ih
    have hev := taskOf_allEvs c pend k vals vis (b, caps)
    simp only at hev
    cases hres : (c.σ.chain b k (specPrev c vals b k) caps vis).res with
    | panic n =>
      have hout : (taskOf c pend k vals vis (b, caps)).out = .panic n := by simp [taskOf, hres]
      simp [List.map_cons, firstStop, hout, stopOf, isPanicUR, specChainsTry, M.andThen, hres, UR.toRes, hev]
    | ok v =>
      have hout : (taskOf c pend k vals vis (b, caps)).out = .ok v := by simp [taskOf, hres]
      cases v with
      | succ p =>
        simp only [List.map_cons, firstStop, hout, stopOf, isPanicUR, isFailUR, htry, Value.isSucc, Bool.not_true,
          Bool.and_false, Bool.or_false, Bool.false_eq_true, if_false, specChainsTry, M.andThen, hres, UR.toRes, hev, ih1]
        refine ⟨by cases (specChainsTry c k vals vis bcs).res <;> simp [M.ret], ?_⟩
        cases hfs : (firstStop (stopOf c) (bcs.map (taskOf c pend k vals vis))).2 with
        | some o =>
          rw [hfs] at ih2
          cases o with
          | panic n => simp only at ih2 ⊢; rw [ih2]
          | ok w => simp only at ih2 ⊢; rw [ih2]; simp [M.ret, Except.map]
        | none =>
          rw [hfs] at ih2
          simp only at ih2 ⊢
          rw [ih2.1]
          have h2 := ih2.2
          simp only [List.map_map] at h2
          simp [M.ret, Except.map, urPayloads, urVals, hout, h2]
      | atom _ | tnil | tcons _ _ | tup _ | fail _ | builder _ | handleOk _ | handlePanic =>
        simp [List.map_cons, firstStop, hout, stopOf, isPanicUR, isFailUR, htry, Value.isSucc, specChainsTry, M.andThen,
          hres, UR.toRes, hev, M.ret]

/-- **Canonical schedule = async-try reference.**  The canonical run of the plan of a `try_join_async!` invocation
    produces exactly the events and the outcome of `specLoopAT` (which `async_try_refines` proves equal to the
    generated code). -/
theorem planLoop_canon_try (c : SpecCfg) (pend : Pend) (htry : c.kind.isTry = true) (rem k : Nat) (vals : List (Option Value)) :
    (planLoop c pend rem k vals).1 ++ (planLoop c pend rem k vals).2.canon.1 = (specLoopAT c rem k vals).trace ∧
    (planLoop c pend rem k vals).2.canon.2 = (specLoopAT c rem k vals).res := by
  induction rem generalizing k vals with
  | zero =>
    unfold planLoop specLoopAT
    simp only
    cases hc : (specCapsAll c k (visibleSpec c.names vals) (c.active k)).res with
    | panic s => simp [M.andThen, hc, Plan.canon]
    | stuck => simp [M.andThen, hc, Plan.canon]
    | ok capss =>
      obtain ⟨f1, f2⟩ := firstStop_chains_try c htry pend k vals (visibleSpec c.names vals) ((c.active k).zip capss)
      simp only [M.andThen, hc, Plan.canon]
      cases hfs : (firstStop (stopOf c) (((c.active k).zip capss).map (taskOf c pend k vals (visibleSpec c.names vals)))).2 with
      | some o =>
        rw [hfs] at f2
        cases o with
        | ok v => simp only at f2; simp [f1, f2, onStopOf, M.ret]
        | panic n => simp only at f2; simp [f1, f2, onStopOf]
      | none =>
        rw [hfs] at f2
        simp only at f2
        obtain ⟨f2a, f2b⟩ := f2
        simp only [f1, f2a, f2b, Plan.canon, List.append_nil, finishVals, htry, if_true]
        cases allSome (updVals vals (c.active k)
          ((urPayloads ((((c.active k).zip capss).map (taskOf c pend k vals (visibleSpec c.names vals))).map (·.out))).map
            Value.succ)) <;> simp [M.stuck, M.ret]
  | succ rem ih =>
    unfold planLoop specLoopAT
    simp only
    cases hc : (specCapsAll c k (visibleSpec c.names vals) (c.active k)).res with
    | panic s => simp [M.andThen, hc, Plan.canon]
    | stuck => simp [M.andThen, hc, Plan.canon]
    | ok capss =>
      obtain ⟨f1, f2⟩ := firstStop_chains_try c htry pend k vals (visibleSpec c.names vals) ((c.active k).zip capss)
      simp only [M.andThen, hc, Plan.canon]
      cases hfs : (firstStop (stopOf c) (((c.active k).zip capss).map (taskOf c pend k vals (visibleSpec c.names vals)))).2 with
      | some o =>
        rw [hfs] at f2
        cases o with
        | ok v => simp only at f2; simp [f1, f2, onStopOf, M.ret]
        | panic n => simp only at f2; simp [f1, f2, onStopOf]
      | none =>
        rw [hfs] at f2
        simp only at f2
        obtain ⟨f2a, f2b⟩ := f2
        obtain ⟨i1, i2⟩ := ih (k + 1) (updVals vals (c.active k)
          ((urPayloads ((((c.active k).zip capss).map (taskOf c pend k vals (visibleSpec c.names vals))).map (·.out))).map
            Value.succ))
        simp only [f1, f2a, f2b]
        refine ⟨?_, i2⟩
        rw [← i1]
        simp [List.append_assoc]

/-- no chain of the world fails or panics -/
def AllSucceed (σ : World) : Prop := ∀ b k prev caps vis, ∃ p, (σ.chain b k prev caps vis).res = .ok (.succ p)

theorem planLoop_nostop_try (c : SpecCfg) (pend : Pend) (hall : AllSucceed c.σ) (rem k : Nat) (vals : List (Option Value)) :
    (planLoop c pend rem k vals).2.NoStop := by
  have hstop : ∀ bc : Nat × List Value, ∀ vis vals,
      stopOf c (taskOf c pend k vals vis bc).out = false := by
    intro bc vis vals
    obtain ⟨p, hp⟩ := hall bc.1 k (specPrev c vals bc.1 k) bc.2 vis
    simp [taskOf, hp, stopOf, isPanicUR, isFailUR, Value.isSucc]
  induction rem generalizing k vals with
  | zero =>
    unfold planLoop
    simp only
    split
    · exact .done _
    · exact .done _
    · refine .step _ _ _ _ _ ?_ (fun _ => .done _)
      intro t ht
      obtain ⟨bc, _, rfl⟩ := List.mem_map.mp ht
      obtain ⟨p, hp⟩ := hall bc.1 k (specPrev c vals bc.1 k) bc.2 (visibleSpec c.names vals)
      simp [taskOf, hp, stopOf, isPanicUR, isFailUR, Value.isSucc]
  | succ rem ih =>
    unfold planLoop
    simp only
    split
    · exact .done _
    · exact .done _
    · refine .step _ _ _ _ _ ?_ (fun _ => ih _ _ (fun bc vis vals => by
        obtain ⟨p, hp⟩ := hall bc.1 (k + 1) (specPrev c vals bc.1 (k + 1)) bc.2 vis
        simp [taskOf, hp, stopOf, isPanicUR, isFailUR, Value.isSucc]))
      intro t ht
      obtain ⟨bc, _, rfl⟩ := List.mem_map.mp ht
      obtain ⟨p, hp⟩ := hall bc.1 k (specPrev c vals bc.1 k) bc.2 (visibleSpec c.names vals)
      simp [taskOf, hp, stopOf, isPanicUR, isFailUR, Value.isSucc]

/-- **`try_join_async!`, every schedule, when every chain succeeds**: arbitrary pending points, arbitrary order and
    batches of gate openings, spurious polls — once polled with all gates open the future is complete with the result of
    the async-try reference loop (= the generated code, `async_try_refines`), having emitted its events exactly once
    each.  When a chain fails, which failure is returned depends on the schedule (C05); the per-poll theorems
    (`pending_only_on_closed_gates`, `pollStep_prefix`) still hold. -/
theorem try_join_async_every_schedule (c : SpecCfg) (pend : Pend) (htry : c.kind.isTry = true) (hall : AllSucceed c.σ)
    (rem k : Nat) (vals : List (Option Value)) (gs : List Gates) :
    ((planLoop c pend rem k vals).2.run (gs ++ [allOpen])).2 = .done (specLoopAT c rem k vals).res ∧
    ((planLoop c pend rem k vals).1 ++ ((planLoop c pend rem k vals).2.run (gs ++ [allOpen])).1).Perm
      (specLoopAT c rem k vals).trace := by
  obtain ⟨c1, c2⟩ := planLoop_canon_try c pend htry rem k vals
  obtain ⟨r1, r2⟩ := Plan.run_complete gs (planLoop c pend rem k vals).2 (planLoop_nostop_try c pend hall rem k vals)
  refine ⟨by rw [r1, c2], ?_⟩
  rw [← c1]
  exact List.Perm.append_left _ r2

/-! ### 5. the whole block, handler included -/

/-- the handler does not panic -/
def NoHandlerPanic (σ : World) : Prop := ∀ vs, isPanicUR (σ.handlerCall vs) = false

theorem specRun_eq_cfg (σ : World) (parent : Option String) (p : Input) (kind : Kind) :
    specRun σ parent p kind = specRunCfg (cfgFor σ parent p kind) (p.handler.map Prod.fst) := by
  unfold specRun specRunCfg specRunCfgL cfgFor
  cases p.handler <;> rfl

theorem handlerPlan_nostop (c : SpecCfg) (pendH : PendH) (h : Option HKind) (hnh : NoHandlerPanic c.σ) (r : Res Fin) :
    (handlerPlan c pendH h r).2.NoStop := by
  unfold handlerPlan
  split
  · split
    · exact .done _
    · refine .step _ _ _ _ _ ?_ (fun _ => .done _)
      intro t ht
      simp only [List.mem_singleton] at ht
      subst ht
      exact hnh _
  · exact .done _

/-- **Every schedule, handler included.**  `join_async!{ p }` / `join_async_spawn!{ p }` with or without a `then`
    handler, the handler's returned future awaited with arbitrary pending points `pendH` of its own: whatever gates are
    open at the successive polls (any order, any batches, spurious polls), once the future is polled with every gate open
    it is complete; its result is the result of the generated code, and over all polls it has emitted the generated code's
    events — handler definition, block captures, chains, the one handler call — each exactly once. -/
theorem join_async_every_schedule_handler (σ : World) (parent : Option String) (p : Input) (kind : Kind) (code : Code)
    (hs : Supported p kind) (ha : kind.isAsync = true) (hgen : gen p kind = .ok code)
    (hnp : NoChainPanic σ) (hnh : NoHandlerPanic σ) (pend : Pend) (pendH : PendH) (gs : List Gates) :
    let pr := planRun (cfgFor σ parent p kind) pend pendH (p.handler.map Prod.fst)
    (pr.2.run (gs ++ [allOpen])).2 = .done (evalCode σ parent code).res ∧
    (pr.1 ++ (pr.2.run (gs ++ [allOpen])).1).Perm (evalCode σ parent code).trace := by
  intro pr
  have htry : kind.isTry = false := hs.asyncNotTry ha
  have hth : (cfgFor σ parent p kind).kind.threads = false := by
    show kind.threads = false
    simp [Kind.threads, ha]
  obtain ⟨c1, c2⟩ := planRun_canon (cfgFor σ parent p kind) pend pendH (p.handler.map Prod.fst) hth htry
  have hns : pr.2.NoStop := by
    show (planRun (cfgFor σ parent p kind) pend pendH (p.handler.map Prod.fst)).2.NoStop
    unfold planRun
    simp only
    have hb := Plan.bind_nostop (handlerPlan (cfgFor σ parent p kind) pendH (p.handler.map Prod.fst)) stopMap
      (handlerPlan_nostop _ pendH _ hnh) _ (planLoop_nostop (cfgFor σ parent p kind) pend hnp htry
        ((cfgFor σ parent p kind).maxDepth - 1) 0 (List.replicate (cfgFor σ parent p kind).n none))
    split
    · exact hb
    · split
      · exact .done _
      · exact hb
  obtain ⟨r1, r2⟩ := Plan.run_complete gs pr.2 hns
  rw [sync_refines σ parent p kind code hs hgen, specRun_eq_cfg]
  refine ⟨by rw [r1, c2], ?_⟩
  rw [← c1]
  exact List.Perm.append_left _ r2

theorem specRunAT_eq_cfg (σ : World) (parent : Option String) (p : Input) (kind : Kind) :
    specRunAT σ parent p kind =
      specRunCfgL (specLoopAT (cfgFor σ parent p kind) ((cfgFor σ parent p kind).maxDepth - 1) 0
        (List.replicate (cfgFor σ parent p kind).n none)) (cfgFor σ parent p kind) (p.handler.map Prod.fst) := by
  unfold specRunAT specRunCfgL cfgFor
  cases p.handler <;> rfl

/-- **Every schedule, async try macros, handler included**: `try_join_async!{ p }` / `try_join_async_spawn!{ p }` with or
    without a `map` / `and_then` handler, in a world in which every chain succeeds and the handler does not panic: whatever
    the schedule of gate openings, once polled with every gate open the future is complete with the generated code's
    result, having emitted the generated code's events each exactly once.  (When a chain fails, which failure is returned
    depends on the schedule: C05.) -/
theorem try_join_async_every_schedule_handler (σ : World) (parent : Option String) (p : Input) (kind : Kind) (code : Code)
    (hs : SupportedAT p kind) (hgen : gen p kind = .ok code) (hall : AllSucceed σ) (hnh : NoHandlerPanic σ)
    (pend : Pend) (pendH : PendH) (gs : List Gates) :
    let pr := planRun (cfgFor σ parent p kind) pend pendH (p.handler.map Prod.fst)
    (pr.2.run (gs ++ [allOpen])).2 = .done (evalCode σ parent code).res ∧
    (pr.1 ++ (pr.2.run (gs ++ [allOpen])).1).Perm (evalCode σ parent code).trace := by
  intro pr
  have htry : (cfgFor σ parent p kind).kind.isTry = true := hs.isTry
  obtain ⟨c1, c2⟩ := planRun_canon_gen (cfgFor σ parent p kind) pend pendH (p.handler.map Prod.fst) _
    (planLoop_canon_try (cfgFor σ parent p kind) pend htry ((cfgFor σ parent p kind).maxDepth - 1) 0
      (List.replicate (cfgFor σ parent p kind).n none))
  have hns : pr.2.NoStop := by
    show (planRun (cfgFor σ parent p kind) pend pendH (p.handler.map Prod.fst)).2.NoStop
    unfold planRun
    simp only
    have hb := Plan.bind_nostop (handlerPlan (cfgFor σ parent p kind) pendH (p.handler.map Prod.fst)) stopMap
      (handlerPlan_nostop _ pendH _ hnh) _ (planLoop_nostop_try (cfgFor σ parent p kind) pend hall
        ((cfgFor σ parent p kind).maxDepth - 1) 0 (List.replicate (cfgFor σ parent p kind).n none))
    split
    · exact hb
    · split
      · exact .done _
      · exact hb
  obtain ⟨r1, r2⟩ := Plan.run_complete gs pr.2 hns
  rw [async_try_refines σ parent p kind code hs hgen, specRunAT_eq_cfg]
  refine ⟨by rw [r1, c2], ?_⟩
  rw [← c1]
  exact List.Perm.append_left _ r2

end JoinModel.Props.C09
