/-
  The emitted Rust code as a structured term: one constructor (or one field) per `quote!` template of
  join_output.rs.  `Print.lean` turns it into tokens (compared with the real output, K1); `Sem.lean`
  gives it a meaning.  Index data (which names are destructured, which flags are tested, how match
  arms are labelled, which tuple positions are read) are plain independent fields, so that an
  implementation that gets an index wrong is representable and visible to the semantics.
-/
import JoinModel.ChainGen
namespace JoinModel

/-- Element of a `let` tuple pattern: the tokens written and the variable they bind. -/
structure PatV where
  toks : Toks
  var : Var
  deriving Repr, Inhabited

inductive ElemWrap
  | plain                 -- chain
  | tokio                 -- { __spawn_tokio(Box::pin(chain)) }
  | thread (b : Nat)      -- { __j{b}.spawn(chain).unwrap() }
  deriving DecidableEq, Repr, Inhabited

/-- One operand of a step's join expression: the chain of branch `b`. -/
structure Elem where
  b : Nat
  lazy : Bool             -- `move || chain`
  wrap : ElemWrap
  prev : Var              -- variable the chain continues from (unused in step 0)
  acts : List Member      -- the actions of this branch in this step
  chain : Toks            -- tokens of the chain expression (`genBranchStep`)
  deriving Repr, Inhabited

inductive JoinForm
  | call (joiner : Toks)  -- joiner(e₁, …, eₙ)            (user-given `custom_joiner`)
  | futJoin (mac : Toks) (isTry : Bool)   -- futures::join!(e₁, …, eₙ) / futures::try_join!(…): awaits all operands
  | tuple                 -- (e₁, …, eₙ)
  | awaitCat              -- e₁ … eₙ .await
  deriving Repr, Inhabited

/-- `__srK` itself or `__srK.i`. -/
inductive Proj | whole | idx (i : Nat)
  deriving DecidableEq, Repr, Inhabited

structure StepCode where
  k : Nat
  tbs : List (Nat × Nat)           -- (b, arg): let __j{b} = __tb({arg}usize);
  defs : List CapDef               -- let __ew.. = {..};
  form : JoinForm
  elems : List Elem
  spawnJoin : Option (List Proj)   -- let __srK = (__srK.i.join().unwrap(), …);
  deriving Repr, Inhabited

/-- What follows a step that is not the last one. -/
inductive Link
  | plain (pats : List PatV)
  | failCheck (pats : List PatV) (flags : List Var) (arms : List (Nat × Var))
  | matchOk (rewrap : Option (List Proj)) (pats : List PatV)
  deriving Repr, Inhabited

/-- What follows the last step. -/
inductive Final
  | tuple (pats : List PatV) (vars : List Var)
  | transpose (pats : List PatV) (vars : List Var)
  | matchOkTranspose (pats : List PatV) (results : List Var) (ret : List Var)
  | matchOkTuple (pats : List PatV) (vars : List Var)
  | matchOkSingle
  deriving Repr, Inhabited

inductive Steps
  | last (s : StepCode) (f : Final)
  | cons (s : StepCode) (l : Link) (rest : Steps)
  deriving Repr, Inhabited

inductive Handle
  | none
  | thenH (vars : List Var)
  | mapH (vars : List Var)          -- sync: `{__rs}.map(|__rs| {call})`; async: via `__rs.map(|__rs| call)` inside
  | andThenH (vars : List Var)
  deriving Repr, Inhabited

structure Code where
  kind : Kind
  /-- user-given `let` names of the branches, in branch order (`none`: unnamed branch) -/
  userNames : List (Option String)
  fcp : Option Toks
  handlerDef : Option Toks
  steps : Steps
  handle : Handle
  deriving Repr, Inhabited

end JoinModel
