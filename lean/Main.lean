-- the driver depends on the model only (never on the property theorems: a theorem that no longer checks must not
-- take the correspondence runs down with it)
import JoinModel.Print
import JoinModel.Spec
import JoinModel.Concrete
import JoinModel.ParseDriver
import JoinModel.AsyncConcrete
import JoinModel.AsyncTry
import JoinModel.Names
open JoinModel

def handleLine (line : String) : String :=
  match line.splitOn "\t" with
  | ["GEN", id, kind, struct] =>
    match Kind.ofString kind, parseInput struct with
    | some k, some p =>
      match gen p k with
      | .ok c => id ++ "\tok\t" ++ showToks (TT.unspaceList (printCode c))
      | .error e => id ++ "\terr:" ++ e.name ++ "\t-"
    | _, _ => id ++ "\tbadinput\t-"
  | ["SPEC", id, kind, struct, world] =>
    match Kind.ofString kind, parseInput struct, parseWorld world with
    | some k, some p, some w =>
      id ++ "\t" ++ showM (if k.isAsync && k.isTry then specRunAT (mkWorld w) (some "main") p k
                            else specRun (mkWorld w) (some "main") p k)
    | _, _, _ => id ++ "\tbadinput"
  | ["SPECN", id, kind, struct, world, parent] =>      -- the caller's thread is called `parent` (`-`: it has no name)
    match Kind.ofString kind, parseInput struct, parseWorld world with
    | some k, some p, some w =>
      let par := if parent == "-" then none else some parent
      id ++ "\t" ++ showM (if k.isAsync && k.isTry then specRunAT (mkWorld w) par p k else specRun (mkWorld w) par p k)
    | _, _, _ => id ++ "\tbadinput"
  | ["RUNN", id, kind, struct, world, parent] =>
    match Kind.ofString kind, parseInput struct, parseWorld world with
    | some k, some p, some w =>
      match gen p k with
      | .ok c => id ++ "\t" ++ showM (evalCode (mkWorld w) (if parent == "-" then none else some parent) c)
      | .error e => id ++ "\tgenerr:" ++ e.name
    | _, _, _ => id ++ "\tbadinput"
  | ["SPECU", id, kind, struct, world] =>      -- the caller's thread has no name
    match Kind.ofString kind, parseInput struct, parseWorld world with
    | some k, some p, some w =>
      id ++ "\t" ++ showM (if k.isAsync && k.isTry then specRunAT (mkWorld w) none p k else specRun (mkWorld w) none p k)
    | _, _, _ => id ++ "\tbadinput"
  | ["RUNU", id, kind, struct, world] =>
    match Kind.ofString kind, parseInput struct, parseWorld world with
    | some k, some p, some w =>
      match gen p k with
      | .ok c => id ++ "\t" ++ showM (evalCode (mkWorld w) none c)
      | .error e => id ++ "\tgenerr:" ++ e.name
    | _, _, _ => id ++ "\tbadinput"
  | ["RUN", id, kind, struct, world] =>
    match Kind.ofString kind, parseInput struct, parseWorld world with
    | some k, some p, some w =>
      match gen p k with
      | .ok c => id ++ "\t" ++ showM (evalCode (mkWorld w) (some "main") c)
      | .error e => id ++ "\tgenerr:" ++ e.name
    | _, _, _ => id ++ "\tbadinput"
  | ["PARSE", id, toks, oracle] => parseCommand id toks oracle
  | ["APOLL", id, kind, struct, world, sched] =>
    match Kind.ofString kind, parseInput struct, parseWorld world, parseBatches sched with
    | some k, some p, some w, some b => id ++ "\t" ++ apollLine p k w b
    | _, _, _, _ => id ++ "\tbadinput"
  | ["ECHO", id, struct] =>
    match parseInput struct with
    | some p => id ++ "\t" ++ showInput p
    | none => id ++ "\tbadinput"
  | ["PROBE", toks] =>
    match parseToks toks with
    | some ts =>
      let i := match firstMatchIdx ts with | some i => toString i | none => "none"
      "PROBE\t" ++ toks ++ "\t" ++ i ++ " " ++ (if Tables.deferredDet.check ts then "1" else "0") ++ " " ++
        (if Tables.wrapperDet.check ts then "1" else "0")
    | none => "PROBE\tbadinput"
  | ["NAME", i] =>
    match i.toNat? with
    | some i => "NAME\t" ++ toString i ++ "\t" ++ fmtName Tables.fmtVar [i] ++ "\t" ++ (Var.sr i).render ++ "\t" ++
        (Var.r i).render ++ "\t" ++ (Var.j i).render
    | none => "badinput"
  | ["NAMEEW", a, b, c] =>
    match a.toNat?, b.toNat?, c.toNat? with
    | some a, some b, some c => "NAMEEW\t" ++ toString a ++ "\t" ++ toString b ++ "\t" ++ toString c ++ "\t" ++ (Var.ew a b c).render
    | _, _, _ => "badinput"
  | ["NAMEFIXED"] =>
    "NAMEFIXED\t" ++ "\t".intercalate [Var.inspect.render, Var.spawnTokio.render, Var.rs.render, Var.h.render, Var.v.render, Var.tb.render]
  | _ => "badcommand"

partial def loop (h : IO.FS.Stream) (out : IO.FS.Stream) : IO Unit := do
  let line ← h.getLine
  if line.isEmpty then return ()
  let line := if line.endsWith "\n" then (line.dropEnd 1).toString else line
  out.putStrLn (handleLine line)
  loop h out

def main : IO Unit := do
  let stdin ← IO.getStdin
  let stdout ← IO.getStdout
  loop stdin stdout
