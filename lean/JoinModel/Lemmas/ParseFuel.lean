/-
  The loops of the parser terminate: in the model every loop carries a fuel argument, and running out of fuel is the
  outcome `.error (.syn "fuel")`.  This file shows that the fuel the model starts each loop with is never used up —
  every iteration of `parse_until`'s scan, of the chain builder and of the branch/handler loop consumes at least one token
  tree.  The only fact about syn that is needed: the empty token stream is not an expression (`o.validExpr [] = false`);
  without it a branch could be parsed from zero tokens and the branch loop of the real parser would not advance.
-/
import JoinModel.Parse
import JoinModel.Lemmas.ScanStep
namespace JoinModel

def fuelErr : ParseErr := .syn "fuel"

/-- table fact: a determiner that announces an operator is at least one token long -/
theorem det_len_pos : ∀ g ∈ Tables.determiners, g.comb.isSome = true → 1 ≤ g.len := by decide

theorem firstMatch_len_pos {ts : Toks} {g : DetRow} (h : firstMatch ts = some g) (hc : g.comb.isSome = true) : 1 ≤ g.len :=
  det_len_pos g (List.mem_of_find?_eq_some h) hc

theorem eraseN_len : ∀ (n : Nat) (ts r : Toks), eraseN n ts = some r → r.length + n = ts.length := by
  intro n
  induction n with
  | zero => intro ts r h; simp only [eraseN, Option.some.injEq] at h; subst h; rfl
  | succ n ih =>
    intro ts r h
    cases ts with
    | nil => simp [eraseN] at h
    | cons t ts => simp only [eraseN] at h; have := ih ts r h; simp only [List.length_cons]; omega

theorem eatComma_len (l r : Toks) (h : eatComma l = some r) : r.length < l.length := by
  unfold eatComma at h
  split at h
  · cases h; simp
  · cases h

/-! ### the scan of `parse_until` -/

theorem stripTilde_len (input : Toks) : (stripTilde input).length ≤ input.length := by
  unfold stripTilde
  split
  · simp only [List.length_drop]; omega
  · exact Nat.le_refl _

theorem scan_facts (o : Oracle) (syn : Syn) (ae : Bool) : ∀ (fuel : Nat) (acc input : Toks) (d : Bool),
    input.length < fuel →
    (∀ e, scan o syn ae fuel acc input d = .error e → e ≠ fuelErr) ∧
    (∀ toks nx d' input', scan o syn ae fuel acc input d = .ok (toks, nx, d', input') →
      input'.length ≤ input.length ∧ (∀ g, nx = some g → firstMatch input' = some g) ∧
      (ae = false → o.valid syn acc = false → input ≠ [] → input'.length < input.length)) := by
  intro fuel
  induction fuel with
  | zero => intro acc input d h; omega
  | succ fuel ih =>
    intro acc input d hf
    by_cases hin : input = []
    · subst hin
      refine ⟨fun e h => (by simp [scan] at h), ?_⟩
      intro toks nx d' input' h
      simp only [scan, Except.ok.injEq, Prod.mk.injEq] at h
      obtain ⟨_, rfl, _, rfl⟩ := h
      exact ⟨Nat.le_refl _, fun g hg => (by cases hg), fun _ _ hne => absurd rfl hne⟩
    · have hlen := stripTilde_len input
      cases hst : stopHere o syn ae acc input with
      | true =>
        rw [scan_stop o syn ae fuel acc input d hin hst]
        refine ⟨fun e h => (by cases h), ?_⟩
        intro toks nx d' input' h
        simp only [Except.ok.injEq, Prod.mk.injEq] at h
        obtain ⟨rfl, rfl, _, rfl⟩ := h
        refine ⟨hlen, fun g hg => hg, ?_⟩
        intro hae hv _
        simp [stopHere, hae, hv] at hst
      | false =>
        cases hs : stripTilde input with
        | nil =>
          rw [scan_eof o syn ae fuel acc input d hin hst hs]
          exact ⟨fun e h => (by cases h; simp [fuelErr]), fun _ _ _ _ h => (by cases h)⟩
        | cons t rest =>
          rw [scan_continue o syn ae fuel acc input d t rest hin hst hs]
          rw [hs] at hlen
          simp only [List.length_cons] at hlen
          obtain ⟨i1, i2⟩ := ih (acc ++ [t]) rest (Tables.deferredDet.check input) (by omega)
          refine ⟨i1, ?_⟩
          intro toks nx d' input' h
          obtain ⟨j1, j2, _⟩ := i2 toks nx d' input' h
          exact ⟨by omega, j2, fun _ _ _ => by omega⟩

/-! ### `parse_until` -/

theorem parseUntil_facts (o : Oracle) (syn : Syn) (ae : Bool) (input : Toks) :
    (∀ e, parseUntil o syn ae input = .error e → e ≠ fuelErr) ∧
    (∀ u, parseUntil o syn ae input = .ok u →
      u.rest.length ≤ input.length ∧ (u.next.isSome = true → u.rest.length < input.length) ∧
      (ae = false → o.valid syn [] = false → input ≠ [] → u.rest.length < input.length)) := by
  obtain ⟨s1, s2⟩ := scan_facts o syn ae (input.length + 1) [] input false (Nat.lt_succ_self _)
  unfold parseUntil
  cases hs : scan o syn ae (input.length + 1) [] input false with
  | error e => exact ⟨fun e' h => (by cases h; exact s1 e hs), fun u h => (by cases h)⟩
  | ok r =>
    obtain ⟨toks, nx, d', input'⟩ := r
    obtain ⟨l1, l2, l3⟩ := s2 toks nx d' input' hs
    simp only
    cases nx with
    | none =>
      simp only
      split
      · exact ⟨fun e h => (by cases h; cases syn <;> simp [fuelErr]), fun u h => (by cases h)⟩
      · refine ⟨fun e h => (by cases h), ?_⟩
        intro u h
        cases h
        exact ⟨l1, fun h => (by simp at h), l3⟩
    | some g =>
      have hg := l2 g rfl
      simp only
      cases hc : g.comb with
      | none =>
        simp only
        cases he : eraseN g.len input' with
        | none => exact ⟨fun e h => (by cases h; simp [fuelErr]), fun u h => (by cases h)⟩
        | some r =>
          have hr := eraseN_len _ _ _ he
          simp only
          split
          · exact ⟨fun e h => (by cases h; cases syn <;> simp [fuelErr]), fun u h => (by cases h)⟩
          · refine ⟨fun e h => (by cases h), ?_⟩
            intro u h
            cases h
            simp only [hc, Option.map_none, Option.bind_some, Option.isSome_none, Bool.false_eq_true, false_imp_iff, true_and]
            exact ⟨by omega, fun a b c => by have := l3 a b c; omega⟩
      | some c =>
        have hpos := firstMatch_len_pos hg (by simp [hc])
        simp only
        cases he : eraseN g.len input' with
        | none => exact ⟨fun e h => (by cases h; simp [fuelErr]), fun u h => (by cases h)⟩
        | some forked =>
          have hr := eraseN_len _ _ _ he
          simp only
          by_cases h1 : (Tables.wrapperDet.check forked && c == Comb.unwrap) = true
          · simp only [h1, if_true]
            exact ⟨fun e h => (by cases h; simp [fuelErr]), fun u h => (by cases h)⟩
          · by_cases h2 : (Tables.wrapperDet.check forked && !canBeWrapper c) = true
            · simp only [h1, h2, if_true, if_false, Bool.false_eq_true]
              exact ⟨fun e h => (by cases h; simp [fuelErr]), fun u h => (by cases h)⟩
            · simp only [h1, h2, if_false, Bool.false_eq_true]
              split
              · exact ⟨fun e h => (by cases h; cases syn <;> simp [fuelErr]), fun u h => (by cases h)⟩
              · refine ⟨fun e h => (by cases h), ?_⟩
                intro u h
                cases h
                have : (if Tables.wrapperDet.check forked = true then forked.drop Tables.wrapperDet.len else forked).length ≤
                    forked.length := by
                  split
                  · simp only [List.length_drop]; omega
                  · exact Nat.le_refl _
                simp only
                exact ⟨by omega, fun _ => by omega, fun _ _ _ => by omega⟩

/-! ### units, groups -/

theorem parseUnits_facts (o : Oracle) (syn : Syn) : ∀ (n : Nat) (input : Toks) (acc : List Toks),
    (∀ e, parseUnits o syn n input acc = .error e → e ≠ fuelErr) ∧
    (∀ ops next rest, parseUnits o syn n input acc = .ok (ops, next, rest) →
      rest.length ≤ input.length ∧ (next.isSome = true → rest.length < input.length) ∧
      (0 < n → o.valid syn [] = false → input ≠ [] → rest.length < input.length)) := by
  intro n
  induction n with
  | zero =>
    intro input acc
    refine ⟨fun e h => by simp [parseUnits] at h, ?_⟩
    intro ops next rest h
    simp only [parseUnits, Except.ok.injEq, Prod.mk.injEq] at h
    obtain ⟨_, rfl, rfl⟩ := h
    exact ⟨Nat.le_refl _, fun h => (by simp at h), fun h => by omega⟩
  | succ n ih =>
    intro input acc
    obtain ⟨p1, p2⟩ := parseUntil_facts o syn false input
    unfold parseUnits
    cases hu : parseUntil o syn false input with
    | error e => exact ⟨fun e' h => (by cases h; exact p1 e hu), fun _ _ _ h => (by cases h)⟩
    | ok u =>
      obtain ⟨q1, q2, q3⟩ := p2 u hu
      simp only
      split
      · refine ⟨fun e h => (by cases h), ?_⟩
        intro ops next rest h
        simp only [Except.ok.injEq, Prod.mk.injEq] at h
        obtain ⟨_, rfl, rfl⟩ := h
        exact ⟨q1, q2, fun _ hv hne => q3 rfl hv hne⟩
      · cases hc : eatComma u.rest with
        | none => exact ⟨fun e h => (by cases h; simp [fuelErr]), fun _ _ _ h => (by cases h)⟩
        | some rest' =>
          have hlen : rest'.length < u.rest.length := eatComma_len _ _ hc
          simp only
          split
          · exact ⟨fun e h => (by cases h; simp [fuelErr]), fun _ _ _ h => (by cases h)⟩
          · obtain ⟨i1, i2⟩ := ih rest' (acc ++ [u.toks])
            refine ⟨i1, ?_⟩
            intro ops next rest h
            obtain ⟨j1, _, _⟩ := i2 ops next rest h
            exact ⟨by omega, fun _ => by omega, fun _ _ _ => by omega⟩

theorem parseNOrEmpty_facts (o : Oracle) (syn : Syn) (count : Nat) (ae : Bool) (input : Toks) :
    (∀ e, parseNOrEmpty o syn count ae input = .error e → e ≠ fuelErr) ∧
    (∀ ops next rest, parseNOrEmpty o syn count ae input = .ok (ops, next, rest) →
      rest.length ≤ input.length ∧ (next.isSome = true → rest.length < input.length) ∧
      (ae = false → 0 < count → o.valid syn [] = false → input ≠ [] → rest.length < input.length)) := by
  obtain ⟨u1, u2⟩ := parseUnits_facts o syn count input []
  unfold parseNOrEmpty
  simp only
  split
  · rename_i u hfirst
    refine ⟨fun e h => (by cases h), ?_⟩
    intro ops next rest h
    simp only [Except.ok.injEq, Prod.mk.injEq] at h
    obtain ⟨_, rfl, rfl⟩ := h
    cases ae with
    | false => simp at hfirst
    | true =>
      simp only [if_true] at hfirst
      split at hfirst
      · rename_i u' hu'
        cases hfirst
        obtain ⟨q1, q2, _⟩ := (parseUntil_facts o .empty true input).2 u hu'
        exact ⟨q1, q2, fun h => (by cases h)⟩
      · cases hfirst
  · rename_i hfirst
    cases hp : parseUnits o syn count input [] with
    | error e => exact ⟨fun e' h => (by cases h; exact u1 e hp), fun _ _ _ h => (by cases h)⟩
    | ok r =>
      obtain ⟨ops', next', rest'⟩ := r
      obtain ⟨q1, q2, q3⟩ := u2 ops' next' rest' hp
      refine ⟨fun e h => (by cases h), ?_⟩
      intro ops next rest h
      simp only [Except.ok.injEq, Prod.mk.injEq] at h
      obtain ⟨_, rfl, rfl⟩ := h
      exact ⟨q1, q2, fun _ hc hv hne => q3 hc hv hne⟩

/-- table fact: the initial expression is one expression unit that may not be empty -/
theorem arity_initial : arityOf .initial = some ⟨.initial, 1, false, .expr⟩ := rfl

theorem parseGroup_facts (o : Oracle) (g : NextGroup) (input : Toks) :
    (∀ e, parseGroup o g input = .error e → e ≠ fuelErr) ∧
    (∀ m raws next rest, parseGroup o g input = .ok ((m, raws), next, rest) →
      rest.length ≤ input.length ∧ (next.isSome = true → rest.length < input.length) ∧
      (g.comb = .initial → g.mv = .none → o.validExpr [] = false → input ≠ [] → rest.length < input.length)) := by
  unfold parseGroup
  split
  · rename_i hw
    split
    · exact ⟨fun e h => (by cases h; simp [fuelErr]), fun _ _ _ _ h => (by cases h)⟩
    · obtain ⟨p1, p2⟩ := parseUntil_facts o .empty true input
      cases hu : parseUntil o .empty true input with
      | error e => exact ⟨fun e' h => (by cases h; exact p1 e hu), fun _ _ _ _ h => (by cases h)⟩
      | ok u =>
        obtain ⟨q1, q2, _⟩ := p2 u hu
        refine ⟨fun e h => (by cases h), ?_⟩
        intro m raws next rest h
        simp only [Except.ok.injEq, Prod.mk.injEq] at h
        obtain ⟨_, rfl, rfl⟩ := h
        exact ⟨q1, q2, fun _ hmv => by rw [hmv] at hw; cases hw⟩
  · split
    · exact ⟨fun e h => (by cases h; simp [fuelErr]), fun _ _ _ _ h => (by cases h)⟩
    · rename_i ar har
      simp only
      obtain ⟨n1, n2⟩ := parseNOrEmpty_facts o (if ar.count = 0 then Syn.empty else
        match ar.kind with | .expr => Syn.expr | .type => Syn.type) ar.count ar.allowEmpty input
      cases hp : parseNOrEmpty o (if ar.count = 0 then Syn.empty else
        match ar.kind with | .expr => Syn.expr | .type => Syn.type) ar.count ar.allowEmpty input with
      | error e => exact ⟨fun e' h => (by cases h; exact n1 e hp), fun _ _ _ _ h => (by cases h)⟩
      | ok r =>
        obtain ⟨ops, next', rest'⟩ := r
        obtain ⟨q1, q2, q3⟩ := n2 ops next' rest' hp
        refine ⟨fun e h => (by cases h), ?_⟩
        intro m raws next rest h
        simp only [Except.ok.injEq, Prod.mk.injEq] at h
        obtain ⟨_, rfl, rfl⟩ := h
        refine ⟨q1, q2, ?_⟩
        intro hc _ hv hne
        rw [hc, arity_initial] at har
        cases har
        exact q3 rfl Nat.one_pos (by simpa [Oracle.valid] using hv) hne

/-! ### the chain builder, the item loop, the whole input -/

/-- the end of a chain: the separating comma, if any -/
theorem finishChain_facts (lastBlock : Bool) (rest' : Toks) (x : Branch) :
    (∀ e, (if lastBlock then (.ok (x, (eatComma rest').getD rest') : Except ParseErr (Branch × Toks))
           else if rest'.isEmpty then .ok (x, rest')
           else match eatComma rest' with
             | some r => .ok (x, r)
             | none => .error (.syn "expected `,`")) = .error e → e ≠ fuelErr) ∧
    (∀ br rest, (if lastBlock then (.ok (x, (eatComma rest').getD rest') : Except ParseErr (Branch × Toks))
           else if rest'.isEmpty then .ok (x, rest')
           else match eatComma rest' with
             | some r => .ok (x, r)
             | none => .error (.syn "expected `,`")) = .ok (br, rest) → rest.length ≤ rest'.length) := by
  cases hc : eatComma rest' with
  | none =>
    cases lastBlock <;> by_cases he : rest'.isEmpty = true <;> simp [he, fuelErr] <;> intros <;> subst_vars <;> simp
  | some r =>
    have := eatComma_len _ _ hc
    cases lastBlock <;> by_cases he : rest'.isEmpty = true <;> simp [he, fuelErr] <;> intros <;> subst_vars <;> omega

theorem buildChain_facts (o : Oracle) : ∀ (fuel : Nat) (g : NextGroup) (input : Toks) (members : List Member)
    (pat : Option BranchPat) (w : Int) (isFirst : Bool), input.length < fuel →
    (∀ e, buildChain o fuel g input members pat w isFirst = .error e → e ≠ fuelErr) ∧
    (∀ br rest, buildChain o fuel g input members pat w isFirst = .ok (br, rest) →
      rest.length ≤ input.length ∧
      (g.comb = .initial → g.mv = .none → o.validExpr [] = false → input ≠ [] → rest.length < input.length)) := by
  intro fuel
  induction fuel with
  | zero => intro g input members pat w isFirst h; omega
  | succ fuel ih =>
    intro g input members pat w isFirst hf
    obtain ⟨g1, g2⟩ := parseGroup_facts o g input
    unfold buildChain
    cases hp : parseGroup o g input with
    | error e => exact ⟨fun e' h => (by cases h; exact g1 e hp), fun _ _ h => (by cases h)⟩
    | ok r =>
      obtain ⟨⟨m, raws⟩, next, rest'⟩ := r
      obtain ⟨q1, q2, q3⟩ := g2 m raws next rest' hp
      simp only
      split
      · rename_i e hfirst
        refine ⟨fun e' h => ?_, fun _ _ h => (by cases h)⟩
        cases h
        -- the only error of the `let` handling is `incorrectLet`
        repeat' split at hfirst
        all_goals first | (cases hfirst; simp [fuelErr]) | cases hfirst
      · rename_i m' pat' hfirst
        cases next with
        | some nx =>
          have hlt := q2 rfl
          have fin : ∀ w1 : Int,
              (∀ e, buildChain o fuel nx rest' (members ++ [m']) pat' w1 false = .error e → e ≠ fuelErr) ∧
              (∀ br rest, buildChain o fuel nx rest' (members ++ [m']) pat' w1 false = .ok (br, rest) →
                rest.length ≤ input.length ∧
                (g.comb = .initial → g.mv = .none → o.validExpr [] = false → input ≠ [] → rest.length < input.length)) := by
            intro w1
            obtain ⟨i1, i2⟩ := ih nx rest' (members ++ [m']) pat' w1 false (by omega)
            refine ⟨i1, ?_⟩
            intro br rest h
            obtain ⟨j1, _⟩ := i2 br rest h
            exact ⟨by omega, fun _ _ _ _ => by omega⟩
          simp only
          by_cases hneg : (if nx.deferred = true then 0 else w) + mvDelta nx.mv < 0
          · simp only [hneg, if_true]
            exact ⟨fun e h => (by cases h; simp [fuelErr]), fun _ _ h => (by cases h)⟩
          · simp only [hneg, if_false]
            exact fin _
        | none =>
          simp only
          obtain ⟨f1, f2⟩ := finishChain_facts _ rest' ⟨pat', members ++ [m']⟩
          refine ⟨f1, ?_⟩
          intro br rest h
          have := f2 br rest h
          exact ⟨by omega, fun a b c d => by have := q3 a b c d; omega⟩

theorem parseItems_nofuel (o : Oracle) (hempty : o.validExpr [] = false) : ∀ (fuel : Nat) (input : Toks) (bs : List Branch)
    (h : Option (HKind × Toks)), input.length < fuel → ∀ e, parseItems o fuel input bs h = .error e → e ≠ fuelErr := by
  intro fuel
  induction fuel with
  | zero => intro input bs h hf; omega
  | succ fuel ih =>
    intro input bs h hf e he
    cases input with
    | nil => simp [parseItems] at he
    | cons t ts =>
      unfold parseItems at he
      split at he
      · split at he
        · cases he; simp [fuelErr]
        · cases hh : parseHandlerItem o (t :: ts) with
          | error e' =>
            rw [hh] at he
            cases he
            unfold parseHandlerItem at hh
            simp only at hh
            repeat' split at hh
            all_goals first | (cases hh; simp [fuelErr]) | cases hh
          | ok r =>
            obtain ⟨hd, rest⟩ := r
            rw [hh] at he
            simp only at he
            have hlt : rest.length < (t :: ts).length := by
              unfold parseHandlerItem at hh
              simp only at hh
              split at hh
              · cases hh
              · split at hh
                · cases hh
                · simp only [Except.ok.injEq, Prod.mk.injEq] at hh
                  obtain ⟨_, rfl⟩ := hh
                  have : ∀ l : Toks, ((eatComma l).getD l).length ≤ l.length := by
                    intro l; unfold eatComma; split <;> simp
                  have h2 := this (List.drop ‹Nat› (List.drop 3 (t :: ts)))
                  simp only [List.length_drop, List.length_cons] at h2 ⊢
                  omega
            exact ih rest bs (some hd) (by simp only [List.length_cons] at hlt hf; omega) e he
      · obtain ⟨b1, b2⟩ := buildChain_facts o ((t :: ts).length + 2) ⟨.initial, false, .none⟩ (t :: ts) [] none 0 true (by omega)
        cases hb : buildChain o ((t :: ts).length + 2) ⟨.initial, false, .none⟩ (t :: ts) [] none 0 true with
        | error e' => rw [hb] at he; cases he; exact b1 _ hb
        | ok r =>
          obtain ⟨b, rest⟩ := r
          rw [hb] at he
          simp only at he
          have hlt := (b2 b rest hb).2 rfl rfl hempty (by simp)
          exact ih rest (bs ++ [b]) h (by simp only [List.length_cons] at hlt hf; omega) e he

theorem parseOption_len (o : Oracle) (kw : String) (input : Toks) (opts opts' : Opts) (rest : Toks)
    (h : parseOption o kw input opts = .ok (opts', rest)) : rest.length + 2 = input.length := by
  unfold parseOption at h
  split at h
  · repeat' split at h
    all_goals (cases h <;> rfl)
  · cases h

theorem parseOption_nofuel (o : Oracle) (kw : String) (input : Toks) (opts : Opts) (e : ParseErr)
    (h : parseOption o kw input opts = .error e) : e ≠ fuelErr := by
  unfold parseOption at h
  repeat' split at h
  all_goals first | (cases h; simp [fuelErr]) | cases h

/-- a round that starts at an option keyword consumes it -/
theorem optionRound_facts (o : Oracle) : ∀ (kws : List String) (input : Toks) (opts : Opts),
    (∀ e, optionRound o kws input opts = .error e → e ≠ fuelErr) ∧
    (∀ opts' rest, optionRound o kws input opts = .ok (opts', rest) →
      rest.length ≤ input.length ∧ (∀ s, optionKw input = some s → s ∈ kws → rest.length < input.length)) := by
  intro kws
  induction kws with
  | nil =>
    intro input opts
    refine ⟨fun e h => (by simp [optionRound] at h), ?_⟩
    intro opts' rest h
    simp only [optionRound, Except.ok.injEq, Prod.mk.injEq] at h
    obtain ⟨_, rfl⟩ := h
    exact ⟨Nat.le_refl _, fun s _ hs => (by cases hs)⟩
  | cons kw kws ih =>
    intro input opts
    unfold optionRound
    by_cases hk : optionKw input = some kw
    · simp only [hk, if_true]
      cases hp : parseOption o kw input opts with
      | error e => exact ⟨fun e' h => (by cases h; exact parseOption_nofuel o kw input opts e hp), fun _ _ h => (by cases h)⟩
      | ok r =>
        obtain ⟨opts1, rest1⟩ := r
        have hl := parseOption_len o kw input opts opts1 rest1 hp
        obtain ⟨i1, i2⟩ := ih rest1 opts1
        refine ⟨i1, ?_⟩
        intro opts' rest h
        obtain ⟨j1, _⟩ := i2 opts' rest h
        exact ⟨by omega, fun _ _ _ => by omega⟩
    · simp only [hk, if_false]
      obtain ⟨i1, i2⟩ := ih input opts
      refine ⟨i1, ?_⟩
      intro opts' rest h
      obtain ⟨j1, j2⟩ := i2 opts' rest h
      refine ⟨j1, ?_⟩
      intro s hs hmem
      rcases List.mem_cons.mp hmem with rfl | hmem
      · exact absurd hs hk
      · exact j2 s hs hmem

theorem optionKw_mem (input : Toks) (s : String) (h : optionKw input = some s) : s ∈ Tables.optionOrder := by
  unfold optionKw at h
  split at h
  · split at h
    · rename_i hc; cases h; simpa using hc
    · cases h
  · cases h

theorem parseOptions_nofuel (o : Oracle) : ∀ (fuel rounds : Nat) (input : Toks) (opts : Opts) (e : ParseErr),
    input.length < fuel → parseOptions o fuel rounds input opts = .error e → e ≠ fuelErr := by
  have hrounds : Tables.optionRounds = none := rfl
  intro fuel
  induction fuel with
  | zero => intro rounds input opts e hf; omega
  | succ fuel ih =>
    intro rounds input opts e hf h
    cases rounds with
    | zero => simp [parseOptions] at h
    | succ rounds =>
      unfold parseOptions at h
      split at h
      · cases h
      · rename_i hcond
        obtain ⟨r1, r2⟩ := optionRound_facts o Tables.optionOrder input opts
        cases hr : optionRound o Tables.optionOrder input opts with
        | error e' => rw [hr] at h; cases h; exact r1 _ hr
        | ok r =>
          obtain ⟨opts', rest⟩ := r
          rw [hr] at h
          simp only at h
          -- the round was entered at an option keyword, so it consumed at least that option
          have hlt : rest.length < input.length := by
            cases hk : optionKw input with
            | none => simp [hrounds, hk] at hcond
            | some s => exact (r2 opts' rest hr).2 s hk (optionKw_mem input s hk)
          exact ih rounds rest opts' e (by omega) h

/-- **The parser's loops terminate.**  Whatever syn answers — provided it does not accept the empty token stream as an
    expression — the model never runs out of the fuel it gives its loops: the scan of `parse_until`, the chain builder and
    the branch/handler loop each consume at least one token tree per iteration. -/
theorem parse_never_out_of_fuel (o : Oracle) (hempty : o.validExpr [] = false) (toks : Toks) :
    parseMacroInput o toks ≠ .error fuelErr := by
  intro h
  unfold parseMacroInput at h
  simp only at h
  split at h
  · rename_i e he
    cases h
    exact parseOptions_nofuel o _ _ _ _ _ (Nat.lt_succ_self _) he rfl
  · rename_i opts rest _
    split at h
    · rename_i e he
      cases h
      exact parseItems_nofuel o hempty _ _ _ _ (by omega) _ he rfl
    · split at h
      · cases h
      · split at h
        · simp [fuelErr] at h
        · cases h

end JoinModel
