/-
  C20 — expansion is a pure function of the macro input.
  In the model this holds by construction: `gen` is a Lean function, and a history of expansions is
  `List.map` of it.  The theorems below state exactly that; the assurance about the *implementation*
  comes from the tie (K1 purity mode: every input expanded repeatedly, in shuffled orders, interleaved
  and from 8 threads must always yield the model's single output) and the source audit.
-/
import JoinModel.Gen
import JoinModel.Print
namespace JoinModel.Props.C20
open JoinModel

/-- Expanding a history of invocations, one after the other. -/
def expandAll (h : List (Input × Kind)) : List (Except GenErr Toks) :=
  h.map fun (p, k) => (gen p k).map printCode

/-- The output for an invocation does not depend on what was expanded before or after it. -/
theorem history_independent (pre post : List (Input × Kind)) (p : Input) (k : Kind) :
    (expandAll (pre ++ (p, k) :: post))[pre.length]? = some ((gen p k).map printCode) := by
  simp [expandAll]

/-- Reordering the history reorders the outputs and changes none. -/
theorem order_independent (h₁ h₂ : List (Input × Kind)) (hp : h₁.Perm h₂) :
    (expandAll h₁).Perm (expandAll h₂) := hp.map _

/-- Repetition yields identical outputs. -/
theorem repeat_identical (p : Input) (k : Kind) (n : Nat) :
    ∀ o ∈ expandAll (List.replicate n (p, k)), o = (gen p k).map printCode := by
  intro o ho
  simp [expandAll] at ho
  exact ho.2

end JoinModel.Props.C20
