/-
  C02 — nested combinators (`>>>` / `<<<`) desugar to nested closures.
-/
import JoinModel.Lemmas.Nest
import JoinModel.SpecTables
namespace JoinModel.Props.C02
open JoinModel

/-- The operators that may be followed by `>>>` are exactly the ten documented ones
    (`Combinator::can_be_wrapper`, table T4 regenerated from the running code). -/
theorem wrapper_set_documented : ∀ c : Comb, Tables.canBeWrapper.contains c = SpecTables.wrappers.contains c := by
  intro c; cases c <;> decide

/-- Each wrapper operator builds *its own* constructor for `op >>>` (`to_wrapper_action_expr`, T7): `?@ >>>` is
    `find`, not `find_map`, and so on; the placeholder operand is `|__v| __v`. -/
theorem wrapper_ctor_documented :
    (∀ c ∈ SpecTables.wrappers, Tables.wrapperCtor.lookup c = some c) ∧
    Tables.wrapperCtor.length = 10 ∧
    Tables.wrapperPlaceholder = [.punct '|' false, .ident "__v", .punct '|' false, .ident "__v"] :=
  ⟨by decide, by decide, rfl⟩

/-- The same as observed through the real parser on `x OP >>> <<<` for each of the ten operators. -/
theorem wrapper_ctor_observed :
    Tables.wrapperCtorBySrc.map Prod.snd =
      [.map, .andThen, .filter, .inspect, .filterMap, .find, .findMap, .partition, .orElse, .mapErr] := by decide

/-- The closure handed to a wrapper is `|__v| inner…` and it replaces the wrapper's single operand. -/
theorem wrapper_closure (a : Bool) (outer inner : Toks) (w : Member) (h : w.ops.length = 1) :
    applyWrapper a outer w inner = applyCtor a outer w.ctor [[pu '|', Var.v.tok, pu '|'] ++ inner] := by
  simp [applyWrapper, h, closureToks]

/-- **The stack machine computes the documented nesting.**  For every step (any actions, any nesting depth,
    empty inner chains, block captures inside), the chain expression the generator emits is the recursive-descent
    reading `X >>> inner… <<< rest ↦ .x(|__v| __v inner…) rest`: wrappers still open when the actions run out
    close implicitly there, and what follows a `<<<` applies to the outer value again (`nestGo`).  The only way to
    fail is a `<<<` at nesting level 0, which the chain builder rejects (C15). -/
theorem step_expr_nested (a : Bool) (b : Nat) (prev : Var) (m : Member) (ms : List Member) :
    genBranchStep a b prev (m :: ms) =
      match nestGo a b ((m :: ms).length + 1) (wrapIntoBlock a [prev.tok]) (m :: ms) 0 [] with
      | .error er => .error er
      | .ok r => if r.closed then .error .stepExprsLenZero else .ok (some (r.defs, r.toks)) := by
  have h := runStack_eq a b ((m :: ms).length + 1) [] (wrapIntoBlock a [prev.tok]) [] (m :: ms) 0 (Nat.le_refl _)
  simp only [genBranchStep]
  simp only [runStack] at h
  cases hn : nestGo a b ((m :: ms).length + 1) (wrapIntoBlock a [prev.tok]) (m :: ms) 0 [] with
  | error er =>
    rw [hn] at h
    simp only at h ⊢
    cases hp : processActions a b ⟨[], [⟨wrapIntoBlock a [prev.tok], none⟩]⟩ (m :: ms) 0 with
    | error er' => rw [hp] at h; simp only at h ⊢; cases h; rfl
    | ok acc => rw [hp] at h; simp only at h ⊢; rw [h]
  | ok r =>
    rw [hn] at h
    simp only at h ⊢
    cases hp : processActions a b ⟨[], [⟨wrapIntoBlock a [prev.tok], none⟩]⟩ (m :: ms) 0 with
    | error er' =>
      rw [hp] at h; simp only at h ⊢
      by_cases hc : r.closed = true
      · simp only [hc, if_true] at h ⊢; cases h; rfl
      · simp [hc, unwind, Except.map] at h
    | ok acc =>
      rw [hp] at h; simp only at h ⊢
      rw [h]
      by_cases hc : r.closed = true
      · simp [hc]
      · simp [hc, unwind, Except.map]

/-- Implicit closing: a level whose actions run out is not "closed", and has consumed everything. -/
theorem implicit_close_consumes_all (a : Bool) (b fuel : Nat) (cur : Toks) (ms : List Member) (e : Nat) (defs : List CapDef)
    (r : NestOut) (h : nestGo a b fuel cur ms e defs = .ok r) (hc : r.closed = false) : r.rest = [] :=
  nestGo_open_rest a b fuel cur ms e defs r h hc

/-- After `<<<` the following operators apply to the outer value: the descent returns to the enclosing level with
    the actions that follow the `<<<`. -/
theorem after_unwrap_outer (a : Bool) (b fuel : Nat) (cur : Toks) (u : Member) (rest : List Member) (e : Nat)
    (defs : List CapDef) (hu : u.mv = .unwrap) :
    nestGo a b (fuel + 1) cur (u :: rest) e defs = .ok ⟨cur, rest, e + 1, defs, true⟩ := by
  simp [nestGo, hu]

/-! Non-vacuity: `init |> >>> ..b() <<< => c` and `init => >>> |> >>> ..d()` (implicit close of two levels). -/

private def mem (c : Comb) (mv : Move) (t : String) : Member := ⟨c, false, mv, [⟨.expr, [.ident t]⟩]⟩

private def shown (r : Except ChainErr (Option (List CapDef × Toks))) : String :=
  match r with
  | .ok (some dt) => showToks dt.2
  | _ => "<none>"

example : shown (genBranchStep false 0 (.r 0) [mem .initial .none "init", mem .map .wrap "ph", mem .dot .none "b",
      ⟨.unwrap, false, .unwrap, []⟩, mem .andThen .none "c"]) =
    "( i:init ) p:. i:map ( p:| i:__v p:| i:__v p:. i:b ) p:. i:and_then ( i:c )" := by decide

example : shown (genBranchStep false 0 (.r 0) [mem .initial .none "init", mem .andThen .wrap "ph", mem .map .wrap "ph",
      mem .dot .none "d"]) =
    "( i:init ) p:. i:and_then ( p:| i:__v p:| i:__v p:. i:map ( p:| i:__v p:| i:__v p:. i:d ) )" := by decide

end JoinModel.Props.C02
