/-
  Printer: structured code ↦ token trees, template by template as join_output.rs `quote!`s them.
  Spacing of punctuation is not modelled (`pu` = Alone everywhere); K1 compares spacing-insensitively.
-/
import JoinModel.IR
import JoinModel.Templates
namespace JoinModel

def commaSep : List Toks → Toks
  | [] => []
  | [a] => a
  | a :: rest => a ++ [pu ','] ++ commaSep rest

def kw (s : String) : TT := .ident s
def usizeLit (n : Nat) : TT := .lit (Nat.repr n ++ "usize")
def indexLit (n : Nat) : TT := .lit (Nat.repr n)
def arrow : Toks := [pj '=', pu '>']
def pathSep : Toks := [pj ':', pu ':']
def call0 (name : String) : Toks := [pu '.', kw name, paren []]
def awaitToks : Toks := [pu '.', kw "await"]

def printElem (e : Elem) : Toks :=
  let chain := if e.lazy then [kw "move", pj '|', pu '|'] ++ e.chain else e.chain
  match e.wrap with
  | .plain => chain
  | .tokio => [brace [Var.spawnTokio.tok, paren ([kw "Box"] ++ pathSep ++ [kw "pin", paren chain])]]
  | .thread b => [brace ([(Var.j b).tok, pu '.', kw "spawn", paren chain] ++ call0 "unwrap")]

def projToks (k : Nat) : Proj → Toks
  | .whole => [(Var.sr k).tok]
  | .idx i => [(Var.sr k).tok, pu '.', indexLit i]

def printCapDef (d : CapDef) : Toks :=
  [kw "let", (Var.ew d.b d.e d.i).tok, pu '='] ++ d.toks ++ [pu ';']

def printStep (s : StepCode) : Toks :=
  let elems := s.elems.map printElem
  let joinExpr : Toks := match s.form with
    | .call j => j ++ [paren (commaSep elems)]
    | .futJoin j _ => j ++ [paren (commaSep elems)]
    | .tuple => [paren (commaSep elems)]
    | .awaitCat => elems.flatten ++ awaitToks
  (s.tbs.flatMap fun (b, arg) => [kw "let", (Var.j b).tok, pu '=', Var.tb.tok, paren [usizeLit arg], pu ';'])
  ++ s.defs.flatMap printCapDef
  ++ [kw "let", (Var.sr s.k).tok, pu '='] ++ joinExpr ++ [pu ';']
  ++ (match s.spawnJoin with
      | none => []
      | some ps =>
        [kw "let", (Var.sr s.k).tok, pu '=',
          paren (commaSep (ps.map fun p => projToks s.k p ++ call0 "join" ++ call0 "unwrap")), pu ';'])

def printExtract (k : Nat) (pats : List PatV) : Toks :=
  [kw "let", paren (commaSep (pats.map (·.toks))), pu '=', (Var.sr k).tok, pu ';']

def errArm : Toks := [kw "Err", paren [kw "err"]] ++ arrow ++ [kw "Err", paren [kw "err"]]

def unreachableToks : Toks := [kw "unreachable", pu '!', paren []]

def flagToks (x : Var) : Toks :=
  [x.tok] ++ call0 "as_ref" ++ [pu '.', kw "map", paren [pu '|', kw "_", pu '|', kw "true"],
    pu '.', kw "unwrap_or", paren [kw "false"]]

def armToks (a : Nat × Var) : Toks :=
  [usizeLit a.1] ++ arrow ++ [a.2.tok, pu '.', kw "map", paren ([pu '|', kw "_", pu '|'] ++ unreachableToks)]

def failIndex : TT := kw "__fail_index"

/-- `r₀.and_then(|r₀| r₁.and_then(|r₁| … rₙ.map(|rₙ| (ret))))` -/
def transposerToks : List Var → Toks → Toks
  | [], _ => []
  | [x], ret => [x.tok, pu '.', kw "map", paren ([pu '|', x.tok, pu '|', paren ret])]
  | x :: vs, ret => [x.tok, pu '.', kw "and_then", paren ([pu '|', x.tok, pu '|'] ++ transposerToks vs ret)]

def varsTuple (vars : List Var) : Toks := commaSep (vars.map fun x => [x.tok])

def matchOkToks (k : Nat) (bind : TT) (body : Toks) : Toks :=
  [kw "match", (Var.sr k).tok,
    brace ([kw "Ok", paren [bind]] ++ arrow ++ body ++ [pu ','] ++ errArm)]

def printLink (k : Nat) (l : Link) (next : Toks) : Toks :=
  match l with
  | .plain pats => printExtract k pats ++ next
  | .failCheck pats flags arms =>
    printExtract k pats ++
    [kw "if", kw "let", kw "Some", paren [failIndex], pu '=',
      bracket (commaSep (flags.map flagToks))] ++ call0 "iter" ++
    [pu '.', kw "position", paren [pu '|', Var.v.tok, pu '|', pu '!', Var.v.tok],
      brace [kw "match", failIndex,
        brace (commaSep (arms.map armToks) ++ [pu ',', kw "_"] ++ arrow ++ unreachableToks)],
      kw "else", brace next]
  | .matchOk rewrap pats =>
    let cur : Toks := match rewrap with
      | none => printExtract k pats
      | some ps =>
        [kw "let", (Var.sr k).tok, pu '=',
          paren (commaSep (ps.map fun p => [kw "Ok", paren (projToks k p)])), pu ';'] ++ printExtract k pats
    matchOkToks k (Var.sr k).tok [brace (cur ++ next)]

def printFinal (k : Nat) (f : Final) : Toks :=
  match f with
  | .tuple pats vars => printExtract k pats ++ [paren (varsTuple vars)]
  | .transpose pats vars => printExtract k pats ++ transposerToks vars (varsTuple vars)
  | .matchOkTranspose pats results ret =>
    matchOkToks k (Var.sr k).tok [brace (printExtract k pats ++ transposerToks results (varsTuple ret))]
  | .matchOkTuple pats vars =>
    matchOkToks k (Var.sr k).tok [brace (printExtract k pats ++ [kw "Ok", paren [paren (varsTuple vars)]])]
  | .matchOkSingle => matchOkToks k Var.v.tok [kw "Ok", paren [paren [Var.v.tok]]]

def printSteps : Steps → Toks
  | .last s f => printStep s ++ printFinal s.k f
  | .cons s l rest => printStep s ++ printLink s.k l (printSteps rest)

def printCall (vars : List Var) : Toks :=
  [brace ([kw "let", paren (varsTuple vars), pu '=', Var.rs.tok, pu ';', Var.h.tok, paren (varsTuple vars)])]

def printHandle (isAsync : Bool) (h : Handle) : Toks :=
  let aw : Toks := if isAsync then awaitToks else []
  let wrapped (m : String) (vars : List Var) (viaMap : Bool) : Toks :=
    let body : Toks :=
      if viaMap then [Var.rs.tok, pu '.', kw "map", paren ([pu '|', Var.rs.tok, pu '|'] ++ printCall vars)]
      else printCall vars
    wrapIntoBlock isAsync [Var.rs.tok] ++ [pu '.', kw m, paren ([pu '|', Var.rs.tok, pu '|', brace body])] ++ aw
  match h with
  | .none => [Var.rs.tok]
  | .thenH vars => printCall vars ++ aw
  | .mapH vars => wrapped "map" vars isAsync
  | .andThenH vars => wrapped "and_then" vars false

def useFutures (fcp : Toks) : Toks :=
  [kw "use"] ++ fcp ++ pathSep ++
  [brace [kw "FutureExt", pu ',', kw "TryFutureExt", pu ',', kw "StreamExt", pu ',', kw "TryStreamExt"], pu ';']

/-- `fn __spawn_tokio<T, F>(__future: F) -> impl P::future::Future<Output=T> where … { ::tokio::spawn(..).map(..) }` -/
def fnSpawnTokio (fcp : Toks) : Toks :=
  let fut : Toks := fcp ++ pathSep ++ [kw "future"] ++ pathSep ++ [kw "Future", pu '<', kw "Output", pu '=', kw "T", pu '>']
  let sendStatic : Toks := [pu '+', kw "Send", pu '+', pj '\'', kw "static"]
  [kw "fn", Var.spawnTokio.tok, pu '<', kw "T", pu ',', kw "F", pu '>', paren [kw "__future", pu ':', kw "F"],
    pj '-', pu '>', kw "impl"] ++ fut ++
  [kw "where", kw "F", pu ':'] ++ fut ++ sendStatic ++ [pu ',', kw "T", pu ':', kw "Send"] ++
  [pu '+', pj '\'', kw "static", pu ','] ++
  [brace (pathSep ++ [kw "tokio"] ++ pathSep ++ [kw "spawn", paren [kw "__future"], pu '.', kw "map",
    paren [pu '|', Var.v.tok, pu '|', Var.v.tok, pu '.', kw "unwrap_or_else",
      paren [pu '|', kw "err", pu '|', kw "panic", pu '!',
        paren [.lit "\"tokio JoinHandle failed: {:#?}\"", pu ',', kw "err"]]]])]

def printCode (c : Code) : Toks :=
  let handlerDef : Toks := match c.handlerDef with
    | some h => [kw "let", Var.h.tok, pu '='] ++ h ++ [pu ';']
    | none => []
  let core : Toks :=
    handlerDef ++ [kw "let", Var.rs.tok, pu '=', brace (printSteps c.steps), pu ';'] ++
    printHandle c.kind.isAsync c.handle
  if c.kind.isAsync then
    let fcp := c.fcp.getD []
    [kw "Box"] ++ pathSep ++ [kw "pin", paren [kw "async", kw "move",
      brace (useFutures fcp ++ (if c.kind.isSpawn then fnSpawnTokio fcp else []) ++ core)]]
  else
    [brace (Templates.fnInspect ++ (if c.kind.isSpawn then Templates.fnTb else []) ++ core)]

end JoinModel
