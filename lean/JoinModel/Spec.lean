/-
  Reference semantics of the DSL: a direct step loop over the *parsed program*, independent of the
  generator and of the emitted code.  It is the reading of README.md / the property list:

    step k:  first every `{…}` operand of every active branch (branch order, then position), then the chain
             of every active branch (branch order; on its own thread for the thread-spawning macros when more
             than one branch is active), each continuing from its own previous value;
    try macros stop after the first step in which an active branch fails, returning the value of the
             lowest-numbered failing branch unchanged;
    at the end: tuple of all final values / `Ok` of the tuple of payloads / the first failure in branch order;
    handler: `then` always, `map`/`and_then` on success only.
-/
import JoinModel.Gen
import JoinModel.Sem
namespace JoinModel

structure SpecCfg where
  σ : World
  kind : Kind
  names : List (Option String)
  parent : Option String
  /-- steps of every branch -/
  chains : List (List (List Member))

def SpecCfg.depth (c : SpecCfg) (i : Nat) : Nat := (c.chains[i]?.map (·.length)).getD 0
def SpecCfg.n (c : SpecCfg) : Nat := c.chains.length
def SpecCfg.maxDepth (c : SpecCfg) : Nat := (c.chains.map (·.length)).foldl max 0
def SpecCfg.active (c : SpecCfg) (k : Nat) : List Nat := (List.range c.n).filter fun i => decide (k < c.depth i)
def SpecCfg.acts (c : SpecCfg) (i k : Nat) : List Member := ((c.chains[i]?).bind (·[k]?)).getD []

/-- the `let` names bound so far with the values of their branches, in branch order -/
def visibleSpec (names : List (Option String)) (vals : List (Option Value)) : List (String × Value) :=
  (names.zip vals).filterMap fun (nm, v) => nm.bind fun s => v.map fun v => (s, v)

/-- positions `(e, i)` of the `{…}` operands of one branch-step that are evaluated ahead of the step:
    block operands of plain actions of hoisting operators, in action order then operand order -/
def capKeys (acts : List Member) : List (Nat × Nat) :=
  (capDefsOf 0 acts 0).map fun d => (d.e, d.i)

def specCapsBranch (c : SpecCfg) (k b : Nat) (vis : List (String × Value)) : List (Nat × Nat) → M (List Value)
  | [] => M.ret []
  | (e, i) :: rest =>
    (M.tell [.ev (.cap b k e i vis)]).andThen fun _ =>
    (M.lift (c.σ.capture b k e i vis).toRes).andThen fun v =>
    (specCapsBranch c k b vis rest).andThen fun vs => M.ret (v :: vs)

def specCapsAll (c : SpecCfg) (k : Nat) (vis : List (String × Value)) : List Nat → M (List (List Value))
  | [] => M.ret []
  | b :: bs =>
    (specCapsBranch c k b vis (capKeys (c.acts b k))).andThen fun vs =>
    (specCapsAll c k vis bs).andThen fun rest => M.ret (vs :: rest)

def specPrev (c : SpecCfg) (vals : List (Option Value)) (b k : Nat) : Option Value :=
  if usesPrev (c.acts b k) then (vals[b]?).join else none

/-- chains of a step, one after the other on the calling thread -/
def specChainsSeq (c : SpecCfg) (k : Nat) (vals : List (Option Value)) (vis : List (String × Value)) :
    List (Nat × List Value) → M (List Value)
  | [] => M.ret []
  | (b, caps) :: rest =>
    let o := c.σ.chain b k (specPrev c vals b k) caps vis
    (⟨(chainEvents b k o).map .ev, o.res.toRes⟩ : M Value).andThen fun v =>
    (specChainsSeq c k vals vis rest).andThen fun vs => M.ret (v :: vs)

/-- join the threads of a step in branch order; a thread that panicked panics the caller -/
def specJoins (k : Nat) : List (Nat × ChainOut) → M (List Value)
  | [] => M.ret []
  | (b, o) :: rest =>
    (M.tell [.join b k]).andThen fun _ =>
    match o.res with
    | .ok v => (specJoins k rest).andThen fun vs => M.ret (v :: vs)
    | .panic _ => M.lift (.panic (.joinUnwrap b k))

/-- chains of a step with more than one active branch in a thread-spawning macro:
    every branch is forked (named after the caller and the branch index), then all are joined -/
def specChainsFork (c : SpecCfg) (k : Nat) (vals : List (Option Value)) (vis : List (String × Value))
    (bs : List (Nat × List Value)) : M (List Value) :=
  let outs := bs.map fun (b, caps) => (b, c.σ.chain b k (specPrev c vals b k) caps vis)
  (M.tell (outs.map fun (b, o) => .fork b k (threadName c.parent b) (chainEvents b k o))).andThen fun _ =>
  specJoins k outs

def updVals (vals : List (Option Value)) : List Nat → List Value → List (Option Value)
  | b :: bs, v :: vs => updVals (vals.set b (some v)) bs vs
  | _, _ => vals

/-- outcome of the step loop -/
inductive Fin
  | vals (vs : List Value)       -- all final values (payloads, in try macros)
  | failed (v : Value)           -- try macros: the value of the failing branch, unchanged
  deriving Repr, Inhabited

def payload? : Value → Option Value
  | .succ p => some p
  | _ => none

/-- first value that is not a success, in list order -/
def firstFail : List Value → Option Value
  | [] => none
  | v :: vs => if v.isSucc then firstFail vs else some v

/-- all values present -/
def allSome : List (Option Value) → Option (List Value)
  | [] => some []
  | none :: _ => none
  | some v :: rest => (allSome rest).map (v :: ·)

def specLoop (c : SpecCfg) : (rem : Nat) → (k : Nat) → List (Option Value) → M Fin
  | rem, k, vals =>
    let act := c.active k
    let vis := visibleSpec c.names vals
    (specCapsAll c k vis act).andThen fun caps =>
    (if c.kind.threads && decide (act.length > 1) then specChainsFork c k vals vis (act.zip caps)
     else specChainsSeq c k vals vis (act.zip caps)).andThen fun news =>
    let vals' := updVals vals act news
    match rem with
    | 0 =>
      match allSome vals' with
      | none => M.stuck
      | some finals =>
        if c.kind.isTry then
          match firstFail finals with
          | some v => M.ret (.failed v)
          | none => M.ret (.vals (finals.filterMap payload?))
        else M.ret (.vals finals)
    | rem' + 1 =>
      if c.kind.isTry then
        match firstFail news with
        | some v => M.ret (.failed v)
        | none => specLoop c rem' (k + 1) vals'
      else specLoop c rem' (k + 1) vals'

def specHandle (c : SpecCfg) (h : Option HKind) (f : Fin) : M Value :=
  let call (vs : List Value) : M Value :=
    (M.tell [.ev (.handlerCall vs)]).andThen fun _ => M.lift (c.σ.handlerCall vs).toRes
  match f, h with
  | .failed v, _ => M.ret v
  | .vals vs, none => M.ret (if c.kind.isTry then .succ (mkTuple vs) else mkTuple vs)
  | .vals vs, some .then_ => call vs
  | .vals vs, some .map => (call vs).andThen fun v => M.ret (.succ v)
  | .vals vs, some .andThen => call vs

/-- Reference meaning of a sequential or thread-spawning macro invocation (no custom joiner, default
    transposition) evaluated on a thread named `parent`. -/
def specRun (σ : World) (parent : Option String) (p : Input) (kind : Kind) : M Value :=
  let c : SpecCfg := ⟨σ, kind, p.branches.map (fun b => b.pat.map (·.ident)), parent,
                      p.branches.map fun b => splitSteps b.members⟩
  (match p.handler with
    | some _ => (M.tell [.ev .handlerDef]).andThen fun _ => M.lift σ.handlerDef.toRes
    | none => M.ret ()).andThen fun _ =>
  (specLoop c (c.maxDepth - 1) 0 (List.replicate c.n none)).andThen fun f =>
  specHandle c (p.handler.map Prod.fst) f

end JoinModel
