/-
  The option loop of `JoinInputDefault::parse` (join/parse.rs): rounds in which the four keywords are tried in a fixed
  order, repeated until the input no longer starts with an option keyword.  This file shows that the loop is the same as
  reading the options one after the other in the order they were written (`seqSpec`): a keyword seen for the second
  time is an error, anything else updates its field.
-/
import JoinModel.Parse
namespace JoinModel

/-- one written option: `keyword ( content )` -/
structure OptItem where
  kw : String
  content : Toks
  deriving Repr

def OptItem.render (it : OptItem) : Toks := [.ident it.kw, .group .paren it.content]

def renderOpts : List OptItem → Toks
  | [] => []
  | it :: its => it.render ++ renderOpts its

/-- the name used in the "specified twice" error -/
def shortName (kw : String) : String :=
  if kw = "futures_crate_path" then "fcp" else if kw = "custom_joiner" then "joiner"
  else if kw = "transpose_results" then "transpose" else "lazy"

def isSet (opts : Opts) (kw : String) : Bool :=
  if kw = "futures_crate_path" then opts.fcp.isSome else if kw = "custom_joiner" then opts.joiner.isSome
  else if kw = "transpose_results" then opts.transpose.isSome else opts.lazy.isSome

/-- what an accepted option does to the record -/
def applyItem (o : Oracle) (opts : Opts) (it : OptItem) : Opts :=
  if it.kw = "futures_crate_path" then
    match o.pathPrefix it.content with
    | some n => { opts with fcp := some (it.content.take n), unexpected := opts.unexpected || decide (n < it.content.length) }
    | none => opts
  else if it.kw = "custom_joiner" then { opts with joiner := some it.content }
  else if it.kw = "transpose_results" then
    match o.litBool it.content with
    | some b => { opts with transpose := some b, unexpected := opts.unexpected || decide (1 < it.content.length) }
    | none => opts
  else
    match o.litBool it.content with
    | some b => { opts with lazy := some b, unexpected := opts.unexpected || decide (1 < it.content.length) }
    | none => opts

/-- the option's argument parses: a path for `futures_crate_path`, a boolean literal for the two switches -/
def ItemOK (o : Oracle) (it : OptItem) : Prop :=
  it.kw ∈ Tables.optionOrder ∧
  (it.kw = "futures_crate_path" → (o.pathPrefix it.content).isSome = true) ∧
  (it.kw = "transpose_results" ∨ it.kw = "lazy_branches" → (o.litBool it.content).isSome = true)

/-- the options read one after the other, in the order written -/
def seqSpec (o : Oracle) : List OptItem → Opts → Except String Opts
  | [], opts => .ok opts
  | it :: its, opts => if isSet opts it.kw then .error (shortName it.kw) else seqSpec o its (applyItem o opts it)

theorem mem_optionOrder (kw : String) (h : kw ∈ Tables.optionOrder) :
    kw = "futures_crate_path" ∨ kw = "custom_joiner" ∨ kw = "transpose_results" ∨ kw = "lazy_branches" := by
  -- whatever the order in which the table lists the four keywords
  simp only [Tables.optionOrder, List.mem_cons, List.not_mem_nil, or_false] at h
  rcases h with h | h | h | h <;> simp [h]

theorem optionKw_render (it : OptItem) (rest : Toks) (h : it.kw ∈ Tables.optionOrder) :
    optionKw (it.render ++ rest) = some it.kw := by
  simp [optionKw, OptItem.render, h]

theorem parseOption_ok (o : Oracle) (it : OptItem) (rest : Toks) (opts : Opts) (hok : ItemOK o it)
    (hset : isSet opts it.kw = false) :
    parseOption o it.kw (it.render ++ rest) opts = .ok (applyItem o opts it, rest) := by
  obtain ⟨hmem, hp, hb⟩ := hok
  rcases mem_optionOrder _ hmem with h | h | h | h
  · have := hp h
    cases hpp : o.pathPrefix it.content with
    | none => rw [hpp] at this; cases this
    | some n =>
      simp only [isSet, h, if_true] at hset
      simp [parseOption, OptItem.render, applyItem, h, hset, hpp]
  · simp only [isSet, h] at hset
    simp at hset
    simp [parseOption, OptItem.render, applyItem, h, hset]
  · have := hb (Or.inl h)
    cases hpp : o.litBool it.content with
    | none => rw [hpp] at this; cases this
    | some b =>
      simp only [isSet, h] at hset
      simp at hset
      simp [parseOption, OptItem.render, applyItem, h, hset, hpp]
  · have := hb (Or.inr h)
    cases hpp : o.litBool it.content with
    | none => rw [hpp] at this; cases this
    | some b =>
      simp only [isSet, h] at hset
      simp at hset
      simp [parseOption, OptItem.render, applyItem, h, hset, hpp]

theorem parseOption_twice (o : Oracle) (it : OptItem) (rest : Toks) (opts : Opts) (hmem : it.kw ∈ Tables.optionOrder)
    (hset : isSet opts it.kw = true) :
    parseOption o it.kw (it.render ++ rest) opts = .error (.optionTwice (shortName it.kw)) := by
  rcases mem_optionOrder _ hmem with h | h | h | h
  · simp only [isSet, h, if_true] at hset
    simp [parseOption, OptItem.render, h, hset, shortName]
  · simp only [isSet, h] at hset
    simp at hset
    simp [parseOption, OptItem.render, h, hset, shortName]
  · simp only [isSet, h] at hset
    simp at hset
    simp [parseOption, OptItem.render, h, hset, shortName]
  · simp only [isSet, h] at hset
    simp at hset
    simp [parseOption, OptItem.render, h, hset, shortName]

/-- One round consumes a prefix of the written options, exactly as reading them in order does. -/
theorem optionRound_seq (o : Oracle) (rest : Toks) (hrest : optionKw rest = none) :
    ∀ (kws : List String) (its : List OptItem) (opts : Opts), (∀ it ∈ its, ItemOK o it) →
    (∃ s, optionRound o kws (renderOpts its ++ rest) opts = .error (.optionTwice s) ∧ seqSpec o its opts = .error s) ∨
    (∃ opts' j, optionRound o kws (renderOpts its ++ rest) opts = .ok (opts', renderOpts (its.drop j) ++ rest) ∧
      seqSpec o its opts = seqSpec o (its.drop j) opts' ∧
      (∀ it its', its = it :: its' → it.kw ∈ kws → 1 ≤ j)) := by
  intro kws
  induction kws with
  | nil =>
    intro its opts _
    exact Or.inr ⟨opts, 0, by simp [optionRound], by simp, fun _ _ _ h => by cases h⟩
  | cons kw kws ih =>
    intro its opts hok
    cases its with
    | nil =>
      refine Or.inr ⟨opts, 0, ?_, by simp, fun _ _ h => by cases h⟩
      have : optionRound o kws rest opts = .ok (opts, rest) := by
        have : ∀ (kws : List String), optionRound o kws rest opts = .ok (opts, rest) := by
          intro kws
          induction kws with
          | nil => rfl
          | cons k ks ih2 => simp [optionRound, hrest, ih2]
        exact this kws
      simp [optionRound, renderOpts, hrest, this]
    | cons it its' =>
      have hit := hok it List.mem_cons_self
      have hkw := optionKw_render it (renderOpts its' ++ rest) hit.1
      have hin : renderOpts (it :: its') ++ rest = it.render ++ (renderOpts its' ++ rest) := by
        simp [renderOpts, List.append_assoc]
      by_cases hk : it.kw = kw
      · cases hset : isSet opts it.kw with
        | true =>
          refine Or.inl ⟨shortName it.kw, ?_, by simp [seqSpec, hset]⟩
          rw [hin]
          unfold optionRound
          simp only [hkw, hk, if_true]
          rw [← hk, parseOption_twice o it _ opts hit.1 hset]
        | false =>
          have hpo := parseOption_ok o it (renderOpts its' ++ rest) opts hit hset
          rcases ih its' (applyItem o opts it) (fun x hx => hok x (List.mem_cons_of_mem _ hx)) with
            ⟨s, h1, h2⟩ | ⟨opts', j, h1, h2, _⟩
          · refine Or.inl ⟨s, ?_, by simp [seqSpec, hset, h2]⟩
            rw [hin]
            unfold optionRound
            simp only [hkw, hk, if_true]
            rw [← hk, hpo]
            exact h1
          · refine Or.inr ⟨opts', j + 1, ?_, by simp [seqSpec, hset, h2], fun _ _ _ _ => by omega⟩
            rw [hin]
            unfold optionRound
            simp only [hkw, hk, if_true]
            rw [← hk, hpo]
            simpa using h1
      · rcases ih (it :: its') opts hok with ⟨s, h1, h2⟩ | ⟨opts', j, h1, h2, h3⟩
        · refine Or.inl ⟨s, ?_, h2⟩
          rw [hin] at h1 ⊢
          unfold optionRound
          simp only [hkw, Option.some.injEq, hk, if_false]
          exact h1
        · refine Or.inr ⟨opts', j, ?_, h2, ?_⟩
          · rw [hin] at h1 ⊢
            unfold optionRound
            simp only [hkw, Option.some.injEq, hk, if_false]
            exact h1
          · intro x xs hx hmem
            cases hx
            rcases List.mem_cons.mp hmem with h | h
            · exact absurd h hk
            · exact h3 it its' rfl h

theorem renderOpts_length (its : List OptItem) : (renderOpts its).length = 2 * its.length := by
  induction its with
  | nil => rfl
  | cons it its ih => simp [renderOpts, OptItem.render, ih]; omega

/-- **The option loop reads the options in the order written.** -/
theorem parseOptions_seq (o : Oracle) (rest : Toks) (hrest : optionKw rest = none) :
    ∀ (fuel rounds : Nat) (its : List OptItem) (opts : Opts), (∀ it ∈ its, ItemOK o it) →
      its.length < fuel → its.length < rounds →
      parseOptions o fuel rounds (renderOpts its ++ rest) opts =
        (match seqSpec o its opts with
          | .ok opts' => .ok (opts', rest)
          | .error s => .error (.optionTwice s)) := by
  have hrounds : Tables.optionRounds = none := rfl
  intro fuel
  induction fuel with
  | zero => intro rounds its opts _ h; omega
  | succ fuel ih =>
    intro rounds its opts hok hf hr
    obtain ⟨rounds, rfl⟩ : ∃ r, rounds = r + 1 := ⟨rounds - 1, by omega⟩
    cases its with
    | nil => simp [parseOptions, renderOpts, hrounds, hrest, seqSpec]
    | cons it its' =>
      have hit := hok it List.mem_cons_self
      have hkw : optionKw (renderOpts (it :: its') ++ rest) = some it.kw := by
        have := optionKw_render it (renderOpts its' ++ rest) hit.1
        simpa [renderOpts, List.append_assoc] using this
      unfold parseOptions
      simp only [hrounds, hkw, Option.isNone_none, Option.isNone_some, Bool.and_false, Bool.false_eq_true, if_false]
      rcases optionRound_seq o rest hrest Tables.optionOrder (it :: its') opts hok with ⟨s, h1, h2⟩ | ⟨opts', j, h1, h2, h3⟩
      · rw [h1, h2]
      · have hj := h3 it its' rfl hit.1
        rw [h1, h2]
        simp only
        refine ih rounds ((it :: its').drop j) opts' (fun x hx => hok x (List.mem_of_mem_drop hx)) ?_ ?_
        · simp only [List.length_drop, List.length_cons] at hf ⊢; omega
        · simp only [List.length_drop, List.length_cons] at hr ⊢; omega

/-! ### what reading in order gives -/

theorem isSet_apply (o : Oracle) (opts : Opts) (it : OptItem) (hok : ItemOK o it) (kw : String) (hkw : kw ∈ Tables.optionOrder) :
    isSet (applyItem o opts it) kw = (isSet opts kw || decide (kw = it.kw)) := by
  obtain ⟨hmem, hp, hb⟩ := hok
  rcases mem_optionOrder _ hmem with h | h | h | h <;> rcases mem_optionOrder _ hkw with h' | h' | h' | h'
  all_goals
    first
    | (have hq := hp h
       cases hpp : o.pathPrefix it.content with
       | none => rw [hpp] at hq; cases hq
       | some n => simp [isSet, applyItem, h, h', hpp])
    | (have hq := hb (Or.inl h)
       cases hpp : o.litBool it.content with
       | none => rw [hpp] at hq; cases hq
       | some n => simp [isSet, applyItem, h, h', hpp])
    | (have hq := hb (Or.inr h)
       cases hpp : o.litBool it.content with
       | none => rw [hpp] at hq; cases hq
       | some n => simp [isSet, applyItem, h, h', hpp])
    | simp [isSet, applyItem, h, h']

/-- pairwise different keywords, none of them set yet: every option is accepted -/
theorem seqSpec_ok (o : Oracle) : ∀ (its : List OptItem) (opts : Opts), (∀ it ∈ its, ItemOK o it) →
    (its.map (·.kw)).Nodup → (∀ it ∈ its, isSet opts it.kw = false) →
    seqSpec o its opts = .ok (its.foldl (applyItem o) opts) := by
  intro its
  induction its with
  | nil => intro opts _ _ _; rfl
  | cons it its ih =>
    intro opts hok hnd hun
    simp only [List.map_cons, List.nodup_cons] at hnd
    simp only [seqSpec, hun it List.mem_cons_self, Bool.false_eq_true, if_false, List.foldl_cons]
    refine ih _ (fun x hx => hok x (List.mem_cons_of_mem _ hx)) hnd.2 ?_
    intro x hx
    rw [isSet_apply o opts it (hok it List.mem_cons_self) x.kw (hok x (List.mem_cons_of_mem _ hx)).1,
      hun x (List.mem_cons_of_mem _ hx)]
    have : x.kw ≠ it.kw := fun h => hnd.1 (by rw [← h]; exact List.mem_map_of_mem hx)
    simp [this]

/-- a keyword written a second time: rejected, with that keyword named -/
theorem seqSpec_twice (o : Oracle) : ∀ (pre : List OptItem) (b : OptItem) (post : List OptItem) (opts : Opts),
    (∀ it ∈ pre, ItemOK o it) → b.kw ∈ Tables.optionOrder → (pre.map (·.kw)).Nodup → (∀ it ∈ pre, isSet opts it.kw = false) →
    (isSet opts b.kw = true ∨ b.kw ∈ pre.map (·.kw)) →
    seqSpec o (pre ++ b :: post) opts = .error (shortName b.kw) := by
  intro pre
  induction pre with
  | nil =>
    intro b post opts _ _ _ _ h
    rcases h with h | h
    · simp [seqSpec, h]
    · cases h
  | cons it pre ih =>
    intro b post opts hok hb hnd hun h
    simp only [List.map_cons, List.nodup_cons] at hnd
    simp only [List.cons_append, seqSpec, hun it List.mem_cons_self, Bool.false_eq_true, if_false]
    refine ih b post _ (fun x hx => hok x (List.mem_cons_of_mem _ hx)) hb hnd.2 ?_ ?_
    · intro x hx
      rw [isSet_apply o opts it (hok it List.mem_cons_self) x.kw (hok x (List.mem_cons_of_mem _ hx)).1,
        hun x (List.mem_cons_of_mem _ hx)]
      have : x.kw ≠ it.kw := fun h => hnd.1 (by rw [← h]; exact List.mem_map_of_mem hx)
      simp [this]
    · rw [isSet_apply o opts it (hok it List.mem_cons_self) b.kw hb]
      rcases h with h | h
      · exact Or.inl (by simp [h])
      · simp only [List.map_cons, List.mem_cons] at h
        rcases h with h | h
        · exact Or.inl (by simp [h])
        · exact Or.inr h

end JoinModel
