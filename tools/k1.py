#!/usr/bin/env python3
"""K1: generator correspondence.  Runs the real expander (harness) and the Lean model driver on the same
cases and compares outcome classes and emitted tokens (spacing-insensitively)."""
import os
import re
import subprocess
import sys

ROOT = os.path.dirname(os.path.dirname(os.path.abspath(__file__)))
HARNESS = os.path.join(ROOT, ".build", "harness", "release", "jharness")
DRIVER = os.path.join(ROOT, "lean", ".lake", "build", "bin", "joinmodel")

_unspace_re = re.compile(r"(p:.)j(?= |$)")


_float_idx_re = re.compile(r"(?<=p:\. )l:(\d+)\.(\d+)(?= |$)")


def unspace(s):
    """Canonical form for comparing outputs: punctuation spacing dropped; a literal `A.B` right after a `.`
    (tuple index path `x.0.1`, which syn re-prints as `. 0 . 1` when it re-parses a wrapper closure and which
    rustc's parser splits the same way) is split on both sides."""
    s = _unspace_re.sub(r"\1", s)
    return _float_idx_re.sub(r"l:\1 p:. l:\2", s)


class Real:
    __slots__ = ("id", "kind", "src", "in_toks", "parse", "structure", "gen", "out", "valid", "dot_ok", "oracle", "family")

    def __repr__(self):
        return "Real(%s %s %r parse=%s gen=%s)" % (self.id, self.kind, self.src, self.parse, self.gen)


def run_real(cases, with_oracle=False):
    """cases: list of (id, kind, src, family). Returns list of Real in the same order."""
    inp = "".join("%s\t%s\t%s\n" % (c[0], c[1], c[2].replace("\n", " ").replace("\t", " ")) for c in cases)
    p = subprocess.run([HARNESS, "oracle" if with_oracle else "expand"], input=inp, capture_output=True, text=True)
    if p.returncode != 0:
        raise RuntimeError("harness failed: rc=%s %s" % (p.returncode, p.stderr[-2000:]))
    out = []
    lines = p.stdout.split("\n")
    if lines and lines[-1] == "":
        lines.pop()
    if len(lines) != len(cases):
        raise RuntimeError("harness produced %d lines for %d cases" % (len(lines), len(cases)))
    for c, l in zip(cases, lines):
        f = l.split("\t")
        r = Real()
        r.id, r.kind, r.src, r.family = c[0], c[1], c[2], c[3]
        assert f[0] == c[0], (f[0], c[0])
        r.in_toks, r.parse, r.structure, r.gen, r.out, r.valid, r.dot_ok = f[2], f[3], f[4], f[5], f[6], f[7], f[8]
        r.oracle = f[9] if with_oracle and len(f) > 9 else None
        out.append(r)
    return out


def run_driver(lines):
    inp = "".join(l + "\n" for l in lines)
    p = subprocess.run([DRIVER], input=inp, capture_output=True, text=True)
    if p.returncode != 0:
        raise RuntimeError("lean driver failed: rc=%s %s" % (p.returncode, p.stderr[-2000:]))
    out = p.stdout.split("\n")
    if out and out[-1] == "":
        out.pop()
    if len(out) != len(lines):
        raise RuntimeError("driver produced %d lines for %d requests" % (len(out), len(lines)))
    return out


def outcome_class(s):
    """Coarse class of a generator outcome: ok | reject:<which> | internal"""
    if s == "ok":
        return "ok"
    m = re.match(r"(?:panic|err):CfgReject:(\w+)", s)
    if m:
        return "reject:" + m.group(1)
    return "internal"


class Diff:
    def __init__(self, real, kind, detail, model_out=None):
        self.real = real
        self.kind = kind          # outcome | tokens | invalid-output
        self.detail = detail
        self.model_out = model_out

    def to_json(self):
        return {"id": self.real.id, "macro_kind": self.real.kind, "source": self.real.src, "family": self.real.family,
                "difference": self.kind, "detail": self.detail, "real_parse": self.real.parse,
                "real_gen": self.real.gen, "structure": self.real.structure}


def first_token_diff(a, b, ctx=10):
    aw, bw = a.split(" "), b.split(" ")
    for i, (x, y) in enumerate(zip(aw, bw)):
        if x != y:
            return {"at": i, "real": " ".join(aw[max(0, i - ctx):i + ctx]), "model": " ".join(bw[max(0, i - ctx):i + ctx])}
    return {"at": min(len(aw), len(bw)), "real_len": len(aw), "model_len": len(bw),
            "real": " ".join(aw[-ctx:]), "model": " ".join(bw[-ctx:])}


def compare_gen(reals):
    """Model generator (on the structure the real parser produced) vs real generator.
    Returns (n_compared, diffs)."""
    # domain of the model: member-access operands that are member accesses (C15's own precondition); outside it
    # `parse_quote!` inside the generator may reject the spliced tokens, which depends on syn's grammar
    todo = [r for r in reals if r.parse == "ok" and r.dot_ok != "0"]
    lines = ["GEN\t%s\t%s\t%s" % (r.id, r.kind, r.structure) for r in todo]
    outs = run_driver(lines) if lines else []
    diffs = []
    for r, o in zip(todo, outs):
        f = o.split("\t")
        if len(f) < 3 or f[0] != r.id:
            diffs.append(Diff(r, "driver", o[:300]))
            continue
        m_outcome = f[1]
        if m_outcome == "badinput":
            diffs.append(Diff(r, "driver", "model could not read the structure"))
            continue
        rc, mc = outcome_class(r.gen), outcome_class(m_outcome)
        if rc != mc:
            diffs.append(Diff(r, "outcome", {"real": r.gen, "model": m_outcome}))
            continue
        if rc == "ok":
            if unspace(r.out) != unspace(f[2]):
                diffs.append(Diff(r, "tokens", first_token_diff(unspace(r.out), unspace(f[2])), f[2]))
    return len(todo), diffs


def parse_class(s):
    """ok | err:<class> with syn's own messages folded into one class (their wording is syn's business)"""
    if s.startswith("err:Syn:") or s == "err:Syn":
        return "err:Syn"
    return s


def compare_parse(reals):
    """Parser model (with the syn oracle of each input, computed by the harness) vs the real parser.
    `reals` must come from run_real(..., with_oracle=True).  Returns (n_compared, diffs)."""
    todo = [r for r in reals if r.parse != "lexerr" and not r.parse.startswith("panic")]
    lines = ["PARSE\t%s\t%s\t%s" % (r.id, r.in_toks, r.oracle or "-") for r in todo]
    outs = run_driver(lines) if lines else []
    diffs = []
    for r, o in zip(todo, outs):
        f = o.split("\t")
        if len(f) < 3 or f[0] != r.id or f[1] in ("badinput", "badoracle"):
            diffs.append(Diff(r, "driver", o[:300]))
            continue
        rc, mc = parse_class(r.parse), parse_class(f[1])
        if rc != mc:
            diffs.append(Diff(r, "parse-outcome", {"real": r.parse, "model": f[1]}))
        elif rc == "ok" and unspace(r.structure) != unspace(f[2]):
            diffs.append(Diff(r, "parse-structure", first_token_diff(unspace(r.structure), unspace(f[2])), f[2]))
    return len(todo), diffs


if __name__ == "__main__":
    if len(sys.argv) > 1 and sys.argv[1] == "parse":
        rs = run_real([("x", "a0t0s0", sys.argv[2], "adhoc")], with_oracle=True)
        print(rs[0], rs[0].structure, rs[0].oracle, sep="\n")
        n, d = compare_parse(rs)
        for x in d:
            print(x.to_json(), x.model_out)
        if not d:
            print("agree", rs[0].parse)
        sys.exit(0)
    # ad-hoc: k1.py KIND 'source'
    kind, src = sys.argv[1], sys.argv[2]
    rs = run_real([("x", kind, src, "adhoc")])
    print(rs[0], rs[0].structure, sep="\n")
    n, d = compare_gen(rs)
    for x in d:
        print(x.to_json())
    if not d:
        print("agree", rs[0].gen)
