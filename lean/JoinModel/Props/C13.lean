/-
  C13 — handlers: map / and_then only on success, then always, exactly once.
  The last section is about the parser model: one handler may stand anywhere among the branches
  (`handler_anywhere`), a second one is rejected (`second_handler_rejected`); it builds on the chain round trip of
  Props/C14.
-/
import JoinModel.Props.Common
import JoinModel.Props.C14
namespace JoinModel.Props.C13
open JoinModel JoinModel.Props

/-- the one handler call: one event, then the user's function on the values in branch order -/
def callOnce (sc : SpecCfg) (vs : List Value) : M Value :=
  (M.tell [.ev (.handlerCall vs)]).andThen fun _ => M.lift (sc.σ.handlerCall vs).toRes

/-- `then => f` (non-try macros): f is called exactly once with the raw values; its value is the macro's value. -/
theorem then_semantics (sc : SpecCfg) (vs : List Value) :
    specHandle sc (some .then_) (.vals vs) = callOnce sc vs := rfl

/-- `map => f` (try macros): on success f is called exactly once with the unwrapped values, result `Ok(f(..))`;
    on failure f is not called and the failing value is returned. -/
theorem map_semantics (sc : SpecCfg) (vs : List Value) (v : Value) :
    specHandle sc (some .map) (.vals vs) = (callOnce sc vs).andThen (fun r => M.ret (.succ r)) ∧
    specHandle sc (some .map) (.failed v) = M.ret v := ⟨rfl, rfl⟩

/-- `and_then => f` (try macros): on success the macro's value is f(..) itself; on failure f is not called. -/
theorem and_then_semantics (sc : SpecCfg) (vs : List Value) (v : Value) :
    specHandle sc (some .andThen) (.vals vs) = callOnce sc vs ∧
    specHandle sc (some .andThen) (.failed v) = M.ret v := ⟨rfl, rfl⟩

/-- exactly one call event, carrying the values in branch order -/
theorem call_trace (sc : SpecCfg) (vs : List Value) : (callOnce sc vs).trace = [.ev (.handlerCall vs)] := by
  simp only [callOnce, M.tell_andThen, M.pre, M.lift]
  rfl

/-- **From the tokens to the handler call** (`then => f`, non-try macros): whatever the parser accepts (any behaviour of syn;
    default options), if the handler expression evaluates and the step loop of the parsed program ends with the values `vs`,
    the code expanded from it defines the handler first, runs the loop, calls the handler exactly once — last — with `vs` in
    branch order, and returns what the handler returned (or panics with it). -/
theorem accepted_then_handler (o : Oracle) (toks : Toks) (σ : World) (parent : Option String) (p : Input) (kind : Kind)
    (code : Code) (hparse : parseMacroInput o toks = .ok p) (hd : PlainInvocation p kind) (hgen : gen p kind = .ok code)
    (t : Toks) (hh : p.handler = some (.then_, t)) (hdef : σ.handlerDef = .ok ()) (vs : List Value)
    (h : (loopOf σ parent p kind).res = .ok (.vals vs)) :
    (evalCode σ parent code).res = (σ.handlerCall vs).toRes ∧
    (evalCode σ parent code).trace =
      [.ev .handlerDef] ++ (loopOf σ parent p kind).trace ++ [.ev (.handlerCall vs)] := by
  rw [accepted_eq_reference o toks σ parent p kind code hparse hd hgen, specRun_eq]
  have hσ : (cfgFor σ parent p kind).σ = σ := rfl
  generalize hl : loopOf σ parent p kind = l at h
  obtain ⟨lt, lr⟩ := l
  simp only at h
  subst h
  simp [handlerDefOf, hh, hdef, M.andThen, M.tell, M.lift, UR.toRes, specHandle, hσ]

/-- A handler of the wrong kind for the macro is rejected at expansion time, and only then. -/
theorem handler_kind_rejected (p : Input) (kind : Kind) :
    (gen p kind = .error .handlerNotTry ↔ (kind.isTry = false ∧ p.isMapOrAndThen = true)) ∧
    (gen p kind = .error .thenInTry ↔ (kind.isTry = true ∧ p.isThen = true)) := by
  have key : ∀ (e : GenErr), (e = .handlerNotTry ∨ e = .thenInTry) →
      (gen p kind = .error e ↔ mkCtx p kind = .error e) := by
    intro e he
    unfold gen
    cases hm : mkCtx p kind with
    | error e' => simp
    | ok c =>
      simp only
      split
      · rcases he with rfl | rfl <;> simp
      · cases hs : genSteps c (c.maxSteps - 1) 0 with
        | ok steps => simp
        | error e' =>
          simp only [Except.error.injEq, reduceCtorEq, iff_false]
          intro heq; subst heq
          obtain ⟨ce, hce⟩ := genSteps_err c _ _ _ hs
          rcases he with rfl | rfl <;> cases hce
  constructor
  · rw [key _ (Or.inl rfl)]
    unfold mkCtx
    by_cases h1 : (!kind.isTry && p.isMapOrAndThen) = true
    · simp only [h1, if_true, true_iff]
      simpa using h1
    · simp only [h1, Bool.false_eq_true, if_false]
      constructor
      · intro h
        split at h
        · cases h
        · split at h
          · cases h
          · split at h <;> cases h
      · intro h
        exact absurd (by simpa using h) h1
  · rw [key _ (Or.inr rfl)]
    unfold mkCtx
    by_cases h1 : (!kind.isTry && p.isMapOrAndThen) = true
    · simp only [h1, if_true]
      constructor
      · intro h; cases h
      · intro h
        simp only [Bool.and_eq_true, Bool.not_eq_true'] at h1
        rw [h.1] at h1; cases h1.1
    · simp only [h1, Bool.false_eq_true, if_false]
      by_cases h2 : (kind.isTry && p.isThen) = true
      · simp only [h2, if_true, true_iff]
        simpa using h2
      · simp only [h2, Bool.false_eq_true, if_false]
        constructor
        · intro h
          split at h
          · cases h
          · split at h <;> cases h
        · intro h
          exact absurd (by simpa using h) h2

/-! ### The parser half: one handler, anywhere among the branches; a second handler is rejected

  Items are written one after the other, separated by `,`: branches (as in Props/C14 §7) and handler definitions
  `map|and_then|then => body`.  `printed` is what syn prints for the handler's expression. -/

section ParserHalf
open JoinModel.Props.C14

inductive SrcItem
  | branch (b : SrcBranch)
  | handler (k : HKind) (body : Toks) (printed : Toks)

def kwName : HKind → String
  | .map => "map"
  | .andThen => "and_then"
  | .then_ => "then"

def handlerHead (k : HKind) : Toks := [.ident (kwName k), .punct '=' true, .punct '>' false]

def renderItem (it : SrcItem) (tail : Toks) : Toks :=
  match it with
  | .branch b => b.x0 ++ renderActs tail b.acts
  | .handler k body _ => handlerHead k ++ body ++ tail

/-- items separated by `,` -/
def renderItems : List SrcItem → Toks
  | [] => []
  | it :: rest => renderItem it (match rest with | [] => [] | _ :: _ => TT.punct ',' false :: renderItems rest)

/-- what follows an item: nothing, or the separating comma and the remaining items -/
def sepTail (rest : List SrcItem) : Toks :=
  match rest with
  | [] => []
  | _ :: _ => TT.punct ',' false :: renderItems rest

theorem renderItems_cons (it : SrcItem) (rest : List SrcItem) : renderItems (it :: rest) = renderItem it (sepTail rest) := by
  cases rest <;> rfl

/-- a branch is well-formed in front of what follows it and does not start like a handler (Props/C14 `BranchesOK`);
    syn reads a handler's expression up to the separating comma -/
def ItemOK1 (o : Oracle) (it : SrcItem) (tail whole : Toks) : Prop :=
  match it with
  | .branch b => OperandOK o b.x0 (renderActs tail b.acts) ∧ o.letSplit b.x0 = .notLet ∧ ActsOK o tail b.acts ∧
      BalanceOK 0 b.acts ∧ handlerKw whole = none ∧ b.acts.length ≤ whole.length ∧ whole ≠ []
  | .handler _ body e => o.exprPrefix (body ++ tail) = some (body.length, e)

def ItemsOK (o : Oracle) : List SrcItem → Prop
  | [] => True
  | it :: rest => ItemOK1 o it (sepTail rest) (renderItems (it :: rest)) ∧ ItemsOK o rest

/-- the handler slot while the items are read: `none` = a second handler was met -/
def handlerFold : Option (HKind × Toks) → List SrcItem → Option (Option (HKind × Toks))
  | h, [] => some h
  | h, .branch _ :: its => handlerFold h its
  | none, .handler k _ e :: its => handlerFold (some (k, e)) its
  | some _, .handler _ _ _ :: _ => none

def branchesOf (o : Oracle) : List SrcItem → List Branch
  | [] => []
  | .branch b :: its => expBranch o b :: branchesOf o its
  | .handler _ _ _ :: its => branchesOf o its

theorem handlerKw_head (k : HKind) (rest : Toks) : handlerKw (handlerHead k ++ rest) = some k := by
  cases k <;> simp [handlerKw, handlerHead, kwName, checkSeq, peekPat, peekPunct, skip1]

theorem afterTerm_sepTail (rest : List SrcItem) : afterTerm (sepTail rest) = renderItems rest := by
  cases rest <;> simp [afterTerm, sepTail, eatComma, renderItems]

/-- **The item loop.**  Branches and handler definitions in any arrangement: the loop returns the branches in the order
    written and the handler, or the `MultipleHandlers` error as soon as a second handler definition is met. -/
theorem items_roundtrip_partial (o : Oracle) (items : List SrcItem) :
    ∀ (acc : List Branch) (h : Option (HKind × Toks)) (fuel : Nat), ItemsOK o items → items.length + 1 ≤ fuel →
      parseItems o fuel (renderItems items) acc h =
        (match handlerFold h items with
          | none => .error .multipleHandlers
          | some h' => .ok (acc ++ branchesOf o items, h')) := by
  induction items with
  | nil =>
    intro acc h fuel _ hf
    obtain ⟨fuel, rfl⟩ : ∃ f, fuel = f + 1 := ⟨fuel - 1, by simp at hf; omega⟩
    simp [renderItems, parseItems, handlerFold, branchesOf]
  | cons it rest ih =>
    intro acc h fuel hok hf
    obtain ⟨fuel, rfl⟩ : ∃ f, fuel = f + 1 := ⟨fuel - 1, by simp at hf; omega⟩
    obtain ⟨h1, hrest⟩ := hok
    rw [renderItems_cons] at h1 ⊢
    cases it with
    | branch b =>
      obtain ⟨b1, b2, b3, b4, b5, b6, b7⟩ := h1
      simp only [renderItem] at b5 b6 b7 ⊢
      have hb := branch_roundtrip_partial o (sepTail rest) b.x0 b.acts b1 b2 b3 b4
        ((b.x0 ++ renderActs (sepTail rest) b.acts).length + 2) (by omega)
      obtain ⟨t, ts, hts⟩ : ∃ t ts, b.x0 ++ renderActs (sepTail rest) b.acts = t :: ts := by
        cases hr : b.x0 ++ renderActs (sepTail rest) b.acts with
        | nil => exact absurd hr b7
        | cons t ts => exact ⟨t, ts, rfl⟩
      have hpi : parseItems o (fuel + 1) (b.x0 ++ renderActs (sepTail rest) b.acts) acc h =
          parseItems o fuel (renderItems rest) (acc ++ [expBranch o b]) h := by
        rw [hts]
        simp only [parseItems]
        rw [← hts, b5]
        simp only [Option.isSome_none, Bool.false_eq_true, if_false]
        rw [hb, afterTerm_sepTail]
        rfl
      rw [hpi, ih (acc ++ [expBranch o b]) h fuel hrest (by simp at hf ⊢; omega)]
      simp only [handlerFold, branchesOf]
      cases handlerFold h rest <;> simp [List.append_assoc]
    | handler k body e =>
      simp only [renderItem] at h1 ⊢
      have hkw := handlerKw_head k (body ++ sepTail rest)
      have hin : handlerHead k ++ body ++ sepTail rest = handlerHead k ++ (body ++ sepTail rest) := by
        simp [List.append_assoc]
      rw [hin]
      have hcons : handlerHead k ++ (body ++ sepTail rest) =
          TT.ident (kwName k) :: TT.punct '=' true :: TT.punct '>' false :: (body ++ sepTail rest) := rfl
      cases h with
      | some h0 =>
        rw [hcons]
        simp only [parseItems]
        rw [← hcons, hkw]
        simp [handlerFold]
      | none =>
        have hph : parseHandlerItem o (handlerHead k ++ (body ++ sepTail rest)) = .ok ((k, e), renderItems rest) := by
          unfold parseHandlerItem
          rw [hkw]
          simp only
          have hd : (handlerHead k ++ (body ++ sepTail rest)).drop 3 = body ++ sepTail rest := rfl
          rw [hd, h1]
          simp only [List.drop_left]
          have := afterTerm_sepTail rest
          simp only [afterTerm] at this
          rw [this]
        rw [hcons]
        simp only [parseItems]
        rw [← hcons, hkw, hph]
        simp only [Option.isSome_some, if_true, Option.isSome_none, Bool.false_eq_true, if_false]
        rw [ih acc (some (k, e)) fuel hrest (by simp at hf ⊢; omega)]
        simp only [handlerFold, branchesOf]

theorem renderActs_len (term : Toks) (acts : List SrcAct) : term.length ≤ (renderActs term acts).length := by
  induction acts with
  | nil => simp [renderActs]
  | cons a as ih => simp only [renderActs, List.length_append]; omega

theorem items_len (o : Oracle) : ∀ items : List SrcItem, ItemsOK o items → items.length ≤ (renderItems items).length := by
  intro items
  induction items with
  | nil => intro _; simp
  | cons it rest ih =>
    intro hok
    obtain ⟨h1, hrest⟩ := hok
    have := ih hrest
    have htail : (sepTail rest).length = (match rest with | [] => 0 | _ :: _ => (renderItems rest).length + 1) := by
      cases rest <;> simp [sepTail]
    rw [renderItems_cons] at h1 ⊢
    cases it with
    | branch b =>
      obtain ⟨_, _, _, _, _, _, b7⟩ := h1
      simp only [renderItem] at b7 ⊢
      have hl := renderActs_len (sepTail rest) b.acts
      have hpos : 0 < (b.x0 ++ renderActs (sepTail rest) b.acts).length := List.length_pos_iff.mpr b7
      simp only [List.length_append, List.length_cons] at hl hpos ⊢
      cases rest with
      | nil => simp at this ⊢; omega
      | cons r rs => simp only [List.length_cons] at htail this ⊢; omega
    | handler k body e =>
      simp only [renderItem, handlerHead, List.length_append, List.length_cons, List.length_nil]
      cases rest with
      | nil => simp only [List.length_nil]; omega
      | cons r rs => simp only [List.length_cons] at htail this ⊢; omega

/-- **The whole macro input**: any subset of the options in any order, then branches and handler definitions in any
    arrangement.  The result is determined by the written options (each its own field), the branches in the order
    written, and the one handler — or it is the `MultipleHandlers` / "at least 1 branch" / "unexpected token" error. -/
theorem whole_input_roundtrip_partial (o : Oracle) (its : List OptItem) (items : List SrcItem)
    (hits : ∀ it ∈ its, ItemOK o it) (hnd : (its.map (·.kw)).Nodup) (hok : ItemsOK o items)
    (hopt : optionKw (renderItems items) = none) :
    parseMacroInput o (renderOpts its ++ renderItems items) =
      (match handlerFold none items with
        | none => .error .multipleHandlers
        | some h =>
          if (branchesOf o items).isEmpty then .error .noBranch
          else if (its.foldl (applyItem o) {}).unexpected then .error (.syn "unexpected token")
          else .ok { fcp := (its.foldl (applyItem o) {}).fcp, joiner := (its.foldl (applyItem o) {}).joiner,
                     transpose := (its.foldl (applyItem o) {}).transpose, lazy := (its.foldl (applyItem o) {}).lazy,
                     handler := h, branches := branchesOf o items }) := by
  have hrounds : Tables.optionRounds = none := rfl
  have hl : its.length < (renderOpts its ++ renderItems items).length + 1 := by
    simp only [List.length_append, renderOpts_length]; omega
  have hpo : parseOptions o ((renderOpts its ++ renderItems items).length + 1) ((renderOpts its ++ renderItems items).length + 1)
      (renderOpts its ++ renderItems items) {} = .ok (its.foldl (applyItem o) {}, renderItems items) := by
    rw [parseOptions_seq o _ hopt _ _ its {} hits hl hl,
      seqSpec_ok o its {} hits hnd (fun it hit => by
        rcases mem_optionOrder _ (hits it hit).1 with h | h | h | h <;> simp [isSet, h])]
  unfold parseMacroInput
  simp only [hrounds]
  rw [hpo]
  simp only
  rw [items_roundtrip_partial o items [] none _ hok (by have := items_len o items hok; omega)]
  cases handlerFold none items with
  | none => rfl
  | some h => simp

/-- **One handler, anywhere.**  With exactly one handler definition among the items — first, last or between two
    branches — the parser returns the branches in the order written and that handler: its position changes nothing. -/
theorem handler_anywhere (o : Oracle) (pre post : List SrcItem) (k : HKind) (body e : Toks)
    (hpre : ∀ it ∈ pre, ∃ b, it = .branch b) (hpost : ∀ it ∈ post, ∃ b, it = .branch b)
    (hok : ItemsOK o (pre ++ .handler k body e :: post)) (fuel : Nat) (hf : (pre ++ .handler k body e :: post).length + 1 ≤ fuel) :
    parseItems o fuel (renderItems (pre ++ .handler k body e :: post)) [] none =
      .ok (branchesOf o pre ++ branchesOf o post, some (k, e)) := by
  rw [items_roundtrip_partial o _ [] none fuel hok hf]
  have hbr : ∀ (l : List SrcItem) (h : Option (HKind × Toks)), (∀ it ∈ l, ∃ b, it = .branch b) → handlerFold h l = some h := by
    intro l
    induction l with
    | nil => intro h _; rfl
    | cons x xs ih =>
      intro h hl
      obtain ⟨b, rfl⟩ := hl x List.mem_cons_self
      simp only [handlerFold]
      exact ih h (fun y hy => hl y (List.mem_cons_of_mem _ hy))
  have hfold : ∀ (l : List SrcItem), (∀ it ∈ l, ∃ b, it = .branch b) →
      handlerFold none (l ++ .handler k body e :: post) = some (some (k, e)) := by
    intro l
    induction l with
    | nil => intro _; simp only [List.nil_append, handlerFold]; exact hbr post _ hpost
    | cons x xs ih =>
      intro hl
      obtain ⟨b, rfl⟩ := hl x List.mem_cons_self
      simp only [List.cons_append, handlerFold]
      exact ih (fun y hy => hl y (List.mem_cons_of_mem _ hy))
  have hbs : ∀ (l : List SrcItem), branchesOf o (l ++ .handler k body e :: post) = branchesOf o l ++ branchesOf o post := by
    intro l
    induction l with
    | nil => simp [branchesOf]
    | cons x xs ih => cases x <;> simp [branchesOf, ih]
  rw [hfold pre hpre, hbs]
  simp

/-- **A second handler is rejected**, wherever the two stand and whatever kinds they are. -/
theorem second_handler_rejected (o : Oracle) (pre mid post : List SrcItem) (k₁ k₂ : HKind) (b₁ e₁ b₂ e₂ : Toks)
    (hpre : ∀ it ∈ pre, ∃ b, it = .branch b) (hmid : ∀ it ∈ mid, ∃ b, it = .branch b)
    (hok : ItemsOK o (pre ++ .handler k₁ b₁ e₁ :: (mid ++ .handler k₂ b₂ e₂ :: post))) (fuel : Nat)
    (hf : (pre ++ .handler k₁ b₁ e₁ :: (mid ++ .handler k₂ b₂ e₂ :: post)).length + 1 ≤ fuel) :
    parseItems o fuel (renderItems (pre ++ .handler k₁ b₁ e₁ :: (mid ++ .handler k₂ b₂ e₂ :: post))) [] none =
      .error .multipleHandlers := by
  rw [items_roundtrip_partial o _ [] none fuel hok hf]
  have h2 : ∀ (l : List SrcItem) (h0 : HKind × Toks), (∀ it ∈ l, ∃ b, it = .branch b) →
      handlerFold (some h0) (l ++ .handler k₂ b₂ e₂ :: post) = none := by
    intro l
    induction l with
    | nil => intro h0 _; rfl
    | cons x xs ih =>
      intro h0 hl
      obtain ⟨b, rfl⟩ := hl x List.mem_cons_self
      simp only [List.cons_append, handlerFold]
      exact ih h0 (fun y hy => hl y (List.mem_cons_of_mem _ hy))
  have h1 : ∀ (l : List SrcItem), (∀ it ∈ l, ∃ b, it = .branch b) →
      handlerFold none (l ++ .handler k₁ b₁ e₁ :: (mid ++ .handler k₂ b₂ e₂ :: post)) = none := by
    intro l
    induction l with
    | nil => intro _; simp only [List.nil_append, handlerFold]; exact h2 mid _ hmid
    | cons x xs ih =>
      intro hl
      obtain ⟨b, rfl⟩ := hl x List.mem_cons_self
      simp only [List.cons_append, handlerFold]
      exact ih (fun y hy => hl y (List.mem_cons_of_mem _ hy))
  rw [h1 pre hpre]

/-- the model on concrete inputs (an oracle that accepts single tokens as expressions and reads one token as the
    handler's expression): `a, then => h, b` has two branches and the handler; `then => h, a, map => g` is rejected -/
example :
    let o : Oracle := { validExpr := fun ts => ts.length == 1, validType := fun _ => false, isBlock := fun _ => false,
                        letSplit := fun _ => .notLet, reprintExpr := id, reprintType := id,
                        exprPrefix := fun ts => match ts with | t :: _ => some (1, [t]) | [] => none,
                        pathPrefix := fun _ => none, litBool := fun _ => none }
    let h (k : String) (f : String) : Toks := [.ident k, .punct '=' true, .punct '>' false, .ident f]
    let c : Toks := [.punct ',' false]
    ((parseMacroInput o ([.ident "a"] ++ c ++ h "then" "h" ++ c ++ [.ident "b"])).toOption.map
        (fun p => (p.branches.length, p.handler.map (·.2)))) = some (2, some [.ident "h"]) ∧
    (match parseMacroInput o (h "then" "h" ++ c ++ [.ident "a"] ++ c ++ h "map" "g") with
      | .error .multipleHandlers => true
      | _ => false) = true := by
  intro o h c
  exact ⟨rfl, rfl⟩

end ParserHalf

end JoinModel.Props.C13
