/-
  C04 — result positions: branch i's final value is element i.
-/
import JoinModel.Props.Common
namespace JoinModel.Props.C04
open JoinModel JoinModel.Props

theorem depth_le_max (sc : SpecCfg) (i : Nat) : sc.depth i ≤ sc.maxDepth := by
  simp only [SpecCfg.depth, SpecCfg.maxDepth]
  cases h : sc.chains[i]? with
  | none => simp
  | some ch =>
    simp only [Option.map_some, Option.getD_some]
    have hmem : ch.length ∈ sc.chains.map (·.length) := List.mem_map.mpr ⟨ch, List.mem_of_getElem? h, rfl⟩
    generalize sc.chains.map (·.length) = l at hmem
    -- `foldl max 0` bounds every element
    have : ∀ (l : List Nat) (a x : Nat), x ∈ l → x ≤ l.foldl max a := by
      intro l
      induction l with
      | nil => intro a x hx; simp at hx
      | cons y l ih =>
        intro a x hx
        simp only [List.foldl_cons]
        rcases List.mem_cons.mp hx with rfl | hx
        · have : ∀ (l : List Nat) (a : Nat), a ≤ l.foldl max a := by
            intro l
            induction l with
            | nil => intro a; exact Nat.le_refl _
            | cons z l ih2 => intro a; exact Nat.le_trans (Nat.le_max_left a z) (ih2 _)
          exact Nat.le_trans (Nat.le_max_right a x) (this l _)
        · exact ih _ x hx
    exact this l 0 _ hmem

/-- Non-try macros: element `i` of the result is the value that the chain of branch `i`'s own last step
    returned — whatever the number of branches and the depth profile. -/
theorem result_positions (σ : World) (parent : Option String) (p : Input) (kind : Kind)
    (hnt : kind.isTry = false) (vs : List Value) (h : (loopOf σ parent p kind).res = .ok (.vals vs))
    (i : Nat) (hi : i < p.branches.length) :
    ∃ v, vs[i]? = some v ∧
      (i, (cfgFor σ parent p kind).depth i - 1, v) ∈ chainEnds (loopOf σ parent p kind).trace := by
  have hn : (cfgFor σ parent p kind).n = p.branches.length := by simp [SpecCfg.n, cfgFor]
  have hpos : 0 < (cfgFor σ parent p kind).depth i := by
    simp only [SpecCfg.depth, cfgFor, List.getElem?_map, List.getElem?_eq_getElem hi, Option.map_some, Option.getD_some]
    exact List.length_pos_iff.mpr (splitSteps_ne_nil _)
  have := specLoop_positions (cfgFor σ parent p kind) hnt _ 0 _ (by simp [SpecCfg.n])
    (fun j => by have := depth_le_max (cfgFor σ parent p kind) j; omega) vs h i (hn ▸ hi)
  exact this.2 hpos

/-- One step of the loop only touches the positions of the branches active in it: a branch that has finished
    keeps its value untouched until the end. -/
theorem finished_branch_untouched (vals : List (Option Value)) (act : List Nat) (news : List Value) (i : Nat)
    (hi : i ∉ act) : (updVals vals act news)[i]? = vals[i]? := updVals_not_mem vals act news i hi

/-- …and sets the position of an active branch to what that branch's own chain returned. -/
theorem active_branch_gets_own_result (vals : List (Option Value)) (act : List Nat) (news : List Value)
    (hl : act.length = news.length) (hnd : act.Nodup) (pos : Nat) (hpos : pos < act.length)
    (hb : act[pos] < vals.length) :
    (updVals vals act news)[act[pos]]? = some (some (news[pos]'(hl ▸ hpos))) :=
  updVals_mem vals act news hl hnd pos hpos hb

/-- The handler receives the values in the same order as the result lists them: both are built from the very
    same list. -/
theorem handler_same_order (sc : SpecCfg) (vs : List Value) (hnt : sc.kind.isTry = false) :
    specHandle sc none (.vals vs) = M.ret (mkTuple vs) ∧
    specHandle sc (some .then_) (.vals vs) =
      ((M.tell [.ev (.handlerCall vs)]).andThen fun _ => M.lift (sc.σ.handlerCall vs).toRes) := by
  simp [specHandle, hnt]

/-- a single branch yields its bare value -/
theorem single_branch_bare (v : Value) : mkTuple [v] = v := rfl

/-- **From the tokens to the result tuple** (non-try macros, no handler): whatever token list the parser accepts — any
    behaviour of syn —, if the code expanded from it returns at all, it returns the tuple whose element `i` is the value
    branch `i`'s own last chain returned; one element per branch written, in the order written. -/
theorem accepted_result_positions (o : Oracle) (toks : Toks) (σ : World) (parent : Option String) (p : Input)
    (kind : Kind) (code : Code) (hparse : parseMacroInput o toks = .ok p) (hd : PlainInvocation p kind)
    (hgen : gen p kind = .ok code) (hnt : kind.isTry = false) (hh : p.handler = none) (r : Value)
    (hr : (evalCode σ parent code).res = .ok r) :
    ∃ vs, r = mkTuple vs ∧ ∀ i, i < p.branches.length → ∃ v, vs[i]? = some v ∧
      (i, (cfgFor σ parent p kind).depth i - 1, v) ∈ chainEnds (evalCode σ parent code).trace := by
  rw [accepted_eq_reference o toks σ parent p kind code hparse hd hgen] at hr ⊢
  obtain ⟨ht, hres⟩ := run_trace_no_handler σ parent p kind hh
  rw [ht]
  rw [hres] at hr
  obtain ⟨f, hf, hr⟩ := M.andThen_res_ok hr
  cases f with
  | vals vs =>
    have hk : (cfgFor σ parent p kind).kind.isTry = false := hnt
    simp [specHandle, hk, M.ret] at hr
    exact ⟨vs, hr.symm, fun i hi => result_positions σ parent p kind hnt vs hf i hi⟩
  | failed v =>
    have := specLoop_post (cfgFor σ parent p kind) ((cfgFor σ parent p kind).maxDepth - 1) 0
      (List.replicate (cfgFor σ parent p kind).n none) (.failed v) hf
    exact absurd this.2 (by simp [cfgFor, hnt])

/-- Non-vacuity of `result_positions`: depths (1, 3, 2), every chain returns a value that names its branch and step;
    the run ends with the three values in branch order, each taken from the branch's own last step. -/
def posWorld : World where
  capture _ _ _ _ _ := .ok (.atom 0)
  chain b k _ _ _ := ⟨[], .ok (.succ (.atom (b + 10 * k)))⟩
  handlerDef := .ok ()
  handlerCall _ := .ok (.atom 0)
  joiner _ vs := .ok (mkTuple vs)

def posProg : Input :=
  let ini : Member := ⟨.initial, false, .none, [⟨.expr, []⟩]⟩
  let stp : Member := ⟨.map, true, .none, [⟨.expr, []⟩]⟩
  { branches := [⟨none, [ini]⟩, ⟨none, [ini, stp, stp]⟩, ⟨none, [ini, stp]⟩] }

example : (loopOf posWorld none posProg ⟨false, false, false⟩).res = .ok (.vals [.succ (.atom 0), .succ (.atom 21), .succ (.atom 12)]) := by rfl
example : (loopOf posWorld none posProg ⟨false, false, true⟩).res = .ok (.vals [.succ (.atom 0), .succ (.atom 21), .succ (.atom 12)]) := by rfl

/-- Non-vacuity of the `accepted_*` theorems: with an oracle that takes single tokens for expressions, the token list
    `a |> f , b` is accepted, the parsed program is a plain invocation of `join!`, and the generator produces code. -/
example :
    let o : Oracle := { validExpr := fun ts => ts.length == 1, validType := fun _ => false, isBlock := fun _ => false,
                        letSplit := fun _ => .notLet, reprintExpr := id, reprintType := id, exprPrefix := fun _ => none,
                        pathPrefix := fun _ => none, litBool := fun _ => none }
    let toks : Toks := [.ident "a", .punct '|' true, .punct '>' false, .ident "f", .punct ',' false, .ident "b"]
    ∃ p, parseMacroInput o toks = .ok p ∧ p.branches.length = 2 ∧ PlainInvocation p ⟨false, false, false⟩ ∧
      (gen p ⟨false, false, false⟩).toOption.isSome = true := by
  intro o toks
  refine ⟨_, rfl, rfl, ⟨rfl, rfl, by decide, by decide, by decide⟩, rfl⟩

end JoinModel.Props.C04
