/-
  C03 — step barrier: `~` actions wait for every branch of the previous step.
  Part 1 (this file): program order on the calling thread and data flow, for the sequential and
  thread-spawning macros.  Part 2 (Props/C08.lean, `Lin`): every interleaving of the branch threads.
-/
import JoinModel.Props.Common
namespace JoinModel.Props.C03
open JoinModel JoinModel.Props

/-- On the calling thread the events of a run are sorted by (step, captures before chains): nothing that belongs
    to step k+1 — operand, callback, block capture, fork — comes before anything of step k.  A forked branch
    thread is one event here; its body is ordered by `Lin` (C08). -/
theorem steps_in_program_order (σ : World) (parent : Option String) (p : Input) (kind : Kind) :
    (keysOf (loopOf σ parent p kind).trace).Pairwise (· ≤ ·) :=
  specLoop_sorted _ _ _ _

/-- Every event of the loop belongs to one of the steps `0 … maxDepth-1`. -/
theorem events_have_steps (σ : World) (parent : Option String) (p : Input) (kind : Kind) :
    ∀ e ∈ (loopOf σ parent p kind).trace, ∃ s, e.step = some s ∧ s ≤ (cfgFor σ parent p kind).maxDepth - 1 := by
  intro e he
  obtain ⟨s, h1, _, h3⟩ := specLoop_step_ge _ _ _ _ e he
  exact ⟨s, h1, by omega⟩

/-- Step k+1 of a branch continues from that branch's own step-k value: the value handed to chain (b, k) is the
    current value of branch b … -/
theorem chain_input_is_own_value (sc : SpecCfg) (vals : List (Option Value)) (b k : Nat)
    (h : usesPrev (sc.acts b k) = true) : specPrev sc vals b k = (vals[b]?).join := by
  simp [specPrev, h]

/-- … and the current value of branch b after a step in which it was active is what its own chain returned
    (`updVals`, see also C04). -/
theorem own_value_after_step (vals : List (Option Value)) (act : List Nat) (news : List Value)
    (hl : act.length = news.length) (hnd : act.Nodup) (pos : Nat) (hpos : pos < act.length)
    (hb : act[pos] < vals.length) :
    ((updVals vals act news)[act[pos]]?).join = some (news[pos]'(hl ▸ hpos)) := by
  rw [updVals_mem vals act news hl hnd pos hpos hb]; rfl

/-- The same order holds for the code the macro expands to. -/
theorem generated_steps_in_program_order (σ : World) (parent : Option String) (p : Input) (kind : Kind) (code : Code)
    (hs : Supported p kind) (hgen : gen p kind = .ok code) (hh : p.handler = none) :
    (keysOf (evalCode σ parent code).trace).Pairwise (· ≤ ·) := by
  rw [generated_eq_reference σ parent p kind code hs hgen, (run_trace_no_handler σ parent p kind hh).1]
  exact steps_in_program_order σ parent p kind

end JoinModel.Props.C03
