/-
  Every schedule of a whole run.  `Lemmas/Lin.lean` has the barrier for one step (fork all, join all, continue); here
  it is applied step after step to the trace of the reference loop: in *every* global order of events (`Lin`) of a
  thread-spawning (or sequential) macro run, step numbers never decrease — no event of step k+1 before the last event
  of step k, whichever way the threads of a step are interleaved, and also when a thread panics.
-/
import JoinModel.Lemmas.Lin
import JoinModel.Lemmas.OrderFacts
namespace JoinModel

/-- step numbers of a global order -/
def tsteps (t : List TEv) : List Nat := t.filterMap fun e => e.ev.step

def AllEv (m : List MEv) : Prop := ∀ x ∈ m, ∃ e, x = .ev e

def mainTEvs (m : List MEv) : List TEv := m.filterMap fun x => match x with | .ev e => some ⟨none, e⟩ | _ => none

/-- with no thread running, events of the calling thread come out in program order -/
theorem Lin.main_prefix (a rest : List MEv) (t : List TEv) (ha : AllEv a) (h : Lin (a ++ rest) [] t) :
    ∃ t', t = mainTEvs a ++ t' ∧ Lin rest [] t' := by
  induction a generalizing t with
  | nil => exact ⟨t, rfl, h⟩
  | cons x a ih =>
    obtain ⟨e, rfl⟩ := ha x (by simp)
    have ha' : AllEv a := fun y hy => ha y (by simp [hy])
    generalize hm : (MEv.ev e :: a ++ rest) = m at h
    generalize hr : ([] : List (Tid × List Ev)) = run at h
    cases h with
    | done run => cases hm
    | mainEv e' rest' run t' h' =>
      simp only [List.cons_append, List.cons.injEq, MEv.ev.injEq] at hm
      obtain ⟨rfl, rfl⟩ := hm
      subst hr
      obtain ⟨t'', h1, h2⟩ := ih t' ha' h'
      exact ⟨t'', by simp [mainTEvs, h1], h2⟩
    | fork b k name body rest' run t' h' => cases hm
    | thr main r1 r2 tid e' es t' h' =>
      have := congrArg List.length hr
      simp at this
    | join b k rest' r1 r2 t' h' => cases hm

/-- whatever a schedule contains comes from the caller's events, from the body of a forked thread, or from a thread
    that was already running -/
theorem Lin.events (m : List MEv) (run : List (Tid × List Ev)) (t : List TEv) (h : Lin m run t) :
    ∀ e ∈ t, (MEv.ev e.ev ∈ m) ∨ (∃ b k n body, MEv.fork b k n body ∈ m ∧ e.ev ∈ body) ∨ (∃ r ∈ run, e.ev ∈ r.2) := by
  induction h with
  | done run => simp
  | mainEv e rest run t _ ih =>
    intro x hx
    rcases List.mem_cons.mp hx with rfl | hx
    · exact Or.inl (by simp)
    · rcases ih x hx with h | ⟨b, k, n, body, h1, h2⟩ | h
      · exact Or.inl (by simp [h])
      · exact Or.inr (Or.inl ⟨b, k, n, body, by simp [h1], h2⟩)
      · exact Or.inr (Or.inr h)
  | fork b k name body rest run t _ ih =>
    intro x hx
    rcases ih x hx with h | ⟨b', k', n, body', h1, h2⟩ | ⟨r, hr, h2⟩
    · exact Or.inl (by simp [h])
    · exact Or.inr (Or.inl ⟨b', k', n, body', by simp [h1], h2⟩)
    · rcases List.mem_append.mp hr with hr | hr
      · exact Or.inr (Or.inr ⟨r, hr, h2⟩)
      · simp only [List.mem_singleton] at hr
        subst hr
        exact Or.inr (Or.inl ⟨b, k, name, body, by simp, h2⟩)
  | thr main r1 r2 tid e es t _ ih =>
    intro x hx
    rcases List.mem_cons.mp hx with rfl | hx
    · exact Or.inr (Or.inr ⟨(tid, e :: es), by simp, by simp⟩)
    · rcases ih x hx with h | h | ⟨r, hr, h2⟩
      · exact Or.inl h
      · exact Or.inr (Or.inl h)
      · rcases List.mem_append.mp hr with hr | hr
        · exact Or.inr (Or.inr ⟨r, by simp [hr], h2⟩)
        · rcases List.mem_cons.mp hr with rfl | hr
          · exact Or.inr (Or.inr ⟨(tid, e :: es), by simp, by simp at h2 ⊢; exact Or.inr h2⟩)
          · exact Or.inr (Or.inr ⟨r, by simp [hr], h2⟩)
  | join b k rest r1 r2 t _ ih =>
    intro x hx
    rcases ih x hx with h | ⟨b', k', n, body', h1, h2⟩ | ⟨r, hr, h2⟩
    · exact Or.inl (by simp [h])
    · exact Or.inr (Or.inl ⟨b', k', n, body', by simp [h1], h2⟩)
    · rcases List.mem_append.mp hr with hr | hr
      · exact Or.inr (Or.inr ⟨r, by simp [hr], h2⟩)
      · exact Or.inr (Or.inr ⟨r, by simp [hr], h2⟩)

theorem Shuffle.events (run : List (Tid × List Ev)) (t : List TEv) (h : Shuffle run t) :
    ∀ e ∈ t, ∃ r ∈ run, e.ev ∈ r.2 := by
  induction h with
  | done run _ => simp
  | step r1 r2 tid e es t _ ih =>
    intro x hx
    rcases List.mem_cons.mp hx with rfl | hx
    · exact ⟨(tid, e :: es), by simp, by simp⟩
    · obtain ⟨r, hr, h2⟩ := ih x hx
      rcases List.mem_append.mp hr with hr | hr
      · exact ⟨r, by simp [hr], h2⟩
      · rcases List.mem_cons.mp hr with rfl | hr
        · exact ⟨(tid, e :: es), by simp, by simp at h2 ⊢; exact Or.inr h2⟩
        · exact ⟨r, by simp [hr], h2⟩

/-! ### shape of a step of the reference loop -/

theorem specChainsSeq_allEv (sc : SpecCfg) (k : Nat) (vals : List (Option Value)) (vis : List (String × Value))
    (bcs : List (Nat × List Value)) : AllEv (specChainsSeq sc k vals vis bcs).trace := by
  induction bcs with
  | nil => intro x hx; simp [specChainsSeq, M.ret] at hx
  | cons bc bcs ih =>
    obtain ⟨b, caps⟩ := bc
    intro x hx
    simp only [specChainsSeq] at hx
    obtain ⟨rest, hrest⟩ := M.andThen_trace_prefix
      (⟨(chainEvents b k (sc.σ.chain b k (specPrev sc vals b k) caps vis)).map .ev,
        (sc.σ.chain b k (specPrev sc vals b k) caps vis).res.toRes⟩ : M Value)
      (fun v => (specChainsSeq sc k vals vis bcs).andThen fun vs => M.ret (v :: vs))
    cases hres : (sc.σ.chain b k (specPrev sc vals b k) caps vis).res with
    | panic n =>
      rw [M.andThen_trace_notok (by intro a; simp [hres, UR.toRes])] at hx
      obtain ⟨e, _, rfl⟩ := List.mem_map.mp hx
      exact ⟨e, rfl⟩
    | ok v =>
      rw [(M.andThen_trace_ok (a := v) (by simp [hres, UR.toRes])).1] at hx
      rcases List.mem_append.mp hx with hx | hx
      · obtain ⟨e, _, rfl⟩ := List.mem_map.mp hx
        exact ⟨e, rfl⟩
      · obtain ⟨rest2, hr2⟩ := M.andThen_trace_prefix (specChainsSeq sc k vals vis bcs) (fun vs => M.ret (v :: vs))
        cases hres2 : (specChainsSeq sc k vals vis bcs).res with
        | ok vs =>
          rw [(M.andThen_trace_ok hres2).1] at hx
          simp only [M.ret, List.append_nil] at hx
          exact ih x hx
        | panic s => rw [M.andThen_trace_notok (by intro a; rw [hres2]; simp)] at hx; exact ih x hx
        | stuck => rw [M.andThen_trace_notok (by intro a; rw [hres2]; simp)] at hx; exact ih x hx

theorem specCapsAll_allEv (sc : SpecCfg) (k : Nat) (vis : List (String × Value)) (bs : List Nat) :
    AllEv (specCapsAll sc k vis bs).trace := by
  intro x hx
  obtain ⟨b, _, ei, _, rfl⟩ := specCapsAll_trace sc k vis bs x hx
  exact ⟨_, rfl⟩

/-- the joins of a step: all of them when they succeed, otherwise up to the thread that panicked -/
theorem specJoins_trace (k : Nat) (outs : List (Nat × ChainOut)) :
    ∃ n, n ≤ outs.length ∧ (specJoins k outs).trace = joinsOf ((outs.take n).map fun bo => (bo.1, k)) ∧
      ((∃ a, (specJoins k outs).res = .ok a) → n = outs.length) := by
  induction outs with
  | nil => exact ⟨0, by simp, by simp [specJoins, M.ret, joinsOf], fun _ => rfl⟩
  | cons bo rest ih =>
    obtain ⟨b, o⟩ := bo
    obtain ⟨n, hn, htr, hok⟩ := ih
    simp only [specJoins, M.tell_andThen, M.pre]
    cases ho : o.res with
    | panic s =>
      refine ⟨1, by simp, by simp [M.lift, joinsOf], ?_⟩
      intro ⟨a, ha⟩
      simp [M.lift] at ha
    | ok v =>
      simp only
      cases hres : (specJoins k rest).res with
      | ok vs =>
        refine ⟨n + 1, by simp; omega, ?_, fun _ => by simp [hok ⟨vs, hres⟩]⟩
        rw [(M.andThen_trace_ok (f := fun vs => M.ret (v :: vs)) hres).1]
        simp [M.ret, htr, joinsOf]
      | panic s =>
        refine ⟨n + 1, by simp; omega, ?_, ?_⟩
        · rw [M.andThen_trace_notok (by intro a; rw [hres]; simp)]
          simp [htr, joinsOf]
        · intro ⟨a, ha⟩
          have := M.andThen_res_ok ha
          obtain ⟨x, hx, _⟩ := this
          rw [hres] at hx; cases hx
      | stuck =>
        refine ⟨n + 1, by simp; omega, ?_, ?_⟩
        · rw [M.andThen_trace_notok (by intro a; rw [hres]; simp)]
          simp [htr, joinsOf]
        · intro ⟨a, ha⟩
          have := M.andThen_res_ok ha
          obtain ⟨x, hx, _⟩ := this
          rw [hres] at hx; cases hx

/-- the forks of a step as `forksOf` -/
def stepForks (sc : SpecCfg) (k : Nat) (outs : List (Nat × ChainOut)) : List (Tid × String × List Ev) :=
  outs.map fun bo => ((bo.1, k), threadName sc.parent bo.1, chainEvents bo.1 k bo.2)

theorem stepForks_bodies_step (sc : SpecCfg) (k : Nat) (outs : List (Nat × ChainOut)) :
    ∀ r ∈ asRun (stepForks sc k outs), ∀ e ∈ r.2, e.step = some k := by
  intro r hr e he
  simp only [asRun, stepForks, List.map_map, List.mem_map, Function.comp] at hr
  obtain ⟨bo, _, rfl⟩ := hr
  exact chainEvents_step bo.1 k bo.2 e he

theorem tsteps_append (a b : List TEv) : tsteps (a ++ b) = tsteps a ++ tsteps b := by simp [tsteps]

theorem tsteps_const {t : List TEv} {k : Nat} (h : ∀ e ∈ t, e.ev.step = some k) : ∀ x ∈ tsteps t, x = k := by
  intro x hx
  simp only [tsteps, List.mem_filterMap] at hx
  obtain ⟨e, he, hs⟩ := hx
  rw [h e he] at hs
  exact (Option.some.inj hs).symm

theorem tsteps_mainTEvs (m : List MEv) (k : Nat) (h : ∀ x ∈ m, x.step = some k) : ∀ e ∈ mainTEvs m, e.ev.step = some k := by
  intro e he
  simp only [mainTEvs, List.mem_filterMap] at he
  obtain ⟨x, hx, hxe⟩ := he
  cases x with
  | ev e' =>
    simp only [Option.some.injEq] at hxe
    subst hxe
    exact h _ hx
  | fork _ _ _ _ => cases hxe
  | join _ _ => cases hxe

/-- the chains of a step, as a trace: events of the caller, or forks followed by (a prefix of) their joins -/
theorem specChains_shape (sc : SpecCfg) (k : Nat) (vals : List (Option Value)) (vis : List (String × Value))
    (act : List Nat) (caps : List (List Value)) :
    AllEv (specChains sc k vals vis act caps).trace ∨
    ∃ outs n, n ≤ outs.length ∧ ((outs.map Prod.fst).Nodup ↔ ((act.zip caps).map Prod.fst).Nodup) ∧
      (specChains sc k vals vis act caps).trace =
        forksOf (stepForks sc k outs) ++ joinsOf ((outs.take n).map fun bo => (bo.1, k)) ∧
      ((∃ a, (specChains sc k vals vis act caps).res = .ok a) → n = outs.length) := by
  unfold specChains
  split
  · right
    obtain ⟨n, hn, htr, hok⟩ := specJoins_trace k (forkOuts sc k vals vis (act.zip caps))
    refine ⟨forkOuts sc k vals vis (act.zip caps), n, hn, ?_, ?_, ?_⟩
    · simp [forkOuts, List.map_map, Function.comp_def]
    · simp only [specChainsFork, M.tell_andThen, M.pre]
      simp only [forkOuts] at htr ⊢
      rw [htr]
      simp [forksOf, stepForks, List.map_map, Function.comp_def]
    · intro ⟨a, ha⟩
      apply hok
      simp only [specChainsFork] at ha
      obtain ⟨_, _, h⟩ := M.andThen_res_ok ha
      exact ⟨a, h⟩
  · exact Or.inl (specChainsSeq_allEv sc k vals vis _)

theorem ev_not_mem_joinsOf (e : Ev) (js : List Tid) : MEv.ev e ∉ joinsOf js := by
  intro h
  simp only [joinsOf, List.mem_map] at h
  obtain ⟨j, _, hj⟩ := h
  cases hj

theorem fork_not_mem_joinsOf (b k : Nat) (n : String) (body : List Ev) (js : List Tid) : MEv.fork b k n body ∉ joinsOf js := by
  intro h
  simp only [joinsOf, List.mem_map] at h
  obtain ⟨j, _, hj⟩ := h
  cases hj

theorem ev_not_mem_forksOf (e : Ev) (fs : List (Tid × String × List Ev)) : MEv.ev e ∉ forksOf fs := by
  intro h
  simp only [forksOf, List.mem_map] at h
  obtain ⟨j, _, hj⟩ := h
  cases hj

theorem nodup_map_pairk (k : Nat) (l : List Nat) (h : l.Nodup) : (l.map fun b => (b, k)).Nodup := by
  induction l with
  | nil => simp
  | cons a l ih =>
    have h' := List.nodup_cons.mp h
    simp only [List.map_cons, List.nodup_cons, List.mem_map, Prod.mk.injEq, not_exists, not_and]
    refine ⟨fun x hx hxa _ => h'.1 (hxa ▸ hx), ih h'.2⟩

theorem Lin.nil_nil (t : List TEv) (h : Lin [] [] t) : t = [] := by
  generalize hm : ([] : List MEv) = m at h
  generalize hr : ([] : List (Tid × List Ev)) = run at h
  cases h with
  | done run => rfl
  | mainEv e rest run t' _ => cases hm
  | fork b k name body rest run t' _ => cases hm
  | thr main r1 r2 tid e es t' _ =>
    have := congrArg List.length hr
    simp at this
  | join b k rest r1 r2 t' _ => cases hm

/-- one step of the loop followed by whatever comes after it (`tl`), under every schedule -/
theorem step_every_schedule (sc : SpecCfg) (k : Nat) (vals : List (Option Value)) (act : List Nat) (hnd : act.Nodup)
    (tl : List MEv) (htl : ∀ t2, Lin tl [] t2 → (tsteps t2).Pairwise (· ≤ ·) ∧ ∀ x ∈ tsteps t2, k ≤ x)
    (t : List TEv) :
    let capsM := specCapsAll sc k (visibleSpec sc.names vals) act
    (Lin capsM.trace [] t → (tsteps t).Pairwise (· ≤ ·) ∧ ∀ x ∈ tsteps t, k ≤ x) ∧
    (∀ caps, capsM.res = .ok caps →
      let chM := specChains sc k vals (visibleSpec sc.names vals) act caps
      (Lin (capsM.trace ++ chM.trace) [] t → (tsteps t).Pairwise (· ≤ ·) ∧ ∀ x ∈ tsteps t, k ≤ x) ∧
      ((∃ a, chM.res = .ok a) → Lin (capsM.trace ++ chM.trace ++ tl) [] t →
        (tsteps t).Pairwise (· ≤ ·) ∧ ∀ x ∈ tsteps t, k ≤ x)) := by
  intro capsM
  have hAev : AllEv capsM.trace := specCapsAll_allEv sc k _ act
  have hAst : ∀ x ∈ capsM.trace, x.step = some k := fun x hx => (specCapsAll_step sc k _ act x hx).1
  have hconst : ∀ (tt : List TEv), (∀ e ∈ tt, e.ev.step = some k) →
      (tsteps tt).Pairwise (· ≤ ·) ∧ ∀ x ∈ tsteps tt, k ≤ x := by
    intro tt h
    have := tsteps_const h
    exact ⟨pairwise_le_const this, fun x hx => by rw [this x hx]; exact Nat.le_refl _⟩
  have hglue : ∀ (front back : List TEv), (∀ e ∈ front, e.ev.step = some k) →
      ((tsteps back).Pairwise (· ≤ ·) ∧ ∀ x ∈ tsteps back, k ≤ x) →
      (tsteps (front ++ back)).Pairwise (· ≤ ·) ∧ ∀ x ∈ tsteps (front ++ back), k ≤ x := by
    intro front back hf hb
    have hfc := tsteps_const hf
    rw [tsteps_append]
    refine ⟨pairwise_le_append (pairwise_le_const hfc) hb.1 (fun x hx y hy => by rw [hfc x hx]; exact hb.2 y hy), ?_⟩
    intro x hx
    rcases List.mem_append.mp hx with hx | hx
    · rw [hfc x hx]; exact Nat.le_refl _
    · exact hb.2 x hx
  refine ⟨?_, ?_⟩
  · intro h
    have h' : Lin (capsM.trace ++ []) [] t := by simpa using h
    obtain ⟨t', rfl, h2⟩ := Lin.main_prefix _ _ _ hAev h'
    rw [Lin.nil_nil _ h2, List.append_nil]
    exact hconst _ (tsteps_mainTEvs _ k hAst)
  · intro caps hcaps chM
    have hCst : ∀ x ∈ chM.trace, x.step = some k := fun x hx => (specChains_step sc k vals _ act caps x hx).1
    obtain ⟨hl, -⟩ := specCapsAll_length _ _ _ _ _ hcaps
    rcases specChains_shape sc k vals (visibleSpec sc.names vals) act caps with hCev | ⟨outs, n, hn, hndO, hshape, hok⟩
    · -- the chains run on the calling thread
      have hACev : AllEv (capsM.trace ++ chM.trace) := by
        intro x hx
        rcases List.mem_append.mp hx with hx | hx
        · exact hAev x hx
        · exact hCev x hx
      have hACst : ∀ x ∈ capsM.trace ++ chM.trace, x.step = some k := by
        intro x hx
        rcases List.mem_append.mp hx with hx | hx
        · exact hAst x hx
        · exact hCst x hx
      refine ⟨?_, ?_⟩
      · intro h
        have h' : Lin ((capsM.trace ++ chM.trace) ++ []) [] t := by simpa using h
        obtain ⟨t', rfl, h2⟩ := Lin.main_prefix _ _ _ hACev h'
        rw [Lin.nil_nil _ h2, List.append_nil]
        exact hconst _ (tsteps_mainTEvs _ k hACst)
      · intro _ h
        obtain ⟨t', rfl, h2⟩ := Lin.main_prefix _ _ _ hACev h
        exact hglue _ _ (tsteps_mainTEvs _ k hACst) (htl t' h2)
    · -- the chains run on threads of their own
      have hbodies := stepForks_bodies_step sc k outs
      refine ⟨?_, ?_⟩
      · intro h
        rw [hshape] at h
        obtain ⟨t', rfl, h2⟩ := Lin.main_prefix _ _ _ hAev h
        apply hglue _ _ (tsteps_mainTEvs _ k hAst)
        apply hconst
        intro e he
        rcases Lin.events _ _ _ h2 e he with hm | ⟨b, k', nm, body, hm, hb⟩ | ⟨r, hr, _⟩
        · -- no caller event among forks and joins
          rcases List.mem_append.mp hm with hm | hm
          · exact absurd hm (ev_not_mem_forksOf _ _)
          · exact absurd hm (ev_not_mem_joinsOf _ _)
        · rcases List.mem_append.mp hm with hm | hm
          · simp only [forksOf, List.mem_map] at hm
            obtain ⟨f, hf, hfe⟩ := hm
            simp only [MEv.fork.injEq] at hfe
            obtain ⟨_, _, _, rfl⟩ := hfe
            exact hbodies (f.1, f.2.2) (by simp only [asRun, List.mem_map]; exact ⟨f, hf, rfl⟩) e.ev hb
          · exact absurd hm (fork_not_mem_joinsOf _ _ _ _ _)
        · cases hr
      · intro hokC h
        have hnall := hok hokC
        subst hnall
        rw [hshape] at h
        have hj : joinsOf ((outs.take outs.length).map fun bo => (bo.1, k)) =
            joinsOf ((asRun (stepForks sc k outs)).map Prod.fst) := by
          simp [asRun, stepForks, List.map_map, Function.comp_def]
        rw [hj] at h
        rw [List.append_assoc] at h
        obtain ⟨t', rfl, h2⟩ := Lin.main_prefix _ _ _ hAev h
        have hndT : ((asRun (stepForks sc k outs)).map Prod.fst).Nodup := by
          have : (asRun (stepForks sc k outs)).map Prod.fst = (outs.map Prod.fst).map fun b => (b, k) := by
            simp [asRun, stepForks, List.map_map, Function.comp_def]
          rw [this]
          have hon : (outs.map Prod.fst).Nodup := by
            rw [hndO, List.map_fst_zip (by omega)]
            exact hnd
          exact nodup_map_pairk k _ hon
        obtain ⟨t1, t2, rfl, hsh, hlin⟩ := barrier (stepForks sc k outs) tl t' hndT (by simpa [List.append_assoc] using h2)
        apply hglue _ _ (tsteps_mainTEvs _ k hAst)
        apply hglue _ _ _ (htl t2 hlin)
        intro e he
        obtain ⟨r, hr, hb⟩ := Shuffle.events _ _ hsh e he
        exact hbodies r hr e.ev hb

/-- **Every schedule of a whole run.**  Whatever global order `t` the events of the step loop take — the caller's
    events in program order, the threads of a step interleaved arbitrarily, a join only after its thread has finished —
    step numbers never decrease along `t` and none is below the step the loop started at.  Holds for every kind of
    macro, every program and world, also when a chain or a capture panics. -/
theorem loop_every_schedule (sc : SpecCfg) (hnd : ∀ k, (sc.active k).Nodup) (rem k : Nat) (vals : List (Option Value))
    (t : List TEv) (h : Lin (specLoop sc rem k vals).trace [] t) :
    (tsteps t).Pairwise (· ≤ ·) ∧ ∀ x ∈ tsteps t, k ≤ x := by
  induction rem generalizing k vals t with
  | zero =>
    obtain ⟨hA, hB⟩ := specLoop_cases sc 0 k vals
    have hstep := step_every_schedule sc k vals (sc.active k) (hnd k) []
      (fun t2 h2 => by rw [Lin.nil_nil _ h2]; simp [tsteps]) t
    cases hc : (specCapsAll sc k (visibleSpec sc.names vals) (sc.active k)).res with
    | ok caps =>
      obtain ⟨hB1, hB2⟩ := hB caps hc
      obtain ⟨hS1, hS2⟩ := hstep.2 caps hc
      cases hn : (specChains sc k vals (visibleSpec sc.names vals) (sc.active k) caps).res with
      | ok news =>
        rw [(hB2 news hn).1] at h
        have htail : (specTail sc 0 k vals news).trace = [] := by
          simp only [specTail]
          cases allSome (updVals vals (sc.active k) news) with
          | none => rfl
          | some finals =>
            simp only
            split
            · split <;> rfl
            · rfl
        rw [htail] at h
        exact hS2 ⟨news, hn⟩ h
      | panic s =>
        rw [(hB1 (by intro a; rw [hn]; simp)).1] at h
        exact hS1 h
      | stuck =>
        rw [(hB1 (by intro a; rw [hn]; simp)).1] at h
        exact hS1 h
    | panic s =>
      rw [(hA (by intro a; rw [hc]; simp)).1] at h
      exact hstep.1 h
    | stuck =>
      rw [(hA (by intro a; rw [hc]; simp)).1] at h
      exact hstep.1 h
  | succ rem ih =>
    obtain ⟨hA, hB⟩ := specLoop_cases sc (rem + 1) k vals
    cases hc : (specCapsAll sc k (visibleSpec sc.names vals) (sc.active k)).res with
    | ok caps =>
      obtain ⟨hB1, hB2⟩ := hB caps hc
      cases hn : (specChains sc k vals (visibleSpec sc.names vals) (sc.active k) caps).res with
      | ok news =>
        rw [(hB2 news hn).1] at h
        have htl : ∀ t2, Lin (specTail sc (rem + 1) k vals news).trace [] t2 →
            (tsteps t2).Pairwise (· ≤ ·) ∧ ∀ x ∈ tsteps t2, k ≤ x := by
          intro t2 h2
          simp only [specTail] at h2
          split at h2
          · split at h2
            · have h2' : Lin [] [] t2 := by simpa [M.ret] using h2
              rw [Lin.nil_nil t2 h2']; simp [tsteps]
            · obtain ⟨i1, i2⟩ := ih _ _ _ h2
              exact ⟨i1, fun x hx => by have := i2 x hx; omega⟩
          · obtain ⟨i1, i2⟩ := ih _ _ _ h2
            exact ⟨i1, fun x hx => by have := i2 x hx; omega⟩
        have hstep := step_every_schedule sc k vals (sc.active k) (hnd k) _ htl t
        exact (hstep.2 caps hc).2 ⟨news, hn⟩ h
      | panic s =>
        rw [(hB1 (by intro a; rw [hn]; simp)).1] at h
        exact ((step_every_schedule sc k vals (sc.active k) (hnd k) [] (fun t2 h2 => by rw [Lin.nil_nil _ h2]; simp [tsteps]) t).2 caps hc).1 h
      | stuck =>
        rw [(hB1 (by intro a; rw [hn]; simp)).1] at h
        exact ((step_every_schedule sc k vals (sc.active k) (hnd k) [] (fun t2 h2 => by rw [Lin.nil_nil _ h2]; simp [tsteps]) t).2 caps hc).1 h
    | panic s =>
      rw [(hA (by intro a; rw [hc]; simp)).1] at h
      exact (step_every_schedule sc k vals (sc.active k) (hnd k) [] (fun t2 h2 => by rw [Lin.nil_nil _ h2]; simp [tsteps]) t).1 h
    | stuck =>
      rw [(hA (by intro a; rw [hc]; simp)).1] at h
      exact (step_every_schedule sc k vals (sc.active k) (hnd k) [] (fun t2 h2 => by rw [Lin.nil_nil _ h2]; simp [tsteps]) t).1 h

end JoinModel
