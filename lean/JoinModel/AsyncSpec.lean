/-
  The poll-level plan of an async macro invocation, built from the parsed program (the reference side of C09), and its
  agreement with the sequential reference semantics under the canonical schedule.

      planLoop  ──canon──▶  specLoop          (this file: `planLoop_canon`)
      evalCode (gen p)  =  specRun p           (`sync_refines`, async non-try kinds included)
      Plan.run (any schedule ++ all open)  ≈  Plan.canon     (`Plan.run_complete`)

  An async world is a `World` plus, for every chain, where its pending points are (`pend`): after how many of its
  events the chain awaits something that becomes ready only when a gate is opened.
-/
import JoinModel.Async
import JoinModel.Spec
import JoinModel.Lemmas.SpecFacts
namespace JoinModel

/-- cut an event list into segments: `(n, g)` = after `n` more events there is a pending point on gate `g` -/
def segmentBy : List (Nat × Nat) → Option Nat → List ε → List (Seg ε)
  | [], g, evs => [⟨g, evs⟩]
  | (n, g') :: cs, g, evs => ⟨g, evs.take n⟩ :: segmentBy cs (some g') (evs.drop n)

theorem segmentBy_flat (cs : List (Nat × Nat)) (g : Option Nat) (evs : List ε) :
    (segmentBy cs g evs).flatMap (·.evs) = evs := by
  induction cs generalizing g evs with
  | nil => simp [segmentBy]
  | cons c cs ih =>
    obtain ⟨n, g'⟩ := c
    simp [segmentBy, ih]

/-- pending points of the chain of branch `b` in step `k` (may depend on what the chain is applied to) -/
abbrev Pend := (b k : Nat) → Option Value → List Value → List (String × Value) → List (Nat × Nat)

def isPanicUR : UR Value → Bool
  | .panic _ => true
  | .ok _ => false

def urVals : List (UR Value) → List Value
  | [] => []
  | .ok v :: r => v :: urVals r
  | .panic _ :: r => urVals r

/-- the future of chain `(b, k)` -/
def taskOf (c : SpecCfg) (pend : Pend) (k : Nat) (vals : List (Option Value)) (vis : List (String × Value))
    (bc : Nat × List Value) : Task MEv (UR Value) :=
  let o := c.σ.chain bc.1 k (specPrev c vals bc.1 k) bc.2 vis
  ⟨segmentBy (pend bc.1 k (specPrev c vals bc.1 k) bc.2 vis) none ((chainEvents bc.1 k o).map .ev), o.res⟩

def finishVals (c : SpecCfg) (vals' : List (Option Value)) : Res Fin :=
  match allSome vals' with
  | none => .stuck
  | some finals => .ok (.vals (if c.kind.isTry then finals.filterMap payload? else finals))

def isFailUR : UR Value → Bool
  | .ok v => !v.isSucc
  | .panic _ => false

/-- when a step's `join!`/`try_join!` returns early: an operand panicked, or (`try_join!`) finished with a failure -/
def stopOf (c : SpecCfg) (o : UR Value) : Bool := isPanicUR o || (c.kind.isTry && isFailUR o)

def onStopOf (o : UR Value) : Res Fin :=
  match o with
  | .panic n => .panic (.user n)
  | .ok v => .ok (.failed v)

/-- The `async move` block of a non-try async macro as a plan, from step `k` on: the events of the step's block
    captures (emitted when the step is entered) and the rest of the plan. -/
def planLoop (c : SpecCfg) (pend : Pend) : (rem : Nat) → (k : Nat) → List (Option Value) →
    List MEv × Plan MEv (UR Value) (Res Fin)
  | rem, k, vals =>
    let act := c.active k
    let vis := visibleSpec c.names vals
    let caps := specCapsAll c k vis act
    match caps.res with
    | .panic s => (caps.trace, .done (.panic s))
    | .stuck => (caps.trace, .done .stuck)
    | .ok capss =>
      let tasks := (act.zip capss).map (taskOf c pend k vals vis)
      match rem with
      | 0 => (caps.trace, .step (stopOf c) onStopOf tasks (fun _ => [])
                (fun outs => .done (finishVals c (updVals vals act (urVals outs)))))
      | rem' + 1 =>
        (caps.trace, .step (stopOf c) onStopOf tasks
          (fun outs => (planLoop c pend rem' (k + 1) (updVals vals act (urVals outs))).1)
          (fun outs => (planLoop c pend rem' (k + 1) (updVals vals act (urVals outs))).2))

/-! ### canonical run of the plan = the sequential reference loop -/

theorem taskOf_allEvs (c : SpecCfg) (pend : Pend) (k : Nat) (vals : List (Option Value)) (vis : List (String × Value))
    (bc : Nat × List Value) :
    (taskOf c pend k vals vis bc).allEvs =
      (chainEvents bc.1 k (c.σ.chain bc.1 k (specPrev c vals bc.1 k) bc.2 vis)).map .ev := by
  simp [taskOf, Task.allEvs, segmentBy_flat]

/-- the operands of a step, run to their ends in order up to the first panic, are `specChainsSeq` -/
theorem firstStop_chains (c : SpecCfg) (pend : Pend) (k : Nat) (vals : List (Option Value)) (vis : List (String × Value))
    (bcs : List (Nat × List Value)) :
    (firstStop isPanicUR (bcs.map (taskOf c pend k vals vis))).1 = (specChainsSeq c k vals vis bcs).trace ∧
    (match (firstStop isPanicUR (bcs.map (taskOf c pend k vals vis))).2 with
      | some (.panic n) => (specChainsSeq c k vals vis bcs).res = .panic (.user n)
      | some (.ok _) => False
      | none => (specChainsSeq c k vals vis bcs).res = .ok (urVals ((bcs.map (taskOf c pend k vals vis)).map (·.out)))) := by
  induction bcs with
  | nil => exact ⟨rfl, rfl⟩
  | cons bc bcs ih =>
    obtain ⟨b, caps⟩ := bc
    obtain ⟨ih1, ih2⟩ := ih
    have hev := taskOf_allEvs c pend k vals vis (b, caps)
    simp only at hev
    cases hres : (c.σ.chain b k (specPrev c vals b k) caps vis).res with
    | panic n =>
      have hout : (taskOf c pend k vals vis (b, caps)).out = .panic n := by simp [taskOf, hres]
      simp [List.map_cons, firstStop, hout, isPanicUR, specChainsSeq, M.andThen, hres, UR.toRes, hev]
    | ok v =>
      have hout : (taskOf c pend k vals vis (b, caps)).out = .ok v := by simp [taskOf, hres]
      simp only [List.map_cons, firstStop, hout, isPanicUR, Bool.false_eq_true, if_false, specChainsSeq, M.andThen, hres,
        UR.toRes, hev, ih1]
      refine ⟨by cases (specChainsSeq c k vals vis bcs).res <;> simp [M.ret], ?_⟩
      cases hfs : (firstStop isPanicUR (bcs.map (taskOf c pend k vals vis))).2 with
      | some o =>
        rw [hfs] at ih2
        cases o with
        | panic n => simp only at ih2 ⊢; rw [ih2]
        | ok _ => exact ih2
      | none =>
        rw [hfs] at ih2
        simp only at ih2 ⊢
        rw [ih2]
        simp [M.ret, urVals, hout]

/-- **Canonical schedule = sequential reference.**  For the non-try async macros (no OS threads, no `try` exit) the
    plan's canonical run — every gate open — produces exactly the events and the outcome of the reference step loop. -/
theorem planLoop_canon (c : SpecCfg) (pend : Pend) (hth : c.kind.threads = false) (htry : c.kind.isTry = false)
    (rem k : Nat) (vals : List (Option Value)) :
    (planLoop c pend rem k vals).1 ++ (planLoop c pend rem k vals).2.canon.1 = (specLoop c rem k vals).trace ∧
    (planLoop c pend rem k vals).2.canon.2 = (specLoop c rem k vals).res := by
  have hstop : stopOf c = isPanicUR := by funext o; simp [stopOf, htry]
  induction rem generalizing k vals with
  | zero =>
    unfold planLoop specLoop
    simp only [hth, Bool.false_and, Bool.false_eq_true, if_false, htry, hstop]
    cases hc : (specCapsAll c k (visibleSpec c.names vals) (c.active k)).res with
    | panic s => simp [M.andThen, hc, Plan.canon]
    | stuck => simp [M.andThen, hc, Plan.canon]
    | ok capss =>
      obtain ⟨f1, f2⟩ := firstStop_chains c pend k vals (visibleSpec c.names vals) ((c.active k).zip capss)
      simp only [M.andThen, hc, Plan.canon]
      cases hfs : (firstStop isPanicUR (((c.active k).zip capss).map (taskOf c pend k vals (visibleSpec c.names vals)))).2 with
      | some o =>
        rw [hfs] at f2
        cases o with
        | ok _ => exact absurd f2 id
        | panic n =>
          simp only at f2
          simp [f1, f2, onStopOf]
      | none =>
        rw [hfs] at f2
        simp only at f2
        simp only [f1, f2, Plan.canon, List.append_nil, finishVals, htry, Bool.false_eq_true, if_false]
        cases allSome (updVals vals (c.active k)
          (urVals ((((c.active k).zip capss).map (taskOf c pend k vals (visibleSpec c.names vals))).map (·.out)))) <;>
          simp [M.stuck, M.ret]
  | succ rem ih =>
    unfold planLoop specLoop
    simp only [hth, Bool.false_and, Bool.false_eq_true, if_false, htry, hstop]
    cases hc : (specCapsAll c k (visibleSpec c.names vals) (c.active k)).res with
    | panic s => simp [M.andThen, hc, Plan.canon]
    | stuck => simp [M.andThen, hc, Plan.canon]
    | ok capss =>
      obtain ⟨f1, f2⟩ := firstStop_chains c pend k vals (visibleSpec c.names vals) ((c.active k).zip capss)
      simp only [M.andThen, hc, Plan.canon]
      cases hfs : (firstStop isPanicUR (((c.active k).zip capss).map (taskOf c pend k vals (visibleSpec c.names vals)))).2 with
      | some o =>
        rw [hfs] at f2
        cases o with
        | ok _ => exact absurd f2 id
        | panic n =>
          simp only at f2
          simp [f1, f2, onStopOf]
      | none =>
        rw [hfs] at f2
        simp only at f2
        obtain ⟨i1, i2⟩ := ih (k + 1) (updVals vals (c.active k)
          (urVals ((((c.active k).zip capss).map (taskOf c pend k vals (visibleSpec c.names vals))).map (·.out))))
        simp only [f1, f2]
        refine ⟨?_, i2⟩
        rw [← i1]
        simp [List.append_assoc]

/-! ### the handler: what runs after the last step -/

/-- pending points inside the handler's future (`then` / `and_then` handlers of async macros return a future that is
    awaited): after how many of its events it waits for which gate -/
abbrev PendH := List Value → List (Nat × Nat)

def handlerTask (c : SpecCfg) (pendH : PendH) (vs : List Value) : Task MEv (UR Value) :=
  ⟨segmentBy (pendH vs) none [.ev (.handlerCall vs)], c.σ.handlerCall vs⟩

/-- the macro's value when the step loop ended early -/
def stopMap : Res Fin → Res Value
  | .ok (.failed v) => .ok v
  | .ok (.vals _) => .stuck
  | .panic s => .panic s
  | .stuck => .stuck

def handlerPlan (c : SpecCfg) (pendH : PendH) (h : Option HKind) : Res Fin → List MEv × Plan MEv (UR Value) (Res Value)
  | .ok (.vals vs) =>
    match h with
    | none => ([], .done (.ok (if c.kind.isTry then .succ (mkTuple vs) else mkTuple vs)))
    | some hk =>
      ([], .step isPanicUR (fun o => match o with | .panic n => .panic (.user n) | .ok v => .ok v)
        [handlerTask c pendH vs] (fun _ => [])
        (fun outs => .done (match outs with
          | [.ok v] => .ok (match hk with | .map => .succ v | _ => v)
          | _ => .stuck)))
  | r => ([], .done (stopMap r))

/-- the handler definition, the step loop, the handler — as one `M` computation over a `SpecCfg` (`specRun` is this) -/
def specRunCfgL (loop : M Fin) (c : SpecCfg) (h : Option HKind) : M Value :=
  (match h with
    | some _ => (M.tell [.ev .handlerDef]).andThen fun _ => M.lift c.σ.handlerDef.toRes
    | none => M.ret ()).andThen fun _ =>
  loop.andThen fun f =>
  specHandle c h f

def specRunCfg (c : SpecCfg) (h : Option HKind) : M Value :=
  specRunCfgL (specLoop c (c.maxDepth - 1) 0 (List.replicate c.n none)) c h

/-- The whole `async move` block as a plan: the events emitted when it is entered (the handler definition, the block
    captures of step 0) and what follows. -/
def planRun (c : SpecCfg) (pend : Pend) (pendH : PendH) (h : Option HKind) : List MEv × Plan MEv (UR Value) (Res Value) :=
  let pl := planLoop c pend (c.maxDepth - 1) 0 (List.replicate c.n none)
  let b := pl.2.bind (handlerPlan c pendH h) stopMap
  match h with
  | none => (pl.1 ++ b.1, b.2)
  | some _ =>
    match c.σ.handlerDef with
    | .panic n => ([.ev .handlerDef], .done (.panic (.user n)))
    | .ok _ => ([.ev .handlerDef] ++ (pl.1 ++ b.1), b.2)

/-- results a step of the loop can stop with -/
def StopRes (r : Res Fin) : Prop := (∃ n, r = .panic (.user n)) ∨ ∃ v, r = .ok (.failed v)

theorem planLoop_allStops (c : SpecCfg) (pend : Pend) : ∀ (rem k : Nat) (vals : List (Option Value)),
    (planLoop c pend rem k vals).2.AllStops StopRes := by
  have hst : ∀ o : UR Value, StopRes (onStopOf o) := by
    intro o
    cases o with
    | panic n => exact Or.inl ⟨n, rfl⟩
    | ok v => exact Or.inr ⟨v, rfl⟩
  intro rem
  induction rem with
  | zero =>
    intro k vals
    unfold planLoop
    simp only
    split
    · exact Plan.AllStops.done _
    · exact Plan.AllStops.done _
    · exact Plan.AllStops.step _ _ _ _ _ hst (fun _ => Plan.AllStops.done _)
  | succ rem ih =>
    intro k vals
    unfold planLoop
    simp only
    split
    · exact Plan.AllStops.done _
    · exact Plan.AllStops.done _
    · exact Plan.AllStops.step _ _ _ _ _ hst (fun _ => ih _ _)

theorem handlerPlan_stop (c : SpecCfg) (pendH : PendH) (h : Option HKind) (r : Res Fin) (hr : StopRes r) :
    handlerPlan c pendH h r = ([], .done (stopMap r)) := by
  rcases hr with ⟨n, rfl⟩ | ⟨v, rfl⟩ <;> rfl

/-- canonical run of the handler part = `specHandle` -/
theorem handlerPlan_canon (c : SpecCfg) (pendH : PendH) (h : Option HKind) (f : Fin) :
    (handlerPlan c pendH h (.ok f)).1 ++ (handlerPlan c pendH h (.ok f)).2.canon.1 = (specHandle c h f).trace ∧
    (handlerPlan c pendH h (.ok f)).2.canon.2 = (specHandle c h f).res := by
  cases f with
  | failed v => exact ⟨rfl, rfl⟩
  | vals vs =>
    cases h with
    | none => exact ⟨rfl, rfl⟩
    | some hk =>
      have hev : (handlerTask c pendH vs).allEvs = [.ev (.handlerCall vs)] := by simp [handlerTask, Task.allEvs, segmentBy_flat]
      have hout : (handlerTask c pendH vs).out = c.σ.handlerCall vs := rfl
      cases hc : c.σ.handlerCall vs with
      | panic n =>
        cases hk <;>
          simp [handlerPlan, Plan.canon, firstStop, hout, hc, isPanicUR, hev, specHandle, M.andThen, M.tell, M.lift, UR.toRes]
      | ok v =>
        cases hk <;>
          simp [handlerPlan, Plan.canon, firstStop, hout, hc, isPanicUR, hev, specHandle, M.andThen, M.tell, M.lift, UR.toRes,
            M.ret]

/-- canonical run of the whole block, for any reference loop the plan's step loop is canonically equal to -/
theorem planRun_canon_gen (c : SpecCfg) (pend : Pend) (pendH : PendH) (h : Option HKind) (loop : M Fin)
    (hl : (planLoop c pend (c.maxDepth - 1) 0 (List.replicate c.n none)).1 ++
            (planLoop c pend (c.maxDepth - 1) 0 (List.replicate c.n none)).2.canon.1 = loop.trace ∧
          (planLoop c pend (c.maxDepth - 1) 0 (List.replicate c.n none)).2.canon.2 = loop.res) :
    (planRun c pend pendH h).1 ++ (planRun c pend pendH h).2.canon.1 = (specRunCfgL loop c h).trace ∧
    (planRun c pend pendH h).2.canon.2 = (specRunCfgL loop c h).res := by
  obtain ⟨l1, l2⟩ := hl
  obtain ⟨b1, b2⟩ := Plan.bind_canon StopRes (handlerPlan c pendH h) stopMap (handlerPlan_stop c pendH h)
    (planLoop c pend (c.maxDepth - 1) 0 (List.replicate c.n none)).2 (planLoop_allStops c pend _ _ _)
  -- loop followed by handler, as an `M` computation
  have hbody : (planLoop c pend (c.maxDepth - 1) 0 (List.replicate c.n none)).1 ++
        (((planLoop c pend (c.maxDepth - 1) 0 (List.replicate c.n none)).2.bind (handlerPlan c pendH h) stopMap).1 ++
         ((planLoop c pend (c.maxDepth - 1) 0 (List.replicate c.n none)).2.bind (handlerPlan c pendH h) stopMap).2.canon.1) =
        (loop.andThen fun f => specHandle c h f).trace ∧
      ((planLoop c pend (c.maxDepth - 1) 0 (List.replicate c.n none)).2.bind (handlerPlan c pendH h) stopMap).2.canon.2 =
        (loop.andThen fun f => specHandle c h f).res := by
    rw [b1, b2, l2]
    cases hres : loop.res with
    | ok f =>
      obtain ⟨h1, h2⟩ := handlerPlan_canon c pendH h f
      refine ⟨?_, by simp [M.andThen, hres, h2]⟩
      simp only [M.andThen, hres]
      rw [← l1, ← h1]
      simp [List.append_assoc]
    | panic s =>
      simp only [M.andThen, hres]
      rw [← l1]
      simp [handlerPlan, stopMap, Plan.canon]
    | stuck =>
      simp only [M.andThen, hres]
      rw [← l1]
      simp [handlerPlan, stopMap, Plan.canon]
  cases h with
  | none =>
    simp only [planRun, specRunCfgL]
    obtain ⟨hb1, hb2⟩ := hbody
    refine ⟨?_, ?_⟩
    · rw [List.append_assoc, hb1]; simp [M.andThen, M.ret]
    · rw [hb2]; simp [M.andThen, M.ret]
  | some hk =>
    obtain ⟨hb1, hb2⟩ := hbody
    simp only [planRun, specRunCfgL]
    cases hd : c.σ.handlerDef with
    | panic n => simp [M.andThen, M.tell, M.lift, UR.toRes, Plan.canon]
    | ok u =>
      simp only
      refine ⟨?_, ?_⟩
      · rw [List.append_assoc, List.append_assoc, hb1]; simp [M.andThen, M.tell, M.lift, UR.toRes]
      · rw [hb2]; simp [M.andThen, M.tell, M.lift, UR.toRes]

/-- **Canonical schedule = sequential reference, handler included.**  For the non-try async macros the canonical run of
    the whole block — handler definition, step loop, handler call with its awaited future — produces exactly the events
    and the outcome of the reference semantics `specRunCfg` (= `specRun`). -/
theorem planRun_canon (c : SpecCfg) (pend : Pend) (pendH : PendH) (h : Option HKind) (hth : c.kind.threads = false)
    (htry : c.kind.isTry = false) :
    (planRun c pend pendH h).1 ++ (planRun c pend pendH h).2.canon.1 = (specRunCfg c h).trace ∧
    (planRun c pend pendH h).2.canon.2 = (specRunCfg c h).res :=
  planRun_canon_gen c pend pendH h _ (planLoop_canon c pend hth htry (c.maxDepth - 1) 0 (List.replicate c.n none))

/-! ### the step loop as a leveled plan: the barrier under every schedule -/

/-- the events of the chains of step `k` carry step number `k` -/
theorem taskOf_step (c : SpecCfg) (pend : Pend) (k : Nat) (vals : List (Option Value)) (vis : List (String × Value))
    (bc : Nat × List Value) : ∀ e ∈ (taskOf c pend k vals vis bc).allEvs, e.step = some k := by
  intro e he
  rw [taskOf_allEvs] at he
  obtain ⟨ev, hev, rfl⟩ := List.mem_map.mp he
  simp only [chainEvents, List.mem_append, List.mem_singleton, List.mem_map] at hev
  rcases hev with (rfl | ⟨i, _, rfl⟩) | hev
  · rfl
  · rfl
  · split at hev
    · simp only [List.mem_singleton] at hev; subst hev; rfl
    · cases hev

/-- level of an event: its step number -/
def stepLevel (e : MEv) : Nat := e.step.getD 0

/-- finer level: the block captures of step `k` (`2k`) come before its chains (`2k + 1`) — `MEv.key` -/
def keyLevel (e : MEv) : Nat := e.step.getD 0 * 2 + (if e.isCap then 0 else 1)

theorem taskOf_notCap (c : SpecCfg) (pend : Pend) (k : Nat) (vals : List (Option Value)) (vis : List (String × Value))
    (bc : Nat × List Value) : ∀ e ∈ (taskOf c pend k vals vis bc).allEvs, e.isCap = false := by
  intro e he
  rw [taskOf_allEvs] at he
  obtain ⟨ev, hev, rfl⟩ := List.mem_map.mp he
  simp only [chainEvents, List.mem_append, List.mem_singleton, List.mem_map] at hev
  rcases hev with (rfl | ⟨i, _, rfl⟩) | hev
  · rfl
  · rfl
  · split at hev
    · simp only [List.mem_singleton] at hev; subst hev; rfl
    · cases hev

/-- The plan of the step loop from step `k` on is leveled — by step number (chains of step `k` at `k`, the captures on
    entering step `k + 1` at `k + 1`) and by the finer key (chains of step `k` at `2k + 1`, the captures of step `k + 1`
    at `2k + 2`, its chains at `2k + 3`) — and every event carries a step number. -/
theorem planLoop_leveled (c : SpecCfg) (pend : Pend) : ∀ (rem k : Nat) (vals : List (Option Value)),
    (∀ e ∈ (planLoop c pend rem k vals).1, e.step = some k ∧ e.isCap = true) ∧
    (planLoop c pend rem k vals).2.Leveled stepLevel k ∧
    (planLoop c pend rem k vals).2.Leveled keyLevel (2 * k + 1) ∧
    (planLoop c pend rem k vals).2.EvAll (fun e => e.step.isSome = true) := by
  intro rem
  induction rem with
  | zero =>
    intro k vals
    unfold planLoop
    simp only
    have hcap := specCapsAll_step c k (visibleSpec c.names vals) (c.active k)
    split
    · exact ⟨hcap, .done _ _, .done _ _, .done _⟩
    · exact ⟨hcap, .done _ _, .done _ _, .done _⟩
    · refine ⟨hcap, ?_, ?_, ?_⟩
      · refine .step k k k (Nat.le_refl _) (Nat.le_refl _) _ _ _ _ _ ?_ (fun _ e he => by cases he) (fun _ => .done _ _)
        intro t ht e he
        obtain ⟨bc, _, rfl⟩ := List.mem_map.mp ht
        simp [stepLevel, taskOf_step c pend k vals _ bc e he]
      · refine .step _ (2 * k + 1) (2 * k + 1) (Nat.le_refl _) (Nat.le_refl _) _ _ _ _ _ ?_ (fun _ e he => by cases he)
          (fun _ => .done _ _)
        intro t ht e he
        obtain ⟨bc, _, rfl⟩ := List.mem_map.mp ht
        simp [keyLevel, taskOf_step c pend k vals _ bc e he, taskOf_notCap c pend k vals _ bc e he]; omega
      · refine .step _ _ _ _ _ ?_ (fun _ e he => by cases he) (fun _ => .done _)
        intro t ht e he
        obtain ⟨bc, _, rfl⟩ := List.mem_map.mp ht
        simp [taskOf_step c pend k vals _ bc e he]
  | succ rem ih =>
    intro k vals
    unfold planLoop
    simp only
    have hcap := specCapsAll_step c k (visibleSpec c.names vals) (c.active k)
    split
    · exact ⟨hcap, .done _ _, .done _ _, .done _⟩
    · exact ⟨hcap, .done _ _, .done _ _, .done _⟩
    · refine ⟨hcap, ?_, ?_, ?_⟩
      · refine .step k (k + 1) (k + 1) (by omega) (Nat.le_refl _) _ _ _ _ _ ?_ ?_ (fun outs => (ih (k + 1) _).2.1)
        · intro t ht e he
          obtain ⟨bc, _, rfl⟩ := List.mem_map.mp ht
          simp [stepLevel, taskOf_step c pend k vals _ bc e he]
        · intro outs e he
          simp [stepLevel, ((ih (k + 1) _).1 e he).1]
      · refine .step _ (2 * k + 2) (2 * (k + 1) + 1) (by omega) (by omega) _ _ _ _ _ ?_ ?_ (fun outs => (ih (k + 1) _).2.2.1)
        · intro t ht e he
          obtain ⟨bc, _, rfl⟩ := List.mem_map.mp ht
          simp [keyLevel, taskOf_step c pend k vals _ bc e he, taskOf_notCap c pend k vals _ bc e he]; omega
        · intro outs e he
          obtain ⟨h1, h2⟩ := (ih (k + 1) _).1 e he
          simp [keyLevel, h1, h2]; omega
      · refine .step _ _ _ _ _ ?_ ?_ (fun outs => (ih (k + 1) _).2.2.2)
        · intro t ht e he
          obtain ⟨bc, _, rfl⟩ := List.mem_map.mp ht
          simp [taskOf_step c pend k vals _ bc e he]
        · intro outs e he
          simp [((ih (k + 1) _).1 e he).1]

end JoinModel
