/-
  C09 — async macros are lazy, concurrent within a step, and always complete.
  What Lean decides here is the *shape* of the async expansion, for every program: one pinned boxed `async move`
  block containing everything, steps joined by `futures::join!/try_join!` or awaited directly, task-spawning through
  the `__spawn_tokio` wrapper, no executor/waker/channel constructs of its own.  Progress, wake-up routing and
  completion are properties of `async`/`.await`, `futures::join!` and tokio, which are not modelled: they are
  *observed* by K2 on a deterministic executor with manually opened gates and a counting root waker (partial).
-/
import JoinModel.Lemmas.GenFacts
import JoinModel.Print
namespace JoinModel.Props.C09
open JoinModel

/-- Laziness, syntactically: the whole async expansion is `Box::pin(async move { … })` — a single expression whose
    evaluation creates a future and runs nothing; every user token (handler definition, block captures, chains,
    handler call) is inside the `async move` block. -/
theorem all_user_tokens_inside_async (c : Code) (ha : c.kind.isAsync = true) :
    ∃ body, printCode c = [kw "Box"] ++ pathSep ++ [kw "pin", paren [kw "async", kw "move", brace body]] := by
  simp only [printCode, ha, if_true]
  exact ⟨_, rfl⟩

/-- Within a step the active branches are joined by one `P::join!(…)` / `P::try_join!(…)` (or the custom joiner) when
    there are several, and awaited directly (`chain.await`) when there is one: the macro adds no polling logic. -/
theorem async_step_join (c : Ctx) (k : Nat) (s : StepCode) (h : genStep c k = .ok s) (ha : c.kind.isAsync = true)
    (hj : c.joiner = none) :
    s.form = (if c.activeCount k > 1 then
        JoinForm.call ((c.fcp.getD []) ++ [pj ':', pu ':', id' (if c.kind.isTry then "try_join" else "join"), pu '!'])
      else JoinForm.awaitCat) ∧ s.tbs = [] ∧ s.spawnJoin = none := by
  unfold genStep at h
  split at h
  · cases h
  · cases h
    refine ⟨?_, by simp [ha], by simp [ha]⟩
    by_cases hm : c.activeCount k > 1 <;> simp [hm, hj, ha]

/-- Task-spawning: every operand of a multi-branch step is `{ __spawn_tokio(Box::pin(chain)) }`; a single active
    branch is awaited in place. -/
theorem async_spawn_wrap (c : Ctx) (k : Nat) (s : StepCode) (h : genStep c k = .ok s) (ha : c.kind.isAsync = true)
    (hs : c.kind.isSpawn = true) :
    ∀ e ∈ s.elems, e.wrap = (if c.activeCount k > 1 then ElemWrap.tokio else ElemWrap.plain) := by
  unfold genStep at h
  split at h
  · cases h
  · rename_i defs elems hel
    cases h
    obtain ⟨_, he⟩ := genElems_spec c k (c.stepActs k) 0 defs elems hel
    intro e hmem
    have : e.sem ∈ elems.map Elem.sem := List.mem_map.mpr ⟨e, hmem, rfl⟩
    rw [he] at this
    obtain ⟨ab, _, hab⟩ := List.mem_map.mp this
    have hw : e.wrap = c.wrapOf k ab.2 := by
      have := congrArg (fun (t : Nat × Bool × ElemWrap × Var × List Member) => t.2.2.1) hab
      simpa [Elem.sem] using this.symm
    rw [hw]
    by_cases hm : c.activeCount k > 1 <;> simp [Ctx.wrapOf, Ctx.multi, hm, hs, ha]

/-- the spawn wrapper prints as `{ __spawn_tokio(Box::pin(chain)) }` -/
theorem tokio_elem_printed (e : Elem) (hw : e.wrap = .tokio) (hl : e.lazy = false) :
    printElem e = [brace [Var.spawnTokio.tok, paren ([kw "Box"] ++ pathSep ++ [kw "pin", paren e.chain])]] := by
  simp [printElem, hw, hl]

/-- later steps start from the previous result wrapped into a future: `async move { r }` -/
theorem async_step_start (t : Toks) : wrapIntoBlock true t = [id' "async", id' "move", brace t] := rfl

end JoinModel.Props.C09
