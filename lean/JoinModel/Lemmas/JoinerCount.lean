/-
  Occurrences of the custom joiner in the emitted token stream: once per step with more than one active branch, nowhere
  else.  Built on Lemmas/PrintCount.lean with the joiner tokens *not* assumed free of the counted identifier.
-/
import JoinModel.Lemmas.PrintCount
namespace JoinModel

/-- the joiner tokens of all steps -/
def formCount (s : String) : Steps → Nat
  | .last sc _ => cntToks s (formToks sc.form)
  | .cons sc _ rest => cntToks s (formToks sc.form) + formCount s rest

/-- `StepsOK` without the condition on the joiner tokens -/
def LinksOK (s : String) : Steps → Prop
  | .last _ f => FinalOK s f
  | .cons _ l rest => LinkOK s l ∧ LinksOK s rest

section
variable {s : String} (hm : PMarker s)
include hm

theorem cnt_printSteps' : ∀ (st : Steps), LinksOK s st → cntToks s (printSteps st) = stepsCount s st + formCount s st
  | .last sc f, h => by
    simp [printSteps, cntToks_append, cnt_printStep hm sc, cnt_printFinal hm sc.k f h, stepsCount, formCount]
  | .cons sc l rest, h => by
    have ih := cnt_printSteps' rest h.2
    simp [printSteps, cntToks_append, cnt_printStep hm sc, cnt_printLink hm sc.k l _ h.1, stepsCount, formCount, ih]
    omega

theorem cnt_printCode' (c : Code) (hst : LinksOK s c.steps) (hh : HandleOK s c.handle) (hf : cntToks s (c.fcp.getD []) = 0) :
    cntToks s (printCode c) = stepsCount s c.steps + formCount s c.steps + cntToks s (c.handlerDef.getD []) := by
  have hw := words_facts hm
  have hrs := cntTT_ivar hm.toMarker .rs rfl
  have hh' := cntTT_ivar hm.toMarker .h rfl
  have h1 := cnt_printSteps' hm c.steps hst
  have h2 := cnt_printHandle hm c.kind.isAsync c.handle hh
  unfold printCode
  cases hd : c.handlerDef <;> cases ha : c.kind.isAsync <;> cases hsp : c.kind.isSpawn <;>
    simp [ha] at h2 <;>
    simp [cntToks_append, cntTT_kw, hw, hrs, hh', h1, h2, pathSep, cnt_useFutures hm _ hf, cnt_fnSpawnTokio hm _ hf,
      hm.inspectFn, hm.tbFn] <;> omega

/-- the links and the final of generated steps carry no `s` (no condition on the joiner) -/
theorem genSteps_links (c : Ctx) (hc : (∀ pv ∈ c.pats, cntToks s pv.toks = 0 ∧ pv.var.render ≠ s)) :
    ∀ (rem k : Nat) (steps : Steps), genSteps c rem k = .ok steps → LinksOK s steps := by
  have hc' : CtxFree s { c with joiner := none, fcp := none } := ⟨hc, by simp, by simp⟩
  have hl : ∀ k, LinkOK s (genLink c k) := fun k => genLink_ok hm { c with joiner := none, fcp := none } k hc'
  have hf : ∀ k, FinalOK s (genFinal c k) := fun k => genFinal_ok hm { c with joiner := none, fcp := none } k hc'
  intro rem
  induction rem with
  | zero =>
    intro k steps h
    simp only [genSteps] at h
    split at h
    · cases h
    · cases h; exact hf k
  | succ rem ih =>
    intro k steps h
    simp only [genSteps] at h
    split at h
    · cases h
    · split at h
      · cases h
      · rename_i rest hrest
        cases h
        exact ⟨hl k, ih (k + 1) rest hrest⟩

/-- with a custom joiner `j`, the joiner tokens of the step generated for `k` are `j` when more than one branch is active
    and none otherwise -/
theorem genStep_formToks (c : Ctx) (k : Nat) (sc : StepCode) (j : Toks) (h : genStep c k = .ok sc) (hj : c.joiner = some j) :
    formToks sc.form = if c.activeCount k > 1 then j else [] := by
  unfold genStep at h
  split at h
  · cases h
  · cases h
    simp only
    by_cases hmulti : c.activeCount k > 1
    · simp [hmulti, hj, formToks]
    · cases ha : c.kind.isAsync <;> simp [hmulti, ha, formToks]

theorem genSteps_formCount (c : Ctx) (j : Toks) (hj : c.joiner = some j) :
    ∀ (rem k : Nat) (steps : Steps), genSteps c rem k = .ok steps →
      formCount s steps = sumR (fun i => if c.activeCount i > 1 then cntToks s j else 0) k (rem + 1) := by
  intro rem
  induction rem with
  | zero =>
    intro k steps h
    simp only [genSteps] at h
    split at h
    · cases h
    · rename_i sc hs
      cases h
      simp only [formCount, sumR, genStep_formToks hm c k sc j hs hj]
      split <;> simp
  | succ rem ih =>
    intro k steps h
    simp only [genSteps] at h
    split at h
    · cases h
    · rename_i sc hs
      split at h
      · cases h
      · rename_i rest hrest
        cases h
        simp only [formCount, genStep_formToks hm c k sc j hs hj, ih (k + 1) rest hrest]
        conv => rhs; unfold sumR
        split <;> simp

theorem mkCtx_pats_free (p : Input) (kind : Kind) (c : Ctx) (h : mkCtx p kind = .ok c)
    (hpats : ∀ b ∈ p.branches, ∀ pt, b.pat = some pt → pt.ident ≠ s ∧ cntToks s pt.toks = 0)
    (hfcp : cntToks s (p.fcp.getD []) = 0) (hfut : "futures" ≠ s) :
    (∀ pv ∈ c.pats, cntToks s pv.toks = 0 ∧ pv.var.render ≠ s) ∧ cntToks s (c.fcp.getD []) = 0 ∧ c.joiner = p.joiner := by
  unfold mkCtx at h
  split at h
  · cases h
  · split at h
    · cases h
    · split at h
      · cases h
      · split at h
        · cases h
        · cases h
          refine ⟨?_, ?_, rfl⟩
          · intro pv hpv
            obtain ⟨⟨b, i⟩, hbi, rfl⟩ := List.mem_map.mp hpv
            have hb : b ∈ p.branches := (List.mem_zipIdx hbi).2.2 ▸ List.getElem_mem _
            simp only [branchPat]
            cases hpat : b.pat with
            | none => exact ⟨by simp [cntTT_ivar hm.toMarker (.r i) rfl], hm.notInternal (.r i) rfl⟩
            | some pt => exact ⟨(hpats b hb pt hpat).2, (hpats b hb pt hpat).1⟩
          · simp only
            cases hf : p.fcp with
            | some f => rw [hf] at hfcp; simpa using hfcp
            | none =>
              cases kind.isAsync
              · simp
              · simp [defaultFcp, cntTT_id s "futures" hfut]

/-- **The custom joiner occurs in the expansion once per step with more than one active branch, and nowhere else**: for an
    identifier `s` that the caller wrote only inside the joiner. -/
theorem joiner_count (p : Input) (kind : Kind) (code : Code) (c : Ctx) (j : Toks) (hc : mkCtx p kind = .ok c)
    (h : gen p kind = .ok code) (hinit : InitialOnlyFirst p) (hj : p.joiner = some j)
    (hpats : ∀ b ∈ p.branches, ∀ pt, b.pat = some pt → pt.ident ≠ s ∧ cntToks s pt.toks = 0)
    (hfcp : cntToks s (p.fcp.getD []) = 0) (hfut : "futures" ≠ s)
    (hops : cntProgram s p = 0) (hhd : cntToks s ((p.handler.map (·.2)).getD []) = 0) :
    cntToks s (printCode code) =
      sumR (fun i => if c.activeCount i > 1 then cntToks s j else 0) 0 c.maxSteps := by
  have hcount := gen_count hm.toMarker p kind code h hinit (fun b hb pt hpt => (hpats b hb pt hpt).1)
  obtain ⟨hpv, hcf, hcj⟩ := mkCtx_pats_free hm p kind c hc hpats hfcp hfut
  unfold gen at h
  simp only [hc] at h
  split at h
  · cases h
  · rename_i hmax
    split at h
    · cases h
    · rename_i steps hsteps
      cases h
      have hl := genSteps_links hm c hpv _ 0 steps hsteps
      have hfc := genSteps_formCount hm c j (hcj.trans hj) _ 0 steps hsteps
      have hn : c.maxSteps - 1 + 1 = c.maxSteps := by omega
      rw [cnt_printCode' hm _ hl (genHandle_ok hm c p.handler) hcf, hfc, hn]
      simp only at hcount hhd ⊢
      rw [hcount, hops, hhd]
      omega
end

end JoinModel
