#!/usr/bin/env python3
"""Writes /verif/MANIFEST.json from the table below (kept in one place so that it stays valid)."""
import json
import os

ROOT = os.path.dirname(os.path.dirname(os.path.abspath(__file__)))

NOTE_COMMON = ("Trusted: Lean 4.33 kernel (axioms ⊆ {propext, Classical.choice, Quot.sound}, audited per run; no sorry/native_decide); "
               "tools/extract_tables.py + harness (run the current /repo code); the hand-written model of join_impl's algorithms is "
               "tied to the code by K1 (token-for-token differential on generated inputs) and K2 (rustc-compiled executions vs the "
               "reference semantics); syn, rustc, std/futures/tokio are outside the model. ")

# id -> (text, note, technique, design_ref)
CLAIMS = {
    "C07": (
        "Proof (Lean 4) over the macro-kind table regenerated from join/src/lib.rs on every run: the extracted table equals the documented "
        "one, each alias has exactly the configuration of the macro it aliases (hence expands every input to identical code, ∀ inputs), "
        "a spawn variant differs from its plain counterpart only in is_spawn. Semantic part: spawn_agrees — for every program, world and calling "
        "thread the code generated for join_spawn!/try_join_spawn! and the code generated for join!/try_join! end with the same value (same tuple "
        "or same failure), or both panic (specLoop_spawning_sim: forked-and-joined chains give what chains run one after the other give; "
        "carried to the generated code by the refinement theorem); async_spawn_agrees — join_async_spawn! and join_async! have the same "
        "events and outcome under the canonical schedule; accepted_spawn_agrees: the same from one token list - the parser does not know "
        "the macro name, whatever it accepts expands under the plain and the thread-spawning kind to codes that agree. K1 runs every program under "
        "all configurations; K2 compiles the 12 names (and gate-free programs with several failures in one step, judged strictly); hygiene "
        "probe: for every identifier the real expansions write themselves, a program whose macro body uses a caller variable of that name "
        "gives the same value as with the variable renamed, in all twelve macros.",
        NOTE_COMMON + "The extractor additionally checks that the 12 entry points are textually identical up to the three booleans. "
        "try_join_async!/try_join_async_spawn! agreement is by async_try_refines for each (same reference loop specLoopAT); tokio's task "
        "scheduling is outside the model.",
        "Lean 4 proof over translated tables + spawn-agreement theorem through the refinement; K1/K2 differential tie", "§7 C07"),
    "C20": (
        "Proof (Lean 4): the model's expansion is a function, so histories are List.map of it (order-, repetition- and context-independence "
        "are theorems). The property is about hidden state in the implementation, so the deciding tie is K1 in purity mode: every input is "
        "expanded ≥14 times (reversed, interleaved, 8 threads concurrently) and must always equal its first expansion and the pure model's "
        "output; plus a source audit for statics/thread-locals/hash collections/env/clock/randomness.",
        NOTE_COMMON + "Purity across processes/compiler sessions is not exercised (in-process histories only).",
        "Lean 4 proof (purity by construction) + differential histories against the pure model", "§7 C20"),
}

CLAIMS["C14"] = (
    "Proof (Lean 4, Props/C14) about a model of the parser (Parse.lean: the scan loop of parse_until, the n-or-empty unit parsers, the "
    "chain builder, handlers, options), for every syn oracle and over the determiner table regenerated from /repo: determiners see only "
    "top-level token shapes (group contents and literal text invisible); a scan stops only at a first-matching determiner after a "
    "complete operand, never inside an incomplete one, and never reorders or loses tokens; an operand without a top-level split point "
    "followed by [~] operator [>>>] is returned exactly with the flags of exactly that operator (round trip of one unit); whole chains of "
    "unary operators, operators with several / type operands (`^@ init, f`, `=>[] T`, `<-> A, B, C, D`), operand-less operators, `op >>>` "
    "wrappers and `<<<` with arbitrary ~ flags (balanced per step): parse ∘ render = id (branch_roundtrip_partial; with `let`: "
    "branch_roundtrip_let_partial, a non-identifier pattern: branch_other_let_rejected), also for several branches separated by commas, the "
    "whole macro input (input_roundtrip_partial) and the input with any subset of the options in any order in front "
    "(input_roundtrip_options_partial); handlers anywhere among the branches: Props/C13 (items_roundtrip_partial); overlapping "
    "operators resolve to the longest documented one for all continuations/spacings; Rust's own shift/comparison/logic/assignment "
    "operators are never DSL operators. Tie: K1-parse (model + syn's answers vs the real parser: outcome class and structure) and a "
    "round-trip oracle on the real parser (structured programs over adversarial operands, rendered and re-parsed).",
    NOTE_COMMON + "syn is an oracle: what it accepts as Expr/Type is computed by the real syn for every compared input and quantified over in "
    "the theorems (their hypotheses say what syn must answer for the operands: complete, no earlier split point); that the real syn "
    "answers so for concrete operands is what the round-trip oracle and K1-parse check on the real parser.",
    "Lean 4 proof on a parser model with syn as oracle + K1-parse differential + round-trip oracle on the real parser", "§7 C14")
CLAIMS["C15"] = (
    "Totality: the model pipeline is a total Lean function whose every expect()/unwrap()/panic! site is an explicit outcome; theorems "
    "(Props/C15) show which outcomes are reachable. The deciding tie for the implementation is K1 with an implementation-side oracle on "
    "every generated/mutated/malformed input: no panic other than the four whitelisted configuration rejections, every structurally "
    "invalid input of the property's list rejected, every accepted output accepted by syn::parse2::<Expr>, and outcome class + tokens "
    "equal to the model's.",
    NOTE_COMMON + "'Valid Rust' is checked by syn's expression grammar, not rustc's; inputs whose member-access operand is not a member "
    "access, whose custom_joiner tokens do not form a call, or whose let name is a keyword (syn accepts `let mut let`) are outside the quantifier.",
    "Lean 4 model with explicit failure sites + K1 differential with implementation-side totality oracle", "§7 C15")
CLAIMS["C05"] = (
    "Refinement proof (Lean 4): the semantics of the generated code equals the reference step loop for every program, depth profile and "
    "user world; the property is a corollary on the reference loop (first failing step, lowest-numbered failing branch, value unchanged); "
    "accepted_try_result carries it through the whole pipeline: whatever token list the parser model accepts (any syn oracle), the code expanded "
    "from it returns Ok of all values or exactly the first failure. Tie: K1 (generator tokens) + K2 (real try macros compiled and run on every failure placement over small profiles and on random "
    "programs, compared with the reference semantics and with the semantics of the model's generated code).",
    NOTE_COMMON + "Async try variants: async_try_refines (AsyncTry.lean) proves the generated code equal to the async-try reference under the "
    "canonical schedule, and specLoopAT_failed that a failing run ends with the failing chain's end, value unchanged; which failing branch "
    "wins under other completion orders is schedule dependent and observed by K2-async (any failing branch of the earliest failing step).",
    "Lean 4 refinement proof + K2 compiled-execution differential", "§7 C05")
REFINE = ("Central theorem sync_refines (lean/JoinModel/Refinement.lean): for every parsed program (any branches, depth profile, operators, "
          "captures, names, handler), every user world and calling thread, the semantics of the code the generator model emits equals the "
          "reference step loop — events and result, panics included — for the sequential and thread-spawning macros, and under the canonical "
          "schedule for join_async!/join_async_spawn!; async_try_refines (AsyncTry.lean) is the same statement for the async try macros against "
          "their own reference loop (a step stops at its first failing chain). ")
K2NOTE = ("K2 compiles instrumented programs with the real macros and compares value, event order, thread names with the reference semantics "
          "(and with the semantics of the model's generated code); K1 compares the generator model with the real generator token for token. ")
ASYNC_NOTE = ("Async variants: the refinement theorems speak about the canonical schedule (operands polled to completion in turn); other schedules "
              "are covered by the poll-level model of Props/C09 (non-try) and observed by K2-async. ")
CLAIMS["C03"] = (REFINE + "Property theorems (Props/C03): on the calling thread the events are sorted by (step, captures before chains) for every "
                 "program; a chain's input is its own branch's previous result; barrier_every_schedule (Lemmas/LinLoop): for EVERY global order of "
                 "events admitted by the schedule relation Lin (caller in program order, each forked chain in its own order after its fork, a join "
                 "only after its thread finished) the step numbers of a whole run never decrease - all programs, worlds, sizes, panics included; "
                 "async_barrier_every_schedule (Async.lean Plan.Leveled): the `async move` block of any async macro, polled with ANY sequence of "
                 "sets of open gates (any order in which pending futures become ready, batches, spurious polls, finished or not), emits events "
                 "whose step numbers never decrease - also when chains fail or panic. accepted_steps_in_program_order: the same order from the tokens the caller wrote. " + K2NOTE,
                 NOTE_COMMON + ASYNC_NOTE, "Lean 4 refinement proof + order theorems on the reference loop; K2 barrier oracle on real executions", "§7 C03")
CLAIMS["C04"] = (REFINE + "Props/C04: element i of a non-try result is what branch i's own last chain returned (∀ profiles); a step only touches "
                 "the positions of its active branches; handler and result are built from the same list; accepted_result_positions: from the macro's tokens to the result tuple - whatever the parser accepts (any syn oracle), the code expanded from it returns, if at all, the tuple whose element i is what branch i's own last chain returned. " + K2NOTE,
                 NOTE_COMMON + ASYNC_NOTE + "For try macros the payload version is covered through C05 + K2.",
                 "Lean 4 refinement proof + position theorem on the reference loop; K2 on enumerated depth profiles", "§7 C04")
CLAIMS["C06"] = (REFINE + "Props/C06: after a failing step j no event of a later step exists, every branch active in j ran its chain to the end, "
                 "and no handler call happens; for the async try macros (async_try_stops_at_failure) the failing chain's end is the last event "
                 "of the loop under the canonical schedule, and failed_step_aborts_every_schedule (poll-level plan, Plan.run_stopper): if some "
                 "chain of step k ends with a failure (or panics), then under EVERY schedule of gate openings every event emitted from there on "
                 "belongs to step k — no capture, chain or callback of a later step, no handler call — and the future is either still in step k "
                 "or finished with that step's failure, unchanged (or the panic); failed_step_result_every_schedule: polled with every gate open "
                 "it is finished, with exactly that; accepted_async_try / accepted_failing_run: the async-try refinement and the aborted run (result = the failure, no handler call, no later step) for whatever the parser accepts. " + K2NOTE, NOTE_COMMON + ASYNC_NOTE,
                 "Lean 4 refinement proof + trace theorems; K2 event-log differential", "§7 C06")
CLAIMS["C11"] = (REFINE + "Props/C11: the hoisting operator set equals the documented one (table theorem over regenerated T9); capture events are "
                 "exactly (active branch, position, operand) in order, once each; sorted before the chains of their step and after the previous "
                 "step; never inside a branch thread; the operand is replaced by the bound name; async_captures_before_chains_every_schedule: in the "
                 "async macros, under every schedule of gate openings, the block captures of step k come after the last event of step k-1 and before "
                 "the first event of any chain of step k (key 2k / 2k+1 never decreases along the emitted events; failures and panics included); "
                 "generated_defs_in_position_order (Lemmas/CapsOrder): the hoisted definitions of every generated step are ascending in (branch, "
                 "position of the action in its step, operand index) for positions of any size, and defs_printed_in_order: the printer writes them in "
                 "that order in front of the step's join expression. " + K2NOTE, NOTE_COMMON + ASYNC_NOTE,
                 "Lean 4 table theorem + refinement + order theorems; K1/K2 differential", "§7 C11")
CLAIMS["C12"] = (REFINE + "Props/C12: every capture of step k sees exactly the named branches' latest values (wrapped in try macros, finished "
                 "branches included), nothing in step 0; the generated code's visibility equals the reference's (invariant of the refinement). "
                 "`let` does not change the result: by the refinement the result depends on names only through what user code reads "
                 "(generated_let_invariant: two invocations differing only in their `let` names expand to codes with the same outcome). " + K2NOTE,
                 NOTE_COMMON + ASYNC_NOTE + "let_result_invariant: two invocations differing only in their `let` names, against user code that does not "
                 "read the names, have the same result and events (reference loop; carried to the code by the refinement).",
                 "Lean 4 refinement proof + visibility theorems; K2 snapshots of names in scope", "§7 C12")
CLAIMS["C13"] = (REFINE + "Props/C13: then/map/and_then semantics of the reference (called exactly once with the values in branch order iff "
                 "applicable, never after a failure); accepted_then_handler: from the macro's tokens - whatever the parser accepts, the expanded code defines "
                 "the `then` handler first, runs the loop and calls the handler exactly once, last, with the loop's values, returning its result; "
                 "gen returns the rejection exactly for (non-try ∧ map/and_then) and (try ∧ then), ∀ inputs. "
                 "Parser half (parser model, every syn oracle): one handler definition anywhere among the branches gives the branches in the order written and "
                 "that handler (handler_anywhere), a second handler definition is rejected wherever the two stand (second_handler_rejected; "
                 "items_roundtrip_partial). Async: the handler's returned future is part of the poll-level plan (planRun) and of the every-schedule "
                 "theorems of Props/C09. " + K2NOTE, NOTE_COMMON + ASYNC_NOTE,
                 "Lean 4 refinement + decision theorem for rejections; K1 rejection oracle; K2 handler events", "§7 C13")
CLAIMS["C18"] = (REFINE + "Props/C18: a panicking chain/capture/handler makes the step and hence the macro panic (sequential: first in branch "
                 "order; threads: at the join of the panicked thread, caller not blocked), and the trace then contains only events of steps up to "
                 "the panicking one; async_chain_panic_every_schedule: in a non-try async macro a panicking chain of step k makes the future, under "
                 "every schedule that ends with all gates open, complete with the panic of one of step k's panicking chains, nothing of a later "
                 "step having run; accepted_panics: from the macro's tokens - whatever the parser accepts, the expanded code panics exactly when "
                 "and with what the reference semantics does. " + K2NOTE, NOTE_COMMON + ASYNC_NOTE + "Behaviour of tokio on a panicking task is assumed (template __spawn_tokio).",
                 "Lean 4 refinement + panic propagation theorems; K2 panic injection with watchdog", "§7 C18")
CLAIMS["C01"] = ("Props/C01 (Lean 4): each of the 23 documented token sequences selects its combinator in the ordered determiner table, for "
                 "every continuation (∀ rest; the two prefix cases `=>`/`=>[]`, `?|>`/`?|>@` with their side condition); the extracted operand "
                 "arities and emission templates equal the README's (`.chain` for `>@>`, `.find` for `?@` …); `->` and `??` have their "
                 "documented forms; every other operator is postfix; the initial value is one token tree; a wrapper-free chain is the "
                 "left fold of single applications (∀ length, ∀ operator mix). Tables are regenerated from /repo on every run. "
                 "Tie: K1 + 17k determiner probes against the real check_input + K2-chains (macro vs documented plain chain, compiled).",
                 NOTE_COMMON + "'A well-typed chain compiles' and the run-time meaning of the std/futures methods are outside Lean: K2-chains "
                 "compiles and runs every generated chain (sync macros); async chains are covered by K1 tokens only.",
                 "Lean 4 table theorems over translated tables + fold theorem; K1/K2-chains differential", "§7 C01")
CLAIMS["C02"] = ("Props/C02 (Lean 4): the wrapper set and wrapper constructors equal the documented ten (regenerated tables); "
                 "step_expr_nested: for every action list (any depth, empty inner chains, captures) the generator's stack machine computes "
                 "exactly the recursive-descent reading `X >>> inner <<< rest ↦ .x(|__v| __v inner) rest`, implicit closing at step end, "
                 "continuation on the outer value after `<<<`; it fails only on a level-0 `<<<`. Tie: K1 wrapper family + K2-chains with "
                 "nested wrappers against hand-nested closures.",
                 NOTE_COMMON, "Lean 4 proof (stack machine = recursive descent) + table theorems; K1/K2-chains differential", "§7 C02")
CLAIMS["C15"] = (
    "Props/C15 (Lean 4) expansion_total: for EVERY token list, every behaviour of syn (oracle) and every macro kind, the pipeline parser "
    "model → generator model ends with a parser error, one of the whitelisted configuration rejections, or code — never one of the "
    "generator's expect()/unwrap()/unreachable!() sites (each is an explicit outcome of the total model). Built from parse_wellformed "
    "(everything the parser accepts has table-shaped members and a per-step `>>>`/`<<<` balance that never goes negative; "
    "Lemmas/ParseWF) and no_internal_bug (the generator on such programs). expansion_terminates: every loop of the parser (the scan of "
    "parse_until, the chain builder, the branch/handler loop) consumes at least one token tree per iteration — the model's fuel is never "
    "used up — given only that syn rejects the empty token stream as an expression (checked against syn on every run). The deciding "
    "tie for the implementation's parser + generator is K1-parse (parser model + syn's answers vs the real parser) and K1 with an implementation-side oracle on every generated / mutated / malformed "
    "input: no panic other than the whitelisted rejections, every structurally invalid input of the property's list rejected (incl. "
    "duplicated options at every position), every accepted output accepted by syn::parse2::<Expr>, outcome class and tokens = the model's.",
    NOTE_COMMON + "'Valid Rust' is checked with syn's expression grammar, not rustc's; inputs whose member-access operand is not a member "
    "access, whose custom_joiner tokens do not form a call, or whose `let` name is a keyword (syn accepts `let mut let`) are outside the "
    "quantifier. Termination is a theorem about the parser model (fuel never exhausted), tied to the real loops by K1-parse; syn's own "
    "termination is assumed.",
    "Lean 4 proof (totality and termination of parser model + generator model, all token lists) + K1/K1-parse differential with implementation-side totality oracle", "§7 C15")
CLAIMS["C08"] = ("Props/C08 (Lean 4): a multi-branch step of a thread-spawning macro forks exactly one thread per active branch, named "
                 "<caller>_join_<branch index>, all forks before any join; a single-branch step forks nothing; the barrier theorem over the "
                 "schedule relation Lin: for 'fork all, join all, continue with rest', EVERY global order of events is an interleaving of "
                 "exactly these threads' complete bodies followed by a schedule of rest (caller waits; nothing of a later step earlier), and "
                 "conversely every interleaving of the bodies is a possible schedule (all alive at once, none waits for a sibling); lifted to whole "
                 "runs by loop_every_schedule (LinLoop). "
                 + REFINE + "K2: thread name/id of every callback, Barrier(n) gates that deadlock a serialised expansion (20 s watchdog), "
                 "nested spawn macros to depth 3.",
                 NOTE_COMMON + "That the OS actually runs the threads, and the meaning of std::thread::Builder::spawn/join, are modelled (Sem), "
                 "validated by K2, not derived from std.", "Lean 4 proof over a schedule relation (barrier, all interleavings) + refinement; K2 gated executions", "§7 C08")
CLAIMS["C09"] = ("Props/C09 (Lean 4), three layers. (1) Shape, every program: the async expansion is a single Box::pin(async move {…}) containing "
                 "every user token; steps are joined by one P::join!/try_join! or awaited in place; task-spawning wraps operands into "
                 "__spawn_tokio(Box::pin(chain)). (2) sync_refines now covers join_async!/join_async_spawn!: under the canonical schedule the "
                 "generated code is the reference step loop. (3) A poll-level model (Async.lean: tasks with gated pending points; join! = poll "
                 "every unfinished operand once in order, try_join! returns at the first finished failure; the async block = steps in sequence), "
                 "built from the parsed program (AsyncSpec.lean), with theorems for EVERY schedule of gate openings (any order, batches, spurious "
                 "polls): nothing before the first poll; each operand advances exactly as far as its own gates allow (a pending branch never "
                 "blocks a ready sibling); a pending future waits on ≥1 gate and only on closed gates (no lost wake-up); canonical run of the plan "
                 "= reference semantics, handler definition and handler call (with the awaited future it returns, with pending points of its own) "
                 "included (planRun_canon); and for the async macros without panics (try macros: when every chain succeeds): once polled with all "
                 "gates open the future is complete with the generated code's result, having emitted the generated code's events exactly once "
                 "each (join_async_every_schedule_handler, try_join_async_every_schedule_handler). Tie: K2-async "
                 "compares the model's predicted events PER POLL with the real future on a deterministic executor under random gate schedules "
                 "(non-spawn kinds, exact), a property-level oracle for the tokio kinds, and K1.",
                 NOTE_COMMON + "Trusted for the run-time clauses: that rustc's async/.await and futures' join!/try_join! behave like Plan.poll/pollStep "
                 "(validated per poll by K2-async on every run, gated handler futures included). Partial: when a chain of a try macro fails, which failing "
                 "branch wins is schedule dependent and only the per-poll theorems hold; tokio's scheduler is outside the model.",
                 "Lean 4 refinement (canonical schedule) + poll-level scheduling model with ∀-schedule theorems + per-poll K2-async correspondence", "§7 C09")
CLAIMS["C10"] = ("Props/C10 (Lean 4) + refinement: in the reference loop every reached atom runs exactly once per step (capture events of a step "
                 "are pairwise distinct and exactly the hoisted operands; one chain per active branch; handler defined once, called at most "
                 "once), and the generated code has exactly these events (sync_refines). Token level (nothing dropped/duplicated in the "
                 "expansion): gen_conserves_tokens (Lemmas/TokCount, Conserve) - for every program the generator accepts, every macro kind, any "
                 "number of branches/steps/wrappers/block operands, every occurrence of a user identifier in the operands occurs exactly once "
                 "among the hoisted definitions and chain expressions of the generated steps (through emission templates, hoisting, the wrapper "
                 "stack with explicit and implicit closing, the split into steps); accepted_conserves_tokens: the same for whatever the parser "
                 "accepts (Lemmas/ParseInit: `initial` occurs only in front of a branch, for every syn oracle); expansion_conserves_tokens "
                 "(Lemmas/PrintCount): the same for the emitted token stream - the occurrences of a user identifier in printCode(code) are those in "
                 "the operands plus the handler, nothing of the macro's own (PMarker: none of the ~50 words the templates and the printer write); "
                 "plus the K1 oracle that every operand marker occurring once in the input occurs exactly once in the real output. "
                 "Moves/drops: K2 drop counters (C19 program).",
                 NOTE_COMMON + "printCode is the model's printer; that it equals the real expansion token for token is what K1 compares on every run; rustc's move semantics are outside Lean (partial).",
                 "Lean 4 refinement + once-only theorems on the reference loop; K1 marker oracle; K2 event lists", "§7 C10")
CLAIMS["C16"] = ("Props/C16 (Lean 4, ∀ contexts): custom_joiner_once_per_joined_step - in the printed expansion an identifier written only inside "
                 "custom_joiner(j) occurs once per step with more than one active branch (times its count in j) and nowhere else, for every program, "
                 "macro kind and futures path; the joiner form of every step (custom joiner applied exactly once iff >1 active branches, to "
                 "the active branches' chains in branch order; default tuple / P::join!); operands are `move ||` closures iff lazy ∧ multi; "
                 "option defaults; transpose_results(false) scrutinises every step with match Ok/Err; every futures item prints the configured "
                 "path. 'Any order and subset, each at most once' is a theorem about the parser model (Lemmas/OptionParse: the option loop — rounds "
                 "trying the four keywords in a fixed order — equals reading the written options one after the other): options_any_order_subset "
                 "(pairwise different keywords, arguments that parse ⇒ all accepted, each sets its field, the rest is left for the branches), "
                 "options_order_irrelevant (two orders of the same options give the same record), option_twice_rejected (a keyword written a "
                 "second time is rejected with its 'specified twice' error); tied to the real parser by K1 / K1-parse over every subset, permutation "
                 "and duplicate position; K2 compiles programs with a logging joiner macro (count and arity per step, results = default config).",
                 NOTE_COMMON + "lazy + custom joiner run-time semantics is the joiner's business.",
                 "Lean 4 theorems on the generator and parser models + K1 exhaustive option enumeration + K2 logging joiner", "§7 C16")
CLAIMS["C17"] = ("Props/C17 (Lean 4): Var.render (built from the name-format table regenerated from name_constructors.rs) is injective on the "
                 "internal names for ALL indices (separator lemma excludes __ew1_11_0 = __ew11_1_0) and every internal name starts with `__`; "
                 "size independence and 'nest freely' are the refinement theorem (no bound on branches/steps/operands; the generated code is "
                 "closed: it never gets stuck on an unbound name; an inner expansion is an opaque atom of the outer one). K1: 12/24-branch and "
                 "24-action programs; name constructors of the running code vs the model; K2: macros nested to depth 3.",
                 NOTE_COMMON + "User `let` names starting with `__` are excluded by hypothesis; hygiene/spans are not modelled.",
                 "Lean 4 proof (injectivity for all indices) + refinement; K1 large indices; K2 nesting", "§7 C17")
CLAIMS["C19"] = ("Props/C19 (Lean 4, ∀ programs): without `spawn` no operand is wrapped into a thread/tokio spawn, no thread builders, no handle "
                 "joins; operands are `move ||` closures only when lazy (default off for every macro that does not spawn threads); the "
                 "sequential frame is one block (inspect helper bounded by impl Fn(&I) only); Send + 'static are written only in "
                 "__spawn_tokio, Box::pin only in the async frame. K1 token oracle on real sequential outputs (no Box/clone/Send/'static/"
                 "format!/spawn/collections of the macro's own); K2: move-only, Rc, & and &mut programs through the non-spawning macros must "
                 "compile and run, allocation counter = 0 around sequential evaluations, drop counter exact; non-spawning async: token oracle on long "
                 "chains / large / random programs (no Send/'static/boxed/clone, exactly one Box), 12-member chains over Rc and a borrowed Cell, "
                 "allocations of a long chain = those of a short one. no_hidden_cost_words (via Lemmas/PrintCount expansion_count): for every program "
                 "and macro kind every occurrence of `clone` / `Arc` / `Rc` / `Mutex` / `boxed` in the emitted token stream is one the caller wrote "
                 "(count in the expansion = count in the operands and the handler).",
                 NOTE_COMMON + "Whether rustc accepts a borrowing program and what the allocator does are type-system / run-time facts: observed (K2), partial.",
                 "Lean 4 syntactic theorems + K1 token oracle + K2 allocation/borrow programs", "§7 C19")
PLANNED = {}


def main():
    with open(os.path.join(ROOT, "properties.jsonl")) as f:
        ids = [json.loads(l)["id"] for l in f if l.strip()]
    checks = []
    for pid in ids:
        if pid in CLAIMS:
            text, note, tech, ref = CLAIMS[pid]
            checks.append({
                "property_id": pid,
                "quick_cmd": "./check %s --tier quick" % pid,
                "thorough_cmd": "./check %s --tier thorough" % pid,
                "evidence_file": "evidence/%s.json" % pid,
                "replay_cmd_template": "./check %s --replay {path}" % pid,
                "engine": "lean-model+k1+k2",
                "level_claimed": {"category": "proof", "text": text, "design_ref": ref},
                "level_note": note,
                "technique": tech,
            })
    na = [{"property_id": pid, "reason": PLANNED.get(pid, "check under construction in this round (DESIGN.md §7 gives the planned theorems); not claimed until its theorems and tie are committed")}
          for pid in ids if pid not in CLAIMS]
    man = {
        "version": 1,
        "setup_cmd": "./check --setup",
        "hooks": {
            "guard": "olegnn_join_verif",
            "enable": "no hooks needed: the harness links /repo/join_impl as a library (path dependency) and compiles the public macros of /repo/join",
            "baseline_off_cmd": "cd /repo && cargo test --workspace --no-fail-fast --offline --lib --tests",
            "source_commits": [],
            "add_only": True,
        },
        "engines": [
            {"name": "lean-model", "path": "lean/", "serves_properties": sorted(CLAIMS),
             "kind_free_text": "Lean 4 model of parser/generator/emitted-code semantics + reference semantics; property theorems in lean/JoinModel/Props"},
            {"name": "translator", "path": "tools/extract_tables.py", "serves_properties": sorted(CLAIMS),
             "kind_free_text": "regenerates lean/JoinModel/Tables.lean from the Rust sources and the running code on every run"},
            {"name": "k1", "path": "harness/ + tools/k1.py", "serves_properties": sorted(CLAIMS),
             "kind_free_text": "differential: model generator vs real join_impl::generate_join, token for token"},
            {"name": "k2", "path": "tools/k2.py", "serves_properties": sorted(CLAIMS),
             "kind_free_text": "differential: real macros compiled+run vs Lean reference semantics; failing-input search"},
        ],
        "checks": checks,
        "not_applicable": na,
        "notes": "All checks: ./check <ID> --tier quick|thorough; VERIF_SEED honoured; evidence/<ID>.json rewritten on every run; replays/ holds violation replays.",
    }
    with open(os.path.join(ROOT, "MANIFEST.json"), "w") as f:
        json.dump(man, f, indent=1)
        f.write("\n")


if __name__ == "__main__":
    main()
