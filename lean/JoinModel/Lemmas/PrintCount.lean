/-
  The printer writes every user-token-carrying field of the structured code exactly once and adds no user token of its
  own: occurrences of a user identifier in `printCode code` = its occurrences in the hoisted definitions and chain
  expressions of all steps + those in the handler definition.  Together with Lemmas/Conserve.lean (`gen_count`) this
  carries the whole-program token conservation to the emitted token stream (Props/C10 `expansion_conserves_tokens`).
-/
import JoinModel.Lemmas.Conserve
import JoinModel.Print
namespace JoinModel

/-- every identifier the printer writes by itself (keywords, method and type names of the fixed templates) -/
def printerWords : List String :=
  ["let", "move", "Box", "pin", "spawn", "unwrap", "join", "await", "Err", "err", "unreachable", "as_ref", "map", "_", "true",
   "unwrap_or", "false", "__fail_index", "and_then", "match", "Ok", "if", "Some", "iter", "position", "else", "use", "FutureExt",
   "TryFutureExt", "StreamExt", "TryStreamExt", "fn", "T", "F", "__future", "impl", "future", "Future", "Output", "where", "Send",
   "static", "tokio", "unwrap_or_else", "panic", "async"]

/-- a user identifier as far as the printer is concerned -/
structure PMarker (s : String) : Prop extends Marker s where
  words : s ∉ printerWords
  inspectFn : cntToks s Templates.fnInspect = 0
  tbFn : cntToks s Templates.fnTb = 0

theorem cntTT_kw (s w : String) : cntTT s (kw w) = if s = w then 1 else 0 := by
  simp only [kw, cntTT]
  by_cases h : w = s
  · simp [h]
  · have : ¬ s = w := fun h' => h h'.symm
    simp [h, this]

theorem cntTT_lit (s l : String) : cntTT s (.lit l) = 0 := by simp [cntTT]
theorem cntTT_bracket (s : String) (ts : Toks) : cntTT s (bracket ts) = cntToks s ts := by simp [bracket, cntTT]

theorem cntTT_ivar {s : String} (hm : Marker s) (v : Var) (hi : v.isInternal = true) : cntTT s v.tok = 0 :=
  cntTT_var s v (hm.notInternal v hi)

theorem cnt_commaSep (s : String) : ∀ (l : List Toks), cntToks s (commaSep l) = sumList (l.map (cntToks s))
  | [] => by simp [commaSep]
  | [a] => by simp [commaSep]
  | a :: b :: rest => by
    have ih := cnt_commaSep s (b :: rest)
    simp only [commaSep, cntToks_append, cntToks_cons, cntTT_pu, cntToks_nil, ih, List.map_cons, sumList_cons]
    omega

theorem cnt_flatten (s : String) : ∀ (l : List Toks), cntToks s l.flatten = sumList (l.map (cntToks s))
  | [] => by simp
  | a :: rest => by simp [cntToks_append, cnt_flatten s rest]

/-- the word facts as one conjunction simp can split -/
theorem words_facts {s : String} (hm : PMarker s) :
    ¬ s = "let" ∧ ¬ s = "move" ∧ ¬ s = "Box" ∧ ¬ s = "pin" ∧ ¬ s = "spawn" ∧ ¬ s = "unwrap" ∧ ¬ s = "join" ∧ ¬ s = "await" ∧
    ¬ s = "Err" ∧ ¬ s = "err" ∧ ¬ s = "unreachable" ∧ ¬ s = "as_ref" ∧ ¬ s = "map" ∧ ¬ s = "_" ∧ ¬ s = "true" ∧
    ¬ s = "unwrap_or" ∧ ¬ s = "false" ∧ ¬ s = "__fail_index" ∧ ¬ s = "and_then" ∧ ¬ s = "match" ∧ ¬ s = "Ok" ∧ ¬ s = "if" ∧
    ¬ s = "Some" ∧ ¬ s = "iter" ∧ ¬ s = "position" ∧ ¬ s = "else" ∧ ¬ s = "use" ∧ ¬ s = "FutureExt" ∧ ¬ s = "TryFutureExt" ∧
    ¬ s = "StreamExt" ∧ ¬ s = "TryStreamExt" ∧ ¬ s = "fn" ∧ ¬ s = "T" ∧ ¬ s = "F" ∧ ¬ s = "__future" ∧ ¬ s = "impl" ∧
    ¬ s = "future" ∧ ¬ s = "Future" ∧ ¬ s = "Output" ∧ ¬ s = "where" ∧ ¬ s = "Send" ∧ ¬ s = "static" ∧ ¬ s = "tokio" ∧
    ¬ s = "unwrap_or_else" ∧ ¬ s = "panic" ∧ ¬ s = "async" := by
  have h := hm.words
  simpa [printerWords] using h

section
variable {s : String} (hm : PMarker s)
include hm

theorem cnt_call0 (w : String) (hw : ¬ s = w) : cntToks s (call0 w) = 0 := by
  simp [call0, cntTT_kw, hw]

theorem cnt_printElem (e : Elem) : cntToks s (printElem e) = cntToks s e.chain := by
  have hw := words_facts hm
  unfold printElem
  cases e.wrap with
  | plain => cases e.lazy <;> simp [cntToks_append, cntTT_kw, hw]
  | tokio =>
    cases e.lazy <;>
      simp [cntToks_append, cntTT_kw, hw, pathSep, cntTT_ivar hm.toMarker .spawnTokio rfl]
  | thread b =>
    cases e.lazy <;>
      simp [cntToks_append, cntTT_kw, hw, cnt_call0 hm "unwrap" hw.2.2.2.2.2.1, cntTT_ivar hm.toMarker (.j b) rfl]

theorem cnt_projToks (k : Nat) (p : Proj) : cntToks s (projToks k p) = 0 := by
  cases p <;> simp [projToks, indexLit, cntTT_lit, cntTT_ivar hm.toMarker (.sr k) rfl]

theorem cnt_printCapDef (d : CapDef) : cntToks s (printCapDef d) = cntToks s d.toks := by
  have hw := words_facts hm
  simp [printCapDef, cntToks_append, cntTT_kw, hw, cntTT_ivar hm.toMarker (.ew d.b d.e d.i) rfl]

theorem cnt_defs (ds : List CapDef) : cntToks s (ds.flatMap printCapDef) = cntDefs s ds := by
  induction ds with
  | nil => simp [cntDefs]
  | cons d ds ih =>
    simp only [List.flatMap_cons, cntToks_append, ih, cnt_printCapDef hm, cntDefs, List.map_cons, sumList_cons]

theorem cnt_tbs (tbs : List (Nat × Nat)) :
    cntToks s (tbs.flatMap fun (b, arg) => [kw "let", (Var.j b).tok, pu '=', Var.tb.tok, paren [usizeLit arg], pu ';']) = 0 := by
  have hw := words_facts hm
  induction tbs with
  | nil => simp
  | cons x tbs ih =>
    obtain ⟨b, arg⟩ := x
    simp only [List.flatMap_cons, cntToks_append, ih]
    simp [cntTT_kw, hw, usizeLit, cntTT_lit, cntTT_ivar hm.toMarker (.j b) rfl, cntTT_ivar hm.toMarker .tb rfl]

theorem cnt_elems (es : List Elem) : sumList ((es.map printElem).map (cntToks s)) = cntElems s es := by
  induction es with
  | nil => simp [cntElems]
  | cons e es ih =>
    simp only [List.map_cons, sumList_cons, ih, cnt_printElem hm, cntElems]

/-- the joiner tokens of a step's join expression (user-given joiner or `path::join!`) -/
def formToks : JoinForm → Toks
  | .call j => j
  | .futJoin j _ => j
  | .tuple => []
  | .awaitCat => []

theorem cnt_spawnJoin (k : Nat) (ps : List Proj) :
    cntToks s (commaSep (ps.map fun p => projToks k p ++ call0 "join" ++ call0 "unwrap")) = 0 := by
  have hw := words_facts hm
  rw [cnt_commaSep]
  induction ps with
  | nil => simp
  | cons p ps ih =>
    simp only [List.map_cons, sumList_cons, ih, cntToks_append, cnt_projToks hm, cnt_call0 hm "join" hw.2.2.2.2.2.2.1,
      cnt_call0 hm "unwrap" hw.2.2.2.2.2.1]

theorem cnt_spawnJoin' (k : Nat) (ps : List Proj) :
    sumList (ps.map (cntToks s ∘ fun p => projToks k p ++ (call0 "join" ++ call0 "unwrap"))) = 0 := by
  have hw := words_facts hm
  induction ps with
  | nil => simp
  | cons p ps ih =>
    simp only [List.map_cons, sumList_cons, ih, Function.comp, cntToks_append, cnt_projToks hm,
      cnt_call0 hm "join" hw.2.2.2.2.2.2.1, cnt_call0 hm "unwrap" hw.2.2.2.2.2.1]

theorem cnt_elems' (es : List Elem) : sumList (es.map (cntToks s ∘ printElem)) = cntElems s es := by
  rw [← cnt_elems hm, List.map_map]

theorem cnt_printStep (sc : StepCode) :
    cntToks s (printStep sc) = stepCount s sc + cntToks s (formToks sc.form) := by
  have hw := words_facts hm
  have hsr := cntTT_ivar hm.toMarker (.sr sc.k) rfl
  have h1 := cnt_tbs hm sc.tbs
  have h2 := cnt_defs hm sc.defs
  have h3 := cnt_elems' hm sc.elems
  unfold printStep
  cases hf : sc.form <;> cases hj : sc.spawnJoin <;>
    simp [cntToks_append, h1, h2, h3, cnt_commaSep, cnt_flatten, formToks, awaitToks, cntTT_kw, hw, hsr, stepCount,
      cnt_spawnJoin' hm] <;> omega

end

/-! ### what the theorem asks of the other fields of the code: patterns, variables, joiner and path tokens carry no `s` -/

def VarsNe (s : String) (vs : List Var) : Prop := ∀ v ∈ vs, v.render ≠ s
def PatsZ (s : String) (ps : List PatV) : Prop := ∀ p ∈ ps, cntToks s p.toks = 0

def LinkOK (s : String) : Link → Prop
  | .plain pats => PatsZ s pats
  | .failCheck pats flags arms => PatsZ s pats ∧ VarsNe s flags ∧ VarsNe s (arms.map (·.2))
  | .matchOk _ pats => PatsZ s pats

def FinalOK (s : String) : Final → Prop
  | .tuple pats vars => PatsZ s pats ∧ VarsNe s vars
  | .transpose pats vars => PatsZ s pats ∧ VarsNe s vars
  | .matchOkTranspose pats results ret => PatsZ s pats ∧ VarsNe s results ∧ VarsNe s ret
  | .matchOkTuple pats vars => PatsZ s pats ∧ VarsNe s vars
  | .matchOkSingle => True

def StepsOK (s : String) : Steps → Prop
  | .last sc f => cntToks s (formToks sc.form) = 0 ∧ FinalOK s f
  | .cons sc l rest => cntToks s (formToks sc.form) = 0 ∧ LinkOK s l ∧ StepsOK s rest

def HandleOK (s : String) : Handle → Prop
  | .none => True
  | .thenH vs => VarsNe s vs
  | .mapH vs => VarsNe s vs
  | .andThenH vs => VarsNe s vs

section
variable {s : String} (hm : PMarker s)
include hm

omit hm in
theorem sumList_map_zero {α} (f : α → Nat) (l : List α) (h : ∀ x ∈ l, f x = 0) : sumList (l.map f) = 0 := by
  induction l with
  | nil => simp
  | cons a l ih => simp [h a (by simp), ih (fun x hx => h x (by simp [hx]))]

theorem cnt_pats (pats : List PatV) (h : PatsZ s pats) : sumList ((pats.map (·.toks)).map (cntToks s)) = 0 := by
  induction pats with
  | nil => simp
  | cons p ps ih =>
    simp only [List.map_cons, sumList_cons, h p (by simp), ih (fun q hq => h q (by simp [hq]))]

theorem cnt_printExtract (k : Nat) (pats : List PatV) (h : PatsZ s pats) : cntToks s (printExtract k pats) = 0 := by
  have hw := words_facts hm
  simp [printExtract, cntTT_kw, hw, cnt_commaSep, cntTT_ivar hm.toMarker (.sr k) rfl]
  exact sumList_map_zero _ _ (fun p hp => h p hp)

theorem cnt_varsTuple (vars : List Var) (h : VarsNe s vars) : cntToks s (varsTuple vars) = 0 := by
  unfold varsTuple
  rw [cnt_commaSep]
  induction vars with
  | nil => simp
  | cons v vs ih =>
    simp only [List.map_cons, sumList_cons, ih (fun q hq => h q (by simp [hq])), cntToks_cons, cntToks_nil,
      cntTT_var s v (h v (by simp))]

theorem cnt_unreachable : cntToks s unreachableToks = 0 := by
  have hw := words_facts hm
  simp [unreachableToks, cntTT_kw, hw]

theorem cnt_arrow : cntToks s arrow = 0 := by simp [arrow]

theorem cnt_errArm : cntToks s errArm = 0 := by
  have hw := words_facts hm
  simp [errArm, cntToks_append, cntTT_kw, hw, cnt_arrow hm]

theorem cnt_flag (v : Var) (h : v.render ≠ s) : cntToks s (flagToks v) = 0 := by
  have hw := words_facts hm
  simp [flagToks, cntToks_append, cntTT_kw, hw, cnt_call0 hm "as_ref" hw.2.2.2.2.2.2.2.2.2.2.2.1, cntTT_var s v h]

theorem cnt_arm (a : Nat × Var) (h : a.2.render ≠ s) : cntToks s (armToks a) = 0 := by
  have hw := words_facts hm
  simp [armToks, cntToks_append, cntTT_kw, hw, usizeLit, cntTT_lit, cnt_arrow hm, cnt_unreachable hm, cntTT_var s a.2 h]

theorem cnt_transposer (ret : Toks) (hret : cntToks s ret = 0) :
    ∀ (vars : List Var), VarsNe s vars → cntToks s (transposerToks vars ret) = 0
  | [], _ => by simp [transposerToks]
  | [x], h => by
    have hw := words_facts hm
    simp [transposerToks, cntTT_kw, hw, cntTT_var s x (h x (by simp)), hret]
  | x :: y :: vs, h => by
    have hw := words_facts hm
    have ih := cnt_transposer ret hret (y :: vs) (fun q hq => h q (by simp at hq ⊢; exact Or.inr hq))
    simp [transposerToks, cntToks_append, cntTT_kw, hw, cntTT_var s x (h x (by simp))] at ih ⊢
    exact ih

theorem cnt_matchOk (k : Nat) (bind : TT) (body : Toks) (hb : cntTT s bind = 0) :
    cntToks s (matchOkToks k bind body) = cntToks s body := by
  have hw := words_facts hm
  simp [matchOkToks, cntToks_append, cntTT_kw, hw, cnt_arrow hm, cnt_errArm hm, cntTT_ivar hm.toMarker (.sr k) rfl, hb]

theorem cnt_printLink (k : Nat) (l : Link) (next : Toks) (h : LinkOK s l) :
    cntToks s (printLink k l next) = cntToks s next := by
  have hw := words_facts hm
  have hsr := cntTT_ivar hm.toMarker (.sr k) rfl
  have hv := cntTT_ivar hm.toMarker .v rfl
  cases l with
  | plain pats => simp [printLink, cntToks_append, cnt_printExtract hm k pats h]
  | failCheck pats flags arms =>
    obtain ⟨h1, h2, h3⟩ := h
    have hf : sumList (flags.map (cntToks s ∘ flagToks)) = 0 :=
      sumList_map_zero _ _ (fun v hv' => cnt_flag hm v (h2 v hv'))
    have ha : sumList (arms.map (cntToks s ∘ armToks)) = 0 :=
      sumList_map_zero _ _ (fun a ha' => cnt_arm hm a (h3 a.2 (List.mem_map.mpr ⟨a, ha', rfl⟩)))
    simp [printLink, cntToks_append, cnt_printExtract hm k pats h1, cntTT_kw, hw, failIndex, cntTT_bracket, cnt_commaSep,
      hf, ha, cnt_call0 hm "iter" hw.2.2.2.2.2.2.2.2.2.2.2.2.2.2.2.2.2.2.2.2.2.2.2.1,
      cnt_arrow hm, cnt_unreachable hm, hv]
  | matchOk rewrap pats =>
    have hx := cnt_printExtract hm k pats h
    cases rewrap with
    | none => simp [printLink, cnt_matchOk hm k _ _ hsr, cntToks_append, hx]
    | some ps =>
      have hps : sumList (ps.map (cntToks s ∘ fun p => [kw "Ok", paren (projToks k p)])) = 0 :=
        sumList_map_zero _ _ (fun p _ => by simp [cntTT_kw, hw, cnt_projToks hm])
      simp [printLink, cnt_matchOk hm k _ _ hsr, cntToks_append, hx, cntTT_kw, hw, hsr, cnt_commaSep, hps]

theorem cnt_printFinal (k : Nat) (f : Final) (h : FinalOK s f) : cntToks s (printFinal k f) = 0 := by
  have hw := words_facts hm
  have hsr := cntTT_ivar hm.toMarker (.sr k) rfl
  have hv := cntTT_ivar hm.toMarker .v rfl
  cases f with
  | tuple pats vars => simp [printFinal, cntToks_append, cnt_printExtract hm k pats h.1, cnt_varsTuple hm vars h.2]
  | transpose pats vars =>
    simp [printFinal, cntToks_append, cnt_printExtract hm k pats h.1, cnt_transposer hm _ (cnt_varsTuple hm vars h.2) vars h.2]
  | matchOkTranspose pats results ret =>
    simp [printFinal, cnt_matchOk hm k _ _ hsr, cntToks_append, cnt_printExtract hm k pats h.1,
      cnt_transposer hm _ (cnt_varsTuple hm ret h.2.2) results h.2.1]
  | matchOkTuple pats vars =>
    simp [printFinal, cnt_matchOk hm k _ _ hsr, cntToks_append, cnt_printExtract hm k pats h.1, cnt_varsTuple hm vars h.2,
      cntTT_kw, hw]
  | matchOkSingle => simp [printFinal, cnt_matchOk hm k _ _ hv, cntTT_kw, hw, hv]

theorem cnt_printSteps : ∀ (st : Steps), StepsOK s st → cntToks s (printSteps st) = stepsCount s st
  | .last sc f, h => by
    simp [printSteps, cntToks_append, cnt_printStep hm sc, cnt_printFinal hm sc.k f h.2, h.1, stepsCount]
  | .cons sc l rest, h => by
    have ih := cnt_printSteps rest h.2.2
    simp [printSteps, cntToks_append, cnt_printStep hm sc, cnt_printLink hm sc.k l _ h.2.1, h.1, stepsCount, ih]

theorem cnt_printCall (vars : List Var) (h : VarsNe s vars) : cntToks s (printCall vars) = 0 := by
  have hw := words_facts hm
  simp [printCall, cntToks_append, cntTT_kw, hw, cnt_varsTuple hm vars h, cntTT_ivar hm.toMarker .rs rfl,
    cntTT_ivar hm.toMarker .h rfl]

theorem cnt_printHandle (isAsync : Bool) (hd : Handle) (h : HandleOK s hd) : cntToks s (printHandle isAsync hd) = 0 := by
  have hw := words_facts hm
  have hrs := cntTT_ivar hm.toMarker .rs rfl
  cases hd with
  | none => simp [printHandle, hrs]
  | thenH vars => cases isAsync <;> simp [printHandle, cntToks_append, cnt_printCall hm vars h, awaitToks, cntTT_kw, hw]
  | mapH vars =>
    cases isAsync <;>
      simp [printHandle, cntToks_append, cnt_printCall hm vars h, awaitToks, cntTT_kw, hw, hrs, wrapIntoBlock,
        cntTT_id s "async" hm.notAsync, cntTT_id s "move" hm.notMove]
  | andThenH vars =>
    cases isAsync <;>
      simp [printHandle, cntToks_append, cnt_printCall hm vars h, awaitToks, cntTT_kw, hw, hrs, wrapIntoBlock,
        cntTT_id s "async" hm.notAsync, cntTT_id s "move" hm.notMove]

theorem cnt_useFutures (fcp : Toks) (h : cntToks s fcp = 0) : cntToks s (useFutures fcp) = 0 := by
  have hw := words_facts hm
  simp [useFutures, cntToks_append, cntTT_kw, hw, pathSep, h]

theorem cnt_fnSpawnTokio (fcp : Toks) (h : cntToks s fcp = 0) : cntToks s (fnSpawnTokio fcp) = 0 := by
  have hw := words_facts hm
  simp [fnSpawnTokio, cntToks_append, cntTT_kw, hw, pathSep, h, cntTT_lit, cntTT_ivar hm.toMarker .spawnTokio rfl,
    cntTT_ivar hm.toMarker .v rfl]

/-- **The printer adds no user token and writes every user-token-carrying field once.** -/
theorem cnt_printCode (c : Code) (hst : StepsOK s c.steps) (hh : HandleOK s c.handle) (hf : cntToks s (c.fcp.getD []) = 0) :
    cntToks s (printCode c) = stepsCount s c.steps + cntToks s (c.handlerDef.getD []) := by
  have hw := words_facts hm
  have hrs := cntTT_ivar hm.toMarker .rs rfl
  have hh' := cntTT_ivar hm.toMarker .h rfl
  have h1 := cnt_printSteps hm c.steps hst
  have h2 := cnt_printHandle hm c.kind.isAsync c.handle hh
  unfold printCode
  cases hd : c.handlerDef <;> cases ha : c.kind.isAsync <;> cases hsp : c.kind.isSpawn <;>
    simp [ha] at h2 <;>
    simp [cntToks_append, cntTT_kw, hw, hrs, hh', h1, h2, pathSep, cnt_useFutures hm _ hf, cnt_fnSpawnTokio hm _ hf,
      hm.inspectFn, hm.tbFn] <;> omega

end

/-! ### the code `gen` produces meets these side conditions -/

/-- what is asked of the program's *other* user tokens: the `let` patterns, the joiner and the futures path do not
    mention `s` (the theorem counts the operands' occurrences), and `s` is none of the three words of the default join
    macro path -/
structure OtherTokensFree (s : String) (p : Input) : Prop where
  pats : ∀ b ∈ p.branches, ∀ pt, b.pat = some pt → pt.ident ≠ s ∧ cntToks s pt.toks = 0
  joiner : cntToks s (p.joiner.getD []) = 0
  fcp : cntToks s (p.fcp.getD []) = 0
  notFutures : "futures" ≠ s
  notJoin : "join" ≠ s
  notTryJoin : "try_join" ≠ s

def CtxFree (s : String) (c : Ctx) : Prop :=
  (∀ pv ∈ c.pats, cntToks s pv.toks = 0 ∧ pv.var.render ≠ s) ∧ cntToks s (c.joiner.getD []) = 0 ∧
  cntToks s (c.fcp.getD []) = 0

section
variable {s : String} (hm : PMarker s)
include hm

theorem mkCtx_free (p : Input) (kind : Kind) (c : Ctx) (h : mkCtx p kind = .ok c) (ho : OtherTokensFree s p) :
    CtxFree s c := by
  unfold mkCtx at h
  split at h
  · cases h
  · split at h
    · cases h
    · split at h
      · cases h
      · split at h
        · cases h
        · cases h
          refine ⟨?_, ho.joiner, ?_⟩
          · intro pv hpv
            obtain ⟨⟨b, i⟩, hbi, rfl⟩ := List.mem_map.mp hpv
            have hb : b ∈ p.branches := (List.mem_zipIdx hbi).2.2 ▸ List.getElem_mem _
            simp only [branchPat]
            cases hpat : b.pat with
            | none => exact ⟨by simp [cntTT_ivar hm.toMarker (.r i) rfl], hm.notInternal (.r i) rfl⟩
            | some pt => exact ⟨(ho.pats b hb pt hpat).2, (ho.pats b hb pt hpat).1⟩
          · simp only
            cases hf : p.fcp with
            | some f => have := ho.fcp; rw [hf] at this; simpa using this
            | none =>
              cases kind.isAsync
              · simp
              · simp [defaultFcp, cntTT_id s "futures" ho.notFutures]

theorem activePats_free (c : Ctx) (k : Nat) (hc : CtxFree s c) :
    PatsZ s (c.activePats k) ∧ VarsNe s (c.activeVars k) := by
  have hmem : ∀ pv ∈ c.activePats k, pv ∈ c.pats := by
    intro pv hpv
    simp only [Ctx.activePats, List.mem_map, List.mem_filter] at hpv
    obtain ⟨⟨pv', i⟩, ⟨hin, _⟩, rfl⟩ := hpv
    exact (List.mem_zipIdx hin).2.2 ▸ List.getElem_mem _
  refine ⟨fun pv hpv => (hc.1 pv (hmem pv hpv)).1, ?_⟩
  intro v hv
  simp only [Ctx.activeVars, List.mem_map] at hv
  obtain ⟨pv, hpv, rfl⟩ := hv
  exact (hc.1 pv (hmem pv hpv)).2

theorem vars_free (c : Ctx) (hc : CtxFree s c) : VarsNe s c.vars := by
  intro v hv
  simp only [Ctx.vars, List.mem_map] at hv
  obtain ⟨pv, hpv, rfl⟩ := hv
  exact (hc.1 pv hpv).2

theorem inactiveVars_free (c : Ctx) (k : Nat) (hc : CtxFree s c) : VarsNe s (c.inactiveVars k) := by
  intro v hv
  simp only [Ctx.inactiveVars, List.mem_map, List.mem_filter] at hv
  obtain ⟨⟨pv, i⟩, ⟨hin, _⟩, rfl⟩ := hv
  exact (hc.1 pv ((List.mem_zipIdx hin).2.2 ▸ List.getElem_mem _)).2

theorem genLink_ok (c : Ctx) (k : Nat) (hc : CtxFree s c) : LinkOK s (genLink c k) := by
  obtain ⟨h1, h2⟩ := activePats_free hm c k hc
  unfold genLink
  split
  · split
    · refine ⟨h1, h2, ?_⟩
      intro v hv
      simp only [Ctx.failArms, List.map_map, List.mem_map, Function.comp] at hv
      obtain ⟨⟨x, pos⟩, hx, rfl⟩ := hv
      exact h2 x ((List.mem_zipIdx hx).2.2 ▸ List.getElem_mem _)
    · exact h1
  · exact h1

theorem genFinal_ok (c : Ctx) (k : Nat) (hc : CtxFree s c) : FinalOK s (genFinal c k) := by
  obtain ⟨h1, _⟩ := activePats_free hm c k hc
  have hv := vars_free hm c hc
  have hi := inactiveVars_free hm c k hc
  unfold genFinal
  split
  · exact ⟨h1, hv⟩
  · split
    · split
      · split
        · exact ⟨h1, hv⟩
        · exact ⟨h1, hi, hv⟩
      · trivial
    · exact ⟨h1, hv⟩

theorem genStep_form (c : Ctx) (k : Nat) (sc : StepCode) (h : genStep c k = .ok sc) (hc : CtxFree s c)
    (hj : "join" ≠ s) (htj : "try_join" ≠ s) : cntToks s (formToks sc.form) = 0 := by
  unfold genStep at h
  split at h
  · cases h
  · cases h
    simp only
    obtain ⟨_, hjn, hfcp⟩ := hc
    by_cases hmulti : c.activeCount k > 1
    · cases hjo : c.joiner with
      | some j =>
        rw [hjo] at hjn
        simp [hmulti, hjo, formToks]
        simpa using hjn
      | none =>
        cases ha : c.kind.isAsync
        · simp [hmulti, hjo, ha, formToks]
        · cases ht : c.kind.isTry <;>
            simp [hmulti, hjo, ha, ht, formToks, cntToks_append, hfcp, cntTT_id s _ hj, cntTT_id s _ htj]
    · cases ha : c.kind.isAsync <;> simp [hmulti, ha, formToks]

theorem genSteps_ok (c : Ctx) (hc : CtxFree s c) (hj : "join" ≠ s) (htj : "try_join" ≠ s) :
    ∀ (rem k : Nat) (steps : Steps), genSteps c rem k = .ok steps → StepsOK s steps := by
  intro rem
  induction rem with
  | zero =>
    intro k steps h
    simp only [genSteps] at h
    split at h
    · cases h
    · rename_i sc hs
      cases h
      exact ⟨genStep_form hm c k sc hs hc hj htj, genFinal_ok hm c k hc⟩
  | succ rem ih =>
    intro k steps h
    simp only [genSteps] at h
    split at h
    · cases h
    · rename_i sc hs
      split at h
      · cases h
      · rename_i rest hrest
        cases h
        exact ⟨genStep_form hm c k sc hs hc hj htj, genLink_ok hm c k hc, ih (k + 1) rest hrest⟩

theorem genHandle_ok (c : Ctx) (h : Option (HKind × Toks)) : HandleOK s (genHandle c h) := by
  have hr : VarsNe s ((List.range c.n).map Var.r) := by
    intro v hv
    obtain ⟨i, _, rfl⟩ := List.mem_map.mp hv
    exact hm.notInternal (.r i) rfl
  unfold genHandle
  split
  · trivial
  · exact hr
  · exact hr
  · exact hr

/-- **From the program to the emitted tokens**: occurrences of a user identifier in the expansion = its occurrences in
    the operands of the program + those in the handler. -/
theorem expansion_count (p : Input) (kind : Kind) (code : Code) (h : gen p kind = .ok code) (hinit : InitialOnlyFirst p)
    (ho : OtherTokensFree s p) :
    cntToks s (printCode code) = cntProgram s p + cntToks s ((p.handler.map (·.2)).getD []) := by
  have hcount := gen_count hm.toMarker p kind code h hinit (fun b hb pt hpt => (ho.pats b hb pt hpt).1)
  unfold gen at h
  cases hc : mkCtx p kind with
  | error e => simp [hc] at h
  | ok c =>
    simp only [hc] at h
    split at h
    · cases h
    · split at h
      · cases h
      · rename_i steps hsteps
        cases h
        have hfree := mkCtx_free hm p kind c hc ho
        have hst := genSteps_ok hm c hfree ho.notJoin ho.notTryJoin _ 0 steps hsteps
        rw [cnt_printCode hm _ hst (genHandle_ok hm c p.handler) hfree.2.2, ← hcount]

end

end JoinModel
