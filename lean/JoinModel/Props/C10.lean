/-
  C10 — every user expression runs exactly once; values move, never copy.
  In the reference loop every reached atom (block capture, chain of an active branch, handler definition, handler
  call) is evaluated exactly once per step it belongs to — the loop is a fold over the active branches — and the
  generated code has exactly these events (`generated_eq_reference`).  "Nothing dropped from or duplicated in the
  expansion" at token level, moves and drops: K1 with unique operand markers (each must occur exactly once in the
  real output), K2 event multisets; rustc's move semantics are outside Lean (partial).
-/
import JoinModel.Props.Common
import JoinModel.Templates
namespace JoinModel.Props.C10
open JoinModel JoinModel.Props

/-- the block captures of a step are pairwise distinct atoms, each evaluated once -/
theorem captures_once (sc : SpecCfg) (k : Nat) (vis : List (String × Value)) (capss : List (List Value))
    (h : (specCapsAll sc k vis (sc.active k)).res = .ok capss) :
    (specCapsAll sc k vis (sc.active k)).trace.Nodup := by
  rw [specCapsAll_trace_ok sc k vis _ capss h]
  have hact := active_nodup sc k
  generalize sc.active k = act at hact
  induction act with
  | nil => simp
  | cons b bs ih =>
    have hb := List.nodup_cons.mp hact
    simp only [List.flatMap_cons]
    refine List.nodup_append.mpr ⟨?_, ih hb.2, ?_⟩
    · -- positions (e, i) of one branch are distinct
      have hk : (capKeys (sc.acts b k)).Nodup := capDefsOf_keys_nodup 0 (sc.acts b k) 0
      generalize capKeys (sc.acts b k) = keys at hk
      induction keys with
      | nil => simp
      | cons ei rest ih2 =>
        have hk' := List.nodup_cons.mp hk
        simp only [List.map_cons, List.nodup_cons, List.mem_map, not_exists, not_and]
        refine ⟨?_, ih2 hk'.2⟩
        intro ei' hei' heq
        simp only [MEv.ev.injEq, Ev.cap.injEq, true_and, and_true] at heq
        exact hk'.1 (by rw [← Prod.ext_iff.mpr heq]; exact hei')
    · intro x hx y hy hxy
      subst hxy
      obtain ⟨ei, _, rfl⟩ := List.mem_map.mp hx
      obtain ⟨b', hb', hy'⟩ := List.mem_flatMap.mp hy
      obtain ⟨ei', _, heq⟩ := List.mem_map.mp hy'
      simp only [MEv.ev.injEq, Ev.cap.injEq] at heq
      exact hb.1 (heq.1 ▸ hb')

/-- in a step that returns, every active branch's chain ran exactly once: one `(branch, step, value)` entry each -/
theorem chains_once (sc : SpecCfg) (k : Nat) (vals : List (Option Value)) (vis : List (String × Value))
    (caps : List (List Value)) (hl : (sc.active k).length = caps.length) (news : List Value)
    (h : (specChains sc k vals vis (sc.active k) caps).res = .ok news) :
    (chainEnds (specChains sc k vals vis (sc.active k) caps).trace).map (fun e => e.1) = sc.active k ∧
    (sc.active k).Nodup := by
  refine ⟨?_, active_nodup sc k⟩
  rw [specChains_ends sc k vals vis _ caps hl news h]
  have hnl := specChains_length _ _ _ _ _ _ hl _ h
  simp only [List.map_map]
  have : ((fun (e : Nat × Nat × Value) => e.1) ∘ fun (bv : Nat × Value) => (bv.1, k, bv.2)) = Prod.fst := by
    funext bv; rfl
  rw [this, List.map_fst_zip]
  omega

/-- the handler is defined once (before the steps) and called at most once (after them): Props/C13 `call_trace` -/
theorem handler_def_once (σ : World) (p : Input) :
    (handlerDefOf σ p).trace = (match p.handler with | some _ => [.ev .handlerDef] | none => []) := by
  unfold handlerDefOf
  cases p.handler <;> simp [M.ret, M.tell, M.andThen, M.lift]

/-- the inspect helper calls its callback once with a reference and returns the value: the body of the emitted
    `fn __inspect<I>(__h: impl Fn(&I) -> (), __v: I) -> I` is `{ __h(&__v); __v }` -/
theorem inspect_helper_body :
    Templates.fnInspect.getLast? = some (brace [Var.h.tok, paren [pu '&', Var.v.tok], pu ';', Var.v.tok]) := by
  simp [Templates.fnInspect, brace, paren, pu]

end JoinModel.Props.C10
