/-
  C07 — spawn variants and alias macros agree with their plain counterparts.
  Table part: every proc-macro entry point is `generate_join(parsed, Config{..})` with three booleans
  (the extractor checks that the twelve bodies are textually identical apart from them); the extracted
  table equals the documented one, aliases have the configuration of the macro they alias, and a spawn
  variant differs from its plain counterpart in the `is_spawn` flag only.
  Semantic part (last section): with `is_spawn` switched on the reference semantics — and, by the refinement theorem, the
  generated code — ends with the same outcome.
-/
import JoinModel.Gen
import JoinModel.SpecTables
import JoinModel.Refinement
import JoinModel.Lemmas.SpawnAgree
import JoinModel.Lemmas.ParseHead
namespace JoinModel.Props.C07
open JoinModel

/-- Configuration of the macro called `name`, from the table extracted from join/src/lib.rs. -/
def kindOf (name : String) : Option Kind :=
  (Tables.macroKinds.find? (·.name == name)).map fun r => ⟨r.isAsync, r.isTry, r.isSpawn⟩

/-- Expansion of the macro called `name` on the parsed input `p`. -/
def expand (name : String) (p : Input) : Option (Except GenErr Code) := (kindOf name).map (gen p)

/-- the extracted table is the documented one (in whatever order lib.rs defines the entry points) -/
theorem macro_kinds_documented : Tables.macroKinds.Perm SpecTables.macroKinds := by decide

theorem alias_kinds : ∀ a ∈ SpecTables.aliases, kindOf a.1 = kindOf a.2 ∧ (kindOf a.1).isSome := by decide

/-- An alias expands every input to exactly the code of the macro it aliases. -/
theorem alias_same_expansion (p : Input) :
    ∀ a ∈ SpecTables.aliases, expand a.1 p = expand a.2 p ∧ (expand a.1 p).isSome := by
  intro a ha
  have h := alias_kinds a ha
  unfold expand
  rw [h.1]
  refine ⟨rfl, ?_⟩
  rw [← h.1]
  cases hk : kindOf a.1 with
  | none => rw [hk] at h; exact absurd h.2 (by simp)
  | some k => simp

/-- A spawn variant has the configuration of its plain counterpart with `is_spawn` switched on. -/
def spawnPairOk (a : String × String) : Bool :=
  match kindOf a.1, kindOf a.2 with
  | some s, some p => s.isAsync == p.isAsync && s.isTry == p.isTry && s.isSpawn && !p.isSpawn
  | _, _ => false

theorem spawn_pairs_differ_only_in_spawn : ∀ a ∈ SpecTables.spawnPairs, spawnPairOk a = true := by
  decide

/-- All twelve documented names are defined, with pairwise distinct names. -/
theorem twelve_macros : Tables.macroKinds.length = 12 ∧ (Tables.macroKinds.map (·.name)).Nodup := by decide

/-! ### spawn variants compute what their plain counterparts compute -/

/-- the configuration with `is_spawn` switched on -/
def spawnOf (k : Kind) : Kind := { k with isSpawn := true }

theorem specRun_spawn_sim (σ : World) (parent : Option String) (p : Input) (kind : Kind)
    (hs : kind.isSpawn = false) (ha : kind.isAsync = false) :
    (specRun σ parent p kind).res.sim (specRun σ parent p (spawnOf kind)).res := by
  unfold specRun
  refine M.andThen_sim _ _ _ _ (Res.sim_refl _) (fun _ => ?_)
  refine M.andThen_sim _ _ _ _ ?_ (fun f => ?_)
  · exact specLoop_spawning_sim ⟨σ, kind, _, parent, _⟩ hs ha _ _ _
  · -- the handler does not look at `is_spawn`
    cases f <;> cases p.handler.map Prod.fst <;> first | exact Res.sim_refl _ | (rename_i hk; cases hk <;> exact Res.sim_refl _)

/-- **`join!` / `join_spawn!`, `try_join!` / `try_join_spawn!`.**  For every program both variants support, every world
    and calling thread: the code generated for the thread-spawning macro and the code generated for the plain macro end
    with the same value (in try macros: the same tuple, or the same failure) — or both panic. -/
theorem spawn_agrees (σ : World) (parent : Option String) (p : Input) (kind : Kind) (code code' : Code)
    (hs : kind.isSpawn = false) (ha : kind.isAsync = false)
    (hsup : Supported p kind) (hsup' : Supported p (spawnOf kind))
    (hgen : gen p kind = .ok code) (hgen' : gen p (spawnOf kind) = .ok code') :
    (evalCode σ parent code).res.sim (evalCode σ parent code').res := by
  rw [sync_refines σ parent p kind code hsup hgen, sync_refines σ parent p (spawnOf kind) code' hsup' hgen']
  exact specRun_spawn_sim σ parent p kind hs ha

/-- **The same macro body under `join!` and `join_spawn!` (`try_join!` / `try_join_spawn!`)**, from the tokens: the parser
    does not know the macro's name, so one token list gives one parsed program; whatever it accepts (any behaviour of syn;
    default options, distinct `let` names), the two expansions end with the same value or both panic. -/
theorem accepted_spawn_agrees (o : Oracle) (toks : Toks) (σ : World) (parent : Option String) (p : Input) (kind : Kind)
    (code code' : Code) (hparse : parseMacroInput o toks = .ok p) (hs : kind.isSpawn = false) (ha : kind.isAsync = false)
    (hj : p.joiner = none) (hl : p.lazy = none) (htr : p.transpose ≠ some false)
    (hnames : (p.branches.filterMap fun b => b.pat.map (·.ident)).Nodup)
    (hgen : gen p kind = .ok code) (hgen' : gen p (spawnOf kind) = .ok code') :
    (evalCode σ parent code).res.sim (evalCode σ parent code').res := by
  have base : SupportedBase p :=
    { noJoiner := hj, noLazy := hl, namesNodup := hnames, firstInitial := parse_first_initial o toks p hparse }
  exact spawn_agrees σ parent p kind code code' hs ha
    { base with asyncNotTry := (fun h => by rw [ha] at h; cases h), transposeDefault := htr }
    { base with asyncNotTry := (fun h => by simp [spawnOf, ha] at h), transposeDefault := htr } hgen hgen'

/-- **`join_async!` / `join_async_spawn!`.**  Under the canonical schedule the two generated codes have the same events and
    the same outcome (the reference semantics does not depend on `is_spawn` for async macros; what tokio adds is outside the
    model). -/
theorem async_spawn_agrees (σ : World) (parent : Option String) (p : Input) (kind : Kind) (code code' : Code)
    (ha : kind.isAsync = true) (hsup : Supported p kind) (hsup' : Supported p (spawnOf kind))
    (hgen : gen p kind = .ok code) (hgen' : gen p (spawnOf kind) = .ok code') :
    evalCode σ parent code' = evalCode σ parent code := by
  rw [sync_refines σ parent p kind code hsup hgen, sync_refines σ parent p (spawnOf kind) code' hsup' hgen']
  unfold specRun
  have := specLoop_async_spawning ⟨σ, kind, p.branches.map (fun b => b.pat.map (·.ident)), parent,
    p.branches.map fun b => splitSteps b.members⟩ ha
  simp only [SpecCfg.spawning] at this
  simp only [spawnOf, this]
  rfl

/-- the spawn pairs of the documented table are `spawnOf` pairs -/
theorem spawn_pairs_are_spawnOf : ∀ a ∈ SpecTables.spawnPairs,
    (match kindOf a.1, kindOf a.2 with
      | some s, some pl => decide (s = spawnOf pl) && !pl.isSpawn
      | _, _ => false) = true := by decide

/-- the hypotheses of `spawn_agrees` are satisfiable: `a |> f, b` is supported as `join!` and as `join_spawn!`, and both
    expansions exist -/
example :
    let mk (c : Comb) : Member := ⟨c, false, .none, [⟨.expr, [.ident "x"]⟩]⟩
    let p : Input := { branches := [⟨none, [mk .initial, mk .map]⟩, ⟨none, [mk .initial]⟩] }
    Supported p ⟨false, false, false⟩ ∧ Supported p (spawnOf ⟨false, false, false⟩) ∧
    (gen p ⟨false, false, false⟩).toOption.isSome = true ∧ (gen p (spawnOf ⟨false, false, false⟩)).toOption.isSome = true := by
  intro mk p
  refine ⟨⟨⟨rfl, rfl, ?_, ?_⟩, ?_, ?_⟩, ⟨⟨rfl, rfl, ?_, ?_⟩, ?_, ?_⟩, rfl, rfl⟩
  all_goals first
    | (intro b hb; simp only [p, List.mem_cons, List.not_mem_nil, or_false] at hb
       rcases hb with rfl | rfl <;> exact ⟨_, _, rfl, rfl, rfl⟩)
    | decide
    | (intro h; cases h)

end JoinModel.Props.C07
