/-
  Driver side of the parser correspondence: builds an `Oracle` from the answers the harness computed with syn
  (harness/src/oracle.rs) and runs the parser model on the same tokens.
-/
import Std.Data.HashMap
import JoinModel.Parse
namespace JoinModel

/-- `collect_from` of the harness: what a unit starting here collects if it never stops -/
def collectFrom : Nat → Toks → Toks
  | 0, _ => []
  | _, [] => []
  | fuel + 1, t :: rest =>
    match t with
    | .punct '~' _ =>
      match rest with
      | [] => []
      | u :: rest' => u :: collectFrom fuel rest'
    | _ => t :: collectFrom fuel rest

structure OTable where
  expr : Std.HashMap String (Bool × Option Toks) := {}       -- key ↦ (isBlock, reprint)
  type : Std.HashMap String (Option Toks) := {}
  lets : Std.HashMap String LetInfo := {}
  prefixes : Std.HashMap String (Option Nat × Option Toks) := {}
  paths : Std.HashMap String (Option Nat) := {}
  bools : Std.HashMap String (Option Bool) := {}
  bad : Bool := false

def OTable.addEntry (toks : Toks) (t : OTable) (entry : String) : OTable :=
  let fields := (entry.splitOn " :: ").map trimS
  let listOf (i k : Nat) : String := showToks ((collectFrom (toks.length + 1) (toks.drop i)).take k)
  match fields with
  | [] => { t with bad := true }
  | hd :: more =>
    match hd.splitOn " ", more with
    | ["E", i, k, b], rp =>
      match i.toNat?, k.toNat? with
      | some i, some k =>
        let re := match rp with | [r] => parseToks r | _ => none
        { t with expr := t.expr.insert (listOf i k) (b == "B", re) }
      | _, _ => { t with bad := true }
    | ["T", i, k], rp =>
      match i.toNat?, k.toNat? with
      | some i, some k =>
        let re := match rp with | [r] => parseToks r | _ => none
        { t with type := t.type.insert (listOf i k) re }
      | _, _ => { t with bad := true }
    | ["L", i, k], ["O"] =>
      match i.toNat?, k.toNat? with
      | some i, some k => { t with lets := t.lets.insert (listOf i k) .otherPat }
      | _, _ => { t with bad := true }
    | ["L", i, k], ["I", pat, ident, rhs, b] =>
      match i.toNat?, k.toNat?, parseToks pat, parseToks rhs with
      | some i, some k, some pat, some rhs => { t with lets := t.lets.insert (listOf i k) (.identPat pat ident rhs (b == "B")) }
      | _, _, _, _ => { t with bad := true }
    | ["P", i, n], rp =>
      match i.toNat? with
      | some i =>
        let re := match rp with | [r] => parseToks r | _ => none
        { t with prefixes := t.prefixes.insert (showToks (toks.drop i)) (n.toNat?, re) }
      | none => { t with bad := true }
    | ["OP", g, n], [] =>
      match g.toNat? with
      | some g =>
        match toks[g]? with
        | some (.group .paren content) => { t with paths := t.paths.insert (showToks content) n.toNat? }
        | _ => { t with bad := true }
      | none => { t with bad := true }
    | ["OB", g, b], [] =>
      match g.toNat? with
      | some g =>
        match toks[g]? with
        | some (.group .paren content) => { t with bools := t.bools.insert (showToks content) (parseBoolTF b) }
        | _ => { t with bad := true }
      | none => { t with bad := true }
    | _, _ => { t with bad := true }

def OTable.ofString (toks : Toks) (s : String) : OTable :=
  if trimS s = "-" then {} else (s.splitOn " ;; ").foldl (OTable.addEntry toks) {}

def OTable.oracle (t : OTable) : Oracle where
  validExpr ts := t.expr.contains (showToks ts)
  validType ts := t.type.contains (showToks ts)
  isBlock ts := match t.expr.get? (showToks ts) with | some (b, _) => b | none => false
  letSplit ts := (t.lets.get? (showToks ts)).getD .notLet
  reprintExpr ts :=
    match t.expr.get? (showToks ts) with
    | some (_, some r) => r
    | _ => ts
  reprintType ts := match t.type.get? (showToks ts) with | some (some r) => r | _ => ts
  exprPrefix ts :=
    match t.prefixes.get? (showToks ts) with
    | some (some n, re) => some (n, re.getD (ts.take n))
    | _ => none
  pathPrefix ts := (t.paths.get? (showToks ts)).getD none
  litBool ts := (t.bools.get? (showToks ts)).getD none

/-- `PARSE id toks oracle` -/
def parseCommand (id toks oracle : String) : String :=
  match parseToks toks with
  | none => id ++ "\tbadinput\t-"
  | some ts =>
    let tab := OTable.ofString ts oracle
    if tab.bad then id ++ "\tbadoracle\t-" else
    match parseMacroInput tab.oracle ts with
    | .ok p => id ++ "\tok\t" ++ showInput p
    | .error e => id ++ "\terr:" ++ e.cls ++ "\t-"

end JoinModel
