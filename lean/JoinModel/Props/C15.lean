/-
  C15 — expansion is total: valid code or a diagnostic, never an internal panic.

  The model pipeline is a total Lean function in which every `expect()` / `unwrap()` / `panic!` site of the generator
  is an explicit outcome (`GenErr.internal`).  `no_internal_bug`: for every program whose steps are balanced
  (no `<<<` without an open `>>>` *in the same step* — what the chain builder enforces since /repo 225b285) and whose
  members have the operand counts the parser produces, the generator returns code or one of the four whitelisted
  configuration rejections — never an internal error.  The parser half (every structurally invalid input is rejected
  with a message) is decided by K1 with the implementation-side oracle (tools/props.py `judge_total`).
-/
import JoinModel.Lemmas.Nest
import JoinModel.Lemmas.GenFacts
import JoinModel.SpecTables
namespace JoinModel.Props.C15
open JoinModel

/-- running `>>>`/`<<<` balance of a step's actions never drops below zero -/
def balanced : List Member → Nat → Bool
  | [], _ => true
  | m :: ms, d =>
    match m.mv with
    | .wrap => balanced ms (d + 1)
    | .unwrap => decide (0 < d) && balanced ms (d - 1)
    | .none => balanced ms d

/-- operand counts as the parser builds them (table T6 = README, Props/C01 `arity_documented`) -/
def arityOK (m : Member) : Bool :=
  match m.mv with
  | .unwrap => true
  | .wrap => m.ops.length == 1 && SpecTables.wrappers.contains m.ctor
  | .none =>
    m.ctor != .unwrap &&
    (m.ops.length == (SpecTables.arity m.ctor).count || ((SpecTables.arity m.ctor).allowEmpty && m.ops.isEmpty))

theorem hoist_length (b e : Nat) (m : Member) : (hoist b e m).2.length = m.ops.length := by
  unfold hoist
  split <;> simp

/-- applying a member with a documented operand count never fails -/
theorem applyCtor_ok (a : Bool) (prev : Toks) (c : Comb) (ops : List Toks) (hc : c ≠ .unwrap)
    (h : ops.length = (SpecTables.arity c).count ∨ ((SpecTables.arity c).allowEmpty = true ∧ ops = [])) :
    ∃ t, applyCtor a prev c ops = .ok t := by
  rcases ops with _ | ⟨x, _ | ⟨y, _ | ⟨z, _ | ⟨w, _ | ⟨v, r⟩⟩⟩⟩⟩ <;> cases c <;>
    simp [SpecTables.arity] at h hc <;>
    simp [applyCtor, emitTokens, emitRow, Tables.emit, instTmpl, instTmplTok, bind, Except.bind, pure, Except.pure] <;>
    (cases a <;> simp)

theorem wrappers_unary : ∀ c ∈ SpecTables.wrappers, (SpecTables.arity c).count = 1 ∧ c ≠ .unwrap := by decide

/-- The recursive descent (= the generator's stack machine, Props/C02 `step_expr_nested`) succeeds on every balanced
    action list with parser-shaped members; it reports an explicit close only inside an open wrapper. -/
theorem nestGo_ok (a : Bool) (b : Nat) (fuel : Nat) : ∀ (cur : Toks) (ms : List Member) (e : Nat) (defs : List CapDef) (d : Nat),
    ms.length + 1 ≤ fuel → balanced ms d = true → (∀ m ∈ ms, arityOK m = true) →
    ∃ r, nestGo a b fuel cur ms e defs = .ok r ∧ (r.closed = true → 0 < d ∧ balanced r.rest (d - 1) = true) ∧
      (∀ m ∈ r.rest, arityOK m = true) := by
  induction fuel with
  | zero => intro cur ms e defs d hf; omega
  | succ n ih =>
    intro cur ms e defs d hf hb ha
    cases ms with
    | nil => exact ⟨⟨cur, [], e, defs, false⟩, rfl, by simp, by simp⟩
    | cons m ms =>
      have hf' : ms.length + 1 ≤ n := by simp at hf; omega
      have ham : arityOK m = true := ha m (by simp)
      have harest : ∀ m' ∈ ms, arityOK m' = true := fun m' hm' => ha m' (by simp [hm'])
      simp only [nestGo]
      cases hmv : m.mv with
      | none =>
        simp only [balanced, hmv] at hb
        simp only [arityOK, hmv, Bool.and_eq_true, bne_iff_ne, ne_eq, Bool.or_eq_true, beq_iff_eq,
          List.isEmpty_iff] at ham
        obtain ⟨t, ht⟩ := applyCtor_ok a cur m.ctor (hoist b e m).2 ham.1 (by
          rw [hoist_length]
          rcases ham.2 with h | ⟨h1, h2⟩
          · exact Or.inl h
          · right
            refine ⟨h1, ?_⟩
            have : (hoist b e m).2.length = 0 := by rw [hoist_length, h2]; rfl
            exact List.eq_nil_of_length_eq_zero this)
        simp only [ht]
        exact ih t ms (e + 1) _ d hf' hb harest
      | unwrap =>
        simp only [balanced, hmv, Bool.and_eq_true, decide_eq_true_eq] at hb
        exact ⟨⟨cur, ms, e + 1, defs, true⟩, rfl, fun _ => ⟨hb.1, hb.2⟩, harest⟩
      | wrap =>
        simp only [balanced, hmv] at hb
        simp only [arityOK, hmv, Bool.and_eq_true, beq_iff_eq] at ham
        obtain ⟨rin, hrin, hclosed, harin⟩ := ih [Var.v.tok] ms (e + 1) defs (d + 1) hf' hb harest
        simp only [hrin]
        have hwu := wrappers_unary m.ctor (by simpa using ham.2)
        obtain ⟨t, ht⟩ := applyCtor_ok a cur m.ctor [closureToks rin.toks] hwu.2 (Or.inl (by simp [hwu.1]))
        have hw : applyWrapper a cur m rin.toks = .ok t := by simp [applyWrapper, ham.1, ht]
        simp only [hw]
        have hrl := nestGo_rest_le a b n _ ms _ _ rin hrin
        by_cases hc : rin.closed = true
        · obtain ⟨_, hbal⟩ := hclosed hc
          simp only [Nat.add_sub_cancel] at hbal
          exact ih t rin.rest rin.pos rin.defs d (by omega) hbal harin
        · have hrest := nestGo_open_rest a b n _ ms _ _ rin hrin (by simpa using hc)
          rw [hrest]
          cases n with
          | zero => omega
          | succ n' => exact ⟨⟨t, [], rin.pos, rin.defs, false⟩, rfl, by simp, by simp⟩

/-- **The per-branch generator never hits one of its `expect()` sites** on a balanced, parser-shaped step. -/
theorem genBranchStep_ok (a : Bool) (b : Nat) (prev : Var) (acts : List Member)
    (hb : balanced acts 0 = true) (ha : ∀ m ∈ acts, arityOK m = true) :
    ∃ r, genBranchStep a b prev acts = .ok r := by
  cases acts with
  | nil => exact ⟨none, rfl⟩
  | cons m ms =>
    obtain ⟨r, hr, hclosed, _⟩ := nestGo_ok a b ((m :: ms).length + 1) (wrapIntoBlock a [prev.tok]) (m :: ms) 0 [] 0
      (Nat.le_refl _) hb ha
    have hnc : r.closed = false := by
      cases hcl : r.closed with
      | false => rfl
      | true => have := (hclosed hcl).1; omega
    have h := runStack_eq a b ((m :: ms).length + 1) [] (wrapIntoBlock a [prev.tok]) [] (m :: ms) 0 (Nat.le_refl _)
    rw [hr] at h
    simp only [hnc, Bool.false_eq_true, if_false, unwind, Except.map, runStack] at h
    simp only [genBranchStep]
    cases hp : processActions a b ⟨[], [⟨wrapIntoBlock a [prev.tok], none⟩]⟩ (m :: ms) 0 with
    | error er => rw [hp] at h; simp at h
    | ok acc =>
      rw [hp] at h
      simp only at h ⊢
      rw [h]
      exact ⟨_, rfl⟩

/-- a program whose every step is balanced and parser-shaped -/
def WellFormed (p : Input) : Prop :=
  ∀ br ∈ p.branches, ∀ g ∈ splitSteps br.members, balanced g 0 = true ∧ ∀ m ∈ g, arityOK m = true

theorem genElems_ok (c : Ctx) (k : Nat) (actss : List (List Member)) (b0 : Nat)
    (h : ∀ acts ∈ actss, balanced acts 0 = true ∧ ∀ m ∈ acts, arityOK m = true) :
    ∃ r, genElems c k actss b0 = .ok r := by
  induction actss generalizing b0 with
  | nil => exact ⟨_, rfl⟩
  | cons acts rest ih =>
    obtain ⟨hb, ha⟩ := h acts (by simp)
    obtain ⟨r, hr⟩ := genBranchStep_ok c.kind.isAsync b0 ((c.pats[b0]?.map (·.var)).getD (.r b0)) acts hb ha
    obtain ⟨r2, hr2⟩ := ih (b0 + 1) (fun a' ha' => h a' (by simp [ha']))
    simp only [genElems, hr, hr2]
    cases r with
    | none => exact ⟨_, rfl⟩
    | some dc => exact ⟨_, rfl⟩

theorem genSteps_ok (c : Ctx) (rem k : Nat)
    (h : ∀ k', ∀ acts ∈ c.stepActs k', balanced acts 0 = true ∧ ∀ m ∈ acts, arityOK m = true) :
    ∃ s, genSteps c rem k = .ok s := by
  induction rem generalizing k with
  | zero =>
    obtain ⟨r, hr⟩ := genElems_ok c k (c.stepActs k) 0 (h k)
    simp only [genSteps, genStep, hr]
    exact ⟨_, rfl⟩
  | succ rem ih =>
    obtain ⟨r, hr⟩ := genElems_ok c k (c.stepActs k) 0 (h k)
    obtain ⟨s, hs⟩ := ih (k + 1)
    simp only [genSteps, genStep, hr, hs]
    exact ⟨_, rfl⟩

/-- **No internal bug.**  For every well-formed program and every macro kind the generator returns code or one of the
    four whitelisted configuration rejections (wrong handler kind, `futures_crate_path` on a non-async macro, no
    branch) — never an internal panic. -/
theorem no_internal_bug (p : Input) (kind : Kind) (hwf : WellFormed p) :
    (∃ code, gen p kind = .ok code) ∨ (∃ e, gen p kind = .error e ∧ e.isReject = true) := by
  unfold gen
  cases hm : mkCtx p kind with
  | error e =>
    right
    refine ⟨e, rfl, ?_⟩
    unfold mkCtx at hm
    split at hm
    · cases hm; rfl
    · split at hm
      · cases hm; rfl
      · split at hm
        · cases hm; rfl
        · split at hm
          · cases hm; rfl
          · cases hm
  | ok c =>
    simp only
    -- the context carries the split chains of `p`
    have hch : c.chains = (p.branches.map fun b => splitSteps b.members) ∧ c.depths = c.chains.map (·.length) ∧
        p.branches ≠ [] := by
      unfold mkCtx at hm
      split at hm
      · cases hm
      · split at hm
        · cases hm
        · split at hm
          · cases hm
          · split at hm
            · cases hm
            · rename_i hne
              cases hm
              exact ⟨rfl, rfl, by intro he; simp [he] at hne⟩
    have hsteps : ∀ k', ∀ acts ∈ c.stepActs k', balanced acts 0 = true ∧ ∀ m ∈ acts, arityOK m = true := by
      intro k' acts hacts
      simp only [Ctx.stepActs, List.mem_map] at hacts
      obtain ⟨ch, hch', rfl⟩ := hacts
      rw [hch.1] at hch'
      obtain ⟨br, hbr, rfl⟩ := List.mem_map.mp hch'
      cases hg : (splitSteps br.members)[k']? with
      | none => simp [balanced]
      | some g => exact hwf br hbr g (List.mem_of_getElem? hg)
    have hmax : c.maxSteps ≠ 0 := by
      have : c.maxSteps = c.depths.foldl max 0 := by
        unfold mkCtx at hm
        split at hm
        · cases hm
        · split at hm
          · cases hm
          · split at hm
            · cases hm
            · split at hm
              · cases hm
              · cases hm; rfl
      rw [this, hch.2.1, hch.1]
      cases hb : p.branches with
      | nil => exact absurd hb hch.2.2
      | cons br rest =>
        simp only [List.map_cons, List.foldl_cons]
        have hpos : 0 < (splitSteps br.members).length := List.length_pos_iff.mpr (splitSteps_ne_nil _)
        have : ∀ (l : List Nat) (a : Nat), a ≤ l.foldl max a := by
          intro l
          induction l with
          | nil => intro a; exact Nat.le_refl _
          | cons z l ih2 => intro a; exact Nat.le_trans (Nat.le_max_left a z) (ih2 _)
        have := this (rest.map fun b => (splitSteps b.members).length |>.succ.pred) (max 0 (splitSteps br.members).length)
        intro h0
        have h1 := Nat.le_trans (Nat.le_max_right 0 (splitSteps br.members).length)
          (‹∀ (l : List Nat) (a : Nat), a ≤ l.foldl max a› (List.map (fun x => x.length) (List.map (fun b => splitSteps b.members) rest)) _)
        omega
    simp only [hmax, if_false]
    obtain ⟨s, hs⟩ := genSteps_ok c (c.maxSteps - 1) 0 hsteps
    left
    simp only [hs]
    exact ⟨_, rfl⟩

/-! Non-vacuity.  The steps of `init |> >>> ..b() <<< ~=> c` are balanced and parser-shaped; the second step of
    `a => >>> |> f ~<<< |> g` (the input behind the defect fixed in 225b285) is not balanced: the parser must reject
    it, and now does (K1 family `invalid`). -/

private def mk (c : Comb) (d : Bool) (mv : Move) (n : Nat) : Member := ⟨c, d, mv, List.replicate n ⟨.expr, []⟩⟩

example : (splitSteps [mk .initial false .none 1, mk .map false .wrap 1, mk .dot false .none 1, mk .unwrap false .unwrap 0,
      mk .andThen true .none 1]).map (fun g => (balanced g 0, g.all arityOK)) = [(true, true), (true, true)] := by decide

example : (splitSteps [mk .initial false .none 1, mk .andThen false .wrap 1, mk .map false .none 1, mk .unwrap true .unwrap 0,
      mk .map false .none 1]).map (fun g => balanced g 0) = [true, false] := by decide

end JoinModel.Props.C15
