//! Harness that runs the *real* join_impl code (current /repo working tree, linked as a library).
//!
//! Modes (first argument):
//!   expand   stdin: `ID \t KIND \t SOURCE` per line   stdout: one result line per case (see `expand_case`)
//!   tables   prints the answers of the running code to the table questions (cross-check of the extractor)
//!   oracle   like expand, but additionally prints the syn oracle of each input (parser correspondence)
//!   purity   stdin as expand; expands every case repeatedly, shuffled and from several threads
mod canon;
mod dump;
mod oracle;
mod tables;

use canon::canon;
use join_impl::{generate_join, Config, JoinInputDefault};
use proc_macro2::TokenStream;
use std::io::{BufRead, Write};
use std::panic::{catch_unwind, AssertUnwindSafe};
use std::str::FromStr;

pub fn parse_kind(k: &str) -> Option<(bool, bool, bool)> {
    // a<0|1>t<0|1>s<0|1>
    let b = k.as_bytes();
    if b.len() == 6 && b[0] == b'a' && b[2] == b't' && b[4] == b's' {
        Some((b[1] == b'1', b[3] == b'1', b[5] == b'1'))
    } else {
        None
    }
}

fn panic_msg(e: Box<dyn std::any::Any + Send>) -> String {
    if let Some(s) = e.downcast_ref::<&str>() {
        s.to_string()
    } else if let Some(s) = e.downcast_ref::<String>() {
        s.clone()
    } else {
        "<non-string panic>".to_string()
    }
}

/// Class of a syn error message produced by join_impl (its own messages) or by syn itself.
pub fn err_class(msg: &str) -> String {
    let table: &[(&str, &str)] = &[
        ("futures_crate_path specified twice", "OptionTwice:fcp"),
        ("custom_joiner specified twice", "OptionTwice:joiner"),
        ("transpose_results specified twice", "OptionTwice:transpose"),
        ("lazy_branches specified twice", "OptionTwice:lazy"),
        ("Multiple `handler` cases found", "MultipleHandlers"),
        ("join must contain at least 1 branch", "NoBranch"),
        ("Action can be either wrapped or unwrapped but not both", "BothWrapUnwrap"),
        ("This combinator can't be wrapper", "NotAWrapper"),
        ("Incorrect `let` pattern", "IncorrectLet"),
        ("Chain first expr can't be empty", "EmptyFirst"),
        ("Unexpected `<<<`", "UnexpectedUnwrap"),
        ("Chain can't be empty", "EmptyChain"),
        ("found group identifier", "FoundGroupIdent"),
        ("Can't parse empty unit", "CantParseEmpty"),
        ("Unexpected tokens", "UnexpectedTokens"),
        ("can't be a wrapper", "NotAWrapper2"),
    ];
    for (pat, cls) in table {
        if msg.contains(pat) {
            return cls.to_string();
        }
    }
    format!("Syn:{}", canon::esc(msg))
}

/// Class of a panic raised by `generate_join`.
pub fn panic_class(msg: &str) -> String {
    let table: &[(&str, &str)] = &[
        ("`and_then` or `map` handler should be only provided for `try`", "CfgReject:handlerNotTry"),
        ("`then` handler should be only provided for `join!` but not for `try`", "CfgReject:thenInTry"),
        ("futures_crate_path should be only provided for `async`", "CfgReject:fcpNotAsync"),
        ("join should have at least one branch", "CfgReject:noBranch"),
    ];
    for (pat, cls) in table {
        if msg.contains(pat) {
            return cls.to_string();
        }
    }
    format!("InternalPanic:{}", canon::esc(msg))
}

pub struct Expanded {
    pub in_toks: String,
    pub parse: String,  // ok | err:<class>  | lexerr | panic:<class>
    pub structure: String,
    pub gen: String,    // ok | panic:<class> | -
    pub out_toks: String,
    pub out_valid_expr: String, // 1 | 0 | -
    pub dot_ok: String,         // 1: every member-access operand is syntactically a member access (`x . operand` parses) | 0 | -
}

pub fn expand_src(kind: (bool, bool, bool), src: &str) -> Expanded {
    let ts = match TokenStream::from_str(src) {
        Ok(ts) => ts,
        Err(_) => {
            return Expanded {
                in_toks: String::new(),
                parse: "lexerr".into(),
                structure: "-".into(),
                gen: "-".into(),
                out_toks: "-".into(),
                out_valid_expr: "-".into(),
                dot_ok: "-".into(),
            }
        }
    };
    expand_ts(kind, ts)
}

pub fn expand_ts(kind: (bool, bool, bool), ts: TokenStream) -> Expanded {
    let in_toks = canon(ts.clone());
    let parsed = catch_unwind(AssertUnwindSafe(|| syn::parse2::<JoinInputDefault>(ts)));
    let parsed = match parsed {
        Err(e) => {
            return Expanded {
                in_toks,
                parse: format!("panic:{}", panic_class(&panic_msg(e))),
                structure: "-".into(),
                gen: "-".into(),
                out_toks: "-".into(),
                out_valid_expr: "-".into(),
                dot_ok: "-".into(),
            }
        }
        Ok(Err(e)) => {
            return Expanded {
                in_toks,
                parse: format!("err:{}", err_class(&e.to_string())),
                structure: "-".into(),
                gen: "-".into(),
                out_toks: "-".into(),
                out_valid_expr: "-".into(),
                dot_ok: "-".into(),
            }
        }
        Ok(Ok(p)) => p,
    };
    let structure = dump::dump(&parsed);
    let (is_async, is_try, is_spawn) = kind;
    let gen = catch_unwind(AssertUnwindSafe(|| {
        generate_join(
            &parsed,
            Config {
                is_async,
                is_try,
                is_spawn,
            },
        )
    }));
    match gen {
        Err(e) => Expanded {
            in_toks,
            parse: "ok".into(),
            structure,
            gen: format!("panic:{}", panic_class(&panic_msg(e))),
            out_toks: "-".into(),
            out_valid_expr: "-".into(),
            dot_ok: dot_ok(&parsed),
        },
        Ok(out) => {
            let valid = syn::parse2::<syn::Expr>(out.clone()).is_ok();
            Expanded {
                in_toks,
                parse: "ok".into(),
                structure,
                gen: "ok".into(),
                out_toks: canon(out),
                out_valid_expr: if valid { "1".into() } else { "0".into() },
                dot_ok: dot_ok(&parsed),
            }
        }
    }
}

/// Precondition of C15: member-access operands are syntactically member accesses.
fn dot_ok(j: &JoinInputDefault) -> String {
    use join_impl::chain::expr::{ActionExpr, ProcessExpr};
    use join_impl::chain::Chain;
    use quote::ToTokens;
    // custom_joiner takes arbitrary tokens (a function path, a closure or a macro path): they must at least form a call
    if let Some(jt) = &j.custom_joiner {
        let probe: TokenStream = quote::quote! { #jt (__a, __b) };
        if syn::parse2::<syn::Expr>(probe).is_err() {
            return "0".into();
        }
    }
    for b in &j.branches {
        for m in b.members() {
            if let ActionExpr::Process(ProcessExpr::Dot([e])) = m.expr() {
                let t = e.to_token_stream();
                let probe: TokenStream = quote::quote! { __x . #t };
                match syn::parse2::<syn::Expr>(probe) {
                    Ok(syn::Expr::Field(_)) | Ok(syn::Expr::MethodCall(_)) | Ok(syn::Expr::Await(_)) | Ok(syn::Expr::Call(_))
                    | Ok(syn::Expr::Index(_)) | Ok(syn::Expr::Try(_)) => {}
                    _ => return "0".into(),
                }
            }
        }
    }
    "1".into()
}

fn expand_line(line: &str, with_oracle: bool) -> Option<String> {
    let mut it = line.splitn(3, '\t');
    let (id, kind, src) = match (it.next(), it.next(), it.next()) {
        (Some(a), Some(b), Some(c)) => (a, b, c),
        _ => return None,
    };
    let k = parse_kind(kind).expect("bad kind");
    let r = expand_src(k, src);
    let mut out = format!(
        "{}\t{}\t{}\t{}\t{}\t{}\t{}\t{}\t{}",
        id, kind, r.in_toks, r.parse, r.structure, r.gen, r.out_toks, r.out_valid_expr, r.dot_ok
    );
    if with_oracle {
        let o = match TokenStream::from_str(src) {
            Ok(ts) => oracle::oracle(ts),
            Err(_) => "-".into(),
        };
        out.push('\t');
        out.push_str(&o);
    }
    Some(out)
}

/// Cases are independent: they are spread over worker threads (each expands its share, in order) and printed in input order.
fn mode_expand(with_oracle: bool) {
    let stdin = std::io::stdin();
    let lines: Vec<String> = stdin.lock().lines().map(|l| l.unwrap()).collect();
    let n_workers = std::thread::available_parallelism().map(|n| n.get()).unwrap_or(4).min(16).max(1);
    let lines = std::sync::Arc::new(lines);
    let next = std::sync::Arc::new(std::sync::atomic::AtomicUsize::new(0));
    let mut handles = Vec::new();
    for _ in 0..n_workers {
        let lines = lines.clone();
        let next = next.clone();
        handles.push(std::thread::spawn(move || {
            let mut done: Vec<(usize, Option<String>)> = Vec::new();
            loop {
                let i = next.fetch_add(1, std::sync::atomic::Ordering::SeqCst);
                if i >= lines.len() {
                    break;
                }
                done.push((i, expand_line(&lines[i], with_oracle)));
            }
            done
        }));
    }
    let mut results: Vec<Option<String>> = vec![None; lines.len()];
    for h in handles {
        for (i, r) in h.join().unwrap() {
            results[i] = r;
        }
    }
    let stdout = std::io::stdout();
    let mut out = std::io::BufWriter::new(stdout.lock());
    for r in results.into_iter().flatten() {
        writeln!(out, "{}", r).unwrap();
    }
}

fn mode_purity() {
    // Every case is expanded: once up front, then in reversed order, then interleaved twice, then from 8 threads.
    // Prints `ID \t same|DIFF \t <n expansions>`; any DIFF is a C20 violation with the history as replay.
    let stdin = std::io::stdin();
    let cases: Vec<(String, (bool, bool, bool), String)> = stdin
        .lock()
        .lines()
        .filter_map(|l| {
            let l = l.ok()?;
            let mut it = l.splitn(3, '\t');
            let (a, b, c) = (it.next()?, it.next()?, it.next()?);
            Some((a.to_string(), parse_kind(b)?, c.to_string()))
        })
        .collect();
    let sig = |r: &Expanded| format!("{}|{}|{}|{}", r.parse, r.structure, r.gen, r.out_toks);
    let first: Vec<String> = cases.iter().map(|(_, k, s)| sig(&expand_src(*k, s))).collect();
    let mut counts = vec![1usize; cases.len()];
    let mut diff = vec![false; cases.len()];
    for i in (0..cases.len()).rev() {
        let r = sig(&expand_src(cases[i].1, &cases[i].2));
        counts[i] += 1;
        if r != first[i] {
            diff[i] = true;
        }
    }
    // every case once more in a brand-new thread each (no thread-local history at all): what a fresh compiler thread
    // would produce must be what the thread with the long history produced
    for i in 0..cases.len() {
        let (k, src) = (cases[i].1, cases[i].2.clone());
        let r = std::thread::spawn(move || {
            let r = expand_src(k, &src);
            format!("{}|{}|{}|{}", r.parse, r.structure, r.gen, r.out_toks)
        })
        .join()
        .unwrap_or_default();
        counts[i] += 1;
        if r != first[i] {
            diff[i] = true;
        }
    }
    for round in 0..2 {
        for i in 0..cases.len() {
            let j = (i * 7 + round * 3) % cases.len();
            for &x in &[i, j, i] {
                let r = sig(&expand_src(cases[x].1, &cases[x].2));
                counts[x] += 1;
                if r != first[x] {
                    diff[x] = true;
                }
            }
        }
    }
    let cases = std::sync::Arc::new(cases);
    let first = std::sync::Arc::new(first);
    let mut handles = Vec::new();
    for t in 0..8usize {
        let cases = cases.clone();
        let first = first.clone();
        handles.push(std::thread::spawn(move || {
            let mut d = Vec::new();
            let n = cases.len();
            for i in 0..n {
                let x = (i * (2 * t + 1) + t) % n;
                let r = expand_src(cases[x].1, &cases[x].2);
                let s = format!("{}|{}|{}|{}", r.parse, r.structure, r.gen, r.out_toks);
                if s != first[x] {
                    d.push(x);
                }
            }
            d
        }));
    }
    for h in handles {
        for x in h.join().unwrap() {
            diff[x] = true;
        }
    }
    for i in 0..cases.len() {
        counts[i] += 8;
        println!(
            "{}\t{}\t{}",
            cases[i].0,
            if diff[i] { "DIFF" } else { "same" },
            counts[i]
        );
    }
}

/// `ID \t source` per line -> `ID \t canonical tokens` (proc_macro2 lexing only; `lexerr` when it does not lex)
fn mode_lex() {
    let stdin = std::io::stdin();
    let stdout = std::io::stdout();
    let mut out = std::io::BufWriter::new(stdout.lock());
    for line in stdin.lock().lines() {
        let line = line.unwrap();
        let mut it = line.splitn(2, '\t');
        let (id, src) = match (it.next(), it.next()) {
            (Some(a), Some(b)) => (a, b),
            _ => continue,
        };
        match TokenStream::from_str(src) {
            Ok(ts) => writeln!(out, "{}\t{}", id, canon(ts)).unwrap(),
            Err(_) => writeln!(out, "{}\tlexerr", id).unwrap(),
        }
    }
}

fn main() {
    // Panics of the code under test are expected outcomes; keep stderr quiet.
    std::panic::set_hook(Box::new(|_| {}));
    let mode = std::env::args().nth(1).unwrap_or_default();
    match mode.as_str() {
        "expand" => mode_expand(false),
        "oracle" => mode_expand(true),
        "tables" => tables::print_tables(),
        "purity" => mode_purity(),
        "lex" => mode_lex(),
        // facts about syn that theorems take as premises on the oracle
        "synfacts" => {
            println!("empty_expr_valid\t{}", syn::parse2::<syn::Expr>(proc_macro2::TokenStream::new()).is_ok());
            println!("empty_type_valid\t{}", syn::parse2::<syn::Type>(proc_macro2::TokenStream::new()).is_ok());
        }
        _ => {
            eprintln!("usage: jharness expand|oracle|tables|purity|lex|synfacts");
            std::process::exit(2);
        }
    }
}
