#!/usr/bin/env python3
"""Generator of DSL programs for the generator/parser correspondence (K1).

Every random choice derives from one SplitMix64 state (VERIF_SEED), so a disagreement replays exactly.
A case is (id, kind, source text, family).  Source text is written with single spaces between tokens
where spacing does not matter and without spaces inside multi-character operators.
"""
import itertools

KINDS = ["a%dt%ds%d" % (a, t, s) for a in (0, 1) for t in (0, 1) for s in (0, 1)]

# (source, constructor, operand kind: 0 none | 1 expr | 2 two exprs | 't1' optional type | 't4' optional 4 types | 'dot', wrapper?)
OPS = [
    ("|>", "Map", 1, True), ("=>", "AndThen", 1, True), ("?>", "Filter", 1, True),
    ("..", "Dot", "dot", False), (">.", "Dot", "dot", False), ("->", "Then", 1, False),
    ("<|", "Or", 1, False), ("<=", "OrElse", 1, True), ("!>", "MapErr", 1, True),
    ("=>[]", "Collect", "t1", False), (">@>", "Chain", 1, False), ("?|>@", "FindMap", 1, True),
    ("?|>", "FilterMap", 1, True), ("|n>", "Enumerate", 0, False), ("?&!>", "Partition", 1, True),
    ("^^>", "Flatten", 0, False), ("^@", "Fold", 2, False), ("?^@", "TryFold", 2, False),
    ("?@", "Find", 1, True), (">^>", "Zip", 1, False), ("<->", "Unzip", "t4", False),
    ("??", "Inspect", 1, True),
]
WRAPPERS = [o for o in OPS if o[3]]

EXPRS = [
    "f", "|v| v + 1", "{ g }", "mk(1, 2)", "conv::<u8, u16>", "|v| -> u8 { v }", "(a |> b)",
    "x.y(|z| z ?> 1)", '"a |> b, c"', "vec![1, 2 => 3]", "|a, b| a < b", "{ let q = 1; q }",
    "m::n::<Vec<Vec<u8>>>", "|v: Option<u8>| v", "[1, 2][0]", "move |v| (v, 1)", "S { a: 1, b: 2 }",
    "if c { 1 } else { 2 }", "&x", "*p", "1..2", "a as u8", "|_| ()", "x?", "async { 1 }", "'a'",
    "|(a, b)| a", "unsafe { z }", "loop { break 1 }", "match v { 1 => 2, _ => 3 }",
]
SIMPLE_EXPRS = ["f", "|v| v + 1", "{ g }", "mk(1, 2)", "h::<u8>", "|v| -> u8 { v }", "{ let q = 1; q }"]
DOTS = ["unwrap()", "iter().map(|x| x)", "0", "field", "await", "a.b()", "0.1"]
TYPES = ["Vec<u8>", "Vec<_>", "std::collections::HashMap<u8, Vec<u8>>", "(u8, u16)", "[u8; 2]", "&'a str", "Vec<Vec<u8>>"]
INITS = ["Ok::<u8, u8>(1)", "Some(2)", "a", "{ init }", "vec![1, 2].into_iter()", "-5i32", "x.y", "1u8 | 2u8",
         "|| 3", "foo(1, 2)", "&mut z", "Ok(1) as R", "a + b", "*p", "(1, 2)", "join!{ 1 |> f }",
         "async { 1 }", "ready(Ok(1))", "{ let t = 1; t }", "!flag"]
SIMPLE_INITS = ["Ok::<u8, u8>(1)", "Some(2)", "a", "{ init }", "foo(1, 2)"]
HANDLER_EXPRS = ["|a, b| a + b", "h", "|a| a", "{ hh }", "|a, b, c| async move { Ok(a) }", "H::new"]


class Rng:
    def __init__(self, seed):
        self.s = seed & 0xFFFFFFFFFFFFFFFF

    def next(self):
        self.s = (self.s + 0x9E3779B97F4A7C15) & 0xFFFFFFFFFFFFFFFF
        z = self.s
        z = ((z ^ (z >> 30)) * 0xBF58476D1CE4E5B9) & 0xFFFFFFFFFFFFFFFF
        z = ((z ^ (z >> 27)) * 0x94D049BB133111EB) & 0xFFFFFFFFFFFFFFFF
        return z ^ (z >> 31)

    def below(self, n):
        return self.next() % n

    def pick(self, xs):
        return xs[self.below(len(xs))]

    def chance(self, num, den):
        return self.below(den) < num

    def shuffle(self, xs):
        xs = list(xs)
        for i in range(len(xs) - 1, 0, -1):
            j = self.below(i + 1)
            xs[i], xs[j] = xs[j], xs[i]
        return xs


def operand_src(rng, op, simple=False):
    kind = op[2]
    ex = SIMPLE_EXPRS if simple else EXPRS
    if kind == 0:
        return ""
    if kind == 1:
        return rng.pick(ex)
    if kind == 2:
        return rng.pick(ex) + ", " + rng.pick(ex)
    if kind == "dot":
        return rng.pick(DOTS)
    if kind == "t1":
        return rng.pick(TYPES) if rng.chance(2, 3) else ""
    if kind == "t4":
        if rng.chance(1, 2):
            return ", ".join(rng.pick(TYPES) for _ in range(4))
        return ""
    raise ValueError(kind)


def op_src(op):
    # `=>[]` is written `=>[ x ]` sometimes: the bracket content is ignored by the parser
    return op[0]


def gen_actions(rng, n_actions, max_depth, allow_deferred=True, simple=False, depth=0):
    """Returns a list of source fragments for a sequence of actions (after the initial value)."""
    out = []
    open_wrappers = 0
    i = 0
    while i < n_actions:
        i += 1
        deferred = allow_deferred and rng.chance(1, 4)
        tilde = "~" if deferred else ""
        if open_wrappers > 0 and rng.chance(1, 3) and not deferred:
            out.append("<<<")
            open_wrappers -= 1
            continue
        if deferred:
            # wrappers still open close implicitly at the step end; the builder counts per branch
            pass
        if depth + open_wrappers < max_depth and rng.chance(1, 4):
            w = rng.pick(WRAPPERS)
            out.append(tilde + w[0] + " >>>")
            open_wrappers += 1
            if deferred:
                pass
            continue
        op = rng.pick(OPS)
        o = operand_src(rng, op, simple)
        out.append(tilde + op_src(op) + (" " + o if o else ""))
        if deferred:
            open_wrappers = open_wrappers  # unchanged in the parser's view
    return out


def gen_branch(rng, n_actions, max_depth=2, named=None, simple=False, allow_deferred=True):
    init = rng.pick(SIMPLE_INITS if simple else INITS)
    head = ""
    if named is not None:
        head = "let " + ("mut " if rng.chance(1, 3) else "") + named + " = "
    acts = gen_actions(rng, n_actions, max_depth, allow_deferred, simple)
    return head + init + (" " + " ".join(acts) if acts else "")


def handler_for(rng, kind, wrong=False):
    is_try = kind[3] == "1"
    if is_try != wrong:
        kw = rng.pick(["map", "and_then"])
    else:
        kw = "then"
    return kw + " => " + rng.pick(HANDLER_EXPRS)


OPTION_SRC = {
    "fcp": ["futures_crate_path(::futures)", "futures_crate_path(my::futures)"],
    "joiner": ["custom_joiner(my_join)", "custom_joiner(my::join!)", "custom_joiner(|a, b| (a, b))"],
    "transpose": ["transpose_results(true)", "transpose_results(false)"],
    "lazy": ["lazy_branches(true)", "lazy_branches(false)"],
}


def gen_options(rng, kind, allow_bad=False):
    names = ["fcp", "joiner", "transpose", "lazy"]
    chosen = [n for n in names if rng.chance(1, 3)]
    if not allow_bad and kind[1] == "0":
        chosen = [n for n in chosen if n != "fcp"]
    chosen = rng.shuffle(chosen)
    return [rng.pick(OPTION_SRC[n]) for n in chosen]


def assemble(opts, branches, handler, handler_pos):
    parts = list(branches)
    items = []
    for i, b in enumerate(parts):
        if handler is not None and handler_pos == i:
            items.append(handler)
        items.append(b)
    if handler is not None and handler_pos >= len(parts):
        items.append(handler)
    return (" ".join(opts) + " " if opts else "") + ", ".join(items)


def random_program(rng, kind, simple=False, max_branches=4, max_actions=6):
    nb = 1 + rng.below(max_branches)
    if rng.chance(1, 12):
        nb = 1 + rng.below(10)
    branches = []
    for b in range(nb):
        named = ("n%d" % b) if rng.chance(1, 4) else None
        na = rng.below(max_actions + 1)
        if rng.chance(1, 15):
            na = rng.below(14)
        branches.append(gen_branch(rng, na, named=named, simple=simple))
    handler = handler_for(rng, kind) if rng.chance(1, 3) else None
    hpos = rng.below(nb + 1)
    opts = gen_options(rng, kind) if rng.chance(1, 3) else []
    return assemble(opts, branches, handler, hpos)


# ----------------------------------------------------------------------------------------------
# systematic families


def fam_operators():
    """every operator × {plain, ~} × {no wrap, >>>} × a few operand shapes (one branch), all kinds sampled by caller"""
    out = []
    shapes = ["f", "|v| v + 1", "{ g }", "mk(1, 2)", "conv::<u8, u16>", "|v| -> u8 { v }", "(a |> b)", "x.y(|z| z ?> 1)"]
    for op in OPS:
        for tilde in ("", "~"):
            if op[2] == 1:
                operands = shapes
            elif op[2] == 2:
                operands = ["{ 0 }, |a, b| a + b", "0, { ff }", "{ z }, { ff }", "mk(1, 2), |a, b| a"]
            elif op[2] == 0:
                operands = [""]
            elif op[2] == "dot":
                operands = DOTS
            elif op[2] == "t1":
                operands = [""] + TYPES[:4]
            else:
                operands = ["", "A, B, Vec<A>, Vec<B>", "u8, Vec<Vec<u8>>, Vec<_>, Vec<_>"]
            for o in operands:
                out.append("init %s%s %s |> last" % (tilde, op[0], o))
                out.append("init |> first %s%s %s" % (tilde, op[0], o))
            if op[3]:
                out.append("init %s%s >>> |> inner <<< |> after" % (tilde, op[0]))
                out.append("init %s%s >>> ..inner() ?? { insp }" % (tilde, op[0]))
                out.append("init %s%s >>> <<< |> after" % (tilde, op[0]))
                out.append("init %s%s >>> |> a ~|> b" % (tilde, op[0]))
    return out


def fam_pairs():
    out = []
    for a in OPS:
        for b in OPS:
            oa = {0: "", 1: "fa", 2: "ia, fa", "dot": "da()", "t1": "", "t4": ""}[a[2]]
            ob = {0: "", 1: "fb", 2: "ib, fb", "dot": "db()", "t1": "Vec<u8>", "t4": ""}[b[2]]
            out.append("init %s %s %s %s" % (a[0], oa, b[0], ob))
    return out


def fam_profiles(max_b=4, max_d=3):
    """every depth profile with ≤ max_b branches and depth ≤ max_d"""
    out = []
    for nb in range(1, max_b + 1):
        for prof in itertools.product(range(1, max_d + 1), repeat=nb):
            branches = []
            for b, d in enumerate(prof):
                s = "i%d" % b
                for k in range(1, d):
                    s += " ~|> f%d_%d" % (b, k)
                branches.append(s)
            out.append((", ".join(branches), prof))
    return out


def fam_wrappers():
    out = []
    for w in WRAPPERS:
        for depth in (1, 2, 3):
            opens = " ".join(w[0] + " >>>" for _ in range(depth))
            for inner in ("", "|> f", "..g() ?> { hh }", "^@ { 0 }, { ff }"):
                closes = " ".join("<<<" for _ in range(depth))
                out.append("init %s %s %s |> after" % (opens, inner, closes))            # explicit close
                out.append("init %s %s" % (opens, inner))                                 # implicit at branch end
                out.append("init %s %s ~|> next" % (opens, inner))                        # implicit at step end
                if depth > 1:
                    out.append("init %s %s <<< |> mid" % (opens, inner))                  # partial close
            # a deferred wrapper starts a new step: wrappers still open close at the step end, before it
            out.append("init %s |> a ~%s >>> |> b" % (opens, w[0]))
            out.append("init %s |> a ~%s >>> |> b <<< |> c, second ~|> d" % (opens, w[0]))
            out.append("init ~%s >>> ..x() <<< ~%s >>> { blk }" % (w[0], w[0]))
    return out


def fam_options(kind):
    out = []
    names = ["fcp", "joiner", "transpose", "lazy"]
    for r in range(0, 5):
        for sub in itertools.permutations(names, r):
            opts = [OPTION_SRC[n][0] for n in sub]
            out.append(" ".join(opts) + " a ~|> f, b |> g ~=> h")
    # one duplicate at every position
    for sub in itertools.permutations(names, 4):
        for n in names:
            for pos in range(5):
                opts = [OPTION_SRC[x][0] for x in sub]
                opts.insert(pos, OPTION_SRC[n][-1])
                out.append(" ".join(opts) + " a, b")
    for sub in itertools.permutations(names, 2):
        for n in sub:
            for pos in range(3):
                opts = [OPTION_SRC[x][0] for x in sub]
                opts.insert(pos, OPTION_SRC[n][-1])
                out.append(" ".join(opts) + " a, b")
    return out


def fam_handlers():
    out = []
    for hk in ("map", "and_then", "then"):
        for nb in (1, 2, 3):
            branches = ["b%d ~|> f%d" % (i, i) if i % 2 == 0 else "b%d" % i for i in range(nb)]
            for pos in range(nb + 1):
                out.append(assemble([], branches, "%s => |a| a" % hk, pos))
        out.append("a, %s => |a| a, %s => |b| b" % (hk, hk))
        out.append("%s => |a| a, a, map => h2" % hk)
        out.append("a |> f, %s => { blk } b" % hk)
        out.append("a, b, %s => |a, b| a + b," % hk)
    return out


def fam_lets():
    out = []
    for nb in (1, 2, 3, 4):
        for mask in range(1 << nb):
            branches = []
            for b in range(nb):
                head = ""
                if mask >> b & 1:
                    head = "let %sn%d = " % ("mut " if b % 2 else "", b)
                branches.append(head + "i%d ~|> { cap%d } ~=> f%d" % (b, b, b) if b % 2 == 0 else head + "i%d |> g%d" % (b, b))
            out.append(", ".join(branches))
    out += ["let (a, b) = x |> f", "let _ = x, y", "let Some(a) = x", "let ref a = x ~|> f", "let a @ 1 = x",
            "let a: u8 = x", "let a = let b = c", "let a = x, let a = y",
            # the `let` is recognised on the parsed initial expression, not on the branch's first token
            "~ let x = y |> f", "a, ~ let mut x = y ~|> f", "#[allow(unused)] let x = y |> f", "~ ~ let x = { y } ~=> g, x",
            "~ let (a, b) = x |> f", "#[allow(unused)] let (a, b) = x"]
    return out


def fam_large():
    out = []
    for nb in (12, 24):
        out.append(", ".join("i%d ~|> { c%d }" % (i, i) for i in range(nb)))
    acts = " ".join("|> { e%d }" % i for i in range(24))
    out.append("a %s, b %s" % (acts, acts))
    out.append(", ".join("i%d %s" % (i, " ".join("^@ { z%d_%d }, { y%d_%d }" % (i, j, i, j) for j in range(13))) for i in range(12)))
    # three-digit indices in every name position: 130 branches, 104 steps, 104 hoisted operands in one step
    out.append(", ".join("i%d ~|> { c%d }" % (i, i) for i in range(130)))
    out.append("a " + " ".join("~|> { s%d }" % i for i in range(104)) + ", b")
    out.append("a " + " ".join("|> { e%d }" % i for i in range(104)))
    return out


MALFORMED = [
    "", ",", "a,,b", "a |>", "|> f", "a |> , b", "a <<<", "a |> f <<<", "a |> >>> <<< <<<", "a .. >>> b",
    "a -> >>> f", "a <<< >>>", "a |> >>> |> f ~<<< |> g", "a => >>> ~<<<", "a ^@ x", "a ^@ x, y, z", "a ^@ x |> f, y",
    "a <-> A, B", "a <-> A, B, C, D, E", "a =>[] Vec<u8> Vec<u8>", "a ~", "~ a", "a ~ , b", "a ~ ~ |> f", "a ~|> f ~",
    "let = x", "let (a, b) = x", "let a", "map => ", "map =>", "then", "a map => f", "a, map f", "futures_crate_path",
    "futures_crate_path()", "futures_crate_path(::a b) x", "transpose_results(maybe) a", "lazy_branches() a",
    "lazy_branches(true false) a", "custom_joiner() a, b", "custom_joiner(j) custom_joiner(j) a",
    "lazy_branches(false) transpose_results(false) custom_joiner(j) futures_crate_path(::futures) futures_crate_path(::futures), ok(1)",
    "a |> f g", "a b", "a |> |> f", "a ?|>@", "a |n> x", "a ^^> x", "a >>> f", ">>> a", "a |> >>>", "a |> >>> >>> f",
    "a ?? >>> |> f <<< <<<", "a, then => f, then => g", "a, map => f, and_then => g", "a |> f,, b", "a;", "a; b",
    "a |> f; b", "{ a } { b }", "{ a } b", "a |> { f } b |> g", "a |> { f } { g }", "a ..", "a >. ", "a .. 1 + 2",
    "a => [] x", "a =>[1, 2] Vec<u8>", "a = > [] x", "a | > f", "a = > f", "a - > f", "a . . b", "a < = f", "a ! > f",
    "a < < < b", "a > > > b", "a |> f > > > b", "'a |> f", "a |> 'b", "a |> f 'c", "a |> |x: &'a u8| x", "a |> f::<'a>",
]


def mutate(rng, src):
    toks = src.split(" ")
    if not toks:
        return src
    stray = ["~", "<<<", ">>>", ",", "|>", "=>", "map", "then", "..", "{", "}", "(", ")", ";", "let", "=", "->"]
    k = rng.below(5)
    i = rng.below(len(toks))
    if k == 0:
        del toks[i]
    elif k == 1:
        toks.insert(i, toks[i])
    elif k == 2 and len(toks) > 1:
        j = rng.below(len(toks))
        toks[i], toks[j] = toks[j], toks[i]
    elif k == 3:
        toks.insert(i, rng.pick(stray))
    else:
        toks[i] = rng.pick(stray)
    return " ".join(toks)
