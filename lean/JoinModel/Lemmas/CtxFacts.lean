/-
  Facts about a generator context: active branches, the shape of `genStep`'s output.
-/
import JoinModel.Lemmas.StepEval
namespace JoinModel

/-- what the refinement proof needs to know about a generator context (established for `mkCtx` in Refine.lean) -/
structure CtxOK (c : Ctx) (names : List (Option String)) : Prop where
  noJoiner : c.joiner = none
  lazyDefault : c.lazy = c.kind.threads
  nEq : c.n = c.chains.length
  depthsEq : c.depths = c.chains.map (·.length)
  patsLen : c.pats.length = c.n
  namesLen : names.length = c.n
  varsNodup : c.vars.Nodup
  varForm : ∀ i, i < c.n → c.varOf i = (match names[i]? with | some (some s) => Var.user s | _ => Var.r i)
  groupsNonempty : ∀ ch ∈ c.chains, ∀ g ∈ ch, g ≠ []
  firstInitial : ∀ ch ∈ c.chains, ∃ m g gs, ch = (m :: g) :: gs ∧ m.ctor = .initial

def specCfgOf (σ : World) (parent : Option String) (names : List (Option String)) (c : Ctx) : SpecCfg :=
  ⟨σ, c.kind, names, parent, c.chains⟩

section
variable {c : Ctx} {names : List (Option String)}

theorem depth_eq (ok : CtxOK c names) (σ : World) (parent : Option String) (i : Nat) :
    (specCfgOf σ parent names c).depth i = (c.depths[i]?).getD 0 := by
  simp only [SpecCfg.depth, specCfgOf]
  rw [ok.depthsEq, List.getElem?_map]

theorem isActive_eq (ok : CtxOK c names) (σ : World) (parent : Option String) (k i : Nat) :
    c.isActive k i = decide (k < (specCfgOf σ parent names c).depth i) := by
  simp only [depth_eq ok σ parent i]
  unfold Ctx.isActive
  cases c.depths[i]? <;> simp

theorem active_eq (ok : CtxOK c names) (σ : World) (parent : Option String) (k : Nat) : (specCfgOf σ parent names c).active k = c.activeIdx k := by
  simp only [SpecCfg.active, Ctx.activeIdx, SpecCfg.n, specCfgOf]
  rw [← ok.nEq]
  congr 1
  funext i
  exact (isActive_eq ok σ parent k i).symm

theorem filter_length_eq_range (l : List Nat) (p : Nat → Bool) :
    (l.filter p).length =
      ((List.range l.length).filter fun i => match l[i]? with | some d => p d | none => false).length := by
  induction l with
  | nil => simp
  | cons d l ih =>
    rw [List.length_cons, List.range_succ_eq_map, List.filter_cons, List.filter_cons]
    simp only [List.getElem?_cons_zero, List.filter_map]
    have : ((fun i => match (d :: l)[i]? with | some d => p d | none => false) ∘ Nat.succ)
        = fun i => match l[i]? with | some d => p d | none => false := by
      funext i; simp
    rw [this]
    by_cases h : p d <;> simp [h, ih]

theorem activeCount_eq (ok : CtxOK c names) (k : Nat) : c.activeCount k = (c.activeIdx k).length := by
  have hn : c.n = c.depths.length := by rw [ok.depthsEq, List.length_map, ok.nEq]
  simp only [Ctx.activeCount, Ctx.activeIdx, hn]
  rw [filter_length_eq_range]
  congr 2

theorem acts_eq (σ : World) (parent : Option String) (k b : Nat) (acts : List Member) (h : (c.stepActs k)[b]? = some acts) :
    (specCfgOf σ parent names c).acts b k = acts := by
  simp only [Ctx.stepActs, List.getElem?_map] at h
  simp only [SpecCfg.acts, specCfgOf]
  cases hc : c.chains[b]? with
  | none => simp [hc] at h
  | some ch => simp [hc] at h ⊢; exact h

theorem acts_nonempty_iff (ok : CtxOK c names) (σ : World) (parent : Option String) (k b : Nat) (hb : b < c.n) :
    ((specCfgOf σ parent names c).acts b k).isEmpty = !c.isActive k b := by
  rw [isActive_eq ok σ parent]
  simp only [SpecCfg.acts, SpecCfg.depth, specCfgOf]
  have hb' : b < c.chains.length := ok.nEq ▸ hb
  simp only [List.getElem?_eq_getElem hb', Option.bind_some, Option.map_some, Option.getD_some]
  by_cases hk : k < c.chains[b].length
  · simp only [List.getElem?_eq_getElem hk, Option.getD_some, hk, decide_true, Bool.not_true]
    have := ok.groupsNonempty c.chains[b] (List.getElem_mem hb') _ (List.getElem_mem hk)
    cases hg : (c.chains[b])[k] with
    | nil => exact absurd hg this
    | cons _ _ => rfl
  · simp [hk, List.getElem?_eq_none (Nat.le_of_not_lt hk)]

/-- the operands and definitions `genStep` emits, in terms of the active branches -/
theorem genStep_shape (ok : CtxOK c names) (σ : World) (parent : Option String) (k : Nat) (s : StepCode) (h : genStep c k = .ok s) :
    s.k = k ∧
    s.defs = (c.activeIdx k).flatMap (fun b => capDefsOf b ((specCfgOf σ parent names c).acts b k) 0) ∧
    s.elems.map Elem.sem = (c.activeIdx k).map (fun b =>
      (b, c.multi k && c.lazy, c.wrapOf k b, c.varOf b, (specCfgOf σ parent names c).acts b k)) ∧
    ((c.kind.isAsync = false → s.form = .tuple) ∧
     (c.kind.isAsync = true → s.form = .awaitCat ∨ ∃ j, s.form = .futJoin j c.kind.isTry)) ∧
    s.tbs = (if c.kind.threads && decide (c.activeCount k ≥ 2) then (c.activeIdx k).map (fun b => (b, b)) else []) ∧
    s.spawnJoin = (if c.kind.threads && decide (c.activeCount k ≥ 2) then some (idxProjs c k) else none) := by
  unfold genStep at h
  split at h
  · cases h
  · rename_i defs elems hel
    cases h
    obtain ⟨hd, he⟩ := genElems_spec c k (c.stepActs k) 0 defs elems hel
    have hlen : (c.stepActs k).length = c.n := by simp [Ctx.stepActs, ok.nEq]
    -- rewrite the `zipIdx` formulation over branch indices
    have hA : ∀ ab ∈ (c.stepActs k).zipIdx 0, ab.1 = (specCfgOf σ parent names c).acts ab.2 k := by
      intro ab hab
      have := (List.mem_zipIdx_iff_getElem?).mp hab
      exact (acts_eq σ parent k ab.2 ab.1 (by simpa using this)).symm
    have hsnd : ((c.stepActs k).zipIdx 0).map Prod.snd = List.range c.n := by
      rw [List.zipIdx_map_snd, hlen, List.range_eq_range']
    have hmemn : ∀ ab ∈ (c.stepActs k).zipIdx 0, ab.2 < c.n := by
      intro ab hab
      have : ab.2 ∈ ((c.stepActs k).zipIdx 0).map Prod.snd := List.mem_map.mpr ⟨ab, hab, rfl⟩
      rw [hsnd] at this
      exact List.mem_range.mp this
    refine ⟨rfl, ?_, ?_, ?_, ?_, ?_⟩
    · -- defs
      rw [hd]
      have h1 : ((c.stepActs k).zipIdx 0).flatMap (fun ab => capDefsOf ab.2 ab.1 0)
          = ((c.stepActs k).zipIdx 0).flatMap (fun ab => capDefsOf ab.2 ((specCfgOf σ parent names c).acts ab.2 k) 0) := by
        have hgen : ∀ (l : List (List Member × Nat)), (∀ ab ∈ l, ab.1 = (specCfgOf σ parent names c).acts ab.2 k) →
            l.flatMap (fun ab => capDefsOf ab.2 ab.1 0)
              = l.flatMap (fun ab => capDefsOf ab.2 ((specCfgOf σ parent names c).acts ab.2 k) 0) := by
          intro l hl
          induction l with
          | nil => rfl
          | cons x l ih =>
            simp only [List.flatMap_cons]
            rw [ih (fun ab hab => hl ab (by simp [hab])), ← hl x (by simp)]
        exact hgen _ hA
      rw [h1]
      have h2 : ((c.stepActs k).zipIdx 0).flatMap (fun ab => capDefsOf ab.2 ((specCfgOf σ parent names c).acts ab.2 k) 0)
          = (((c.stepActs k).zipIdx 0).map Prod.snd).flatMap (fun b => capDefsOf b ((specCfgOf σ parent names c).acts b k) 0) := by
        rw [List.flatMap_map]
      rw [h2, hsnd]
      -- inactive branches have no actions, hence no definitions
      simp only [Ctx.activeIdx]
      generalize List.range c.n = l
      induction l with
      | nil => rfl
      | cons b l ih =>
        simp only [List.flatMap_cons, List.filter_cons]
        by_cases hact : c.isActive k b = true
        · simp [hact, ih]
        · have hne : ((specCfgOf σ parent names c).acts b k) = [] := by
            by_cases hb : b < c.n
            · have := acts_nonempty_iff ok σ parent k b hb
              simp only [hact] at this
              simpa using this
            · simp only [SpecCfg.acts, specCfgOf]
              rw [List.getElem?_eq_none (by rw [← ok.nEq]; omega)]
              rfl
          simp [hact, hne, capDefsOf, ih]
    · -- elems
      rw [he]
      have h1 : (((c.stepActs k).zipIdx 0).filter (fun ab => !ab.1.isEmpty))
          = (((c.stepActs k).zipIdx 0).filter (fun ab => c.isActive k ab.2)) := by
        apply List.filter_congr
        intro ab hab
        rw [hA ab hab, acts_nonempty_iff ok σ parent k ab.2 (hmemn ab hab)]
        simp
      rw [h1]
      have h2 : (((c.stepActs k).zipIdx 0).filter (fun ab => c.isActive k ab.2)).map
            (fun ab => (ab.2, c.multi k && c.lazy, c.wrapOf k ab.2, c.varOf ab.2, ab.1))
          = (((c.stepActs k).zipIdx 0).filter (fun ab => c.isActive k ab.2)).map
            (fun ab => (ab.2, c.multi k && c.lazy, c.wrapOf k ab.2, c.varOf ab.2, (specCfgOf σ parent names c).acts ab.2 k)) := by
        apply List.map_congr_left
        intro ab hab
        rw [hA ab (List.mem_filter.mp hab).1]
      rw [h2]
      have h3 : (((c.stepActs k).zipIdx 0).filter (fun ab => c.isActive k ab.2)).map
            (fun ab => (ab.2, c.multi k && c.lazy, c.wrapOf k ab.2, c.varOf ab.2, (specCfgOf σ parent names c).acts ab.2 k))
          = ((((c.stepActs k).zipIdx 0).map Prod.snd).filter (c.isActive k)).map
            (fun b => (b, c.multi k && c.lazy, c.wrapOf k b, c.varOf b, (specCfgOf σ parent names c).acts b k)) := by
        rw [List.filter_map, List.map_map]
        rfl
      rw [h3, hsnd]
      rfl
    · simp only [ok.noJoiner]
      by_cases ha : c.kind.isAsync = true
      · by_cases hm : c.activeCount k > 1
        · simp [ha, hm]
        · simp [ha, hm]
      · simp [ha]
    · simp [Kind.threads, Bool.and_comm]
    · simp [Kind.threads, Bool.and_comm]

end

end JoinModel
