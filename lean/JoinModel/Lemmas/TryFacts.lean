/-
  The try macros on the reference loop: what is returned and what has (not) run.
-/
import JoinModel.Lemmas.SpecFacts
namespace JoinModel

/-- every value a branch holds so far is a success (true between the steps of a try macro) -/
def AllSucc (vals : List (Option Value)) : Prop :=
  ∀ (i : Nat) (v : Value), vals[i]? = some (some v) → v.isSucc = true

theorem firstFail_none_iff (l : List Value) : firstFail l = none ↔ ∀ v ∈ l, v.isSucc = true := by
  induction l with
  | nil => simp [firstFail]
  | cons a l ih =>
    simp only [firstFail, List.mem_cons, forall_eq_or_imp]
    by_cases ha : a.isSucc = true
    · simp [ha, ih]
    · simp [ha]

/-- the first failure, with its position -/
theorem firstFail_some (l : List Value) (v : Value) (h : firstFail l = some v) :
    ∃ pos, ∃ hp : pos < l.length, l[pos] = v ∧ v.isSucc = false ∧ ∀ q (hq : q < pos), (l[q]'(by omega)).isSucc = true := by
  induction l with
  | nil => simp [firstFail] at h
  | cons a l ih =>
    simp only [firstFail] at h
    by_cases ha : a.isSucc = true
    · simp only [ha, if_true] at h
      obtain ⟨pos, hp, h1, h2, h3⟩ := ih h
      refine ⟨pos + 1, by simp; omega, by simpa using h1, h2, ?_⟩
      intro q hq
      cases q with
      | zero => simpa using ha
      | succ q => simpa using h3 q (by omega)
    · simp only [ha, Bool.false_eq_true, if_false, Option.some.injEq] at h
      subst h
      exact ⟨0, by simp, rfl, by simpa using ha, fun q hq => by omega⟩

theorem allSome_getElem (vals : List (Option Value)) (finals : List Value) (h : allSome vals = some finals) :
    ∀ i : Nat, vals[i]? = (finals[i]?).map some := by
  induction vals generalizing finals with
  | nil => simp [allSome] at h; subst h; simp
  | cons v vals ih =>
    cases v with
    | none => simp [allSome] at h
    | some v =>
      simp only [allSome] at h
      cases hr : allSome vals with
      | none => simp [hr] at h
      | some fs =>
        simp [hr] at h; subst h
        intro i
        cases i with
        | zero => simp
        | succ i => simpa using ih fs hr i

theorem active_sorted (sc : SpecCfg) (k : Nat) : (sc.active k).Pairwise (· < ·) :=
  List.Pairwise.sublist List.filter_sublist List.pairwise_lt_range

theorem active_nodup (sc : SpecCfg) (k : Nat) : (sc.active k).Nodup :=
  List.Nodup.sublist List.filter_sublist List.nodup_range

theorem active_lt (sc : SpecCfg) (k : Nat) : ∀ b ∈ sc.active k, b < sc.n := by
  intro b hb
  exact List.mem_range.mp (List.mem_filter.mp hb).1

theorem sorted_getElem_le {l : List Nat} (h : l.Pairwise (· < ·)) {p q : Nat} (hp : p < l.length) (hq : q < l.length)
    (hpq : p ≤ q) : l[p] ≤ l[q] := by
  rcases Nat.lt_or_eq_of_le hpq with hlt | rfl
  · exact Nat.le_of_lt (List.pairwise_iff_getElem.mp h p q hp hq hlt)
  · exact Nat.le_refl _

theorem allSucc_updVals (vals : List (Option Value)) (act : List Nat) (news : List Value)
    (hl : act.length = news.length) (hnd : act.Nodup) (hlt : ∀ b ∈ act, b < vals.length)
    (hv : AllSucc vals) (hn : ∀ v ∈ news, v.isSucc = true) : AllSucc (updVals vals act news) := by
  intro i v hi
  by_cases hm : i ∈ act
  · obtain ⟨pos, hpos, hp⟩ := List.getElem_of_mem hm
    have := updVals_mem vals act news hl hnd pos hpos (hlt _ (List.getElem_mem hpos))
    rw [hp] at this
    rw [this] at hi
    simp only [Option.some.injEq] at hi
    exact hn v (hi ▸ List.getElem_mem _)
  · rw [updVals_not_mem _ _ _ _ hm] at hi
    exact hv i v hi

/-- members of the `(branch, step, value)` list of a step -/
theorem mem_zip_ends {act : List Nat} {news : List Value} {k : Nat} {e : Nat × Nat × Value}
    (he : e ∈ (act.zip news).map fun bv => (bv.1, k, bv.2)) :
    ∃ pos, ∃ h1 : pos < act.length, ∃ h2 : pos < news.length, e = (act[pos], k, news[pos]) := by
  obtain ⟨bv, hbv, rfl⟩ := List.mem_map.mp he
  obtain ⟨pos, hpos, hp⟩ := List.getElem_of_mem hbv
  have h1 : pos < act.length := by simp at hpos; omega
  have h2 : pos < news.length := by simp at hpos; omega
  refine ⟨pos, h1, h2, ?_⟩
  rw [← hp]; simp

/-- Try macros, reference loop: what a result says about the chains that ran. -/
theorem specLoop_try (sc : SpecCfg) (htry : sc.kind.isTry = true) (rem k : Nat) (vals : List (Option Value))
    (hlen : vals.length = sc.n) (hinv : AllSucc vals) (f : Fin) (h : (specLoop sc rem k vals).res = .ok f) :
    match f with
    | .vals _ => ∀ e ∈ chainEnds (specLoop sc rem k vals).trace, e.2.2.isSucc = true
    | .failed v =>
      v.isSucc = false ∧ ∃ b j, k ≤ j ∧ (b, j, v) ∈ chainEnds (specLoop sc rem k vals).trace ∧
        (∀ e ∈ chainEnds (specLoop sc rem k vals).trace, e.2.2.isSucc = false → j ≤ e.2.1 ∧ (e.2.1 = j → b ≤ e.1)) ∧
        (∀ e ∈ (specLoop sc rem k vals).trace, ∀ s, e.step = some s → s ≤ j) ∧
        (∀ b' ∈ sc.active j, ∃ v', (b', j, v') ∈ chainEnds (specLoop sc rem k vals).trace) := by
  induction rem generalizing k vals with
  | zero =>
    obtain ⟨hA, hB⟩ := specLoop_cases sc 0 k vals
    cases hc : (specCapsAll sc k (visibleSpec sc.names vals) (sc.active k)).res with
    | panic s => exact absurd h ((hA (by intro a; rw [hc]; simp)).2 f)
    | stuck => exact absurd h ((hA (by intro a; rw [hc]; simp)).2 f)
    | ok caps =>
      obtain ⟨hB1, hB2⟩ := hB caps hc
      obtain ⟨hl, -⟩ := specCapsAll_length _ _ _ _ _ hc
      cases hn : (specChains sc k vals (visibleSpec sc.names vals) (sc.active k) caps).res with
      | panic s => exact absurd h ((hB1 (by intro a; rw [hn]; simp)).2 f)
      | stuck => exact absurd h ((hB1 (by intro a; rw [hn]; simp)).2 f)
      | ok news =>
        obtain ⟨htr, hres⟩ := hB2 news hn
        have hnl := specChains_length _ _ _ _ _ _ hl _ hn
        have hends : chainEnds (specLoop sc 0 k vals).trace = ((sc.active k).zip news).map fun bv => (bv.1, k, bv.2) := by
          rw [htr]
          have htail : (specTail sc 0 k vals news).trace = [] := by
            simp only [specTail]
            cases allSome (updVals vals (sc.active k) news) with
            | none => rfl
            | some finals =>
              simp only [htry, if_true]
              cases firstFail finals <;> rfl
          rw [htail]
          simp [specCapsAll_ends, specChains_ends _ _ _ _ _ _ hl _ hn]
        rw [hres] at h
        simp only [specTail] at h
        cases hall : allSome (updVals vals (sc.active k) news) with
        | none => simp [hall, M.stuck] at h
        | some finals =>
          simp only [hall, htry, if_true] at h
          have hget := allSome_getElem _ _ hall
          -- value of an active branch in `finals`
          have hfin : ∀ pos (hp : pos < (sc.active k).length), finals[(sc.active k)[pos]]? = some (news[pos]'(hnl ▸ hp)) := by
            intro pos hp
            have := updVals_mem vals (sc.active k) news hnl.symm (active_nodup sc k) pos hp
              (by rw [hlen]; exact active_lt sc k _ (List.getElem_mem hp))
            rw [hget] at this
            cases hfi : finals[(sc.active k)[pos]]? with
            | none => simp [hfi] at this
            | some x => simp [hfi] at this; rw [this]
          cases hff : firstFail finals with
          | none =>
            simp [hff, M.ret] at h; subst h
            simp only
            intro e he
            rw [hends] at he
            obtain ⟨pos, h1, h2, rfl⟩ := mem_zip_ends he
            have := hfin pos h1
            exact (firstFail_none_iff finals).mp hff _ (List.mem_of_getElem? this)
          | some v =>
            simp [hff, M.ret] at h; subst h
            obtain ⟨i, hi, hiv, hvs, hmin⟩ := firstFail_some finals v hff
            -- the failing final value belongs to an active branch
            have hact : i ∈ sc.active k := by
              apply Classical.byContradiction
              intro hna
              have h1 := updVals_not_mem vals (sc.active k) news i hna
              rw [hget, List.getElem?_eq_getElem hi, hiv] at h1
              have := hinv i v h1.symm
              rw [hvs] at this; cases this
            obtain ⟨pos, hpos, hp⟩ := List.getElem_of_mem hact
            have hnv : news[pos]'(hnl ▸ hpos) = v := by
              have := hfin pos hpos
              rw [hp, List.getElem?_eq_getElem hi, hiv] at this
              exact (Option.some.inj this).symm
            refine ⟨hvs, i, k, Nat.le_refl _, ?_, ?_, ?_, ?_⟩
            · rw [hends]
              apply List.mem_map.mpr
              refine ⟨(i, v), ?_, rfl⟩
              rw [← hp, ← hnv]
              exact List.mem_iff_getElem.mpr ⟨pos, by simp; omega, by simp⟩
            · intro e he hes
              rw [hends] at he
              obtain ⟨q, h1, h2, rfl⟩ := mem_zip_ends he
              refine ⟨Nat.le_refl _, fun _ => ?_⟩
              simp only at hes ⊢
              -- finals at the branch of `q` fails, so the first failing index `i` is not larger
              have hq := hfin q h1
              apply Classical.byContradiction
              intro hlt
              have hlt' : (sc.active k)[q] < i := by omega
              have := hmin _ hlt'
              have hq' : finals[(sc.active k)[q]]'(by omega) = news[q] := by
                have h3 : (sc.active k)[q] < finals.length := by omega
                rw [List.getElem?_eq_getElem h3] at hq
                exact Option.some.inj hq
              rw [hq', hes] at this
              cases this
            · intro e he s hs
              obtain ⟨s', h1, h2, h3⟩ := specLoop_step_ge sc 0 k vals e he
              rw [h1] at hs; cases hs; omega
            · intro b' hb'
              obtain ⟨q, hq, hqb⟩ := List.getElem_of_mem hb'
              refine ⟨news[q]'(hnl ▸ hq), ?_⟩
              rw [hends]
              apply List.mem_map.mpr
              refine ⟨(b', news[q]'(hnl ▸ hq)), ?_, rfl⟩
              rw [← hqb]
              exact List.mem_iff_getElem.mpr ⟨q, by simp; omega, by simp⟩
  | succ rem ih =>
    obtain ⟨hA, hB⟩ := specLoop_cases sc (rem + 1) k vals
    cases hc : (specCapsAll sc k (visibleSpec sc.names vals) (sc.active k)).res with
    | panic s => exact absurd h ((hA (by intro a; rw [hc]; simp)).2 f)
    | stuck => exact absurd h ((hA (by intro a; rw [hc]; simp)).2 f)
    | ok caps =>
      obtain ⟨hB1, hB2⟩ := hB caps hc
      obtain ⟨hl, -⟩ := specCapsAll_length _ _ _ _ _ hc
      cases hn : (specChains sc k vals (visibleSpec sc.names vals) (sc.active k) caps).res with
      | panic s => exact absurd h ((hB1 (by intro a; rw [hn]; simp)).2 f)
      | stuck => exact absurd h ((hB1 (by intro a; rw [hn]; simp)).2 f)
      | ok news =>
        obtain ⟨htr, hres⟩ := hB2 news hn
        have hnl := specChains_length _ _ _ _ _ _ hl _ hn
        have hends : chainEnds (specLoop sc (rem + 1) k vals).trace =
            (((sc.active k).zip news).map fun bv => (bv.1, k, bv.2)) ++ chainEnds (specTail sc (rem + 1) k vals news).trace := by
          rw [htr]
          simp [specCapsAll_ends, specChains_ends _ _ _ _ _ _ hl _ hn]
        rw [hres] at h
        cases hff : firstFail news with
        | some v =>
          have htail : specTail sc (rem + 1) k vals news = M.ret (.failed v) := by
            simp [specTail, htry, hff]
          rw [htail] at h hends
          simp [M.ret] at h; subst h
          simp only [M.ret, chainEnds_nil, List.append_nil] at hends
          obtain ⟨pos, hpos, hpv, hvs, hmin⟩ := firstFail_some news v hff
          have hpa : pos < (sc.active k).length := by omega
          refine ⟨hvs, (sc.active k)[pos], k, Nat.le_refl _, ?_, ?_, ?_, ?_⟩
          · rw [hends]
            apply List.mem_map.mpr
            refine ⟨((sc.active k)[pos], v), ?_, rfl⟩
            rw [← hpv]
            exact List.mem_iff_getElem.mpr ⟨pos, by simp; omega, by simp⟩
          · intro e he hes
            rw [hends] at he
            obtain ⟨q, h1, h2, rfl⟩ := mem_zip_ends he
            refine ⟨Nat.le_refl _, fun _ => ?_⟩
            simp only at hes ⊢
            apply sorted_getElem_le (active_sorted sc k) hpa h1
            apply Classical.byContradiction
            intro hlt
            have := hmin q (by omega)
            rw [hes] at this; cases this
          · intro e he s hs
            rw [htr, htail] at he
            simp only [M.ret, List.append_nil] at he
            rcases List.mem_append.mp he with h1 | h1
            · have := (specCapsAll_step _ _ _ _ e h1).1
              rw [this] at hs; cases hs; exact Nat.le_refl _
            · have := (specChains_step _ _ _ _ _ _ e h1).1
              rw [this] at hs; cases hs; exact Nat.le_refl _
          · intro b' hb'
            obtain ⟨q, hq, hqb⟩ := List.getElem_of_mem hb'
            refine ⟨news[q]'(hnl ▸ hq), ?_⟩
            rw [hends]
            apply List.mem_map.mpr
            refine ⟨(b', news[q]'(hnl ▸ hq)), ?_, rfl⟩
            rw [← hqb]
            exact List.mem_iff_getElem.mpr ⟨q, by simp; omega, by simp⟩
        | none =>
          have htail : specTail sc (rem + 1) k vals news = specLoop sc rem (k + 1) (updVals vals (sc.active k) news) := by
            simp [specTail, htry, hff]
          rw [htail] at h hends
          have hsucc := (firstFail_none_iff news).mp hff
          have hinv' : AllSucc (updVals vals (sc.active k) news) :=
            allSucc_updVals vals (sc.active k) news hnl.symm (active_nodup sc k)
              (fun b hb => by rw [hlen]; exact active_lt sc k b hb) hinv hsucc
          have hrec := ih (k + 1) _ (by rw [updVals_length, hlen]) hinv' h
          have hthis : ∀ e ∈ ((sc.active k).zip news).map (fun bv => (bv.1, k, bv.2)), e.2.2.isSucc = true := by
            intro e he
            obtain ⟨q, h1, h2, rfl⟩ := mem_zip_ends he
            exact hsucc _ (List.getElem_mem _)
          cases f with
          | vals ps =>
            simp only at hrec ⊢
            intro e he
            rw [hends] at he
            rcases List.mem_append.mp he with h1 | h1
            · exact hthis e h1
            · exact hrec e h1
          | failed v =>
            simp only at hrec ⊢
            obtain ⟨hvs, b, j, hkj, hmem, hmin, hsteps, hcomp⟩ := hrec
            refine ⟨hvs, b, j, by omega, ?_, ?_, ?_, ?_⟩
            · rw [hends]; exact List.mem_append_right _ hmem
            · intro e he hes
              rw [hends] at he
              rcases List.mem_append.mp he with h1 | h1
              · have := hthis e h1
                rw [hes] at this; cases this
              · exact hmin e h1 hes
            · intro e he s hs
              rw [htr, htail] at he
              rcases List.mem_append.mp he with h1 | h1
              · rcases List.mem_append.mp h1 with h2 | h2
                · have := (specCapsAll_step _ _ _ _ e h2).1
                  rw [this] at hs; cases hs; omega
                · have := (specChains_step _ _ _ _ _ _ e h2).1
                  rw [this] at hs; cases hs; omega
              · exact hsteps e h1 s hs
            · intro b' hb'
              obtain ⟨v', hv'⟩ := hcomp b' hb'
              exact ⟨v', by rw [hends]; exact List.mem_append_right _ hv'⟩

end JoinModel
