/-
  `evalStep` of the generated step code equals the captures + chains of the reference loop.
-/
import JoinModel.Lemmas.Invariant
namespace JoinModel

theorem M.andThen_res_ok {α β} {m : M α} {f : α → M β} {b : β} (h : (m.andThen f).res = .ok b) :
    ∃ a, m.res = .ok a ∧ (f a).res = .ok b := by
  cases m with
  | mk t r =>
    cases r with
    | ok a => exact ⟨a, rfl, by simpa [M.andThen] using h⟩
    | panic s => simp [M.andThen] at h
    | stuck => simp [M.andThen] at h

/-! ### result lengths on the reference side -/

theorem specCapsBranch_length (sc : SpecCfg) (k b : Nat) (vis : List (String × Value)) (keys : List (Nat × Nat))
    (vs : List Value) (h : (specCapsBranch sc k b vis keys).res = .ok vs) : vs.length = keys.length := by
  induction keys generalizing vs with
  | nil => simp [specCapsBranch, M.ret] at h; subst h; rfl
  | cons ei rest ih =>
    obtain ⟨e, i⟩ := ei
    simp only [specCapsBranch] at h
    obtain ⟨_, _, h⟩ := M.andThen_res_ok h
    obtain ⟨v, _, h⟩ := M.andThen_res_ok h
    obtain ⟨vs', h1, h⟩ := M.andThen_res_ok h
    simp [M.ret] at h
    subst h
    simp [ih vs' h1]

theorem specCapsAll_length (sc : SpecCfg) (k : Nat) (vis : List (String × Value)) (bs : List Nat)
    (capss : List (List Value)) (h : (specCapsAll sc k vis bs).res = .ok capss) :
    ∃ hl : bs.length = capss.length,
      ∀ pos (h1 : pos < bs.length), (capss[pos]'(hl ▸ h1)).length = (capKeys (sc.acts bs[pos] k)).length := by
  induction bs generalizing capss with
  | nil => simp [specCapsAll, M.ret] at h; subst h; exact ⟨rfl, fun pos h1 => by simp at h1⟩
  | cons b bs ih =>
    simp only [specCapsAll] at h
    obtain ⟨vs, h1, h⟩ := M.andThen_res_ok h
    obtain ⟨rest, h2, h⟩ := M.andThen_res_ok h
    simp [M.ret] at h
    subst h
    obtain ⟨hl, hrest⟩ := ih rest h2
    refine ⟨by simp [hl], ?_⟩
    intro pos hpos
    cases pos with
    | zero => simpa using specCapsBranch_length sc k b vis _ vs h1
    | succ pos => simpa using hrest pos (by simpa using hpos)

theorem specChainsSeq_length (sc : SpecCfg) (k : Nat) (vals : List (Option Value)) (vis : List (String × Value))
    (bcs : List (Nat × List Value)) (news : List Value) (h : (specChainsSeq sc k vals vis bcs).res = .ok news) :
    news.length = bcs.length := by
  induction bcs generalizing news with
  | nil => simp [specChainsSeq, M.ret] at h; subst h; rfl
  | cons bc rest ih =>
    obtain ⟨b, caps⟩ := bc
    simp only [specChainsSeq] at h
    obtain ⟨v, _, h⟩ := M.andThen_res_ok h
    obtain ⟨vs, h1, h⟩ := M.andThen_res_ok h
    simp [M.ret] at h
    subst h
    simp [ih vs h1]

theorem specJoins_length (k : Nat) (outs : List (Nat × ChainOut)) (news : List Value)
    (h : (specJoins k outs).res = .ok news) : news.length = outs.length := by
  induction outs generalizing news with
  | nil => simp [specJoins, M.ret] at h; subst h; rfl
  | cons bo rest ih =>
    obtain ⟨b, o⟩ := bo
    simp only [specJoins] at h
    obtain ⟨_, _, h⟩ := M.andThen_res_ok h
    cases hr : o.res with
    | ok v =>
      simp only [hr] at h
      obtain ⟨vs, h1, h⟩ := M.andThen_res_ok h
      simp [M.ret] at h
      subst h
      simp [ih vs h1]
    | panic n => simp [hr, M.lift] at h

theorem specChainsFork_length (sc : SpecCfg) (k : Nat) (vals : List (Option Value)) (vis : List (String × Value))
    (bcs : List (Nat × List Value)) (news : List Value) (h : (specChainsFork sc k vals vis bcs).res = .ok news) :
    news.length = bcs.length := by
  simp only [specChainsFork] at h
  obtain ⟨_, _, h⟩ := M.andThen_res_ok h
  simpa using specJoins_length k _ news h

/-! ### lookups through scratch bindings -/

theorem lookup_scratch_append (junk env : Env) (x : Var) (hj : ∀ xv ∈ junk, xv.1.isScratch = true)
    (hx : x.isScratch = false) : (junk ++ env).lookup x = env.lookup x := by
  rw [lookup_append, lookup_eq_none_of_not_mem, Option.none_or]
  intro hm
  obtain ⟨xv, hxv, h⟩ := List.mem_map.mp hm
  have := hj xv hxv
  rw [h, hx] at this
  cases this

theorem capEnv_scratch (acts : Nat → List Member) (bs : List Nat) (capss : List (List Value)) :
    ∀ xv ∈ capEnv acts bs capss, xv.1.isScratch = true := by
  intro xv hxv
  obtain ⟨b, _, e, i, h⟩ := capEnv_keys acts bs capss xv hxv
  rw [h]; rfl

def tbsEnv (c : Ctx) (k : Nat) : Env :=
  ((if c.kind.threads && decide (c.activeCount k ≥ 2) then (c.activeIdx k).map (fun b => (b, b)) else []).map
    fun (ba : Nat × Nat) => (Var.j ba.1, Value.builder ba.2)).reverse

theorem tbsEnv_scratch (c : Ctx) (k : Nat) : ∀ xv ∈ tbsEnv c k, xv.1.isScratch = true := by
  intro xv hxv
  simp only [tbsEnv, List.mem_reverse, List.mem_map] at hxv
  obtain ⟨ba, _, h⟩ := hxv
  rw [← h]; rfl

theorem lookup_builders (bs : List Nat) (hnd : bs.Nodup) (env : Env) (b : Nat) (hb : b ∈ bs) :
    ((bs.map fun b => (Var.j b, Value.builder b)).reverse ++ env).lookup (.j b) = some (.builder b) := by
  induction bs generalizing env with
  | nil => simp at hb
  | cons b0 bs ih =>
    have hnd' := List.nodup_cons.mp hnd
    simp only [List.map_cons, List.reverse_cons, List.append_assoc]
    rcases List.mem_cons.mp hb with rfl | hmem
    · have hnone : ((bs.map fun b => (Var.j b, Value.builder b)).reverse).lookup (.j b) = none := by
        apply lookup_eq_none_of_not_mem
        intro hm
        simp only [List.map_reverse, List.mem_reverse, List.mem_map] at hm
        obtain ⟨xv, ⟨b', hb', rfl⟩, hx⟩ := hm
        simp only [Var.j.injEq] at hx
        exact hnd'.1 (hx ▸ hb')
      simp [lookup_append, hnone, List.lookup]
    · exact ih hnd'.2 _ hmem

/-! ### the step equation -/

def cfgOf (σ : World) (parent : Option String) (names : List (Option String)) : EvalCfg := ⟨σ, names, parent⟩

/-- reference side: the chains of step `k` -/
def specChains (sc : SpecCfg) (k : Nat) (vals : List (Option Value)) (vis : List (String × Value))
    (act : List Nat) (caps : List (List Value)) : M (List Value) :=
  if sc.kind.threads && decide (act.length > 1) then specChainsFork sc k vals vis (act.zip caps)
  else specChainsSeq sc k vals vis (act.zip caps)

theorem evalJoinForm_simple (cfg : EvalCfg) (k : Nat) (env : Env) (form : JoinForm) (elems : List Elem)
    (h : form = .tuple ∨ form = .awaitCat ∨ ∃ j, form = .futJoin j false) :
    evalJoinForm cfg k env form elems = (evalElems cfg k env elems).andThen fun vs => M.ret (mkTuple vs) := by
  rcases h with rfl | rfl | ⟨j, rfl⟩ <;> rfl

theorem evalStep_eq {c : Ctx} {names : List (Option String)} (ok : CtxOK c names) (σ : World)
    (parent : Option String) (k : Nat) (env : Env) (vals : List (Option Value)) (hinv : Inv c names k env vals)
    (s : StepCode) (hs : genStep c k = .ok s)
    (hfirst : k = 0 → ∀ b ∈ c.activeIdx k, usesPrev ((specCfgOf σ parent names c).acts b k) = false)
    (hnt : c.kind.isAsync = true → c.kind.isTry = false) :
    evalStep (cfgOf σ parent names) env s =
      (specCapsAll (specCfgOf σ parent names c) k (visibleSpec names vals) (c.activeIdx k)).andThen fun capss =>
      (specChains (specCfgOf σ parent names c) k vals (visibleSpec names vals) (c.activeIdx k) capss).andThen fun news =>
      M.ret (capEnv (fun b => (specCfgOf σ parent names c).acts b k) (c.activeIdx k) capss ++ (tbsEnv c k ++ env),
             mkTuple news) := by
  obtain ⟨hk, hdefs, helems, hform, htbs, hsj⟩ := genStep_shape ok σ parent k s hs
  have hvis := visible_eq ok hinv
  have hvisb : visible names (tbsEnv c k ++ env) = visibleSpec names vals := by
    rw [visible_append_internal _ _ _ (fun xv h => Var.internal_of_scratch (tbsEnv_scratch c k xv h)), hvis]
  have hformS : s.form = .tuple ∨ s.form = .awaitCat ∨ ∃ j, s.form = .futJoin j false := by
    by_cases ha : c.kind.isAsync = true
    · have := hform.2 ha
      rw [hnt ha] at this
      exact Or.inr this
    · exact Or.inl (hform.1 (by simpa using ha))
  unfold evalStep
  simp only [evalJoinForm_simple _ _ _ _ _ hformS]
  have henvb : (s.tbs.map fun (ba : Nat × Nat) => (Var.j ba.1, Value.builder ba.2)).reverse = tbsEnv c k := by
    rw [htbs]; rfl
  simp only [henvb, hk, hdefs]
  rw [evalDefs_all (cfgOf σ parent names) (specCfgOf σ parent names c) rfl k
    (fun b => (specCfgOf σ parent names c).acts b k) (fun _ => rfl)]
  simp only [cfgOf, hvisb, M.andThen_assoc, M.ret_andThen]
  apply M.andThen_congr
  intro capss hcapss
  obtain ⟨hl, hlens⟩ := specCapsAll_length _ _ _ _ _ hcapss
  -- environment in which the operands of the join expression are evaluated
  generalize henv' : capEnv (fun b => (specCfgOf σ parent names c).acts b k) (c.activeIdx k) capss
      ++ (tbsEnv c k ++ env) = env'
  have hjunk : ∀ xv ∈ capEnv (fun b => (specCfgOf σ parent names c).acts b k) (c.activeIdx k) capss ++ tbsEnv c k,
      xv.1.isScratch = true := by
    intro xv hxv
    rcases List.mem_append.mp hxv with h | h
    · exact capEnv_scratch _ _ _ xv h
    · exact tbsEnv_scratch c k xv h
  have hvis' : visible names env' = visibleSpec names vals := by
    rw [← henv', ← List.append_assoc,
      visible_append_internal _ _ _ (fun xv h => Var.internal_of_scratch (hjunk xv h)), hvis]
  have hlook : ∀ i, i < c.n → env'.lookup (c.varOf i) = (vals[i]?).join := by
    intro i hi
    rw [← henv', ← List.append_assoc, lookup_scratch_append _ _ _ hjunk (varOf_not_scratch ok i hi)]
    exact hinv.agree i hi
  have hprev : ∀ b ∈ c.activeIdx k, usesPrev ((specCfgOf σ parent names c).acts b k) = true →
      ∃ v, env'.lookup (c.varOf b) = some v ∧ (vals[b]?).join = some v := by
    intro b hb hu
    have hbn := activeIdx_lt k b hb
    have hk0 : 0 < k := by
      rcases Nat.eq_zero_or_pos k with h0 | h0
      · have := hfirst h0 b hb
        rw [this] at hu
        cases hu
      · exact h0
    have hsome := hinv.bound hk0 b hbn
    obtain ⟨v, hv⟩ := Option.isSome_iff_exists.mp hsome
    exact ⟨v, by rw [hlook b hbn, hv], hv⟩
  have hcaps : ∀ pos (h : pos < (c.activeIdx k).length),
      lookupAll env' (capVars (c.activeIdx k)[pos] ((specCfgOf σ parent names c).acts (c.activeIdx k)[pos] k))
        = some (capss[pos]'(hl ▸ h)) := by
    intro pos h
    rw [← henv']
    apply lookupAll_capEnv (fun b => (specCfgOf σ parent names c).acts b k) _ _ _ (activeIdx_nodup k) hl
    intro p hp
    rw [hlens p hp]
    have := congrArg List.length
      (capDefsOf_keys (c.activeIdx k)[p] 0 ((specCfgOf σ parent names c).acts (c.activeIdx k)[p] k) 0)
    simpa [capVars, capKeys] using this
  have hcount := activeCount_eq ok k
  by_cases hthr : (c.kind.threads && decide (c.activeCount k ≥ 2)) = true
  · -- thread-spawning step
    have hsp : c.kind.threads = true := by simp only [Bool.and_eq_true] at hthr; exact hthr.1
    have h2 : 2 ≤ (c.activeIdx k).length := by
      simp only [Bool.and_eq_true, decide_eq_true_eq] at hthr; rw [← hcount]; exact hthr.2
    have hmulti : c.multi k = true := by simp [Ctx.multi, hcount]; omega
    obtain ⟨hspn, hna⟩ : c.kind.isSpawn = true ∧ c.kind.isAsync = false := by simpa [Kind.threads] using hsp
    have hform := hform.1 hna
    have hel : s.elems.map Elem.sem = (c.activeIdx k).map (fun b =>
        (b, true, ElemWrap.thread b, c.varOf b, (specCfgOf σ parent names c).acts b k)) := by
      rw [helems]
      apply List.map_congr_left
      intro b _
      simp [hmulti, ok.lazyDefault, hsp, Ctx.wrapOf, hspn, hna]
    have hj : ∀ b ∈ c.activeIdx k, env'.lookup (.j b) = some (.builder b) := by
      intro b hb
      rw [← henv', lookup_append, lookup_eq_none_of_not_mem, Option.none_or]
      · have : tbsEnv c k = ((c.activeIdx k).map fun b => (Var.j b, Value.builder b)).reverse := by
          simp only [tbsEnv, hthr, if_true, List.map_map]
          rfl
        rw [this]
        exact lookup_builders _ (activeIdx_nodup k) env b hb
      · intro hm
        obtain ⟨xv, hxv, hx⟩ := List.mem_map.mp hm
        obtain ⟨b', _, e, i, h⟩ := capEnv_keys _ _ _ xv hxv
        rw [h] at hx
        cases hx
    rw [evalElems_fork ⟨σ, names, parent⟩ (specCfgOf σ parent names c) rfl rfl k vals env' c.varOf
      (c.activeIdx k) capss s.elems hel hprev hl hcaps hj]
    simp only [hvis', hform, hsj, hthr, if_true]
    have hb : s.elems.map Elem.b = c.activeIdx k := by
      have := congrArg (List.map (fun (t : Nat × Bool × ElemWrap × Var × List Member) => t.1)) hel
      simpa [Elem.sem, List.map_map, Function.comp_def] using this
    have hsc : (specCfgOf σ parent names c).kind.threads = true := hsp
    simp only [specChains, hsc, Bool.true_and, show decide ((c.activeIdx k).length > 1) = true by simp; omega, if_true,
      specChainsFork]
    -- the handles, then the joins
    generalize hall : forkOuts (specCfgOf σ parent names c) k vals (visibleSpec names vals) ((c.activeIdx k).zip capss)
      = all
    have hall_len : all.length = (c.activeIdx k).length := by
      rw [← hall]; simp [forkOuts, hl]
    have hall_fst : all.map Prod.fst = c.activeIdx k := by
      rw [← hall]
      simp only [forkOuts, List.map_map]
      have : (Prod.fst ∘ fun (x : Nat × List Value) => (x.1,
          (specCfgOf σ parent names c).σ.chain x.1 k (specPrev (specCfgOf σ parent names c) vals x.1 k) x.2
            (visibleSpec names vals))) = Prod.fst := by
        funext x; rfl
      rw [this, List.map_fst_zip]
      omega
    have hproj : idxProjs c k = (List.range' 0 (all.length - 0)).map Proj.idx := by
      simp only [idxProjs, hcount, Nat.sub_zero, hall_len, List.range_eq_range']
      apply List.map_congr_left
      intro i _
      simp; omega
    have hjoin := evalJoins_spec k (all.map fun bo => handleOf bo.2) (by simpa [hall_len] using h2) all rfl 0
    simp only [List.drop_zero] at hjoin
    rw [hall_fst, ← hproj] at hjoin
    simp only [M.andThen, M.ret, M.tell, hb, forkOuts] at hjoin ⊢
    simp only [forkOuts] at hall
    rw [hall]
    rw [hjoin]
    cases hres : (specJoins k all).res <;> simp [henv']
  · -- sequential step
    have hw0 : ∃ w0 : ElemWrap, (w0 = .plain ∨ w0 = .tokio) ∧ ∀ b, c.wrapOf k b = w0 := by
      by_cases ha : c.kind.isAsync = true
      · by_cases hm : (c.multi k && c.kind.isSpawn) = true
        · exact ⟨.tokio, Or.inr rfl, fun b => by simp [Ctx.wrapOf, hm, ha]⟩
        · exact ⟨.plain, Or.inl rfl, fun b => by simp [Ctx.wrapOf, hm]⟩
      · refine ⟨.plain, Or.inl rfl, fun b => ?_⟩
        simp only [Ctx.wrapOf]
        by_cases hsp : c.kind.threads = true
        · have hm : c.multi k = false := by
            simp only [Bool.and_eq_true, decide_eq_true_eq, not_and] at hthr
            have := hthr hsp
            simp [Ctx.multi]; omega
          simp [hm]
        · have : c.kind.isSpawn = false := by
            simp only [Kind.threads, Bool.and_eq_true, Bool.not_eq_true', not_and, Bool.not_eq_false] at hsp
            cases hs : c.kind.isSpawn with
            | false => rfl
            | true => exact absurd (hsp hs) ha
          simp [this]
    obtain ⟨w0, hw0, hwall⟩ := hw0
    have hel : s.elems.map Elem.sem = (c.activeIdx k).map (fun b =>
        (b, false, w0, c.varOf b, (specCfgOf σ parent names c).acts b k)) := by
      rw [helems]
      apply List.map_congr_left
      intro b _
      have hml : (c.multi k && c.lazy) = false := by
        rw [ok.lazyDefault]
        simp only [Bool.and_eq_true, decide_eq_true_eq, not_and, Bool.not_eq_true] at hthr
        by_cases hsp : c.kind.threads = true
        · have := hthr hsp
          simp [Ctx.multi, hsp]; simp at this; omega
        · simp [hsp]
      simp [hml, hwall b]
    rw [evalElems_seq ⟨σ, names, parent⟩ (specCfgOf σ parent names c) rfl k vals env' c.varOf
      (c.activeIdx k) capss s.elems w0 hw0 hel hprev hl hcaps]
    have hnot : ((specCfgOf σ parent names c).kind.threads && decide ((c.activeIdx k).length > 1)) = false := by
      have hsc : (specCfgOf σ parent names c).kind = c.kind := rfl
      rw [hsc]
      simp only [Bool.and_eq_true, decide_eq_true_eq, not_and] at hthr
      by_cases hsp : c.kind.threads = true
      · have := hthr hsp
        simp [hsp]; omega
      · simp [hsp]
    by_cases ha : c.kind.isAsync = true
    · rw [hnt ha] at hform
      rcases hform.2 ha with hf | ⟨j, hf⟩
      · simp only [hvis', hf, hsj, hthr, specChains, hnot, M.andThen_assoc, M.ret_andThen, Bool.false_eq_true, if_false]
      · simp only [hvis', hf, hsj, hthr, specChains, hnot, M.andThen_assoc, M.ret_andThen, Bool.false_eq_true, if_false]
    · have hf := hform.1 (by simpa using ha)
      simp only [hvis', hf, hsj, hthr, specChains, hnot, M.andThen_assoc, M.ret_andThen, Bool.false_eq_true, if_false]

end JoinModel
