/-
  The thread-spawning macros compute what their sequential counterparts compute: the reference loop with forked chains
  and the reference loop with chains run one after the other end with the same values — and if either panics, so does
  the other (at the failing chain in one, at the join of its thread in the other).
-/
import JoinModel.Spec
namespace JoinModel

/-- same outcome, panics identified with each other (the sequential macro dies in the panicking chain, the
    thread-spawning one at the `join().unwrap()` of its thread) -/
def Res.sim {α : Type} : Res α → Res α → Prop
  | .ok a, .ok b => a = b
  | .panic _, .panic _ => True
  | .stuck, .stuck => True
  | _, _ => False

theorem Res.sim_refl {α : Type} (r : Res α) : r.sim r := by cases r <;> simp [Res.sim]

theorem M.andThen_sim {α β : Type} (m1 m2 : M α) (f1 f2 : α → M β) (hm : m1.res.sim m2.res)
    (hf : ∀ a, (f1 a).res.sim (f2 a).res) : (m1.andThen f1).res.sim (m2.andThen f2).res := by
  cases h1 : m1.res <;> cases h2 : m2.res <;> simp only [h1, h2, Res.sim] at hm <;> simp [M.andThen, h1, h2, Res.sim]
  · subst hm; exact hf _

/-- the same configuration as a thread-spawning macro -/
def SpecCfg.spawning (c : SpecCfg) : SpecCfg := { c with kind := { c.kind with isSpawn := true } }

theorem specCapsBranch_spawning (c : SpecCfg) (k b : Nat) (vis : List (String × Value)) (keys : List (Nat × Nat)) :
    specCapsBranch c.spawning k b vis keys = specCapsBranch c k b vis keys := by
  induction keys with
  | nil => rfl
  | cons x xs ih => obtain ⟨e, i⟩ := x; simp only [specCapsBranch, ih]; rfl

theorem specCapsAll_spawning (c : SpecCfg) (k : Nat) (vis : List (String × Value)) (bs : List Nat) :
    specCapsAll c.spawning k vis bs = specCapsAll c k vis bs := by
  induction bs with
  | nil => rfl
  | cons b bs ih => simp only [specCapsAll, ih, specCapsBranch_spawning]; rfl

/-- joining forked chains gives the values the sequential run gives, or both panic -/
theorem specChains_sim (c : SpecCfg) (k : Nat) (vals : List (Option Value)) (vis : List (String × Value))
    (bs : List (Nat × List Value)) :
    (specChainsSeq c k vals vis bs).res.sim (specChainsFork c.spawning k vals vis bs).res := by
  have key : ∀ bs : List (Nat × List Value),
      (specChainsSeq c k vals vis bs).res.sim
        (specJoins k (bs.map fun (b, caps) => (b, c.σ.chain b k (specPrev c vals b k) caps vis))).res := by
    intro bs
    induction bs with
    | nil => simp [specChainsSeq, specJoins, M.ret, Res.sim]
    | cons bc rest ih =>
      obtain ⟨b, caps⟩ := bc
      simp only [specChainsSeq, List.map_cons, specJoins]
      cases ho : (c.σ.chain b k (specPrev c vals b k) caps vis).res with
      | panic n => simp [M.andThen, M.tell, M.lift, UR.toRes, ho, Res.sim]
      | ok v =>
        simp only [UR.toRes, ho]
        have : ((M.tell [MEv.join b k]).andThen fun _ =>
            (specJoins k (rest.map fun (b, caps) => (b, c.σ.chain b k (specPrev c vals b k) caps vis))).andThen fun vs =>
              M.ret (v :: vs)).res =
            ((specJoins k (rest.map fun (b, caps) => (b, c.σ.chain b k (specPrev c vals b k) caps vis))).andThen fun vs =>
              M.ret (v :: vs)).res := by
          simp [M.andThen, M.tell]
        rw [this]
        have h1 : ((⟨(chainEvents b k (c.σ.chain b k (specPrev c vals b k) caps vis)).map MEv.ev, Res.ok v⟩ : M Value).andThen
            fun v => (specChainsSeq c k vals vis rest).andThen fun vs => M.ret (v :: vs)).res =
            ((specChainsSeq c k vals vis rest).andThen fun vs => M.ret (v :: vs)).res := by
          simp [M.andThen]
        rw [h1]
        exact M.andThen_sim _ _ _ _ ih (fun a => Res.sim_refl _)
  have hfork : (specChainsFork c.spawning k vals vis bs).res =
      (specJoins k (bs.map fun (b, caps) => (b, c.σ.chain b k (specPrev c vals b k) caps vis))).res := by
    simp only [specChainsFork, M.andThen, M.tell]
    rfl
  rw [hfork]
  exact key bs

/-- **The step loops agree.**  From any step and state the loop of a sequential macro and the loop of its
    thread-spawning counterpart end with the same outcome (values, or the failure of a try macro), or both panic. -/
theorem specLoop_spawning_sim (c : SpecCfg) (hs : c.kind.isSpawn = false) (ha : c.kind.isAsync = false) :
    ∀ (rem k : Nat) (vals : List (Option Value)),
      (specLoop c rem k vals).res.sim (specLoop c.spawning rem k vals).res := by
  have hth : c.kind.threads = false := by simp [Kind.threads, hs]
  have hth' : c.spawning.kind.threads = true := by simp [Kind.threads, SpecCfg.spawning, ha]
  have htry : c.spawning.kind.isTry = c.kind.isTry := rfl
  intro rem
  induction rem with
  | zero =>
    intro k vals
    unfold specLoop
    simp only [hth, hth', Bool.false_and, Bool.true_and, Bool.false_eq_true, if_false, htry]
    rw [specCapsAll_spawning]
    refine M.andThen_sim _ _ _ _ (Res.sim_refl _) (fun caps => ?_)
    have hact : c.spawning.active k = c.active k := rfl
    rw [hact]
    by_cases hm : (c.active k).length > 1
    · simp only [hm, decide_true, if_true]
      refine M.andThen_sim _ _ _ _ (specChains_sim c k vals _ _) (fun news => Res.sim_refl _)
    · simp only [hm, decide_false, Bool.false_eq_true, if_false]
      refine M.andThen_sim _ _ _ _ ?_ (fun news => Res.sim_refl _)
      have : specChainsSeq c.spawning k vals (visibleSpec c.spawning.names vals) ((c.active k).zip caps) =
          specChainsSeq c k vals (visibleSpec c.names vals) ((c.active k).zip caps) := by
        generalize (c.active k).zip caps = l
        induction l with
        | nil => rfl
        | cons x xs ih => obtain ⟨b, cp⟩ := x; simp only [specChainsSeq, ih]; rfl
      rw [this]
      exact Res.sim_refl _
  | succ rem ih =>
    intro k vals
    unfold specLoop
    simp only [hth, hth', Bool.false_and, Bool.true_and, Bool.false_eq_true, if_false, htry]
    rw [specCapsAll_spawning]
    refine M.andThen_sim _ _ _ _ (Res.sim_refl _) (fun caps => ?_)
    have hact : c.spawning.active k = c.active k := rfl
    rw [hact]
    have htail : ∀ news : List Value,
        (if c.kind.isTry = true then
            match firstFail news with
            | some v => M.ret (Fin.failed v)
            | none => specLoop c rem (k + 1) (updVals vals (c.active k) news)
          else specLoop c rem (k + 1) (updVals vals (c.active k) news)).res.sim
        (if c.kind.isTry = true then
            match firstFail news with
            | some v => M.ret (Fin.failed v)
            | none => specLoop c.spawning rem (k + 1) (updVals vals (c.active k) news)
          else specLoop c.spawning rem (k + 1) (updVals vals (c.active k) news)).res := by
      intro news
      split
      · split
        · exact Res.sim_refl _
        · exact ih _ _
      · exact ih _ _
    by_cases hm : (c.active k).length > 1
    · simp only [hm, decide_true, if_true]
      exact M.andThen_sim _ _ _ _ (specChains_sim c k vals _ _) htail
    · simp only [hm, decide_false, Bool.false_eq_true, if_false]
      refine M.andThen_sim _ _ _ _ ?_ htail
      have : specChainsSeq c.spawning k vals (visibleSpec c.spawning.names vals) ((c.active k).zip caps) =
          specChainsSeq c k vals (visibleSpec c.names vals) ((c.active k).zip caps) := by
        generalize (c.active k).zip caps = l
        induction l with
        | nil => rfl
        | cons x xs ih2 => obtain ⟨b, cp⟩ := x; simp only [specChainsSeq, ih2]; rfl
      rw [this]
      exact Res.sim_refl _

theorem specChainsSeq_spawning (c : SpecCfg) (k : Nat) (vals : List (Option Value)) (vis : List (String × Value))
    (l : List (Nat × List Value)) : specChainsSeq c.spawning k vals vis l = specChainsSeq c k vals vis l := by
  induction l with
  | nil => rfl
  | cons x xs ih => obtain ⟨b, cp⟩ := x; simp only [specChainsSeq, ih]; rfl

/-- the async task-spawning macros have the reference semantics of their plain counterparts: the reference loop does
    not look at `is_spawn` when `is_async` is set (tasks are the executor's business) -/
theorem specLoop_async_spawning (c : SpecCfg) (ha : c.kind.isAsync = true) :
    ∀ (rem k : Nat) (vals : List (Option Value)), specLoop c.spawning rem k vals = specLoop c rem k vals := by
  have hth : c.kind.threads = false := by simp [Kind.threads, ha]
  have hth' : c.spawning.kind.threads = false := by simp [Kind.threads, SpecCfg.spawning, ha]
  have htry : c.spawning.kind.isTry = c.kind.isTry := rfl
  have hact : ∀ k, c.spawning.active k = c.active k := fun _ => rfl
  have hn : c.spawning.names = c.names := rfl
  intro rem
  induction rem with
  | zero =>
    intro k vals
    unfold specLoop
    simp only [hth, hth', Bool.false_and, Bool.false_eq_true, if_false, htry, specCapsAll_spawning, hact,
      specChainsSeq_spawning, hn]
  | succ rem ih =>
    intro k vals
    unfold specLoop
    simp only [hth, hth', Bool.false_and, Bool.false_eq_true, if_false, htry, specCapsAll_spawning, hact,
      specChainsSeq_spawning, ih, hn]

end JoinModel
