/-
  C18 — a panic in any user expression reaches the caller (sequential and thread-spawning macros; the async macros
  under every schedule: last section).
-/
import JoinModel.Props.Common
import JoinModel.AsyncSpec
import JoinModel.Concrete
namespace JoinModel.Props.C18
open JoinModel JoinModel.Props

/-- a panic never turns into a value: `andThen` propagates it -/
theorem panic_propagates {α β} (m : M α) (f : α → M β) (s : Site) (h : m.res = .panic s) :
    (m.andThen f).res = .panic s ∧ (m.andThen f).trace = m.trace := by
  cases m with
  | mk t r => simp only at h; subst h; simp [M.andThen]

/-- Sequential macros: if the chain of some branch panics in a step, the step panics (with the panic of the
    first such branch in branch order), whatever the other branches do. -/
theorem chain_panic_seq (sc : SpecCfg) (k : Nat) (vals : List (Option Value)) (vis : List (String × Value))
    (bcs : List (Nat × List Value))
    (h : ∃ bc ∈ bcs, ∃ n, (sc.σ.chain bc.1 k (specPrev sc vals bc.1 k) bc.2 vis).res = .panic n) :
    ∃ n, (specChainsSeq sc k vals vis bcs).res = .panic (.user n) := by
  induction bcs with
  | nil => obtain ⟨bc, hbc, _⟩ := h; simp at hbc
  | cons bc rest ih =>
    obtain ⟨b, caps⟩ := bc
    simp only [specChainsSeq]
    cases ho : (sc.σ.chain b k (specPrev sc vals b k) caps vis).res with
    | panic n => exact ⟨n, by simp [M.andThen, ho, UR.toRes]⟩
    | ok v =>
      have hrest : ∃ bc ∈ rest, ∃ n, (sc.σ.chain bc.1 k (specPrev sc vals bc.1 k) bc.2 vis).res = .panic n := by
        obtain ⟨bc, hbc, n, hn⟩ := h
        rcases List.mem_cons.mp hbc with rfl | hm
        · simp only at hn; rw [ho] at hn; cases hn
        · exact ⟨bc, hm, n, hn⟩
      obtain ⟨n, hn⟩ := ih hrest
      refine ⟨n, ?_⟩
      simp only [M.andThen, ho, UR.toRes, hn]

/-- Thread-spawning macros: every branch thread of the step is forked, all are joined in branch order, and a
    thread that panicked makes the caller panic at its join (`.join().unwrap()`): the caller is not left
    blocked and the panic surfaces. -/
theorem chain_panic_fork (k : Nat) (outs : List (Nat × ChainOut))
    (h : ∃ bo ∈ outs, ∃ n, bo.2.res = .panic n) :
    ∃ b, (specJoins k outs).res = .panic (.joinUnwrap b k) := by
  induction outs with
  | nil => obtain ⟨bo, hbo, _⟩ := h; simp at hbo
  | cons bo rest ih =>
    obtain ⟨b, o⟩ := bo
    simp only [specJoins]
    cases ho : o.res with
    | panic n => exact ⟨b, by simp [M.andThen, M.tell, M.lift]⟩
    | ok v =>
      have hrest : ∃ bo ∈ rest, ∃ n, bo.2.res = .panic n := by
        obtain ⟨bo, hbo, n, hn⟩ := h
        rcases List.mem_cons.mp hbo with rfl | hm
        · simp only at hn; rw [ho] at hn; cases hn
        · exact ⟨bo, hm, n, hn⟩
      obtain ⟨b', hb'⟩ := ih hrest
      exact ⟨b', by simp [M.andThen, M.tell, hb']⟩

/-- A panicking block capture makes the captures of the step panic. -/
theorem capture_panic (sc : SpecCfg) (k b : Nat) (vis : List (String × Value)) (keys : List (Nat × Nat))
    (h : ∃ ei ∈ keys, ∃ n, sc.σ.capture b k ei.1 ei.2 vis = .panic n) :
    ∃ n, (specCapsBranch sc k b vis keys).res = .panic (.user n) := by
  induction keys with
  | nil => obtain ⟨ei, hei, _⟩ := h; simp at hei
  | cons ei rest ih =>
    obtain ⟨e0, i0⟩ := ei
    simp only [specCapsBranch]
    cases hc : sc.σ.capture b k e0 i0 vis with
    | panic n => exact ⟨n, by simp [M.andThen, M.tell, M.lift, UR.toRes]⟩
    | ok v =>
      have hrest : ∃ ei ∈ rest, ∃ n, sc.σ.capture b k ei.1 ei.2 vis = .panic n := by
        obtain ⟨ei, hei, n, hn⟩ := h
        rcases List.mem_cons.mp hei with rfl | hm
        · simp only at hn; rw [hc] at hn; cases hn
        · exact ⟨ei, hm, n, hn⟩
      obtain ⟨n, hn⟩ := ih hrest
      exact ⟨n, by simp [M.andThen, M.tell, M.lift, UR.toRes, hn]⟩

/-- If the captures of step k panic, the loop panics with that panic, and its trace consists of events of step k
    only: nothing of a later step runs. -/
theorem loop_panics_in_captures (sc : SpecCfg) (rem k : Nat) (vals : List (Option Value)) (s : Site)
    (h : (specCapsAll sc k (visibleSpec sc.names vals) (sc.active k)).res = .panic s) :
    (specLoop sc rem k vals).res = .panic s ∧ ∀ e ∈ (specLoop sc rem k vals).trace, e.step = some k := by
  rw [specLoop_eq]
  obtain ⟨h1, h2⟩ := panic_propagates _ (fun caps =>
    (specChains sc k vals (visibleSpec sc.names vals) (sc.active k) caps).andThen fun news =>
      specTail sc rem k vals news) s h
  refine ⟨h1, ?_⟩
  rw [h2]
  intro e he
  exact (specCapsAll_step _ _ _ _ e he).1

/-- If the chains of step k panic (a chain on the calling thread, or the join of a panicked branch thread), the
    loop panics with that panic and no event of a later step exists. -/
theorem loop_panics_in_chains (sc : SpecCfg) (rem k : Nat) (vals : List (Option Value)) (caps : List (List Value))
    (s : Site) (hc : (specCapsAll sc k (visibleSpec sc.names vals) (sc.active k)).res = .ok caps)
    (h : (specChains sc k vals (visibleSpec sc.names vals) (sc.active k) caps).res = .panic s) :
    (specLoop sc rem k vals).res = .panic s ∧ ∀ e ∈ (specLoop sc rem k vals).trace, e.step = some k := by
  obtain ⟨_, hB⟩ := specLoop_cases sc rem k vals
  obtain ⟨hB1, _⟩ := hB caps hc
  obtain ⟨htr, _⟩ := hB1 (by intro a; rw [h]; simp)
  constructor
  · rw [specLoop_eq, (M.andThen_trace_ok hc).2]
    exact (panic_propagates _ _ s h).1
  · rw [htr]
    intro e he
    rcases List.mem_append.mp he with h1 | h1
    · exact (specCapsAll_step _ _ _ _ e h1).1
    · exact (specChains_step _ _ _ _ _ _ e h1).1

/-- A panicking handler call panics the macro. -/
theorem handler_panic (sc : SpecCfg) (vs : List Value) (n : Nat) (h : sc.σ.handlerCall vs = .panic n) :
    (specHandle sc (some .then_) (.vals vs)).res = .panic (.user n) ∧
    (specHandle sc (some .map) (.vals vs)).res = .panic (.user n) ∧
    (specHandle sc (some .andThen) (.vals vs)).res = .panic (.user n) := by
  simp [specHandle, M.andThen, M.tell, M.lift, h, UR.toRes]

/-- The generated code panics exactly when the reference semantics does, with the same events before it. -/
theorem generated_panics (σ : World) (parent : Option String) (p : Input) (kind : Kind) (code : Code)
    (hs : Supported p kind) (hgen : gen p kind = .ok code) (s : Site) :
    (evalCode σ parent code).res = .panic s ↔ (specRun σ parent p kind).res = .panic s := by
  rw [generated_eq_reference σ parent p kind code hs hgen]

/-- …from the tokens the caller wrote: whatever the parser accepts (any behaviour of syn), the code expanded from it panics
    exactly when — and with the panic with which — the reference semantics of the parsed program does; a panic of user code is
    never swallowed or replaced. -/
theorem accepted_panics (o : Oracle) (toks : Toks) (σ : World) (parent : Option String) (p : Input) (kind : Kind)
    (code : Code) (hparse : parseMacroInput o toks = .ok p) (hd : PlainInvocation p kind) (hgen : gen p kind = .ok code)
    (s : Site) : (evalCode σ parent code).res = .panic s ↔ (specRun σ parent p kind).res = .panic s :=
  generated_panics σ parent p kind code (accepted_supported o toks p kind hparse hd) hgen s

/-! ### async macros, every schedule -/

/-- **A panicking chain reaches the caller, whatever the schedule** (non-try async macros).  If, in step `k`, the block
    captures succeed and some active chain panics, then for every schedule of gate openings that ends with all gates
    open the future completes with the panic of one of step `k`'s panicking chains — never with a value — and nothing of
    a later step (nor the handler, whatever follows the loop: `kont`) has run. -/
theorem async_chain_panic_every_schedule (c : SpecCfg) (pend : Pend) (rem k : Nat) (vals : List (Option Value))
    (capss : List (List Value)) (htry : c.kind.isTry = false)
    (hc : (specCapsAll c k (visibleSpec c.names vals) (c.active k)).res = .ok capss)
    (bc : Nat × List Value) (hbc : bc ∈ (c.active k).zip capss) (n : Nat)
    (hp : (taskOf c pend k vals (visibleSpec c.names vals) bc).out = .panic n)
    {ρ' : Type} (kont : Res Fin → List MEv × Plan MEv (UR Value) ρ') (sm : Res Fin → ρ') (gs : List Gates) :
    (∀ e ∈ (((planLoop c pend rem k vals).2.bind kont sm).2.run (gs ++ [allOpen])).1, e.step = some k) ∧
    ∃ m, (((planLoop c pend rem k vals).2.bind kont sm).2.run (gs ++ [allOpen])).2 = .done (sm (.panic (.user m))) ∧
      UR.panic m ∈ ((c.active k).zip capss).map (fun bc => (taskOf c pend k vals (visibleSpec c.names vals) bc).out) := by
  have hform : ∃ pre next, ((planLoop c pend rem k vals).2.bind kont sm).2 =
      .step (stopOf c) (fun a => sm (onStopOf a))
        (((c.active k).zip capss).map (taskOf c pend k vals (visibleSpec c.names vals))) pre next := by
    cases rem with
    | zero => unfold planLoop; simp only [hc, Plan.bind]; exact ⟨_, _, rfl⟩
    | succ rem => unfold planLoop; simp only [hc, Plan.bind]; exact ⟨_, _, rfl⟩
  obtain ⟨pre, next, hf⟩ := hform
  rw [hf]
  have hstop : stopOf c (taskOf c pend k vals (visibleSpec c.names vals) bc).out = true := by
    rw [hp]; simp [stopOf, isPanicUR]
  have hev : ∀ t ∈ ((c.active k).zip capss).map (taskOf c pend k vals (visibleSpec c.names vals)), ∀ e ∈ t.allEvs,
      e.step = some k := by
    intro t ht e he
    obtain ⟨bc', _, rfl⟩ := List.mem_map.mp ht
    exact taskOf_step c pend k vals _ bc' e he
  obtain ⟨h1, h2⟩ := Plan.run_stopper (fun e : MEv => e.step = some k) (stopOf c) (fun a => sm (onStopOf a)) pre next
    ((((c.active k).zip capss).map (taskOf c pend k vals (visibleSpec c.names vals))).map (·.out))
    ⟨_, List.mem_map_of_mem (List.mem_map_of_mem hbc), hstop⟩ (gs ++ [allOpen]) _ rfl hev
  refine ⟨h1, ?_⟩
  rcases h2 with ⟨ts', h2⟩ | ⟨a, h2, h3, h4⟩
  · -- polled with every gate open the future is complete: it cannot still be in the step
    exfalso
    have := Plan.run_allOpen_done gs (.step (stopOf c) (fun a => sm (onStopOf a))
      (((c.active k).zip capss).map (taskOf c pend k vals (visibleSpec c.names vals))) pre next)
    rw [h2] at this
    simp [Plan.isDone] at this
  · -- in a non-try macro only a panic stops a step
    cases a with
    | ok v => simp [stopOf, isPanicUR, htry, isFailUR] at h3
    | panic m =>
      refine ⟨m, by rw [h2]; rfl, ?_⟩
      simpa [List.map_map] using h4

/-- the hypotheses are satisfiable: `join_async! { a, b ~|> f }` in a world where the first branch's initial expression
    panics — in step 0 the captures succeed and chain (0, 0) panics -/
example :
    let d : WorldDesc := { chains := [((0, 0), [⟨.init, 1, .panic 1, 0⟩]), ((1, 0), [⟨.init, 2, .ok 1, 0⟩])] }
    let ini : Member := ⟨.initial, false, .none, [⟨.expr, []⟩]⟩
    let c : SpecCfg := ⟨mkWorld d, ⟨true, false, false⟩, [none, none], none,
      [[[ini]], [[ini], [⟨.map, true, .none, [⟨.expr, []⟩]⟩]]]⟩
    c.kind.isTry = false ∧
    (specCapsAll c 0 (visibleSpec c.names [none, none]) (c.active 0)).res = .ok [[], []] ∧
    ((0, []) : Nat × List Value) ∈ (c.active 0).zip [[], []] ∧
    (taskOf c (fun _ _ _ _ _ => []) 0 [none, none] (visibleSpec c.names [none, none]) (0, [])).out = .panic 1 := by
  intro d ini c
  refine ⟨rfl, rfl, ?_, rfl⟩
  decide

end JoinModel.Props.C18
