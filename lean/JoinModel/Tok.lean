/-
  Token trees (proc_macro2::TokenTree minus spans) and their canonical text form.
  The text form is shared with the Rust harness (harness/src/canon.rs).
-/
namespace JoinModel

inductive Delim
  | paren | brace | bracket | none
  deriving DecidableEq, Repr, Inhabited

/-- A token tree.  `punct c joint`: `joint = true` is proc_macro2's `Spacing::Joint`. -/
inductive TT
  | ident (s : String)
  | punct (c : Char) (joint : Bool)
  | lit (s : String)
  | group (d : Delim) (ts : List TT)
  deriving Repr, Inhabited

abbrev Toks := List TT

namespace TT

mutual
  def beq : TT → TT → Bool
    | ident a, ident b => a == b
    | punct a j, punct b k => a == b && j == k
    | lit a, lit b => a == b
    | group d ts, group e us => d == e && beqList ts us
    | _, _ => false
  def beqList : List TT → List TT → Bool
    | [], [] => true
    | a :: as, b :: bs => beq a b && beqList as bs
    | _, _ => false
end

instance : BEq TT := ⟨beq⟩

mutual
  /-- Forget punctuation spacing (outputs are compared spacing-insensitively). -/
  def unspace : TT → TT
    | punct c _ => punct c false
    | group d ts => group d (unspaceList ts)
    | t => t
  def unspaceList : List TT → List TT
    | [] => []
    | t :: ts => unspace t :: unspaceList ts
end

end TT

/-! ### Convenience constructors used by the generator model -/

def id' (s : String) : TT := .ident s
def pu (c : Char) : TT := .punct c false
def pj (c : Char) : TT := .punct c true
def paren (ts : Toks) : TT := .group .paren ts
def brace (ts : Toks) : TT := .group .brace ts
def bracket (ts : Toks) : TT := .group .bracket ts

/-! ### Canonical text form -/

def escLit (s : String) : String :=
  String.ofList <| s.toList.flatMap fun c =>
    if c = ' ' then "%20".toList
    else if c = '\t' then "%09".toList
    else if c = '\n' then "%0A".toList
    else if c = '\r' then "%0D".toList
    else if c = '%' then "%25".toList
    else [c]

def unescLit (s : String) : String :=
  let rec go : List Char → List Char
    | '%' :: '2' :: '0' :: r => ' ' :: go r
    | '%' :: '0' :: '9' :: r => '\t' :: go r
    | '%' :: '0' :: 'A' :: r => '\n' :: go r
    | '%' :: '0' :: 'D' :: r => '\r' :: go r
    | '%' :: '2' :: '5' :: r => '%' :: go r
    | c :: r => c :: go r
    | [] => []
  String.ofList (go s.toList)

mutual
  def TT.words : TT → List String
    | .ident s => ["i:" ++ s]
    | .punct c j => ["p:" ++ String.singleton c ++ (if j then "j" else "")]
    | .lit s => ["l:" ++ escLit s]
    | .group d ts =>
      let (o, c) := match d with
        | .paren => ("(", ")") | .brace => ("{", "}") | .bracket => ("[", "]") | .none => ("N(", ")N")
      o :: (TT.wordsList ts ++ [c])
  def TT.wordsList : List TT → List String
    | [] => []
    | t :: ts => TT.words t ++ TT.wordsList ts
end

def showToks (ts : Toks) : String := " ".intercalate (TT.wordsList ts)

/-- Parse one word that is not a delimiter. -/
def wordToTT (w : String) : Option TT :=
  match w.toList with
  | 'i' :: ':' :: r => some (.ident (String.ofList r))
  | 'l' :: ':' :: r => some (.lit (unescLit (String.ofList r)))
  | ['p', ':', c] => some (.punct c false)
  | ['p', ':', c, 'j'] => some (.punct c true)
  | _ => none

def closeOf : String → Option Delim
  | ")" => some .paren | "}" => some .brace | "]" => some .bracket | ")N" => some .none | _ => Option.none
def openOf : String → Option Delim
  | "(" => some .paren | "{" => some .brace | "[" => some .bracket | "N(" => some .none | _ => Option.none

/-- Stack-based parser of the word list; `none` on unbalanced or malformed input. -/
def parseWords (ws : List String) : Option Toks :=
  let rec go (ws : List String) (cur : List TT) (stack : List (Delim × List TT)) : Option Toks :=
    match ws with
    | [] => match stack with
      | [] => some cur.reverse
      | _ => none
    | w :: rest =>
      if w = "" then go rest cur stack else
      match openOf w with
      | some d => go rest [] ((d, cur) :: stack)
      | none =>
        match closeOf w with
        | some d =>
          match stack with
          | (d', outer) :: st => if d = d' then go rest (TT.group d cur.reverse :: outer) st else none
          | [] => none
        | none =>
          match wordToTT w with
          | some t => go rest (t :: cur) stack
          | none => none
  go ws [] []

def parseToks (s : String) : Option Toks := parseWords (s.splitOn " ")

end JoinModel
