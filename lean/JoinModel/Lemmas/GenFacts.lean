/-
  Structure of the generator's output: inversion lemmas for `splitSteps`, `genBranchStep`, `genElems`.
-/
import JoinModel.Gen
import JoinModel.Lemmas.Basic
namespace JoinModel

/-! ### splitSteps -/

theorem splitSteps_ne_nil (ms : List Member) : splitSteps ms ≠ [] := by
  induction ms with
  | nil => simp [splitSteps]
  | cons m ms ih =>
    simp only [splitSteps]
    cases h : splitSteps ms with
    | nil => exact absurd h ih
    | cons g gs => by_cases hd : m.deferred <;> simp [hd]

/-- every group but the first is non-empty -/
theorem splitSteps_tail_nonempty (ms : List Member) : ∀ g ∈ (splitSteps ms).tail, g ≠ [] := by
  induction ms with
  | nil => simp [splitSteps]
  | cons m ms ih =>
    simp only [splitSteps]
    cases h : splitSteps ms with
    | nil => exact absurd h (splitSteps_ne_nil ms)
    | cons g gs =>
      rw [h] at ih
      by_cases hd : m.deferred
      · simp only [hd, if_true, List.tail_cons]
        intro g' hg'
        rcases List.mem_cons.mp hg' with rfl | hmem
        · simp
        · exact ih g' (by simpa using hmem)
      · simp only [hd, List.tail_cons]
        intro g' hg'
        exact ih g' (by simpa using hg')

/-- if the first member is not deferred, every group is non-empty -/
theorem splitSteps_all_nonempty (m : Member) (ms : List Member) (hm : m.deferred = false) :
    ∀ g ∈ splitSteps (m :: ms), g ≠ [] := by
  intro g hg
  have ht := splitSteps_tail_nonempty (m :: ms)
  simp only [splitSteps] at hg ht
  cases h : splitSteps ms with
  | nil => exact absurd h (splitSteps_ne_nil ms)
  | cons g0 gs =>
    rw [h] at hg ht
    simp only [hm] at hg ht
    rcases List.mem_cons.mp hg with rfl | hmem
    · simp
    · exact ht g (by simpa using hmem)

/-- the first group starts with the first member when that one is not deferred -/
theorem splitSteps_head (m : Member) (ms : List Member) (hm : m.deferred = false) :
    ∃ g gs, splitSteps (m :: ms) = (m :: g) :: gs := by
  simp only [splitSteps]
  cases h : splitSteps ms with
  | nil => exact absurd h (splitSteps_ne_nil ms)
  | cons g0 gs => exact ⟨g0, gs, by simp [hm]⟩

/-! ### ChainGen: hoisted definitions of a branch-step -/

theorem wrapLast_defs {a : Bool} {acc acc' : Acc} (h : wrapLast a acc = .ok acc') : acc'.defs = acc.defs := by
  unfold wrapLast at h
  split at h
  · cases h
  · cases h
  · split at h
    · cases h
    · split at h
      · cases h
      · split at h
        · cases h; rfl
        · cases h

theorem processAction_defs {a : Bool} {b : Nat} {acc acc' : Acc} {m : Member} {e : Nat}
    (h : processAction a b acc m e = .ok acc') :
    acc'.defs = acc.defs ++ (if m.mv = .none then (hoist b e m).1 else []) := by
  unfold processAction at h
  split at h
  · rename_i hmv; simp [hmv, wrapLast_defs h]
  · rename_i hmv
    split at h
    · cases h
    · cases h; simp [hmv]
  · rename_i hmv
    split at h
    · cases h
    · simp only at h
      split at h
      · cases h; simp [hmv]
      · cases h

theorem processActions_defs {a : Bool} {b : Nat} {acc acc' : Acc} {ms : List Member} {e : Nat}
    (h : processActions a b acc ms e = .ok acc') : acc'.defs = acc.defs ++ capDefsOf b ms e := by
  induction ms generalizing acc e with
  | nil => simp [processActions] at h; subst h; simp [capDefsOf]
  | cons m ms ih =>
    simp only [processActions] at h
    split at h
    · rename_i acc1 h1
      rw [ih h, processAction_defs h1, capDefsOf, List.append_assoc]
    · cases h

theorem closeAll_defs {a : Bool} {fuel : Nat} {acc : Acc} {r : List CapDef × Toks}
    (h : closeAll a fuel acc = .ok r) : r.1 = acc.defs := by
  induction fuel generalizing acc with
  | zero => simp [closeAll] at h
  | succ n ih =>
    simp only [closeAll] at h
    split at h
    · cases h
    · cases h; rfl
    · split at h
      · rename_i acc1 h1
        rw [ih h, wrapLast_defs h1]
      · cases h

theorem genBranchStep_none {a : Bool} {b : Nat} {prev : Var} {acts : List Member}
    (h : genBranchStep a b prev acts = .ok none) : acts = [] := by
  unfold genBranchStep at h
  split at h
  · rfl
  · split at h
    · cases h
    · split at h <;> cases h

theorem genBranchStep_some {a : Bool} {b : Nat} {prev : Var} {acts : List Member} {ds : List CapDef} {t : Toks}
    (h : genBranchStep a b prev acts = .ok (some (ds, t))) : acts ≠ [] ∧ ds = capDefsOf b acts 0 := by
  unfold genBranchStep at h
  split at h
  · cases h
  · refine ⟨by simp, ?_⟩
    split at h
    · cases h
    · rename_i acc hacc
      split at h
      · rename_i r hr
        cases h
        have := closeAll_defs hr
        have h2 := processActions_defs hacc
        simp only at this
        rw [this, h2]; simp
      · cases h

/-! ### genElems -/

/-- the semantically relevant fields of a join operand -/
def Elem.sem (e : Elem) : Nat × Bool × ElemWrap × Var × List Member := (e.b, e.lazy, e.wrap, e.prev, e.acts)

def Ctx.varOf (c : Ctx) (b : Nat) : Var := (c.pats[b]?.map (·.var)).getD (.r b)

def Ctx.multi (c : Ctx) (k : Nat) : Bool := decide (c.activeCount k > 1)

def Ctx.wrapOf (c : Ctx) (k b : Nat) : ElemWrap :=
  if c.multi k && c.kind.isSpawn then (if c.kind.isAsync then .tokio else .thread b) else .plain

/-- what `genElems` produces for the branches `b0, b0+1, …` with actions `actss` -/
theorem genElems_spec (c : Ctx) (k : Nat) (actss : List (List Member)) (b0 : Nat) (ds : List CapDef) (es : List Elem)
    (h : genElems c k actss b0 = .ok (ds, es)) :
    ds = (actss.zipIdx b0).flatMap (fun (ab : List Member × Nat) => capDefsOf ab.2 ab.1 0) ∧
    es.map Elem.sem = ((actss.zipIdx b0).filter (fun (ab : List Member × Nat) => !ab.1.isEmpty)).map
      (fun (ab : List Member × Nat) => (ab.2, c.multi k && c.lazy, c.wrapOf k ab.2, c.varOf ab.2, ab.1)) := by
  induction actss generalizing b0 ds es with
  | nil => simp [genElems] at h; obtain ⟨rfl, rfl⟩ := h; simp
  | cons acts rest ih =>
    simp only [genElems] at h
    split at h
    · cases h
    · rename_i r hr
      split at h
      · cases h
      · rename_i ds' es' hrest
        obtain ⟨hd, he⟩ := ih (b0 + 1) ds' es' hrest
        cases r with
        | none =>
          simp only [Except.ok.injEq, Prod.mk.injEq] at h
          obtain ⟨rfl, rfl⟩ := h
          have hnil := genBranchStep_none hr
          subst hnil
          simp [List.zipIdx_cons, capDefsOf, hd, he]
        | some dc =>
          obtain ⟨d, chain⟩ := dc
          simp only [Except.ok.injEq, Prod.mk.injEq] at h
          obtain ⟨rfl, rfl⟩ := h
          obtain ⟨hne, hdd⟩ := genBranchStep_some hr
          have hne' : acts.isEmpty = false := by cases acts <;> simp_all
          simp [List.zipIdx_cons, hd, he, hdd, hne', Elem.sem, Ctx.multi, Ctx.wrapOf, Ctx.varOf]

/-! ### errors of the step generator are internal, never configuration rejections -/

theorem genElems_err (c : Ctx) (k : Nat) (actss : List (List Member)) (b0 : Nat) (e : GenErr)
    (h : genElems c k actss b0 = .error e) : ∃ ce, e = .internal ce := by
  induction actss generalizing b0 with
  | nil => simp [genElems] at h
  | cons acts rest ih =>
    simp only [genElems] at h
    split at h
    · cases h; exact ⟨_, rfl⟩
    · split at h
      · rename_i e' he
        cases h
        exact ih _ he
      · split at h <;> cases h

theorem genStep_err (c : Ctx) (k : Nat) (e : GenErr) (h : genStep c k = .error e) : ∃ ce, e = .internal ce := by
  unfold genStep at h
  split at h
  · rename_i e' he
    cases h
    exact genElems_err c k _ 0 _ he
  · cases h

theorem genSteps_err (c : Ctx) (rem k : Nat) (e : GenErr) (h : genSteps c rem k = .error e) : ∃ ce, e = .internal ce := by
  induction rem generalizing k with
  | zero =>
    simp only [genSteps] at h
    split at h
    · rename_i e1 h1
      cases h
      exact genStep_err c k _ h1
    · cases h
  | succ rem ih =>
    simp only [genSteps] at h
    split at h
    · rename_i e1 h1
      cases h
      exact genStep_err c k _ h1
    · split at h
      · rename_i e2 h2
        cases h
        exact ih _ h2
      · cases h

end JoinModel
